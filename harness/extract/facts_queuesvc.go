package main

// QueueSvc: shape facts about the queued-write path of http/service.go (C23) and the
// remaining BeginWithRetry call sites (C31).
//
// runQueue: inside `case req := <-s.stmtQueue.C:` the top-level statement list must
// contain, in this order, the guarded retry loop (`if er.Request.Statements != nil { for {...} }`,
// whose only exits are `return` on closeCh and `break` under `err == nil`) and, after it,
// the single `req.Close()` of the function. queuedExecute: exactly one
// `s.stmtQueue.Write(stmts, fc)`, and the `select` that waits on `fc` comes after it.

import (
	"go/ast"
	"go/token"
	"sort"
	"strings"
)

func init() {
	register("QueueSvc", func(x *X) {
		fd := x.Func("http", "Service", "runQueue")
		found := fd != nil
		idxLoop, idxClose, nClose := -1, -1, 0
		breakUnderNilErr, otherBreaks, execCalls, loopReturns := 0, 0, 0, 0
		retryDelayNs, retryOK := int64(0), false
		if fd != nil {
			ast.Inspect(fd.Body, func(n ast.Node) bool {
				if as, ok := n.(*ast.AssignStmt); ok && len(as.Lhs) == 1 && len(as.Rhs) == 1 {
					if id, ok := as.Lhs[0].(*ast.Ident); ok && id.Name == "retryDelay" {
						retryDelayNs, retryOK = x.Const("http", as.Rhs[0])
					}
				}
				cc, ok := n.(*ast.CommClause)
				if !ok || cc.Comm == nil {
					return true
				}
				as, ok := cc.Comm.(*ast.AssignStmt)
				if !ok || len(as.Lhs) != 1 || x.Src(as.Lhs[0]) != "req" {
					return true
				}
				for i, st := range cc.Body {
					switch t := st.(type) {
					case *ast.IfStmt:
						if x.Src(t.Cond) == "er.Request.Statements != nil" && len(t.Body.List) == 1 {
							if f, ok := t.Body.List[0].(*ast.ForStmt); ok && f.Cond == nil {
								idxLoop = i
								execCalls = len(x.Calls(f.Body, "Execute"))
								// every `break` that leaves THIS loop (not one inside a nested for/switch/select),
								// wherever it sits: then-branch, else-branch, bare block
								var walk func(n ast.Node, underNilErr bool)
								walk = func(n ast.Node, underNilErr bool) {
									switch t := n.(type) {
									case nil:
									case *ast.BlockStmt:
										for _, b := range t.List {
											walk(b, underNilErr)
										}
									case *ast.IfStmt:
										walk(t.Body, x.Src(t.Cond) == "err == nil")
										if t.Else != nil {
											walk(t.Else, false)
										}
									case *ast.BranchStmt:
										if t.Tok == token.BREAK || t.Tok == token.GOTO {
											if underNilErr && t.Tok == token.BREAK && t.Label == nil {
												breakUnderNilErr++
											} else {
												otherBreaks++
											}
										}
									case *ast.ReturnStmt:
										loopReturns++
									case *ast.SelectStmt:
										for _, cc := range t.Body.List {
											for _, b := range cc.(*ast.CommClause).Body {
												if _, isBr := b.(*ast.BranchStmt); !isBr { // a bare break here leaves the select only
													walk(b, false)
												}
											}
										}
									case *ast.LabeledStmt:
										walk(t.Stmt, underNilErr)
									}
								}
								walk(f.Body, false)
							}
						}
					case *ast.ExprStmt:
						if x.Src(t.X) == "req.Close()" {
							idxClose = i
						}
					}
				}
				return true
			})
			nClose = 0
			ast.Inspect(fd.Body, func(n ast.Node) bool {
				if c, ok := n.(*ast.CallExpr); ok && x.Src(c.Fun) == "req.Close" {
					nClose++
				}
				return true
			})
		}
		x.Comment("http/service.go (*Service).runQueue")
		x.DefBool("runQueueFound", found)
		x.DefBool("closeAfterRetryLoop", idxLoop >= 0 && idxClose > idxLoop)
		x.Raw("def reqCloseCalls : Nat := " + itoa(nClose))
		x.Raw("def executeCallsInLoop : Nat := " + itoa(execCalls))
		x.Raw("def breaksUnderNilErr : Nat := " + itoa(breakUnderNilErr))
		x.Raw("def otherBreaksInLoop : Nat := " + itoa(otherBreaks))
		x.Raw("def returnsInLoop : Nat := " + itoa(loopReturns))
		x.DefOptInt("retryDelayNs", retryDelayNs, retryOK)

		// queuedExecute
		qd := x.Func("http", "Service", "queuedExecute")
		writeIdx, waitIdx, nWrites := -1, -1, 0
		timeoutBranchQueueCalls, timeoutBranchFound := 0, false
		if qd != nil {
			for i, st := range qd.Body.List {
				if len(x.Calls(st, "Write")) > 0 {
					for _, c := range x.Calls(st, "Write") {
						if x.Src(c.Fun) == "s.stmtQueue.Write" {
							nWrites++
							if writeIdx < 0 {
								writeIdx = i
							}
						}
					}
				}
				if is, ok := st.(*ast.IfStmt); ok && x.Src(is.Cond) == "qp.Wait()" {
					ast.Inspect(is.Body, func(m ast.Node) bool {
						if cc, ok := m.(*ast.CommClause); ok && cc.Comm != nil && x.Src(cc.Comm) == "<-fc" {
							waitIdx = i
						} else if ok && cc.Comm != nil && strings.Contains(x.Src(cc.Comm), "NewTimer") {
							// the wait-timeout branch (408): does it touch the queue at all?
							timeoutBranchFound = true
							for _, b := range cc.Body {
								ast.Inspect(b, func(k ast.Node) bool {
									if c, ok := k.(*ast.CallExpr); ok && strings.Contains(x.Src(c.Fun), "stmtQueue") {
										timeoutBranchQueueCalls++
									}
									return true
								})
							}
						}
						return true
					})
				}
			}
		}
		x.Comment("http/service.go (*Service).queuedExecute")
		x.DefBool("queuedExecuteFound", qd != nil)
		x.Raw("def stmtQueueWrites : Nat := " + itoa(nWrites))
		x.DefBool("waitOnFlushChanAfterWrite", writeIdx >= 0 && waitIdx > writeIdx)
		x.DefBool("waitTimeoutBranchFound", timeoutBranchFound)
		x.Raw("def waitTimeoutBranchQueueCalls : Nat := " + itoa(timeoutBranchQueueCalls))

		// C31: the other BeginWithRetry call site (Backup)
		x.Comment("store/store.go: every BeginWithRetry call site: (owner, timeout ns, retry ns)")
		var calls []string
		for _, f := range x.Pkg("store") {
			ast.Inspect(f, func(n ast.Node) bool {
				c, ok := n.(*ast.CallExpr)
				if !ok || calleeName(c) != "BeginWithRetry" || len(c.Args) != 3 {
					return true
				}
				tv, tok := x.Const("store", c.Args[1])
				rv, rok := x.Const("store", c.Args[2])
				if !tok || !rok {
					tv, rv = -1, -1
				}
				calls = append(calls, "("+LeanStr(x.Src(c.Args[0]))+", ("+itoa64(tv)+" : Int), ("+itoa64(rv)+" : Int))")
				return true
			})
		}
		sort.Strings(calls) // file iteration order is not deterministic
		x.Raw("def beginWithRetryCalls : List (String × Int × Int) := [" + strings.Join(calls, ", ") + "]")
	})
}

func itoa(n int) string     { return itoa64(int64(n)) }
func itoa64(n int64) string { return formatInt(n) }
func formatInt(n int64) string {
	if n == 0 {
		return "0"
	}
	neg := n < 0
	if neg {
		n = -n
	}
	var b []byte
	for n > 0 {
		b = append([]byte{byte('0' + n%10)}, b...)
		n /= 10
	}
	if neg {
		return "-" + string(b)
	}
	return string(b)
}

/-
Model of the store's snapshotting state machine (C04):
  store/store.go   fsmSnapshot (full / incremental decision incl. the dbModified() guard, checkpoint
                   into wal-staging, OnRelease), fsmRestore, fsmApply(LOAD), ReadFrom (boot),
                   Open (staging removed)
  store/fsm.go     FSMSnapshot.Persist / Release
  snapshot/sink.go Close (staged WALs moved into the snapshot; refuses an incremental when a full
                   one has become required; clears FULL_NEEDED), store.go Reap,
  snapshot/snapshot.go ResolveFiles, restore.go Restore (WALs replayed in order)

A snapshot is TWO steps, as in hashicorp/raft: `snapBegin` is FSM.Snapshot() on the FSM goroutine,
`snapEnd` is Persist + sink.Close (or Release without Persist) on the snapshot goroutine. Applies
(writes, loads, no-ops) may happen in between.

The logical database is the list of the ids of the write batches applied to it (a load/boot/
install replaces it by the content of the file that was loaded). A WAL segment records the content
it was cut from and the content it leads to; checkpointing it into any other database gives a
malformed file (`none`).

Two guards make the next snapshot a full one after the base database changed: the FULL_NEEDED flag
file (set by LOAD/boot; cleared by the sink whenever it installs a snapshot — also when that
snapshot was captured BEFORE the load) and `modified`: the database file's modification time is
later than the one recorded at the end of the last fsmSnapshot / fsmRestore (set by the swap a load
performs). The second is what protects the window "full snapshot of A captured; load B applied;
the snapshot of A installed and the flag cleared".

Every SetDueNext(Full) creates a new requirement (`gen` counts them; the FULL_NEEDED file holds a
token). A full snapshot remembers the requirement in force when it was captured and its
installation clears only that one.

hashicorp/raft does not serialize installSnapshot with a local snapshot whose Persist is in flight:
`install` is allowed after `snapBegin`. The captured snapshot is then superseded (`Pend.stale`): a
full one is installed below the leader's snapshot; an incremental one finds its staging directory
removed by fsmRestore and its Sink.Close takes the sink's fatal exit (the process restarts); a
failed Persist makes OnRelease require a full snapshot because the staging directory is gone.

`lvl` selects the code version: 0 = before `fix:` 6482ad3; 1 = with 6482ad3 (staged WALs dropped by
the full-snapshot path when present, and by fsmRestore); 2 = with bb0a5c5 as well (the full-snapshot
path always keeps a full snapshot required until one is installed); 3 = with the requirement tokens
(installing a full snapshot captured before a load no longer clears the requirement the load raised).
-/
import RqModel.Model.Util
namespace RqModel.SnapSM
open RqModel.Util

abbrev C := List Nat

structure Seg where
  src : C
  dst : C
deriving DecidableEq, Repr

/-- checkpoint a WAL segment into a database -/
def applySeg (d : Option C) (g : Seg) : Option C :=
  match d with
  | some c => if c = g.src then some g.dst else none
  | none => none

inductive Snap where
  | full (c : C)
  | inc (segs : List Seg)
deriving DecidableEq, Repr

/-- log entries that change the database -/
inductive Entry where
  | write (w : Nat)
  | load (c : C)
deriving DecidableEq, Repr

/-- a snapshot captured by FSM.Snapshot() and not yet persisted: what it holds, and how many
database-changing entries / commands the log had after the newest snapshot at that moment -/
inductive Pend where
  | full (c : C) (n cm : Nat) (g : Nat)
  | inc (n cm : Nat)
  /-- a local snapshot that was captured before a snapshot received from the leader was installed
  (raft's installSnapshot is not serialized with a Persist in flight): `c` is the database it holds
  if it is a full one. Its index is below the installed snapshot's. -/
  | stale (c : Option C)
deriving DecidableEq, Repr

structure SM where
  /-- the applied database (main file + live WAL) -/
  db : C := []
  /-- the main database file (state at the last checkpoint) -/
  file : C := []
  /-- wal-staging: compacted WAL segments not yet in a snapshot -/
  staged : List Seg := []
  /-- the snapshot store, oldest first -/
  snaps : List Snap := []
  fullNeeded : Bool := false
  /-- number of full-snapshot requirements raised so far (identifies the one in force) -/
  gen : Nat := 0
  /-- dbModified(): the database file changed after the time recorded by fsmSnapshot/fsmRestore -/
  modified : Bool := false
  pend : Option Pend := none
  /-- database-changing log entries after the newest snapshot's index -/
  tail : List Entry := []
  /-- command entries (writes, loads, no-ops) in the log after the newest snapshot -/
  cmds : Nat := 0
  /-- raft's FSM goroutine has processed a log entry since the process started (otherwise a
  user-requested snapshot answers "nothing new to snapshot"); after a restart the correspondence
  run issues a raft Barrier to wait for the replay, which counts -/
  applied : Bool := true
deriving DecidableEq, Repr

/-- ResolveFiles + Restore of the newest snapshot (an empty store: the empty database) -/
def resolve (snaps : List Snap) : Option C :=
  snaps.foldl (fun acc s =>
    match s with
    | .full c => some c
    | .inc segs => segs.foldl applySeg acc) (some [])

def applyEntry (d : Option C) : Entry → Option C
  | .write w => d.map (· ++ [w])
  | .load c => d.map fun _ => c

/-- raft replays the log after the snapshot -/
def replay (d : Option C) (es : List Entry) : Option C := es.foldl applyEntry d

/-- the database file after the replay: the last loaded file, else the restored one -/
def fileAfter (r : C) (es : List Entry) : C :=
  es.foldl (fun f e => match e with
    | .load c => c
    | .write _ => f) r

def hasLoad (es : List Entry) : Bool :=
  es.any fun e => match e with
    | .load _ => true
    | .write _ => false

/-- how a captured snapshot ends -/
inductive Outcome where
  /-- raft persisted it and closed the sink -/
  | ok
  /-- raft released it without calling Persist (e.g. a configuration change is in flight) -/
  | notInvoked
  /-- Persist failed before the sink consumed the staging directory -/
  | failBefore
  /-- the sink's Close failed at its final rename: for an incremental snapshot after the staging
  directory was consumed, which is the sink's fatal exit (the process restarts) -/
  | failAfter
deriving DecidableEq, Repr

inductive Op where
  | write (w : Nat)
  | noop
  /-- FSM.Snapshot() -/
  | snapBegin
  /-- FSM.Snapshot() whose checkpoint succeeds but whose WAL frames cannot be written to
  wal-staging (walWriter.Close fails) -/
  | snapBeginStageFails
  /-- Persist + Close / Release of the captured snapshot -/
  | snapEnd (o : Outcome)
  /-- both steps back to back, through raft (user-requested snapshot) -/
  | snapshot (o : Outcome)
  | load (c : C)
  | boot (c : C)
  /-- a snapshot received from the leader is installed: sink, then fsmRestore -/
  | install (c : C)
  /-- the first half of an install only: the leader's snapshot is put into the snapshot store (its
  sink is closed), then the process dies before fsmRestore has replaced the database, and starts again -/
  | installCrash (c : C)
  | reap
  | restart
deriving DecidableEq, Repr

/-- a snapshot installed with an index below the newest one's -/
def insertBelowNewest (snaps : List Snap) (x : Snap) : List Snap :=
  snaps.dropLast ++ x :: snaps.getLast?.toList

/-- process start: Open removes wal-staging; raft restores the newest snapshot and replays the log
after it (replaying a LOAD sets FULL_NEEDED again); the recorded modification time starts afresh -/
def restartSM (s : SM) : SM × String :=
  match resolve s.snaps, replay (resolve s.snaps) s.tail with
  | some r, some c =>
    ({ s with db := c, file := fileAfter r s.tail, staged := [], pend := none, applied := true,
              modified := false, fullNeeded := s.fullNeeded || hasLoad s.tail, gen := s.gen + 1 }, "ok")
  | _, _ => (s, "corrupt")

/-- snapshotDueNext() = Full -/
def fullDue (s : SM) : Bool := s.fullNeeded || s.snaps.isEmpty || s.modified

/-- fsmSnapshot -/
def snapBegin (lvl : Nat) (s : SM) : SM × String :=
  if s.pend.isSome then (s, "busy")
  else if fullDue s then
    let s :=
      if lvl ≥ 2 then { s with staged := [], fullNeeded := true, gen := s.gen + 1 }
      else if lvl = 1 && !s.staged.isEmpty then { s with staged := [], fullNeeded := true, gen := s.gen + 1 }
      else s
    ({ s with file := s.db, modified := false, pend := some (.full s.db s.tail.length s.cmds s.gen) }, "full")
  else if s.db = s.file then (s, "nowal")
  else
    ({ s with staged := s.staged ++ [⟨s.file, s.db⟩], file := s.db,
              pend := some (.inc s.tail.length s.cmds) }, "incremental")

/-- fsmSnapshot on the incremental path when the checkpoint succeeds and staging its frames fails:
the WAL is in the database file but not in wal-staging. From `fix:` 4670e70 on (levels ≥ 3 here) a
full snapshot is then required; before, nothing recorded the gap. -/
def snapBeginStageFails (lvl : Nat) (s : SM) : SM × String :=
  if s.pend.isSome then (s, "busy")
  else if fullDue s then snapBegin lvl s
  else if s.db = s.file then (s, "nowal")
  else
    let s' := { s with file := s.db }
    (if lvl ≥ 3 then { s' with fullNeeded := true, gen := s.gen + 1 } else s', "err-stage")

/-- Persist + sink.Close, or Release -/
def snapEnd (lvl : Nat) (s : SM) (o : Outcome) : SM × String :=
  match s.pend with
  | none => (s, "nopending")
  | some (.full c n cm g) =>
    match o with
    | .ok =>
      -- the sink clears the requirement (from level 3 on: only the one in force at capture time)
      let fn := if lvl ≥ 3 then (if s.gen = g then false else s.fullNeeded) else false
      ({ s with snaps := s.snaps ++ [.full c], fullNeeded := fn, tail := s.tail.drop n, cmds := s.cmds - cm,
                pend := none }, "installed")
    | _ => ({ s with pend := none }, "not-installed")
  | some (.inc n cm) =>
    match o with
    | .ok =>
      -- Close looks at the requirement again before consuming the staging directory
      if s.fullNeeded then ({ s with pend := none }, "not-installed")
      else
        ({ s with snaps := s.snaps ++ [.inc s.staged], staged := [], tail := s.tail.drop n, cmds := s.cmds - cm,
                  pend := none }, "installed")
    | .notInvoked => ({ s with pend := none }, "not-installed")
    | .failBefore => ({ s with pend := none }, "not-installed")
    | .failAfter =>
      -- Sink.Close fails after it has moved the staging directory: the sink's fatal exit
      let (s', r) := restartSM { s with pend := none }
      (s', if r = "ok" then "fatal-exit" else r)
  | some (.stale c) =>
    -- captured before a snapshot from the leader was installed (fsmRestore removed wal-staging)
    match c, o with
    | some a, .ok =>
      -- a full snapshot: installed below the leader's; the requirement it was captured under is gone
      ({ s with snaps := insertBelowNewest s.snaps (.full a), pend := none }, "installed")
    | none, .ok =>
      -- an incremental: Sink.Close cannot move the staging directory and takes its fatal exit
      let (s', r) := restartSM { s with pend := none }
      (s', if r = "ok" then "fatal-exit" else r)
    | _, .notInvoked => ({ s with pend := none }, "not-installed")
    -- OnRelease after a failed Persist finds no staging directory: SetDueNext(Full)
    | _, _ => ({ s with fullNeeded := true, gen := s.gen + 1, pend := none }, "not-installed")

/-- a snapshot taken through raft, both steps back to back -/
def snapshot (lvl : Nat) (s : SM) (o : Outcome) : SM × String :=
  if o = .ok && !s.applied then (s, "nothing")
  else
    let (s1, k) := snapBegin lvl s
    if k = "full" || k = "incremental" then
      let (s2, r) := snapEnd lvl s1 o
      (s2, if r = "installed" then k else k ++ "-not-installed")
    else (s1, k)

def step (lvl : Nat) (s : SM) : Op → SM × String
  | .write w =>
    ({ s with db := s.db ++ [w], tail := s.tail ++ [.write w], cmds := s.cmds + 1, applied := true }, "ok")
  | .noop => ({ s with cmds := s.cmds + 1, applied := true }, "ok")
  | .snapBegin => snapBegin lvl s
  | .snapBeginStageFails => snapBeginStageFails lvl s
  | .snapEnd o => snapEnd lvl s o
  | .snapshot o => snapshot lvl s o
  | .load c =>
    -- the swap gives the database file a new modification time
    ({ s with db := c, file := c, fullNeeded := true, gen := s.gen + 1, modified := true, tail := s.tail ++ [.load c],
              cmds := s.cmds + 1, applied := true }, "ok")
  | .boot c =>
    if s.pend.isSome then (s, "busy")
    else
      -- noop entry, swap, SetDueNext(Full), Snapshot (full, installed)
      let s := { s with db := c, file := c, fullNeeded := true, gen := s.gen + 1, modified := true, cmds := s.cmds + 1, applied := true }
      ((snapshot lvl s .ok).1, "ok")
  | .install c =>
    -- (the code before 6482ad3 is modelled only without a local snapshot in flight)
    if lvl = 0 && s.pend.isSome then (s, "busy")
    else
      let pend' := match s.pend with
        | some (.full a _ _ _) => some (.stale (some a))
        | some (.inc _ _) => some (.stale none)
        | p => p
      let s := { s with snaps := s.snaps ++ [.full c], fullNeeded := false, db := c, file := c, modified := false,
                        tail := [], cmds := 0, pend := pend' }
      (if lvl ≥ 1 then { s with staged := [] } else s, "ok")
  | .installCrash c =>
    -- the start after the crash must rebuild the database from the newest snapshot, which is now the
    -- installed one (the clean-snapshot marker still describes the OLD database file: C03)
    let (s', r) := restartSM { s with snaps := s.snaps ++ [.full c], fullNeeded := false, tail := [], cmds := 0, pend := none }
    (s', r)
  | .reap =>
    match resolve s.snaps with
    | some c => if s.snaps.length > 1 then ({ s with snaps := [.full c] }, "ok") else (s, "ok")
    | none => (s, "ok")
  | .restart => restartSM s

def run (lvl : Nat) (s : SM) (ops : List Op) : SM := ops.foldl (fun s o => (step lvl s o).1) s

end RqModel.SnapSM

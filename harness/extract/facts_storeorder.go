package main

// StoreOrder (C22, C33, C03, C01): guard and step ORDER in the store's load, boot,
// snapshot, restore, open and recovery code, and the write endpoints' use of the SQL
// rewriter. Everything is a sequence of callee paths in source order (or a boolean
// derived from positions); a construct that is not found yields an empty list / none.

import (
	"go/ast"
	"go/token"
	"sort"
	"strings"
)

// callSeq returns, in source order, the callee paths of all calls in n whose path is
// one of names (exact match) or ends in one of them when given with a leading '.'.
func (x *X) callSeq(n ast.Node, names ...string) []string {
	type hit struct {
		pos  token.Pos
		name string
	}
	var hits []hit
	if n == nil {
		return nil
	}
	ast.Inspect(n, func(m ast.Node) bool {
		c, ok := m.(*ast.CallExpr)
		if !ok {
			return true
		}
		p := x.Src(c.Fun)
		for _, nm := range names {
			if p == nm || (strings.HasPrefix(nm, ".") && strings.HasSuffix(p, nm)) {
				hits = append(hits, hit{c.Pos(), p})
				break
			}
		}
		return true
	})
	sort.Slice(hits, func(i, j int) bool { return hits[i].pos < hits[j].pos })
	out := make([]string, len(hits))
	for i, h := range hits {
		out[i] = h.name
	}
	return out
}

func firstPos(x *X, n ast.Node, name string) token.Pos {
	p := token.NoPos
	if n == nil {
		return p
	}
	ast.Inspect(n, func(m ast.Node) bool {
		if c, ok := m.(*ast.CallExpr); ok && p == token.NoPos && x.Src(c.Fun) == name {
			p = c.Pos()
		}
		return true
	})
	return p
}

func init() {
	register("StoreOrder", func(x *X) {
		// ---- C22: validity gates -------------------------------------------------
		x.Comment("db/swappable_db.go Swap: both validity checks precede closing the current database")
		if fd := x.Func("db", "SwappableDB", "Swap"); fd != nil {
			seq := x.callSeq(fd.Body, "IsValidSQLiteFile", "checkSQLiteFileOpens", "s.db.Close", "RemoveFiles", "os.Rename", "OpenWithDriver")
			x.DefStrings("swapSteps", seq)
			g1, g2, cl := firstPos(x, fd.Body, "IsValidSQLiteFile"), firstPos(x, fd.Body, "checkSQLiteFileOpens"), firstPos(x, fd.Body, "s.db.Close")
			x.DefOptBool("swapGateBeforeClose", g1 < cl && g2 < cl, g1 != token.NoPos && g2 != token.NoPos && cl != token.NoPos)
		} else {
			x.DefStrings("swapSteps", nil)
			x.DefOptBool("swapGateBeforeClose", false, false)
		}
		x.Comment("http/service.go handleLoad: `if db.IsValidSQLiteData(b)` chooses Load, else the body is executed as SQL text")
		if fd := x.Func("http", "Service", "handleLoad"); fd != nil {
			seq := x.callSeq(fd.Body, "db.IsValidSQLiteData", "s.proxy.Load", "s.proxy.Execute", "sql.Process")
			x.DefStrings("httpLoadSteps", seq)
			g, l := firstPos(x, fd.Body, "db.IsValidSQLiteData"), firstPos(x, fd.Body, "s.proxy.Load")
			x.DefOptBool("httpLoadGate", g < l, g != token.NoPos && l != token.NoPos)
		} else {
			x.DefStrings("httpLoadSteps", nil)
			x.DefOptBool("httpLoadGate", false, false)
		}
		x.Comment("http handleBoot checks the header before ReadFrom; store ReadFrom checks the file before the NOOP entry and the swap")
		okBoot, foundBoot := false, false
		if hb, rf := x.Func("http", "Service", "handleBoot"), x.Func("store", "Store", "ReadFrom"); hb != nil && rf != nil {
			g, r := firstPos(x, hb.Body, "db.IsValidSQLiteData"), firstPos(x, hb.Body, "s.store.ReadFrom")
			g2, np, sw := firstPos(x, rf.Body, "sql.IsValidSQLiteFile"), firstPos(x, rf.Body, "s.Noop"), firstPos(x, rf.Body, "s.db.Swap")
			foundBoot = g != token.NoPos && r != token.NoPos && g2 != token.NoPos && np != token.NoPos && sw != token.NoPos
			okBoot = g < r && g2 < np && np < sw
			x.DefStrings("readFromSteps", x.callSeq(rf.Body, "sql.IsValidSQLiteFile", "s.Noop", "s.db.Swap", "s.snapshotStore.SetDueNext", "s.Snapshot"))
		} else {
			x.DefStrings("readFromSteps", nil)
		}
		x.DefOptBool("bootGates", okBoot, foundBoot)
		x.Comment("store/command_processor.go Process: the chunked load validates the reassembled file before Swap; LOAD goes straight to Swap")
		if fd := x.Func("store", "CommandProcessor", "Process"); fd != nil {
			seq := x.callSeq(fd.Body, "sql.IsValidSQLiteFile", "db.Swap", "db.Execute", "db.Request", "db.Query")
			x.DefStrings("processSteps", seq)
			// last IsValidSQLiteFile must precede the last Swap (the chunk path is the second Swap)
			var gi, si []int
			for i, s := range seq {
				if s == "sql.IsValidSQLiteFile" {
					gi = append(gi, i)
				}
				if s == "db.Swap" {
					si = append(si, i)
				}
			}
			x.DefOptBool("chunkGate", len(gi) == 1 && len(si) == 2 && si[0] < gi[0] && gi[0] < si[1], len(gi) > 0 && len(si) > 0)
		} else {
			x.DefStrings("processSteps", nil)
			x.DefOptBool("chunkGate", false, false)
		}
		x.Comment("store/store.go fsmApply: the LOAD case sets due-next to Full")
		lf, lfound := false, false
		if fd := x.Func("store", "Store", "fsmApply"); fd != nil {
			ast.Inspect(fd.Body, func(n ast.Node) bool {
				cc, ok := n.(*ast.CaseClause)
				if !ok || len(cc.List) != 1 || x.Src(cc.List[0]) != "proto.Command_COMMAND_TYPE_LOAD" {
					return true
				}
				lfound = true
				for _, st := range cc.Body {
					for _, c := range x.Calls(st, "SetDueNext") {
						if len(c.Args) == 1 && x.Src(c.Args[0]) == "snapshot.Full" {
							lf = true
						}
					}
				}
				return false
			})
		}
		x.DefOptBool("loadSetsFullNeeded", lf, lfound)

		x.Comment("store/command_processor.go Process, case LOAD: every return as \"<mutated>,<error|ok>\" in source order (no panic/exit on I/O failure)")
		var loadRets []string
		if fd := x.Func("store", "CommandProcessor", "Process"); fd != nil {
			ast.Inspect(fd.Body, func(n ast.Node) bool {
				cc, ok := n.(*ast.CaseClause)
				if !ok || len(cc.List) != 1 || x.Src(cc.List[0]) != "proto.Command_COMMAND_TYPE_LOAD" {
					return true
				}
				for _, st := range cc.Body {
					ast.Inspect(st, func(m ast.Node) bool {
						switch v := m.(type) {
						case *ast.FuncLit:
							return false
						case *ast.ReturnStmt:
							if len(v.Results) == 3 {
								resp := "ok"
								if strings.Contains(x.Src(v.Results[2]), "error:") {
									resp = "error"
								}
								loadRets = append(loadRets, x.Src(v.Results[1])+","+resp)
							} else {
								loadRets = append(loadRets, "?")
							}
						case *ast.CallExpr:
							if p := x.Src(v.Fun); p == "os.Exit" || strings.HasSuffix(p, ".Fatalf") || strings.HasSuffix(p, ".Fatal") {
								loadRets = append(loadRets, "exit:"+p)
							}
						}
						return true
					})
				}
				return false
			})
		}
		x.DefStrings("loadCaseReturns", loadRets)
		x.Comment("store/store.go ReadFrom: the single-node guard: the call whose result is counted, the test, the error returned")
		var guard []string
		if fd := x.Func("store", "Store", "ReadFrom"); fd != nil {
			counted := map[string]string{} // variable -> callee it was assigned from
			for _, st := range fd.Body.List {
				if a, ok := st.(*ast.AssignStmt); ok && len(a.Lhs) == 2 && len(a.Rhs) == 1 {
					if c, ok := a.Rhs[0].(*ast.CallExpr); ok {
						counted[x.Src(a.Lhs[0])] = x.Src(c.Fun)
					}
				}
				is, ok := st.(*ast.IfStmt)
				if !ok || len(is.Body.List) != 1 {
					continue
				}
				r, ok := is.Body.List[0].(*ast.ReturnStmt)
				if !ok || len(r.Results) != 2 || x.Src(r.Results[1]) != "ErrNotSingleNode" {
					continue
				}
				cond := x.Src(is.Cond)
				src := "?"
				for v, callee := range counted {
					if strings.Contains(cond, "len("+v+")") {
						src = callee
					}
				}
				guard = append(guard, src, cond, x.Src(r.Results[1]))
			}
		}
		x.DefStrings("bootGuard", guard)
		x.Comment("store/store.go fsmSnapshot: the kind of snapshot is decided by reading what is due next")
		if fd := x.Func("store", "Store", "fsmSnapshot"); fd != nil {
			steps := x.callSeq(fd.Body, "s.snapshotDueNext")
			ast.Inspect(fd.Body, func(n ast.Node) bool {
				if is, ok := n.(*ast.IfStmt); ok && x.Src(is.Cond) == "dueNext.IsFull()" {
					steps = append(steps, "if "+x.Src(is.Cond))
				}
				return true
			})
			x.DefStrings("snapshotKindSteps", steps)
		} else {
			x.DefStrings("snapshotKindSteps", nil)
		}

		// ---- C03: step order of snapshot / restore / open ---------------------------
		x.Comment("store/fsm.go (*FSMSnapshot).Persist: data first; the finalizer is handed to the sink (SetAfterClose), run directly only for sinks that cannot")
		if fd := x.Func("store", "FSMSnapshot", "Persist"); fd != nil {
			x.DefStrings("persistSteps", x.callSeq(fd.Body, "f.FSMSnapshot.Persist", "ac.SetAfterClose", "f.Finalizer"))
		} else {
			x.DefStrings("persistSteps", nil)
		}
		x.Comment("snapshot/sink.go (*Sink).Close: the after-close function (fingerprint) runs after the rename that installs the snapshot")
		if fd := x.Func("snapshot", "Sink", "Close"); fd != nil {
			x.DefStrings("sinkCloseSteps", x.callSeq(fd.Body, "s.stc.DueNext", "sd.MoveWALFilesTo", "s.sinkW.Close", "writeMeta", "os.Rename", "s.stc.SetDueNext", "s.stc.ClearFullNeeded", "s.afterClose"))
		} else {
			x.DefStrings("sinkCloseSteps", nil)
		}
		x.Comment("store/store.go fsmRestore: fingerprint removed before the swap, written after it")
		if fd := x.Func("store", "Store", "fsmRestore"); fd != nil {
			x.DefStrings("restoreSteps", x.callSeq(fd.Body, "snapshot.Restore", "fsutil.RemoveFile", "s.db.Swap", "s.createSnapshotFingerprint"))
		} else {
			x.DefStrings("restoreSteps", nil)
		}
		x.Comment("store/store.go createSnapshotFingerprint: written to a temp file, then renamed")
		if fd := x.Func("store", "Store", "createSnapshotFingerprint"); fd != nil {
			x.DefStrings("fingerprintSteps", x.callSeq(fd.Body, "s.db.DBLastModified", "s.db.FileSize", "rsum.CRC32WithTiming", "snapshot.LatestIndexTerm", "fp.WriteToFile", "os.Rename"))
			// the marker records which snapshot it was written for
			var rec []string
			ast.Inspect(fd.Body, func(n ast.Node) bool {
				if kv, ok := n.(*ast.KeyValueExpr); ok {
					if k := x.Src(kv.Key); k == "SnapshotIndex" || k == "SnapshotTerm" {
						rec = append(rec, k+": "+x.Src(kv.Value))
					}
				}
				return true
			})
			x.DefStrings("fingerprintRecordsSnapshot", rec)
		} else {
			x.DefStrings("fingerprintSteps", nil)
			x.DefStrings("fingerprintRecordsSnapshot", nil)
		}
		x.Comment("store/store.go Open: recovery request checked before the fingerprint is trusted; recovery before the database is created; WAL staging removed")
		if fd := x.Func("store", "Store", "Open"); fd != nil {
			x.DefStrings("openSteps", x.callSeq(fd.Body, "snapshot.NewStore", "snapshotStore.Len", "fp.ReadFromFile", "fsutil.ModTimeSize", "snapshotStore.LatestIndexTerm", "rlog.New",
				"raft.ReadConfigJSON", "recoverNode", "RecoverNode", "createDBOnDisk", "os.RemoveAll", "raft.NewRaft"))
			pp, fr := token.NoPos, firstPos(x, fd.Body, "fp.ReadFromFile")
			ast.Inspect(fd.Body, func(n ast.Node) bool {
				if c, ok := n.(*ast.CallExpr); ok && pp == token.NoPos && x.Src(c.Fun) == "fsutil.PathExists" && len(c.Args) == 1 && x.Src(c.Args[0]) == "s.peersPath" {
					pp = c.Pos()
				}
				return true
			})
			x.DefOptBool("openPeersCheckedBeforeFingerprint", pp < fr, pp != token.NoPos && fr != token.NoPos)
			// the fast path is left when the marker is for another snapshot than the newest one
			var chk []string
			ast.Inspect(fd.Body, func(n ast.Node) bool {
				if is, ok := n.(*ast.IfStmt); ok {
					if c := x.Src(is.Cond); strings.Contains(c, "fp.SnapshotIndex") {
						chk = append(chk, c)
					}
				}
				return true
			})
			x.DefStrings("openMarkerSnapshotCheck", chk)
		} else {
			x.DefStrings("openSteps", nil)
			x.DefStrings("openMarkerSnapshotCheck", nil)
			x.DefOptBool("openPeersCheckedBeforeFingerprint", false, false)
		}
		x.Comment("store/store.go createDBOnDisk: WAL files are always removed")
		if fd := x.Func("store", "", "createDBOnDisk"); fd != nil {
			x.DefStrings("createDBSteps", x.callSeq(fd.Body, "sql.RemoveFiles", "sql.RemoveWALFiles", "sql.OpenSwappable"))
		} else {
			x.DefStrings("createDBSteps", nil)
		}

		// ---- C33: RecoverNode -------------------------------------------------------
		x.Comment("store/state.go recoverNode: restore newest, replay later command entries, one snapshot at the last index, log deleted; FK setting passed through")
		if fd := x.Func("store", "", "recoverNode"); fd != nil {
			x.DefStrings("recoverSteps", x.callSeq(fd.Body, "checkRaftConfiguration", "sql.RemoveFiles", "snaps.List", "snapshot.Restore", "sql.OpenSwappable",
				"logs.LastIndex", "logs.GetLog", "cmdProc.Process", "db.Checkpoint", "snaps.Create", "fsmSnapshot.Persist", "sink.Close", "logs.DeleteRange"))
			fk := ""
			for _, c := range x.Calls(fd.Body, "OpenSwappable") {
				if len(c.Args) >= 3 {
					fk = x.Src(c.Args[2])
				}
			}
			x.DefString("recoverOpenFKArg", fk)
			guard := ""
			ast.Inspect(fd.Body, func(n ast.Node) bool {
				if ifs, ok := n.(*ast.IfStmt); ok {
					for _, c := range x.Calls(ifs.Body, "Process") {
						if x.Src(c.Fun) == "cmdProc.Process" {
							guard = x.Src(ifs.Cond)
						}
					}
				}
				return true
			})
			x.DefString("recoverReplayGuard", guard)
			args := ""
			for _, c := range x.Calls(fd.Body, "Create") {
				if x.Src(c.Fun) == "snaps.Create" {
					var as []string
					for _, a := range c.Args {
						as = append(as, x.Src(a))
					}
					args = strings.Join(as, ", ")
				}
			}
			x.DefString("recoverSnapshotArgs", args)
		} else {
			x.DefStrings("recoverSteps", nil)
			x.DefString("recoverOpenFKArg", "")
			x.DefString("recoverReplayGuard", "")
			x.DefString("recoverSnapshotArgs", "")
		}
		fkArg := ""
		if fd := x.Func("store", "Store", "Open"); fd != nil {
			for _, c := range x.Calls(fd.Body, "recoverNode") {
				if len(c.Args) >= 3 {
					fkArg = x.Src(c.Args[2])
				}
			}
		}
		x.DefString("openRecoverFKArg", fkArg)

		// ---- C01: write endpoints and the rewriter ----------------------------------
		x.Comment("http/service.go: per write endpoint, the rewriter / proxy calls in source order")
		for _, h := range []struct{ def, fn string }{{"execEndpoint", "handleExecute"}, {"requestEndpoint", "handleRequest"}, {"queuedExecEndpoint", "queuedExecute"}, {"executeEndpoint", "execute"}, {"queryEndpoint", "handleQuery"}} {
			if fd := x.Func("http", "Service", h.fn); fd != nil {
				x.DefStrings(h.def, x.callSeq(fd.Body, "sql.Process", "s.proxy.Execute", "s.proxy.Request", "s.proxy.Query", "s.stmtQueue.Write", "s.queuedExecute", "s.execute"))
			} else {
				x.DefStrings(h.def, nil)
			}
		}
		x.Comment("store: every path that applies a log entry to the database goes through CommandProcessor.Process")
		var procCallers []string
		for _, fn := range []struct{ recv, name string }{{"Store", "fsmApply"}, {"", "recoverNode"}} {
			if fd := x.Func("store", fn.recv, fn.name); fd != nil {
				for _, c := range x.callSeq(fd.Body, "s.cmdProc.Process", "cmdProc.Process") {
					procCallers = append(procCallers, fn.name+":"+c)
				}
			}
		}
		x.DefStrings("applyPaths", procCallers)
	})
}

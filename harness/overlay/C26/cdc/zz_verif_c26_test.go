package cdc

// C26 correspondence + spec oracle: the real cdc.Queue (Bolt file on disk) against the
// Lean model `fifo` (RqModel/Model/Fifo.lean) on generated operation sequences of
// enqueue / delete-range / consume / query / reopen, and — with a child process that is
// killed with SIGKILL at random points — kill.
//
// The spec oracle (c26Spec) is an independent statement of the property on the
// observed behaviour: stored set = acknowledged enqueues above every earlier enqueued
// index, minus deleted ranges (also across reopen/kill); emissions are stored items in
// strictly increasing index order per open; draining emits every stored item that is
// above every delete bound issued in this open.

import (
	"bufio"
	"fmt"
	"os"
	"os/exec"
	"path/filepath"
	"sort"
	"strconv"
	"strings"
	"syscall"
	"testing"
	"time"
)

const c26MaxIdx = ^uint64(0) - 1 // 2^64-2, the largest index the model accepts

// ---- real queue runner -------------------------------------------------------

type c26Real struct {
	path string
	q    *Queue
}

// c26Abandoned counts kill sequences given up for a harness condition (the file lock of a
// killed child not yet released, a child too slow to start on a busy machine): never a
// property failure.
var c26Abandoned int

func c26IsLockTimeout(err error) bool {
	return err != nil && strings.Contains(strings.ToLower(err.Error()), "timeout")
}

// c26Open opens the queue. NewQueue gives Bolt one second to take the file lock; after a
// SIGKILL the kernel may still be tearing the child down, and on a busy machine that second
// is not much: a lock timeout is retried for up to two minutes.
func c26Open(path string) (*c26Real, error) {
	deadline := time.Now().Add(120 * time.Second)
	for {
		q, err := NewQueue(path)
		if err == nil {
			return &c26Real{path: path, q: q}, nil
		}
		if !c26IsLockTimeout(err) || time.Now().After(deadline) {
			return nil, err
		}
		time.Sleep(50 * time.Millisecond)
	}
}

func (r *c26Real) close() {
	if r.q != nil {
		r.q.Close()
		r.q = nil
	}
}

func c26Err(err error) string {
	if err == nil {
		return "ok"
	}
	return "err:" + strings.ReplaceAll(err.Error(), " ", "_")
}

// exec runs one op line on the real queue and returns the canonical result line.
func (r *c26Real) exec(op string) string {
	f := strings.Fields(op)
	switch f[0] {
	case "enq":
		k, _ := strconv.ParseUint(f[1], 10, 64)
		return c26Err(r.q.Enqueue(&Event{Index: k, Data: vfUnhex(f[2])}))
	case "del":
		n, _ := strconv.ParseUint(f[1], 10, 64)
		return c26Err(r.q.DeleteRange(n))
	case "consume":
		if !r.q.HasNext() {
			select {
			case ev := <-r.q.C:
				if ev == nil {
					return "closed"
				}
				return fmt.Sprintf("unexpected-ev %d %s", ev.Index, vfHexB(ev.Data))
			default:
				return "none"
			}
		}
		select {
		case ev := <-r.q.C:
			if ev == nil {
				return "closed"
			}
			return fmt.Sprintf("ev %d %s", ev.Index, vfHexB(ev.Data))
		case <-time.After(20 * time.Second):
			return "timeout"
		}
	case "query":
		l := r.q.Len()
		first, e1 := r.q.FirstKey()
		empty, e2 := r.q.Empty()
		hn := r.q.HasNext()
		hi, e3 := r.q.HighestKey()
		if e1 != nil || e2 != nil || e3 != nil {
			return fmt.Sprintf("err:%v/%v/%v", e1, e2, e3)
		}
		return fmt.Sprintf("len=%d first=%d empty=%v hasnext=%v highest=%d", l, first, empty, hn, hi)
	case "reopen":
		r.q.Close()
		q, err := NewQueue(r.path)
		if err != nil {
			r.q = nil
			return c26Err(err)
		}
		r.q = q
		return "ok"
	}
	return "bad-op"
}

// ---- spec oracle ---------------------------------------------------------------

type c26Spec struct {
	stored      map[uint64]string // index -> hex data
	highestEver uint64
	// per open
	lastEmitted   uint64
	anyEmitted    bool
	emittedOpen   map[uint64]bool
	maxDelOpen    uint64
	anyDelOpen    bool
	reopens, emit int
}

func c26NewSpec() *c26Spec {
	return &c26Spec{stored: map[uint64]string{}, emittedOpen: map[uint64]bool{}}
}

func (s *c26Spec) clone() *c26Spec {
	c := *s
	c.stored = map[uint64]string{}
	for k, v := range s.stored {
		c.stored[k] = v
	}
	c.emittedOpen = map[uint64]bool{}
	for k, v := range s.emittedOpen {
		c.emittedOpen[k] = v
	}
	return &c
}

func (s *c26Spec) newOpen() {
	s.anyEmitted, s.lastEmitted = false, 0
	s.emittedOpen = map[uint64]bool{}
	s.maxDelOpen, s.anyDelOpen = 0, false
	s.reopens++
}

func (s *c26Spec) queryLine() (l int, first, highest uint64) {
	first = 0
	for k := range s.stored {
		if l == 0 || k < first {
			first = k
		}
		l++
	}
	return l, first, s.highestEver
}

// apply advances the spec by one op whose observed result was res, and returns the
// failure signature ("" if the observation is allowed by the property).
func (s *c26Spec) apply(op, res string) (sig, detail string) {
	f := strings.Fields(op)
	switch f[0] {
	case "enq":
		k, _ := strconv.ParseUint(f[1], 10, 64)
		if res != "ok" {
			return "enqueue:error", res
		}
		if k > s.highestEver {
			s.stored[k] = f[2]
			s.highestEver = k
		}
	case "del":
		n, _ := strconv.ParseUint(f[1], 10, 64)
		if res != "ok" {
			return "delete-range:error", res
		}
		for k := range s.stored {
			if k <= n {
				delete(s.stored, k)
			}
		}
		if !s.anyDelOpen || n > s.maxDelOpen {
			s.maxDelOpen, s.anyDelOpen = n, true
		}
	case "consume":
		rf := strings.Fields(res)
		if rf[0] == "none" {
			return "", ""
		}
		if rf[0] != "ev" {
			return "consume:" + rf[0], res
		}
		k, _ := strconv.ParseUint(rf[1], 10, 64)
		s.emit++
		if d, ok := s.stored[k]; !ok || d != rf[2] {
			return "emit:not-a-stored-item", fmt.Sprintf("emitted %s, stored=%v(%q)", res, ok, d)
		}
		if s.anyEmitted && k <= s.lastEmitted {
			return "emit:not-strictly-increasing-within-open", fmt.Sprintf("emitted %d after %d", k, s.lastEmitted)
		}
		s.lastEmitted, s.anyEmitted = k, true
		s.emittedOpen[k] = true
	case "reopen", "kill":
		if res != "ok" {
			return "reopen:error", res
		}
		s.newOpen()
	case "query":
		l, first, hi := s.queryLine()
		var gl int
		var gfirst, ghi uint64
		var gempty, ghn bool
		if _, err := fmt.Sscanf(res, "len=%d first=%d empty=%t hasnext=%t highest=%d", &gl, &gfirst, &gempty, &ghn, &ghi); err != nil {
			return "query:error", res
		}
		if gl != l || gfirst != first || gempty != (l == 0) {
			return "stored-set", fmt.Sprintf("observed %s, property implies len=%d first=%d", res, l, first)
		}
		if ghi != hi {
			return "highest-key", fmt.Sprintf("observed %s, highest index ever stored is %d", res, hi)
		}
	}
	return "", ""
}

// pending returns the stored items the property requires a draining consumer to have
// received in this open: not yet emitted and above every delete bound of this open.
func (s *c26Spec) pending() []uint64 {
	var ks []uint64
	for k := range s.stored {
		if s.emittedOpen[k] {
			continue
		}
		if s.anyDelOpen && k <= s.maxDelOpen {
			continue
		}
		ks = append(ks, k)
	}
	sort.Slice(ks, func(i, j int) bool { return ks[i] < ks[j] })
	return ks
}

// stranded returns the stored items that were not emitted in this open although the consumer
// drained the queue, and that lie at or below a delete bound of this open.
func (s *c26Spec) stranded() []uint64 {
	var ks []uint64
	for k := range s.stored {
		if !s.emittedOpen[k] && s.anyDelOpen && k <= s.maxDelOpen {
			ks = append(ks, k)
		}
	}
	sort.Slice(ks, func(i, j int) bool { return ks[i] < ks[j] })
	return ks
}

// ---- generator -------------------------------------------------------------------

type c26Gen struct {
	r       *vfRng
	highest uint64 // generator's view of the highest index enqueued
	big     bool
}

func (g *c26Gen) idx() uint64 {
	switch c := g.r.Intn(100); {
	case c < 55: // just above the highest
		return c26Clamp(g.highest + 1 + uint64(g.r.Intn(3)))
	case c < 70: // at or below the highest (duplicate / stale)
		if g.highest == 0 {
			return 0
		}
		return g.highest - uint64(g.r.Intn(int(c26Min(g.highest, 6))+1))
	case c < 80:
		return uint64(g.r.Intn(12))
	case c < 95:
		return c26Clamp(g.highest + uint64(g.r.Intn(40)))
	default:
		if g.big {
			return c26MaxIdx - uint64(g.r.Intn(4))
		}
		return c26Clamp(g.highest + 1000 + uint64(g.r.Intn(100000)))
	}
}

func c26Clamp(v uint64) uint64 {
	if v > c26MaxIdx {
		return c26MaxIdx
	}
	return v
}
func c26Min(a, b uint64) uint64 {
	if a < b {
		return a
	}
	return b
}

func (g *c26Gen) delBound() uint64 {
	switch c := g.r.Intn(100); {
	case c < 50:
		if g.highest == 0 {
			return uint64(g.r.Intn(3))
		}
		return uint64(g.r.U64() % (g.highest + 1))
	case c < 70:
		return g.highest
	case c < 85:
		return c26Clamp(g.highest + uint64(g.r.Intn(5)))
	case c < 95:
		return uint64(g.r.Intn(5))
	default:
		return c26Clamp(g.highest + 50)
	}
}

func (g *c26Gen) op(allowReopen bool) string {
	c := g.r.Intn(100)
	switch {
	case c < 42:
		k := g.idx()
		if k > g.highest {
			g.highest = k
		}
		return fmt.Sprintf("enq %d %s", k, vfHexB(g.r.Bytes(g.r.Intn(7))))
	case c < 57:
		return fmt.Sprintf("del %d", g.delBound())
	case c < 85:
		return "consume"
	case c < 90 || !allowReopen:
		return "query"
	default:
		return "reopen"
	}
}

// ---- one in-process sequence ---------------------------------------------------------

type c26Result struct {
	ops, out []string
}

// c26RunInProc runs ops on a fresh queue file; after every op a `query` is interleaved so
// that the op that breaks the stored set can be named.
func c26RunInProc(path string, ops []string) (res c26Result, err error) {
	os.Remove(path)
	r, err := c26Open(path)
	if err != nil {
		return res, err
	}
	defer r.close()
	res.ops = append(res.ops, "reset")
	res.out = append(res.out, "ok")
	for _, op := range ops {
		o := r.exec(op)
		res.ops = append(res.ops, op)
		res.out = append(res.out, o)
		if r.q == nil {
			return res, fmt.Errorf("queue could not be reopened: %s", o)
		}
	}
	return res, nil
}

func c26WithQueries(ops []string) []string {
	var out []string
	for _, op := range ops {
		out = append(out, op)
		if op != "query" {
			out = append(out, "query")
		}
	}
	return out
}

// c26Judge evaluates the property on an observed trace. mode tags the signature.
func c26Judge(rep *vfReport, mode string, ops, out []string) {
	spec := c26NewSpec()
	last := ""
	for i, op := range ops {
		if op == "reset" {
			continue
		}
		f := strings.Fields(op)
		sig, detail := spec.apply(op, out[i])
		if sig != "" {
			cause := last
			if f[0] != "query" {
				cause = f[0]
			}
			if sig == "stored-set" || sig == "highest-key" {
				sig = sig + ":after-" + cause
			}
			rep.Fail(mode+sig, fmt.Sprintf("op #%d %q -> %q: %s", i, op, out[i], detail),
				map[string]interface{}{"ops": vfTrunc(ops[:i+1]), "impl": vfTrunc(out[:i+1])})
			return
		}
		if f[0] != "query" {
			last = f[0]
		}
	}
}

// ---- child process (kill -9 tier) -------------------------------------------------------

// c26Child executes the op script against the queue file and acknowledges each op on
// stdout AFTER it returned. It never returns normally when the parent kills it.
func c26Child() {
	path := os.Getenv("VERIF_C26_DB")
	script, err := os.ReadFile(os.Getenv("VERIF_C26_CHILD"))
	if err != nil {
		fmt.Println("childerr read", err)
		os.Exit(3)
	}
	r, err := c26Open(path)
	if err != nil {
		fmt.Println("childerr open", err)
		os.Exit(3)
	}
	fmt.Println("ack open")
	gate, _ := strconv.Atoi(os.Getenv("VERIF_C26_GATE"))
	for i, op := range strings.Split(strings.TrimSpace(string(script)), "\n") {
		if i == gate {
			// wait for the parent's go-ahead: it kills us a random moment after giving it
			var b [1]byte
			os.Stdin.Read(b[:])
		}
		o := r.exec(op)
		// os.Stdout is unbuffered: the ack is in the pipe before the next op starts
		fmt.Printf("ack %d %s\n", i, o)
	}
	fmt.Println("ack done")
	// stay alive holding the file open until killed: a kill after the last ack is a case too
	time.Sleep(30 * time.Second)
	os.Exit(0)
}

// c26KillRound runs ops in a child, kills it, and returns the acknowledged results.
var c26OpNanos int64 = 300000 // measured cost of one accepted enqueue (set by the test)

func c26KillRound(r *vfRng, dir, path string, ops []string) (acked []string, opened bool, err error) {
	return c26KillRoundAt(r, dir, path, ops, -1)
}

// c26KillRoundAt: target = number of ops after which the child is gated and killed
// (-1: random; len(ops): after every op has been acknowledged).
func c26KillRoundAt(r *vfRng, dir, path string, ops []string, fixedTarget int) (acked []string, opened bool, err error) {
	script := filepath.Join(dir, "script.txt")
	if err := os.WriteFile(script, []byte(strings.Join(ops, "\n")+"\n"), 0o644); err != nil {
		return nil, false, err
	}
	cmd := exec.Command(os.Args[0], "-test.run=^TestVerifC26$", "-test.count=1")
	// kill point: the child stops before op #target until told to go on; the parent then
	// kills it after a random delay of 0..3 enqueue-times, so the kill lands before, inside
	// or shortly after that op (often inside a Bolt Update).
	target := r.Intn(len(ops) + 1)
	if fixedTarget >= 0 {
		target = fixedTarget
	}
	cmd.Env = append(os.Environ(), "VERIF_C26_CHILD="+script, "VERIF_C26_DB="+path, fmt.Sprintf("VERIF_C26_GATE=%d", target))
	stdout, err := cmd.StdoutPipe()
	if err != nil {
		return nil, false, err
	}
	stdin, err := cmd.StdinPipe()
	if err != nil {
		return nil, false, err
	}
	if err := cmd.Start(); err != nil {
		return nil, false, err
	}
	delay := time.Duration(0)
	if r.Chance(85) {
		delay = time.Duration(r.U64() % uint64(3*c26OpNanos+1))
	}
	lines := make(chan string, 4096)
	go func() {
		sc := bufio.NewScanner(stdout)
		sc.Buffer(make([]byte, 1<<20), 1<<20)
		for sc.Scan() {
			lines <- sc.Text()
		}
		close(lines)
	}()
	seen := 0
	var got []string
	timeout := time.After(240 * time.Second)
	killed := false
	kill := func() {
		if !killed {
			stdin.Write([]byte{1})
			if delay > 0 {
				t0 := time.Now()
				for time.Since(t0) < delay { // spin: time.Sleep is too coarse at this scale
				}
			}
			_ = cmd.Process.Signal(syscall.SIGKILL)
			killed = true
		}
	}
loop:
	for {
		select {
		case l, ok := <-lines:
			if !ok {
				break loop
			}
			if strings.HasPrefix(l, "childerr") {
				kill()
				_ = cmd.Wait()
				return nil, false, fmt.Errorf("child: %s", l)
			}
			if !strings.HasPrefix(l, "ack ") {
				continue
			}
			got = append(got, l)
			if l == "ack open" {
				opened = true
				if target == 0 {
					kill()
				}
				continue
			}
			if l == "ack done" {
				kill()
				continue
			}
			seen++
			if seen >= target {
				kill()
			}
			if seen >= len(ops) {
				kill()
			}
		case <-timeout:
			kill()
			_ = cmd.Wait()
			return nil, opened, fmt.Errorf("child timed out")
		}
	}
	_ = cmd.Wait()
	for _, l := range got {
		f := strings.SplitN(l, " ", 3)
		if len(f) == 3 && f[1] != "open" && f[1] != "done" {
			acked = append(acked, f[2])
		}
	}
	return acked, opened, nil
}

// c26KillSequence: several child runs on the same file, each killed; after every kill the
// file is reopened in-process, queried, and closed again. Returns the trace as seen by an
// observer (acknowledged ops, plus the in-flight op when its effect is visible).
func c26KillSequence(t *testing.T, rep *vfReport, r *vfRng, dir string, rounds int) (c26Result, bool) {
	return c26KillSequenceScripted(t, rep, r, dir, rounds, nil, "kill:")
}

// c26KillSequenceScripted: when script != nil its rounds are run instead of generated ones and
// the child is killed only after it has acknowledged every op of the round.
func c26KillSequenceScripted(t *testing.T, rep *vfReport, r *vfRng, dir string, rounds int, script [][]string, mode string) (c26Result, bool) {
	path := filepath.Join(dir, "kill.db")
	os.Remove(path)
	var res c26Result
	res.ops = append(res.ops, "reset")
	res.out = append(res.out, "ok")
	g := &c26Gen{r: r}
	spec := c26NewSpec()
	// create the file so that the model's `reset` (open of a fresh file) has happened
	q0, err := c26Open(path)
	if err != nil {
		t.Fatalf("open: %v", err)
	}
	q0.close()
	if script != nil {
		rounds = len(script)
	}
	for round := 0; round < rounds; round++ {
		n := 3 + r.Intn(12)
		var ops []string
		fixed := -1
		if script != nil {
			ops = script[round]
			fixed = len(ops)
		} else {
			for i := 0; i < n; i++ {
				ops = append(ops, g.op(false))
			}
		}
		// the child's open is a reopen of the file
		res.ops = append(res.ops, "reopen")
		res.out = append(res.out, "ok")
		spec.apply("reopen", "ok")
		acked, _, err := c26KillRoundAt(r, dir, path, ops, fixed)
		if err != nil {
			if c26IsLockTimeout(err) || strings.Contains(err.Error(), "timed out") {
				// the child could not take the file lock or did not get going in time
				c26Abandoned++
				rep.Count("abandoned:" + mode + "child-lock-or-start-timeout")
				return res, false
			}
			t.Fatalf("kill round: %v", err)
		}
		for i, o := range acked {
			res.ops = append(res.ops, ops[i])
			res.out = append(res.out, o)
			if sig, detail := spec.apply(ops[i], o); sig != "" {
				rep.Fail(mode+sig, fmt.Sprintf("child op %q -> %q: %s", ops[i], o, detail),
					map[string]interface{}{"ops": vfTrunc(res.ops), "impl": vfTrunc(res.out)})
				return res, false
			}
		}
		rep.Count(fmt.Sprintf("kill-after-acks=%d-of-%d", c26Bucket(len(acked), len(ops)), 4))
		// reopen in-process and look
		rr, err := c26Open(path)
		if err != nil {
			if c26IsLockTimeout(err) {
				// two minutes of retries and the lock is still held: a harness condition
				c26Abandoned++
				rep.Count("abandoned:" + mode + "reopen-lock-timeout")
				return res, false
			}
			rep.Fail(mode+"reopen-failed", err.Error(), map[string]interface{}{"ops": vfTrunc(res.ops)})
			return res, false
		}
		obs := rr.exec("query")
		rr.close()
		// candidates: the in-flight op (first unacknowledged) was not applied / was applied
		before := spec.clone()
		before.apply("kill", "ok")
		sigB, _ := before.apply("query", obs)
		matched := sigB == ""
		if matched {
			spec = before
			res.ops = append(res.ops, "kill", "query")
			res.out = append(res.out, "ok", obs)
			rep.Count("kill:inflight-op-not-visible")
		} else if len(acked) < len(ops) {
			inflight := ops[len(acked)]
			after := spec.clone()
			after.apply(inflight, "ok")
			after.apply("kill", "ok")
			if sigA, _ := after.apply("query", obs); sigA == "" && (strings.HasPrefix(inflight, "enq") || strings.HasPrefix(inflight, "del")) {
				matched = true
				spec = after
				res.ops = append(res.ops, inflight, "kill", "query")
				res.out = append(res.out, "ok", "ok", obs)
				rep.Count("kill:inflight-op-applied")
			}
		}
		if !matched {
			l, first, hi := spec.queryLine()
			rep.Fail(mode+"state-after-kill-is-neither-before-nor-after-the-inflight-op",
				fmt.Sprintf("after kill (acked %d of %d ops) the queue reports %q; acknowledged history implies len=%d first=%d highest=%d", len(acked), len(ops), obs, l, first, hi),
				map[string]interface{}{"ops": vfTrunc(res.ops), "impl": vfTrunc(res.out), "round_ops": ops, "acked": len(acked)})
			return res, false
		}
	}
	// final open: drain and check progress, all in-process
	rr, err := c26Open(path)
	if err != nil {
		if c26IsLockTimeout(err) {
			c26Abandoned++
			rep.Count("abandoned:" + mode + "reopen-lock-timeout")
			return res, false
		}
		t.Fatalf("final open: %v", err)
	}
	defer rr.close()
	res.ops = append(res.ops, "reopen")
	res.out = append(res.out, "ok")
	spec.apply("reopen", "ok")
	for i := 0; i < len(spec.stored)+2; i++ {
		o := rr.exec("consume")
		res.ops = append(res.ops, "consume")
		res.out = append(res.out, o)
		if sig, detail := spec.apply("consume", o); sig != "" {
			rep.Fail(mode+sig, detail, map[string]interface{}{"ops": vfTrunc(res.ops), "impl": vfTrunc(res.out)})
			return res, false
		}
	}
	if p := spec.pending(); len(p) > 0 {
		rep.Fail(mode+"progress:stored-item-never-emitted", fmt.Sprintf("after draining, stored items %v were never emitted", p),
			map[string]interface{}{"ops": vfTrunc(res.ops), "impl": vfTrunc(res.out)})
		return res, false
	}
	return res, true
}

func c26Bucket(a, n int) int {
	if n == 0 {
		return 0
	}
	return a * 4 / n
}

// ---- the test -------------------------------------------------------------------------------

func TestVerifC26(t *testing.T) {
	if os.Getenv("VERIF_C26_CHILD") != "" {
		c26Child()
		return
	}
	rep := vfNewReport("C26", "generated op sequences on the real cdc.Queue (Bolt file): enqueue (just above / at or below / far above the highest index, near 2^64-2, empty and non-empty data), delete-range (inside, at, beyond the stored range), consume, query after every op, reopen between arbitrary ops; plus child processes killed with SIGKILL after a random number of acknowledged ops. A sequence is non-trivial when it has at least one accepted and one ignored enqueue, one emission, one effective delete and one reopen or kill; distinct by op text")
	defer rep.Write()
	dir := t.TempDir() // on disk: used by the kill -9 sequences
	// in-process sequences never need the sync to reach a device: use a memory-backed
	// directory when there is one, so that run time does not depend on disk contention
	fast := dir
	if st, err := os.Stat("/dev/shm"); err == nil && st.IsDir() {
		if d, err := os.MkdirTemp("/dev/shm", "verif-c26-"); err == nil {
			fast = d
			defer os.RemoveAll(d)
		}
	}
	r := vfNewRng(26)

	var segOps, segImpl [][]string
	tStart := time.Now()

	// cost of one accepted enqueue on this machine (calibrates the kill delay only)
	if mq, err := c26Open(filepath.Join(dir, "measure.db")); err == nil {
		t0 := time.Now()
		for i := 1; i <= 20; i++ {
			mq.q.Enqueue(&Event{Index: uint64(i), Data: []byte{1, 2, 3}})
		}
		c26OpNanos = int64(time.Since(t0)) / 20
		mq.close()
		rep.Note("one accepted enqueue (Bolt Update + sync) takes about %d us here", c26OpNanos/1000)
	}

	// replay of a recorded op list
	if rops, ok := vfReplayOps(); ok && len(rops) > 0 {
		var ops []string
		for _, o := range rops {
			if o != "reset" {
				ops = append(ops, o)
			}
		}
		res, err := c26RunInProc(filepath.Join(dir, "replay.db"), ops)
		if err != nil {
			t.Fatalf("replay: %v", err)
		}
		c26Judge(rep, "", res.ops, res.out)
		rep.vfCompare("fifo", res.ops, res.out, nil)
		return
	}

	// 1. fixed directed sequences (known shapes: delete beyond highest then enqueue below; reopen everywhere)
	directed := [][]string{
		{"enq 1 x01", "consume", "del 100", "enq 5 x05", "consume", "reopen", "consume"},
		{"enq 3 x", "enq 3 xff", "enq 2 x02", "reopen", "enq 3 xee", "enq 1 x", "consume", "consume"},
		{"enq 0 x00", "consume", "enq 1 x", "del 0", "consume", "del 1", "consume", "reopen", "enq 1 x01", "consume"},
		{"enq 5 x05", "enq 7 x07", "enq 9 x09", "del 7", "consume", "reopen", "del 8", "consume", "enq 8 x08", "enq 10 x0a", "consume", "consume"},
		{"enq 2 x02", "enq 4 x04", "consume", "del 2", "consume", "consume", "reopen", "consume", "consume"},
		{fmt.Sprintf("enq %d x01", c26MaxIdx-1), "consume", fmt.Sprintf("enq %d x02", c26MaxIdx), "consume", "consume", fmt.Sprintf("del %d", c26MaxIdx-1), "reopen", "consume", fmt.Sprintf("del %d", c26MaxIdx), "reopen", "enq 7 x", "consume"},
	}
	seqs := vfScale(250, 6000)
	for s := 0; s < len(directed)+seqs; s++ {
		var ops []string
		if s < len(directed) {
			ops = directed[s]
		} else {
			g := &c26Gen{r: r, big: s%11 == 0}
			n := 8 + r.Intn(vfScale(40, 90))
			for i := 0; i < n; i++ {
				ops = append(ops, g.op(true))
			}
		}
		full := c26WithQueries(ops)
		res, err := c26RunInProc(filepath.Join(fast, "q.db"), full)
		if err != nil {
			t.Fatalf("harness: %v", err)
		}
		c26Judge(rep, "", res.ops, res.out)
		segOps = append(segOps, res.ops)
		segImpl = append(segImpl, res.out)
		c26Classify(rep, ops, res)
	}

	tPhase := time.Now()
	rep.Note("phase 1 (in-process sequences) took %d ms", time.Since(tStart).Milliseconds())
	// 2. drain sequences: ops then consume until none, progress judged by the spec
	drains := vfScale(120, 3000)
	for s := 0; s < drains; s++ {
		g := &c26Gen{r: r}
		var ops []string
		n := 5 + r.Intn(30)
		for i := 0; i < n; i++ {
			ops = append(ops, g.op(true))
		}
		for i := 0; i < n+2; i++ {
			ops = append(ops, "consume")
		}
		ops = append(ops, "query")
		res, err := c26RunInProc(filepath.Join(fast, "q.db"), ops)
		if err != nil {
			t.Fatalf("harness: %v", err)
		}
		c26Judge(rep, "", res.ops, res.out)
		// progress
		spec := c26NewSpec()
		for i, op := range res.ops {
			if op != "reset" {
				spec.apply(op, res.out[i])
			}
		}
		if p := spec.pending(); len(p) > 0 {
			rep.Fail("progress:stored-item-never-emitted", fmt.Sprintf("after draining, stored items %v (above every delete bound of this open) were never emitted", p),
				map[string]interface{}{"ops": vfTrunc(res.ops), "impl": vfTrunc(res.out)})
		}
		if st := spec.stranded(); len(st) > 0 {
			rep.Fail("progress:stored-item-at-or-below-a-delete-bound-not-emitted-until-reopen",
				fmt.Sprintf("after draining, stored items %v (enqueued at or below a DeleteRange bound of this open) were not emitted", st),
				map[string]interface{}{"ops": vfTrunc(res.ops), "impl": vfTrunc(res.out)})
		}
		rep.Count("drain-sequences")
		rep.Case("drain:"+strings.Join(ops, ";"), spec.emit > 0)
		segOps = append(segOps, res.ops)
		segImpl = append(segImpl, res.out)
	}

	rep.Note("phase 2 (drain sequences) took %d ms", time.Since(tPhase).Milliseconds())
	tPhase = time.Now()
	// 3a. DIRECTED kill -9 scenarios, every run: the child is killed (no Close) right after it
	// has acknowledged the last op of each round; the next round replays enqueues at or below
	// the highest index ever acknowledged, which must be ignored although the queue was emptied
	directedKill := [][][]string{
		// drain, delete everything, kill, replayed enqueues
		{{"enq 1 x01", "enq 2 x02", "enq 3 x03", "consume", "consume", "consume", "del 3", "query"},
			{"query", "enq 3 x03", "enq 2 x02", "enq 1 x01", "query", "consume", "enq 4 x04", "consume", "query"}},
		// kill right after an acknowledged enqueue; then delete it and kill again
		{{"enq 5 x05"}, {"query", "consume", "del 5", "query"}, {"query", "enq 5 x05", "enq 4 x", "query", "consume"}},
		// delete beyond the highest index, kill, replay below and above
		{{"enq 7 x07", "del 100"}, {"query", "enq 7 x07", "enq 50 x32", "query", "enq 101 x65", "consume", "consume"}},
	}
	for i, sc := range directedKill {
		res, ok := c26KillSequenceScripted(t, rep, r, dir, 0, sc, "kill-directed:")
		rep.Count("kill-directed-sequences")
		rep.Case(fmt.Sprintf("kill-directed:%d", i), ok)
		if ok {
			segOps = append(segOps, res.ops)
			segImpl = append(segImpl, res.out)
		}
	}

	// 3. kill -9 of a child process at random points
	kills := vfScale(6, 400)
	for s := 0; s < kills; s++ {
		res, ok := c26KillSequence(t, rep, r, dir, 2+r.Intn(3))
		rep.Count("kill-sequences")
		rep.Case("kill:"+strings.Join(res.ops, ";"), ok)
		if ok {
			segOps = append(segOps, res.ops)
			segImpl = append(segImpl, res.out)
		}
		if s == 0 {
			rep.Sample(map[string]interface{}{"kind": "kill-sequence", "ops": vfTrunc(res.ops), "impl": vfTrunc(res.out)})
		}
	}

	rep.CountN("abandoned-kill-sequences", c26Abandoned)
	if 2*c26Abandoned > kills+len(directedKill) {
		rep.Fail("harness:could-not-run", fmt.Sprintf("%d of %d kill sequences were abandoned (file lock or child start timeouts: busy machine?)", c26Abandoned, kills+len(directedKill)), nil)
	}
	rep.Note("phase 3 (kill sequences) took %d ms", time.Since(tPhase).Milliseconds())
	tPhase = time.Now()
	rep.vfCompareSegments("fifo", segOps, segImpl)
	rep.Note("model run took %d ms", time.Since(tPhase).Milliseconds())
}

// c26Classify records the input distribution of one in-process sequence.
func c26Classify(rep *vfReport, ops []string, res c26Result) {
	spec := c26NewSpec()
	acc, ign, emit, effDel, reopen, stranded := 0, 0, 0, 0, 0, 0
	for i, op := range res.ops {
		if op == "reset" {
			continue
		}
		f := strings.Fields(op)
		switch f[0] {
		case "enq":
			k, _ := strconv.ParseUint(f[1], 10, 64)
			if k > spec.highestEver {
				acc++
				if spec.anyDelOpen && k <= spec.maxDelOpen {
					stranded++
				}
			} else {
				ign++
			}
		case "del":
			n, _ := strconv.ParseUint(f[1], 10, 64)
			for k := range spec.stored {
				if k <= n {
					effDel++
					break
				}
			}
			if n > spec.highestEver {
				rep.Count("delete-beyond-highest")
			}
		case "consume":
			if strings.HasPrefix(res.out[i], "ev") {
				emit++
			}
		case "reopen":
			reopen++
		}
		spec.apply(op, res.out[i])
	}
	rep.CountN("enqueue-accepted", acc)
	rep.CountN("enqueue-ignored", ign)
	rep.CountN("emissions", emit)
	rep.CountN("effective-deletes", effDel)
	rep.CountN("reopens", reopen)
	rep.CountN("enqueue-accepted-at-or-below-a-delete-bound-of-this-open", stranded)
	rep.Count(fmt.Sprintf("ops=%d0s", len(ops)/10))
	rep.Case(strings.Join(ops, ";"), acc > 0 && ign > 0 && emit > 0 && effDel > 0 && reopen > 0)
	if len(rep.Samples) < 2 {
		rep.Sample(map[string]interface{}{"ops": vfTrunc(ops), "impl": vfTrunc(res.out)})
	}
}

#!/bin/bash
# tools/run_all.sh [tier] [jobs]  — run every claimed check on the current tree, summarise.
cd "$(dirname "$0")/.."
tier=${1:-quick}; jobs=${2:-4}
mkdir -p .build/runall
ls checks/C*.json | sed 's|checks/||;s|.json||' | xargs -P $jobs -I{} bash -c \
  "s=\$(date +%s); ./check {} --tier $tier > .build/runall/{}.log 2>&1; rc=\$?; echo \"{} rc=\$rc \$(( \$(date +%s)-s ))s \$(grep -c '^VIOLATION' .build/runall/{}.log) violations; \$(grep -c '^KNOWN-FINDING' .build/runall/{}.log) known\""

#!/bin/bash
# tools/seed_matrix.sh [tier] — run every seeded change whose property has a check; write seeded/RESULTS.md
cd "$(dirname "$0")/.."
tier=${1:-quick}
out=seeded/RESULTS.md
echo "# Seeded changes vs. checks ($tier tier, $(date -u +%FT%TZ), /repo $(git -C /repo rev-parse --short HEAD), /verif $(git rev-parse --short HEAD))" > $out.tmp
echo >> $out.tmp
echo "| seed | property | result | how it was reported |" >> $out.tmp
echo "|---|---|---|---|" >> $out.tmp
for d in seeded/*/; do
  name=$(basename $d); [ -f $d/meta.json ] || continue
  prop=$(python3 -c "import json;print(json.load(open('$d/meta.json'))['property'])")
  obs=$(python3 -c "import json;print(json.load(open('$d/meta.json')).get('obsolete','')[:160])")
  if [ -n "$obs" ]; then echo "| $name | $prop | OBSOLETE (no longer breaks the property on HEAD) | $obs |" >> $out.tmp; echo "OBSOLETE $name"; continue; fi
  if [ ! -f checks/$prop.json ]; then echo "| $name | $prop | no check yet | |" >> $out.tmp; continue; fi
  r=$(tools/run_seeded.sh $name $tier 2>&1)
  line=$(echo "$r" | grep -E "DETECTED|MISSED|PATCH" | head -1)
  how=$(echo "$r" | grep '^\[check\]' | head -2 | tr '\n' ' ' | cut -c1-300 | sed 's/|/\\|/g')
  echo "| $name | $prop | ${line%% *} $(echo $line | grep -o 'no-failing-input-found') | $how |" >> $out.tmp
  echo "$line"
done
mv $out.tmp $out

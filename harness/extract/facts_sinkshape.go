package main

// SinkShape (C09): the order of the steps of snapshot/sink.go (*Sink).Close and where the
// full-needed requirement is examined.

import (
	"go/ast"
	"strings"
)

func init() {
	register("SinkShape", func(x *X) {
		x.Comment("snapshot/sink.go (*Sink).Close: the state-changing steps in source order")
		var steps []string
		if fd := x.Func("snapshot", "Sink", "Close"); fd != nil {
			ast.Inspect(fd.Body, func(n ast.Node) bool {
				c, ok := n.(*ast.CallExpr)
				if !ok {
					return true
				}
				src := x.Src(c)
				switch {
				case strings.HasPrefix(src, "s.stc.DueNext("):
					steps = append(steps, "recheck-DueNext")
				case strings.HasPrefix(src, "os.Rename(s.localWALDir,"):
					steps = append(steps, "rename-waldir-into-tmp")
				case strings.Contains(src, ".MoveWALFilesTo(s.snapTmpDirPath)"):
					steps = append(steps, "move-wal-files")
				case src == "s.sinkW.Close()":
					steps = append(steps, "fullsink-close")
				case strings.HasPrefix(src, "writeMeta(s.snapTmpDirPath,"):
					steps = append(steps, "write-meta")
				case src == "os.Rename(s.snapTmpDirPath, s.snapDirPath)":
					steps = append(steps, "rename-tmp-to-final")
				case src == "s.stc.SetDueNext(Incremental)":
					steps = append(steps, "clear-full-needed")
				}
				return true
			})
		}
		x.DefStrings("closeSteps", steps)

		x.Comment("(*Sink).Write, IncrementalFile header case: is s.stc.DueNext() == Full refused?")
		var gate, found bool
		if fd := x.Func("snapshot", "Sink", "Write"); fd != nil {
			ast.Inspect(fd.Body, func(n ast.Node) bool {
				cc, ok := n.(*ast.CaseClause)
				if !ok || len(cc.List) != 1 || x.Src(cc.List[0]) != "*proto.SnapshotHeader_IncrementalFile" {
					return true
				}
				found = true
				for _, st := range cc.Body {
					if is, ok := st.(*ast.IfStmt); ok && len(x.Calls(is, "DueNext")) == 1 {
						ast.Inspect(is, func(m ast.Node) bool {
							if in, ok := m.(*ast.IfStmt); ok && x.Src(in.Cond) == "dueNext == Full" {
								for _, b := range in.Body.List {
									if _, ok := b.(*ast.ReturnStmt); ok {
										gate = true
									}
								}
							}
							return true
						})
					}
				}
				return false
			})
		}
		x.DefOptBool("writeGateRefusesIncrementalWhenFullDue", gate, found)
	})
}

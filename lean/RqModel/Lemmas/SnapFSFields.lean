/-
Executor operations (complete or interrupted) change only directories and the name list:
REAP_PLAN, REAP_PLAN.tmp and FULL_NEEDED are untouched. Used by C07 and C09.
-/
import RqModel.Lemmas.SnapFS
set_option linter.unusedSimpArgs false
set_option linter.unusedVariables false
namespace RqModel.SnapFS
variable {D : Type}

/-- `t` has the same plan file, plan temp file and full-needed flag as `s` -/
def Same (s t : FS D) : Prop := t.plan = s.plan ∧ t.planTmp = s.planTmp ∧ t.fullNeeded = s.fullNeeded

theorem Same.rfl' (s : FS D) : Same s s := ⟨rfl, rfl, rfl⟩
theorem Same.trans' {s t u : FS D} (h1 : Same s t) (h2 : Same t u) : Same s u :=
  ⟨h2.1.trans h1.1, h2.2.1.trans h1.2.1, h2.2.2.trans h1.2.2⟩

theorem same_set (s : FS D) (n d) : Same s (s.set n d) := ⟨rfl, rfl, rfl⟩

theorem same_modify (s : FS D) (n f) : Same s (s.modify n f) := by
  unfold FS.modify; split
  · exact same_set _ _ _
  · exact Same.rfl' s

theorem same_moveWal (s : FS D) (q : Nat × Nat) (n : Nat) : Same s (moveWal s q n) :=
  ⟨(moveWal_fields s q n).2.1, (moveWal_fields s q n).2.2.1, (moveWal_fields s q n).2.2.2⟩

theorem same_ckptRemove (A : DbAlg D) (n : Nat) (t t' : FS D) (ht : ckptRemove A t n = .ok t') : Same t t' := by
  unfold ckptRemove at ht
  split at ht
  · split at ht
    · cases ht; exact same_set _ _ _
    · cases ht
    · cases ht; exact Same.rfl' _
  · cases ht

theorem same_ckptLoop (A : DbAlg D) (n : Nat) :
    ∀ l (t t' : FS D), ckptLoop A n l t = .ok t' → Same t t' := by
  intro l
  induction l with
  | nil => intro t t' ht; cases ht; exact Same.rfl' _
  | cons q l ih =>
    intro t t' ht
    simp only [ckptLoop] at ht
    cases h1 : ckptRemove A (moveWal t q n) n with
    | error e => rw [h1] at ht; cases ht
    | ok t1 =>
      rw [h1] at ht
      exact ((same_moveWal t q n).trans' (same_ckptRemove A n _ _ h1)).trans' (ih t1 t' ht)

theorem execOp_same (A : DbAlg D) (s s' : FS D) (o : Op) (h : execOp A s o = .ok s') : Same s s' := by
  cases o with
  | checkpoint n ws =>
    simp only [execOp, execCheckpoint] at h
    split at h
    · cases h
    · rename_i s1 hs1
      have e1 : Same s s1 := by
        split at hs1
        · exact same_ckptRemove A n _ _ hs1
        · cases hs1; exact Same.rfl' _
      split at h
      · cases h; exact e1
      · split at h
        · cases h
        · exact e1.trans' (same_ckptLoop A n _ _ _ h)
  | calcCrc n =>
    simp only [execOp] at h
    split at h
    · split at h
      · cases h; exact same_set _ _ _
      · cases h
    · cases h
  | removeAll n => cases h; exact same_set _ _ _
  | writeMeta n m => simp only [execOp] at h; cases h; exact same_modify _ _ _
  | verifyDb n =>
    simp only [execOp] at h
    split at h
    · cases h; exact same_modify _ _ _
    · cases h
  | rename a b =>
    simp only [execOp] at h
    split at h
    · split at h
      · cases h; exact ⟨rfl, rfl, rfl⟩
      · cases h
    · split at h
      · cases h; exact Same.rfl' _
      · cases h

theorem execOps_same (A : DbAlg D) : ∀ (ops : List Op) (s s' : FS D), execOps A ops s = .ok s' → Same s s' := by
  intro ops
  induction ops with
  | nil => intro s s' h; cases h; exact Same.rfl' _
  | cons o ops ih =>
    intro s s' h
    simp only [execOps] at h
    cases h1 : execOp A s o with
    | error e => rw [h1] at h; cases h
    | ok s1 => rw [h1] at h; exact (execOp_same A s s1 o h1).trans' (ih s1 s' h)

theorem same_ckptLoopCut (A : DbAlg D) (n stage : Nat) :
    ∀ l j (t : FS D), Same t (ckptLoopCut A n l j stage t) := by
  intro l
  induction l with
  | nil => intro j t; exact Same.rfl' _
  | cons q l ih =>
    intro j t
    cases j with
    | zero =>
      simp only [ckptLoopCut]
      split
      · exact Same.rfl' _
      · split
        · exact same_moveWal _ _ _
        · exact (same_moveWal _ _ _).trans' (same_modify _ _ _)
    | succ j =>
      simp only [ckptLoopCut]
      cases h1 : ckptRemove A (moveWal t q n) n with
      | error e => exact same_moveWal _ _ _
      | ok t1 => exact ((same_moveWal _ _ _).trans' (same_ckptRemove A n _ _ h1)).trans' (ih j t1)

theorem partialOp_same (A : DbAlg D) (s : FS D) (o : Op) (cut : OpCut) : Same s (partialOp A s o cut) := by
  cases o <;> cases cut <;> simp only [partialOp] <;> first | exact Same.rfl' _ | exact same_modify _ _ _ | skip
  rename_i n ws lo j stage
  split
  · exact same_modify _ _ _
  · split
    · exact Same.rfl' _
    · rename_i s1 hs1
      have e1 : Same s s1 := by
        split at hs1
        · exact same_ckptRemove A n _ _ hs1
        · cases hs1; exact Same.rfl' _
      split
      · exact e1
      · split
        · exact e1
        · exact e1.trans' (same_ckptLoopCut A n stage _ _ _)

theorem runCut_same (A : DbAlg D) (ops : List Op) (cut : OpCut) :
    ∀ (k : Nat) (s : FS D), Same s (runCut A ops k cut s) := by
  induction ops with
  | nil => intro k s; cases k <;> exact Same.rfl' _
  | cons o ops ih =>
    intro k s
    cases k with
    | zero => exact partialOp_same A s o cut
    | succ k =>
      simp only [runCut]
      cases h : execOp A s o with
      | error e => exact Same.rfl' _
      | ok s' => exact (execOp_same A s s' o h).trans' (ih k s')

/-- a reap never touches FULL_NEEDED -/
theorem reap_fullNeeded (A : DbAlg D) (s s' : FS D) (nn : Nat) (v : Bool) (h : reap A s nn v = .ok s') :
    s'.fullNeeded = s.fullNeeded := by
  unfold reap at h
  split at h
  · split at h
    · rename_i p _ s1 h1
      cases h
      exact (execOps_same A _ _ _ h1).2.2
    · cases h
  · split at h
    · cases h
    · split at h
      · cases h
      · cases h; rfl
      · split at h
        · rename_i s1 h1
          cases h
          exact (execOps_same A _ _ _ h1).2.2
        · cases h

/-- nor does Store.check -/
theorem check_fullNeeded (A : DbAlg D) (s s' : FS D) (h : check A s = .ok s') : s'.fullNeeded = s.fullNeeded := by
  unfold check at h
  simp only at h
  split at h
  · cases h; rfl
  · split at h
    · cases h; rfl
    · split at h
      · rename_i s1 h1
        cases h
        exact (execOps_same A _ _ _ h1).2.2
      · cases h

end RqModel.SnapFS

package db

// C15: the breaking-PRAGMA guard.
//  (1) correspondence: the real IsBreakingPragma vs the Lean model `pragma`
//      (RqModel/Model/Pragma.lean) on SQL texts generated from a grammar of PRAGMA
//      forms, on mutations of those texts and on random bytes;
//  (2) the property itself, judged by real SQLite: every generated text is executed
//      on the write connection of a scratch database opened the way rqlite opens
//      it; the settings (synchronous, query_only, wal_autocheckpoint, journal_mode)
//      are read back and checkpoint activity is detected from the database/WAL
//      files. A text that changed anything must have been refused by the guard.

import (
	"fmt"
	"os"
	"strings"
	"testing"
)

type c15Text struct {
	sql      string
	features []string // which dimensions of the grammar the text uses (for the failure signature)
}

var (
	c15Critical = map[string][]string{
		"synchronous":        {"1", "2", "3", "NORMAL", "FULL", "EXTRA", "'1'", "+1"},
		"query_only":         {"1", "true", "ON", "'yes'"},
		"wal_autocheckpoint": {"7", "1000", "1"},
		"journal_mode":       {"DELETE", "TRUNCATE", "MEMORY", "OFF", "'persist'"},
		"wal_checkpoint":     {"PASSIVE", "FULL", "RESTART", "TRUNCATE"},
	}
	c15CriticalNames = []string{"synchronous", "query_only", "wal_autocheckpoint", "journal_mode", "wal_checkpoint"}
	c15Harmless      = []string{"foreign_keys", "cache_size", "user_version", "table_info", "busy_timeout", "synchronousx", "xsynchronous"}
	c15Fillers       = []string{" ", " ", "  ", "\t", "\n", "\r\n", "\f", " \v", "\n\v ", "/**/", "/* c */", " /* ; */ ", " -- c\n", "--\n", "/*/ */", "/*/*/", "/***/", "/* /* */", "/*/ ; */ ", "/* * / */", "/*--*/"}
)

func c15Case(r *vfRng, s string) string {
	switch r.Intn(4) {
	case 0:
		return strings.ToUpper(s)
	case 1:
		return strings.ToLower(s)
	case 2:
		b := []byte(s)
		for i := range b {
			if r.Bool() {
				b[i] = strings.ToUpper(string(b[i]))[0]
			}
		}
		return string(b)
	}
	return s
}

func c15Quote(r *vfRng, s string, feats *[]string) string {
	switch r.Intn(9) {
	case 0:
		*feats = append(*feats, "quoted-name")
		return `"` + s + `"`
	case 1:
		*feats = append(*feats, "quoted-name")
		return "`" + s + "`"
	case 2:
		*feats = append(*feats, "quoted-name")
		return "[" + s + "]"
	case 3:
		*feats = append(*feats, "quoted-name")
		return "'" + s + "'"
	}
	return s
}

func c15Fill(r *vfRng, must bool, feats *[]string) string {
	if !must && r.Chance(40) {
		return ""
	}
	f := r.Pick(c15Fillers)
	if strings.Contains(f, "*") || strings.Contains(f, "--") {
		*feats = append(*feats, "comment")
	} else if f != " " {
		*feats = append(*feats, "whitespace")
	}
	return f
}

// c15Pragma renders one PRAGMA statement; dangerous says whether it is meant to change a critical setting
func c15Pragma(r *vfRng, feats *[]string) (sql string, name string) {
	var b strings.Builder
	kw := c15Case(r, "PRAGMA")
	if kw != "PRAGMA" {
		*feats = append(*feats, "case")
	}
	b.WriteString(kw)
	// a word must be separated from the next word; a quoted name need not be
	sep := c15Fill(r, true, feats)
	critical := r.Chance(80)
	if critical {
		name = r.Pick(c15CriticalNames)
	} else {
		name = r.Pick(c15Harmless)
	}
	var target strings.Builder
	if r.Chance(45) {
		*feats = append(*feats, "schema-prefix")
		sch := c15Quote(r, c15Case(r, r.Pick([]string{"main", "main", "main", "temp"})), feats)
		target.WriteString(sch)
		target.WriteString(c15Fill(r, false, feats))
		target.WriteString(".")
		target.WriteString(c15Fill(r, false, feats))
	}
	n := c15Case(r, name)
	if n != name {
		*feats = append(*feats, "case")
	}
	target.WriteString(c15Quote(r, n, feats))
	ts := target.String()
	if ts[0] == '"' || ts[0] == '`' || ts[0] == '[' || ts[0] == '\'' {
		if r.Chance(50) {
			sep = "" // PRAGMA"synchronous"=1 is valid SQL
			*feats = append(*feats, "no-space-after-keyword")
		}
	}
	b.WriteString(sep)
	b.WriteString(ts)
	vals := c15Critical[name]
	if vals == nil {
		vals = []string{"1", "0", "100"}
	}
	switch r.Intn(10) {
	case 0: // read form
		*feats = append(*feats, "read-form")
	case 1, 2, 3, 4:
		*feats = append(*feats, "call-syntax")
		b.WriteString(c15Fill(r, false, feats))
		b.WriteString("(")
		b.WriteString(c15Fill(r, false, feats))
		b.WriteString(r.Pick(vals))
		b.WriteString(c15Fill(r, false, feats))
		b.WriteString(")")
	default:
		b.WriteString(c15Fill(r, false, feats))
		b.WriteString("=")
		b.WriteString(c15Fill(r, false, feats))
		b.WriteString(r.Pick(vals))
	}
	return b.String(), name
}

func c15Gen(r *vfRng) c15Text {
	var feats []string
	var b strings.Builder
	// what precedes the statement
	switch r.Intn(12) {
	case 0:
		b.WriteString(c15Fill(r, true, &feats))
	case 1:
		feats = append(feats, "bom")
		b.WriteString("\xef\xbb\xbf")
	case 2, 3, 4:
		feats = append(feats, "multi-statement")
		b.WriteString(r.Pick([]string{"SELECT 1;", "SELECT 'a;b' ;", "CREATE TABLE IF NOT EXISTS zz(a); ", ";;", "INSERT INTO foo(v) VALUES('x');\n", "SELECT \"q\"\"q\" FROM foo; -- c\n", "SELECT 1 /* ; */;"}))
		b.WriteString(c15Fill(r, false, &feats))
	case 5:
		feats = append(feats, "explain")
		b.WriteString(c15Case(r, "EXPLAIN"))
		b.WriteString(c15Fill(r, true, &feats))
		if r.Bool() {
			b.WriteString(c15Case(r, "QUERY") + c15Fill(r, true, &feats) + c15Case(r, "PLAN") + c15Fill(r, true, &feats))
		}
	}
	p, _ := c15Pragma(r, &feats)
	// occasionally hide the statement where it is not executed
	switch r.Intn(14) {
	case 0:
		feats = append(feats, "inside-string")
		b.WriteString("SELECT '" + strings.ReplaceAll(p, "'", "''") + "'")
	case 1:
		feats = append(feats, "inside-comment")
		b.WriteString("/* " + strings.ReplaceAll(p, "*/", "* /") + " */ SELECT 1")
	case 2:
		feats = append(feats, "inside-line-comment")
		b.WriteString("-- " + strings.ReplaceAll(p, "\n", " ") + "\nSELECT 1")
	case 3:
		feats = append(feats, "not-at-statement-start")
		b.WriteString("SELECT 1 " + p)
	default:
		b.WriteString(p)
	}
	switch r.Intn(6) {
	case 0:
		b.WriteString(";")
	case 1:
		b.WriteString("; SELECT 1")
	case 2:
		b.WriteString(" -- tail")
	}
	return c15Text{sql: b.String(), features: feats}
}

func c15Mutate(r *vfRng, s string) string {
	b := []byte(s)
	if len(b) == 0 {
		return s
	}
	pool := []byte(" \t\n;'\"`[].=()-/*\\x00pragmPRAGM_$1\xc2\xa0\x0b")
	for k := 0; k < 1+r.Intn(2); k++ {
		i := r.Intn(len(b))
		switch r.Intn(3) {
		case 0:
			b = append(b[:i], b[i+1:]...)
		case 1:
			b = append(b[:i], append([]byte{pool[r.Intn(len(pool))]}, b[i:]...)...)
		default:
			b[i] = pool[r.Intn(len(pool))]
		}
		if len(b) == 0 {
			break
		}
	}
	return string(b)
}

// ---- real SQLite ----------------------------------------------------------------------

func c15ReadInt(db *DB, q string) string {
	r, err := db.RequestStringStmts([]string{q})
	if err != nil || len(r) != 1 || r[0].GetQ() == nil {
		return "?"
	}
	rows := r[0].GetQ()
	if rows.Error != "" || len(rows.Values) == 0 || len(rows.Values[0].Parameters) == 0 {
		return "?"
	}
	p := rows.Values[0].Parameters[0]
	return fmt.Sprintf("%d%s", p.GetI(), p.GetS())
}

func c15JournalMode(db *DB) string {
	r, err := db.QueryStringStmt("PRAGMA journal_mode")
	if err != nil || len(r) != 1 || len(r[0].Values) == 0 {
		return "?"
	}
	return r[0].Values[0].Parameters[0].GetS()
}

func c15Size(p string) int64 {
	st, err := os.Stat(p)
	if err != nil {
		return -1
	}
	return st.Size()
}

type c15State struct {
	sync, queryOnly, autockpt, jmode string
	dbSize, walSize                  int64
}

func c15Observe(db *DB, path string) c15State {
	return c15State{
		sync:      c15ReadInt(db, "PRAGMA synchronous"),
		queryOnly: c15ReadInt(db, "PRAGMA query_only"),
		autockpt:  c15ReadInt(db, "PRAGMA wal_autocheckpoint"),
		jmode:     c15JournalMode(db),
		dbSize:    c15Size(path),
		walSize:   c15Size(path + "-wal"),
	}
}

// c15Effect executes the text on the write connection of a fresh database and reports what changed
func c15Effect(t *testing.T, sql string, viaRequest bool) (changed []string, execErr string) {
	path := mustTempFile()
	defer os.Remove(path)
	defer os.Remove(path + "-wal")
	defer os.Remove(path + "-shm")
	db, err := Open(path, false, true)
	if err != nil {
		t.Fatalf("open scratch database: %v", err)
	}
	defer db.Close()
	if _, err := db.ExecuteStringStmt("CREATE TABLE foo(id INTEGER PRIMARY KEY, v TEXT)"); err != nil {
		t.Fatalf("scratch setup: %v", err)
	}
	db.ExecuteStringStmt("INSERT INTO foo(v) VALUES('a')")
	before := c15Observe(db, path)
	if viaRequest {
		r, err := db.RequestStringStmts([]string{sql})
		if err != nil {
			execErr = err.Error()
		} else if len(r) > 0 && r[0].GetError() != "" {
			execErr = r[0].GetError()
		}
	} else {
		r, err := db.ExecuteStringStmt(sql)
		if err != nil {
			execErr = err.Error()
		} else if len(r) > 0 && r[0].GetError() != "" {
			execErr = r[0].GetError()
		}
	}
	after := c15Observe(db, path)
	if before.sync != after.sync {
		changed = append(changed, fmt.Sprintf("synchronous %s->%s", before.sync, after.sync))
	}
	if before.queryOnly != after.queryOnly {
		changed = append(changed, fmt.Sprintf("query_only %s->%s", before.queryOnly, after.queryOnly))
	}
	if before.autockpt != after.autockpt {
		changed = append(changed, fmt.Sprintf("wal_autocheckpoint %s->%s", before.autockpt, after.autockpt))
	}
	if before.jmode != after.jmode {
		changed = append(changed, fmt.Sprintf("journal_mode %s->%s", before.jmode, after.jmode))
	}
	// a checkpoint moves pages from the WAL into the database file (and TRUNCATE empties the WAL);
	// statements of the generator that write (INSERT / CREATE TABLE) only ever grow the WAL
	if after.dbSize > before.dbSize {
		changed = append(changed, fmt.Sprintf("checkpoint: database file %d->%d bytes", before.dbSize, after.dbSize))
	}
	if after.walSize < before.walSize {
		changed = append(changed, fmt.Sprintf("checkpoint: WAL %d->%d bytes", before.walSize, after.walSize))
	}
	return changed, execErr
}

var c15FeaturePriority = []string{"explain", "call-syntax", "quoted-name", "comment", "multi-statement", "bom", "schema-prefix", "no-space-after-keyword", "whitespace", "case"}

func c15Class(feats []string) string {
	has := map[string]bool{}
	for _, f := range feats {
		has[f] = true
	}
	for _, f := range c15FeaturePriority {
		if has[f] {
			return f
		}
	}
	return "plain"
}

// c15FeaturesOf classifies a hand-written text by the grammar dimensions it uses
func c15FeaturesOf(s string) []string {
	feats := []string{"directed"}
	u := strings.ToUpper(s)
	if strings.Contains(u, "EXPLAIN") {
		feats = append(feats, "explain")
	}
	if strings.Contains(s, "(") {
		feats = append(feats, "call-syntax")
	}
	if strings.ContainsAny(s, "\"`['") {
		feats = append(feats, "quoted-name")
	}
	if strings.Contains(s, "/*") || strings.Contains(s, "--") {
		feats = append(feats, "comment")
	}
	if strings.Contains(strings.TrimRight(s, "; "), ";") {
		feats = append(feats, "multi-statement")
	}
	if strings.HasPrefix(s, "\xef\xbb\xbf") {
		feats = append(feats, "bom")
	}
	if strings.Contains(s, ".") {
		feats = append(feats, "schema-prefix")
	}
	return feats
}

func TestVerifC15(t *testing.T) {
	rep := vfNewReport("C15", "SQL texts from a grammar of PRAGMA forms: optional prefix (whitespace, comments, byte-order mark, one of several preceding statements, EXPLAIN [QUERY PLAN]), keyword in any case, fillers between tokens (spaces, tabs, newlines, form feed, block and line comments), optional schema prefix (main/temp, any case and quoting, fillers around the dot), one of the 5 critical names or a harmless one in any case and quoting, '=' / call syntax / read form with several values, optional suffix; some texts hide the statement in a string or comment or away from the statement start; plus 1-2 character mutations of such texts and random bytes (guard correspondence only). Non-trivial when real SQLite changed a setting or ran a checkpoint; distinct by the text")
	defer rep.Write()
	r := vfNewRng(15)

	var texts []c15Text
	// directed: the spellings recorded in the design pass, the package's own test strings
	for _, s := range []string{"PRAGMA synchronous(1)", "PRAGMA query_only(1)", "PRAGMA main.wal_autocheckpoint=7", "/* c */ PRAGMA synchronous=2",
		"SELECT 1; PRAGMA synchronous=1", `PRAGMA "synchronous"=3`, "PRAGMA main . synchronous = 2", "PRAGMA/**/wal_checkpoint(TRUNCATE)",
		"EXPLAIN PRAGMA synchronous=1", "EXPLAIN QUERY PLAN PRAGMA query_only=1", "PRAGMA wal_checkpoint", "PRAGMA synchronous=1", "PRAGMA synchronous",
		"\xef\xbb\xbfPRAGMA synchronous=1", "PRAGMA synchronous\x00=3", "PRAGMA\x0bsynchronous=3",
		"PRAGMA \x0bsynchronous=3", "PRAGMA main\f\x0b.synchronous(1)", "PRAGMA synchronous \x0b= 2", "\n\x0bPRAGMA query_only=1",
		// comments whose body starts or ends with the delimiter's own characters (SQLite: a comment runs to the next */ after the opening /*)
		"/*/ */ PRAGMA journal_mode=DELETE", "/*/ c */PRAGMA main.synchronous=2", "SELECT 1; /*/*/ pragma Query_Only(1)", "/***/PRAGMA wal_autocheckpoint=7", "/* /* */ PRAGMA synchronous=1", "PRAGMA/*/ */synchronous=2"} {
		texts = append(texts, c15Text{sql: s, features: c15FeaturesOf(s)})
	}
	n := vfScale(900, 40000)
	for i := 0; i < n; i++ {
		texts = append(texts, c15Gen(r))
	}
	nm := vfScale(300, 15000)
	for i := 0; i < nm; i++ {
		g := c15Gen(r)
		texts = append(texts, c15Text{sql: c15Mutate(r, g.sql), features: append(g.features, "mutated")})
	}

	// (1) correspondence on everything, plus random bytes
	var ops, impl []string
	for _, tx := range texts {
		ops = append(ops, "guard "+vfHex(tx.sql))
		impl = append(impl, vfBool(IsBreakingPragma(tx.sql)))
	}
	for i := 0; i < vfScale(2000, 50000); i++ {
		var s string
		if i%2 == 0 {
			s = string(r.Bytes(r.Intn(40)))
		} else {
			alphabet := "pragmaPRAGMA synchronous query_only wal_checkpoint ;.=()'\"`[]-/*\n\t\x00\xef\xbb\xbf"
			b := make([]byte, r.Intn(60))
			for j := range b {
				b[j] = alphabet[r.Intn(len(alphabet))]
			}
			s = string(b)
		}
		ops = append(ops, "guard "+vfHex(s))
		impl = append(impl, vfBool(IsBreakingPragma(s)))
		rep.Count("random-text")
	}
	rep.vfCompare("pragma", ops, impl, nil)

	// (2) the property, judged by real SQLite
	for i, tx := range texts {
		refused := IsBreakingPragma(tx.sql)
		changed, execErr := c15Effect(t, tx.sql, i%3 == 2)
		rep.Case(tx.sql, len(changed) > 0)
		cls := c15Class(tx.features)
		rep.Count("class:" + cls)
		switch {
		case len(changed) > 0 && refused:
			rep.Count("took-effect-and-refused-by-guard")
		case len(changed) > 0 && !refused:
			rep.Count("took-effect-and-ACCEPTED")
			rep.Fail("accepted-but-takes-effect:"+cls, fmt.Sprintf("%q is accepted by IsBreakingPragma, yet on the write connection it caused: %s", tx.sql, strings.Join(changed, "; ")),
				map[string]interface{}{"sql": tx.sql, "sql_hex": vfHex(tx.sql), "features": tx.features, "effect": changed, "exec_error": execErr})
		case refused:
			rep.Count("refused-without-observable-effect")
		default:
			rep.Count("accepted-no-effect")
		}
		if i < 4 {
			rep.Sample(map[string]interface{}{"sql": tx.sql, "refused_by_guard": refused, "effect_on_real_sqlite": changed, "exec_error": execErr})
		}
	}
}

/-
C33  Manual recovery keeps all applied data and starts with exactly the peers-file
configuration.

Property theorems over RqModel/Model/StoreSM.lean (`openNode` with a peers file =
`Store.Open` → `RecoverNode` → normal start; invariants in RqModel/Lemmas/StoreSM.lean).
The node that is recovered is ANY node reachable by writes, loads, boots, snapshots with
any number of trailing logs and restarts, stopped at ANY point — cleanly, with or without
the snapshot on close, or by a crash half-way through a snapshot.
Tied to the code by the C33 differential run on real stores (incl. foreign-key schemas)
and the regenerated facts about `recoverNode` and `Open`.
-/
import RqModel.Props.C22
namespace C33
open RqModel.StoreSM

/-- the ways a node can go down before the operator writes the peers file -/
inductive Down where
  | crash                      -- kill, power loss: whatever is durable stays
  | close (snapOnClose : Bool)
  | midSnapshot (k : Nat)      -- crash after the k-th micro-step of a snapshot (0…4)
deriving Repr

def snapPrefix (n : Node) : Nat → Node
  | 0 => n
  | 1 => snapCheckpoint n
  | 2 => snapPersist (snapCheckpoint n)
  | 3 => snapInstall (snapPersist (snapCheckpoint n))
  | _ => snapFingerprint (snapInstall (snapPersist (snapCheckpoint n)))

def goDown (n : Node) : Down → Node
  | .crash => crash n
  | .close s => closeNode n s
  | .midSnapshot k => crash (snapPrefix n k)

/-- going down keeps the durable invariant and does not change what the durable state
stands for -/
theorem goDown_spec {n : Node} (g : C22.Good n) (dn : Down) :
    DurInv (goDown n dn) ∧ truth (goDown n dn) = n.live ∧ (goDown n dn).hist = n.hist ∧
    (goDown n dn).peersFile = none := by
  obtain ⟨h, q⟩ := g
  cases dn with
  | crash => exact ⟨durInv_crash h, by show truth (crash n) = _; rw [truth_crash]; exact q.live.symm, rfl, q.nopeers⟩
  | close s =>
    cases s with
    | false => exact ⟨durInv_crash h, by show truth (crash n) = _; rw [truth_crash]; exact q.live.symm, rfl, q.nopeers⟩
    | true =>
      obtain ⟨h', q', ht, hh, _⟩ := snapshot_spec h q 0
      exact ⟨durInv_crash h', by show truth (crash (snapshot n 0)) = _; rw [truth_crash, ht]; exact q.live.symm,
        hh, q'.nopeers⟩
  | midSnapshot k =>
    have h1 := durInv_snapCheckpoint h
    have h2 := durInv_snapPersist h1
    have m2 := midSnap_persist q.snapPre
    have h3 := durInv_snapInstall h2 m2
    have p3 := postInstall m2
    have h4 := durInv_snapFingerprint h3 p3
    have t3 : truth (snapInstall (snapPersist (snapCheckpoint n))) = n.live := truth_install m2
    have hin := snapInstall_eq m2
    match k with
    | 0 => exact ⟨durInv_crash h, by show truth (crash n) = _; rw [truth_crash]; exact q.live.symm, rfl, q.nopeers⟩
    | 1 => exact ⟨durInv_crash h1, by show truth (crash (snapCheckpoint n)) = _; rw [truth_crash]; exact q.live.symm, rfl, q.nopeers⟩
    | 2 => exact ⟨durInv_crash h2, by show truth (crash (snapPersist (snapCheckpoint n))) = _; rw [truth_crash]; exact q.live.symm, rfl, q.nopeers⟩
    | 3 => exact ⟨durInv_crash h3, by show truth (crash (snapInstall _)) = _; rw [truth_crash, t3],
        by show (snapInstall _).hist = _; rw [hin]; rfl, by show (snapInstall _).peersFile = _; rw [hin]; exact q.nopeers⟩
    | (k + 4) => exact ⟨durInv_crash h4, by show truth (crash (snapFingerprint (snapInstall _))) = _; rw [truth_crash]; exact t3,
        by show (snapFingerprint (snapInstall _)).hist = _; rw [snapFingerprint, hin]; rfl,
        by show (snapFingerprint (snapInstall _)).peersFile = _; rw [snapFingerprint, hin]; exact q.nopeers⟩

/-- **recover_keeps_applied.** For every history, every way of going down and every peers
file: after `Open` the node serves exactly the database it had applied, its snapshot
store holds ONE new snapshot of that database at the last index, the log has been deleted
(everything it held is inside that snapshot), and the peers file has been consumed. -/
theorem recover_keeps_applied (hist : List C22.Op) (dn : Down) (peers : Config) (hv : checkConfig peers = true) :
    let n := C22.run {} hist
    let r := openNode { goDown n dn with peersFile := some peers }
    r.live = n.live ∧
    r.snap = some (n.hist.length, n.live) ∧
    r.logStart = n.hist.length ∧ r.hist = n.hist ∧
    r.peersFile = none ∧ C22.Good r := by
  intro n r
  have g := C22.good_run C22.good_init hist
  obtain ⟨hd, ht, hh, _⟩ := goDown_spec g dn
  have hd' : DurInv { goDown n dn with peersFile := some peers } := ⟨hd.snap_le, hd.nosnap, hd.fp_ok, hd.fp_le⟩
  have ht' : truth { goDown n dn with peersFile := some peers } = n.live := ht
  obtain ⟨a, b, c, _, e, f, gq, _, i⟩ := open_recover_truth hd' peers rfl hv
  refine ⟨by rw [a, ht'], ?_, ?_, ?_, e, f, gq⟩
  · rw [b, ht']; show some ((goDown n dn).hist.length, n.live) = _; rw [hh]
  · rw [c]; show (goDown n dn).hist.length = _; rw [hh]
  · rw [i]; exact hh

/-- **recover_config_is_peers_file**: for EVERY peers file that passes `checkRaftConfiguration`
— voters and non-voters in any number and in any position — the node starts with exactly the
file's configuration: the same entries (id, address, suffrage) in the same order, whatever
configuration it had before. (The validation is a pure test: it cannot change what is installed.) -/
theorem recover_config_is_peers_file (hist : List C22.Op) (dn : Down) (peers : Config) (hv : checkConfig peers = true) :
    (openNode { goDown (C22.run {} hist) dn with peersFile := some peers }).config = peers := by
  have g := C22.good_run C22.good_init hist
  obtain ⟨hd, _, _, _⟩ := goDown_spec g dn
  have hd' : DurInv { goDown (C22.run {} hist) dn with peersFile := some peers } := ⟨hd.snap_le, hd.nosnap, hd.fp_ok, hd.fp_le⟩
  exact (open_recover_truth hd' peers rfl hv).2.2.2.1

/-- **invalid_peers_file_rejected**: a peers file that fails the validation (empty or duplicate id
or address, no voter) makes `Open` fail: the node stays down, the file stays, the configuration
and everything the durable state stands for are untouched; once the file is removed the node
opens with all its data. -/
theorem invalid_peers_file_rejected (hist : List C22.Op) (dn : Down) (peers : Config) (hv : checkConfig peers = false) :
    let n := C22.run {} hist
    let f := openNode { goDown n dn with peersFile := some peers }
    f.up = false ∧ f.peersFile = some peers ∧ f.config = (goDown n dn).config ∧
    (openNode { f with peersFile := none }).live = n.live := by
  intro n f
  have g := C22.good_run C22.good_init hist
  obtain ⟨hd, ht, _, _⟩ := goDown_spec g dn
  have hd' : DurInv { goDown n dn with peersFile := some peers } := ⟨hd.snap_le, hd.nosnap, hd.fp_ok, hd.fp_le⟩
  obtain ⟨e, hdf, htf⟩ := open_invalid_peers hd' peers rfl hv
  have hup : (goDown n dn).up = false := by cases dn <;> rfl
  have hf : f = { goDown n dn with peersFile := some peers, fp := false } := e
  refine ⟨by rw [hf]; exact hup, by rw [hf], by rw [hf], ?_⟩
  have hd2 : DurInv { f with peersFile := none } := by
    rw [hf]; exact ⟨hd.snap_le, hd.nosnap, fun hx => Bool.noConfusion hx, fun hx => Bool.noConfusion hx⟩
  rw [(open_truth hd2 rfl).1]
  show truth f = n.live
  rw [hf]; exact ht

/-- recovery never reuses the database file: even with a matching fingerprint the start-up
after `RecoverNode` restores from the snapshot it created (`openNode` has no fast-path
branch under a peers file), and the recovered node keeps everything through later
operations and restarts -/
theorem recovered_node_continues (hist : List C22.Op) (dn : Down) (peers : Config) (hv : checkConfig peers = true)
    (later : List C22.Op) :
    let r := openNode { goDown (C22.run {} hist) dn with peersFile := some peers }
    (C22.run r later).live = later.foldl C22.effect (C22.run {} hist).live := by
  intro r
  obtain ⟨hl, _, _, _, _, g⟩ := recover_keeps_applied hist dn peers hv
  rw [C22.live_run g, hl]

/-! ### regenerated facts: `recoverNode` and `Open` have the shape the model gives them -/

theorem code_recover_steps :
    RqModel.Gen.StoreOrder.recoverSteps =
      ["checkRaftConfiguration", "sql.RemoveFiles", "sql.RemoveFiles", "snaps.List", "snapshot.Restore",
       "sql.OpenSwappable", "logs.LastIndex", "logs.GetLog", "cmdProc.Process", "db.Checkpoint", "snaps.Create",
       "fsmSnapshot.Persist", "sink.Close", "logs.DeleteRange"] ∧
    RqModel.Gen.StoreOrder.recoverReplayGuard = "entry.Type == raft.LogCommand" ∧
    RqModel.Gen.StoreOrder.recoverSnapshotArgs = "1, lastIndex, lastTerm, conf, 1, tn" := ⟨rfl, rfl, rfl⟩

theorem code_recover_uses_node_fk_setting :
    RqModel.Gen.StoreOrder.recoverOpenFKArg = "fkEnabled" ∧
    RqModel.Gen.StoreOrder.openRecoverFKArg = "s.dbConf.FKConstraints" := ⟨rfl, rfl⟩

theorem code_open_checks_recovery_before_fingerprint :
    RqModel.Gen.StoreOrder.openPeersCheckedBeforeFingerprint = some true ∧
    RqModel.Gen.StoreOrder.openSteps =
      ["snapshot.NewStore", "snapshotStore.Len", "fp.ReadFromFile", "fsutil.ModTimeSize", "snapshotStore.LatestIndexTerm",
       "snapshotStore.LatestIndexTerm", "rlog.New",
       "raft.ReadConfigJSON", "recoverNode", "createDBOnDisk", "os.RemoveAll", "raft.NewRaft"] := ⟨rfl, rfl⟩

/-! ### non-vacuity: a node with a VALID fingerprint and a log tail is recovered -/

def exHist : List C22.Op :=
  [.write (.exec false [.put 1 10]), .snapshot 0, .write (.exec false [.add 1 5, .put 2 7])]

example : (goDown (C22.run {} exHist) .crash).fp = true ∧
          (goDown (C22.run {} exHist) .crash).dbFile = [(1, 10)] := by decide

def exPeers : Config := [⟨"obs", "h:9", false⟩, ⟨"n1", "h:1", true⟩, ⟨"n2", "h:2", true⟩]   -- a non-voter FIRST

example : checkConfig exPeers = true ∧ checkConfig [⟨"n1", "h:1", false⟩] = false ∧
          checkConfig [⟨"n1", "h:1", true⟩, ⟨"n1", "h:2", true⟩] = false := by decide

example : (openNode { goDown (C22.run {} exHist) .crash with peersFile := some exPeers }).live
            = [(1, 15), (2, 7)] ∧
          (openNode { goDown (C22.run {} exHist) .crash with peersFile := some exPeers }).config = exPeers := by decide

end C33

/-
Model of queue/queue.go (C24, used by C23).

The queue is a labelled transition system. Threads: any number of writers
(`Write`, `Flush`), the single `run` goroutine (steps `recv`, `fire`, `send`,
`stop`), one consumer (`consume`, `closeReq`) and `Close`.

* `batchCh` is a FIFO of capacity `maxSize` holding writes and flush markers
  (`nil`). With `maxSize = 0` the channel is unbuffered: a send is a rendezvous
  with the loop's receive, modelled as enqueue immediately followed by `recv`.
* `Write` takes `seqMu`, increments `seqNum` and sends to `batchCh` before it
  unlocks (LockDiscipline fact), so "number assigned" and "enqueued" are one
  atomic step, enabled only when the channel has room. The `q.done` check sits
  BEFORE the lock; a write that passed the check and then lost the race with
  `Close` is the step `writeLate`.
* `run`: `recv` takes the head of `batchCh`; a marker stops the timer and calls
  `writeFn`; a write is appended to `qObjs`, arms the timer when it is the first
  and `timeout ≠ 0`, and when `len(qObjs) == batchSize` stops the timer and
  calls `writeFn`. `fire` is the `<-timer.C` case. `writeFn` merges `qObjs`
  (`mergeQueued`) and sends on `sendCh` (capacity 1): the model parks the merged
  request in `sending` (loop blocked) until the step `send` moves it into the
  free slot `sendCh`. While `sending` is occupied the loop takes no other step.
* the timer may fire at any moment once armed (all timings).
* VALUE SEMANTICS (assumption): a written element list is a value — `W.objs` is what the
  slice held when `Write` was called. The Go code keeps a reference to the caller's slice
  until `mergeQueued` copies it into the request, so a caller that mutates its slice between
  `Write` and the merge is outside the model (rqlite's callers hand over freshly parsed
  slices and never touch them again). After the merge the request owns its elements: the
  harness checks that emitted batches do not alias writers' slices.
* `members` of a request is a ghost field: the writes that were merged into it.
-/
import RqModel.Model.Util
namespace RqModel.Queue
open RqModel.Util

/-- `queuedObjects` -/
structure W where
  seq   : Int
  objs  : List Nat
  flush : Option Nat      -- identity of the flush channel, if any
deriving Repr, DecidableEq

inductive Item where
  | w (x : W)
  | marker
deriving Repr, DecidableEq

/-- `Request` (+ ghost `members`) -/
structure Req where
  seq     : Int
  objs    : List Nat
  flushes : List Nat
  members : List W
deriving Repr, DecidableEq

/-- body of the `for i := range qs` loop of `mergeQueued` -/
def mergeStep (r : Req) (x : W) : Req :=
  { seq := if r.seq < x.seq then x.seq else r.seq
    objs := r.objs ++ x.objs
    flushes := match x.flush with
      | some f => r.flushes ++ [f]
      | none => r.flushes
    members := r.members ++ [x] }

/-- `mergeQueued` -/
def merge (qs : List W) : Option Req :=
  match qs with
  | [] => none
  | q :: _ => some (qs.foldl mergeStep { seq := q.seq, objs := [], flushes := [], members := [] })

structure S where
  maxSize   : Nat
  batchSize : Int
  timeout   : Int
  batchCh   : List Item := []
  qObjs     : List W := []
  timer     : Bool := false
  sending   : Option Req := none
  sendCh    : Option Req := none
  seqNum    : Int := 0
  done      : Bool := false      -- `close(q.done)` happened
  stopped   : Bool := false      -- `run` returned
  -- history (ghost)
  written   : List W := []
  emitted   : List Req := []
  closedReqs : List Nat := []
  closedFlush : List Nat := []
deriving Repr

def mk (maxSize : Nat) (batchSize timeout : Int) (seq0 : Int := 0) : S :=
  { maxSize := maxSize, batchSize := batchSize, timeout := timeout, seqNum := seq0 }

/-- `writeFn` closure of `run` -/
def writeFn (s : S) : S :=
  match merge s.qObjs with
  | none => s
  | some r => { s with sending := some r, qObjs := [] }

/-- `case s := <-q.batchCh` -/
def recv (s : S) : Option S :=
  if s.stopped || s.sending.isSome then none else
  match s.batchCh with
  | [] => none
  | .marker :: rest => some (writeFn { s with batchCh := rest, timer := false })
  | .w x :: rest =>
    let q := s.qObjs ++ [x]
    let armed := if q.length = 1 ∧ s.timeout ≠ 0 then true else s.timer
    if (q.length : Int) = s.batchSize then
      some (writeFn { s with batchCh := rest, qObjs := q, timer := false })
    else
      some { s with batchCh := rest, qObjs := q, timer := armed }

/-- a send on `batchCh`: room in the buffer, or (unbuffered) rendezvous with the loop -/
def enqueue (s : S) (s1 : S) : Option S :=
  if s.batchCh.length < s.maxSize then some s1
  else if s.maxSize = 0 ∧ s.batchCh = [] then recv s1
  else none

/-- the part of `Write` under `seqMu` -/
def enq (s : S) (objs : List Nat) (fl : Option Nat) : Option S :=
  let x : W := ⟨s.seqNum + 1, objs, fl⟩
  enqueue s
    { s with seqNum := s.seqNum + 1, batchCh := s.batchCh ++ [.w x], written := s.written ++ [x] }

/-- `Write` -/
def write (s : S) (objs : List Nat) (fl : Option Nat) : Option S :=
  if s.done then none else enq s objs fl

/-- `Flush` -/
def flush (s : S) : Option S :=
  enqueue s { s with batchCh := s.batchCh ++ [.marker] }

/-- `case <-timer.C` -/
def fire (s : S) : Option S :=
  if s.stopped || s.sending.isSome || !s.timer then none
  else some (writeFn { s with timer := false })

/-- the blocked `q.sendCh <- req` completes -/
def send (s : S) : Option S :=
  match s.sending, s.sendCh with
  | some r, none => some { s with sending := none, sendCh := some r }
  | _, _ => none

/-- the consumer receives from `C` -/
def consume (s : S) : Option S :=
  match s.sendCh with
  | some r => some { s with sendCh := none, emitted := s.emitted ++ [r] }
  | none => none

/-- the consumer calls `Close()` on the `i`-th request it received -/
def closeReq (s : S) (i : Nat) : Option S :=
  match s.emitted[i]? with
  | some r => some { s with closedReqs := s.closedReqs ++ [i], closedFlush := s.closedFlush ++ r.flushes }
  | none => none

/-- `Close`: `close(q.done)` -/
def close (s : S) : Option S := some { s with done := true }

/-- `case <-q.done` in `run` -/
def stop (s : S) : Option S :=
  if s.done && !s.stopped && s.sending.isNone then some { s with stopped := true, timer := false } else none

inductive Step where
  | write (objs : List Nat) (fl : Option Nat)
  | writeLate (objs : List Nat) (fl : Option Nat)
  | flush
  | recv
  | fire
  | send
  | consume
  | closeReq (i : Nat)
  | close
  | stop
deriving Repr, DecidableEq

def step (s : S) : Step → Option S
  | .write o f => write s o f
  | .writeLate o f => enq s o f
  | .flush => flush s
  | .recv => recv s
  | .fire => fire s
  | .send => send s
  | .consume => consume s
  | .closeReq i => closeReq s i
  | .close => close s
  | .stop => stop s

/-- a step that is not enabled leaves the state unchanged (stutter) -/
def next (s : S) (st : Step) : S := (step s st).getD s

def run (s : S) (steps : List Step) : S := steps.foldl next s

/-- greedy scheduler used by the driver: consumer first, then the blocked send, then receive -/
def settle : Nat → S → S
  | 0, s => s
  | fuel + 1, s =>
    match consume s with
    | some s' => settle fuel s'
    | none =>
      match send s with
      | some s' => settle fuel s'
      | none =>
        match recv s with
        | some s' => settle fuel s'
        | none => s

/-! ### line protocol
`new <maxSize> <batchSize> <timeout>` → `ok`
`write <o,o,..|-> <flushId|->` → `<seq>` | `blocked` | `closed`
`flush` → `ok` | `blocked`
`recv` / `fire` / `send` / `consume` / `close` / `stop` → `ok` | `disabled`
`closereq <i>` → `closed <ids|->` | `disabled`
`settle` → `ok`
`emitted` → `<seq>:<objs|->:<flushes|->:<nmembers>` joined by `|`, or `-`
`closedflush` → ids | `-` ;  `depth` → len(batchCh) -/

structure DState where
  s : S := mk 0 0 0

def natsStr (xs : List Nat) : String :=
  if xs.isEmpty then "-" else ",".intercalate (xs.map toString)

def reqStr (r : Req) : String :=
  s!"{r.seq}:{natsStr r.objs}:{natsStr r.flushes}:{r.members.length}"

def optStep (d : DState) (r : Option S) : DState × String :=
  match r with
  | some s' => ({ s := s' }, "ok")
  | none => (d, "disabled")

def step' (d : DState) (line : String) : DState × String :=
  match words line with
  | ["new", m, b, t] =>
    match m.toNat?, b.toInt?, t.toInt? with
    | some m, some b, some t => ({ s := mk m b t }, "ok")
    | _, _, _ => (d, "bad-op")
  | ["write", os, f] =>
    let fl : Option (Option Nat) := if f == "-" then some none else f.toNat?.map some
    match natList os, fl with
    | some os, some fl =>
      if d.s.done then (d, "closed") else
      match write d.s os fl with
      | some s' => ({ s := s' }, toString s'.seqNum)
      | none => (d, "blocked")
    | _, _ => (d, "bad-op")
  | ["flush"] =>
    match flush d.s with
    | some s' => ({ s := s' }, "ok")
    | none => (d, "blocked")
  | ["recv"] => optStep d (recv d.s)
  | ["fire"] => optStep d (fire d.s)
  | ["send"] => optStep d (send d.s)
  | ["consume"] => optStep d (consume d.s)
  | ["close"] => optStep d (close d.s)
  | ["stop"] => optStep d (stop d.s)
  | ["closereq", i] =>
    match i.toNat? with
    | some i =>
      match d.s.emitted[i]?, closeReq d.s i with
      | some r, some s' => ({ s := s' }, "closed " ++ natsStr r.flushes)
      | _, _ => (d, "disabled")
    | none => (d, "bad-op")
  | ["settle"] =>
    ({ s := settle (4 * (d.s.batchCh.length + 3)) d.s }, "ok")
  | ["emitted"] =>
    (d, if d.s.emitted.isEmpty then "-" else "|".intercalate (d.s.emitted.map reqStr))
  | ["closedflush"] => (d, natsStr d.s.closedFlush)
  | ["depth"] => (d, toString d.s.batchCh.length)
  | ["pending"] => (d, toString d.s.qObjs.length)
  | _ => (d, "bad-op")

def init : DState := {}

end RqModel.Queue

namespace RqModel.QueueDrv
abbrev DState := RqModel.Queue.DState
def init : DState := RqModel.Queue.init
def step := RqModel.Queue.step'
end RqModel.QueueDrv
--! driver: queue RqModel.QueueDrv

import RqModel.Model.Cdc
namespace C27
open RqModel.Cdc
theorem stub : True := trivial
end C27

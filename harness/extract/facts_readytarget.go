package main

// ReadyTarget: where `Reset()` of the store's index targets is called (C34). Reset drops
// subscribers without waking them, so it matters that it can only run on a store that is
// not open: the extractor records the enclosing function of every `s.<x>Target.Reset()`
// call in store/, whether that function starts (before the first Reset) with
// `if s.open.Is() { return ErrOpen }`, who subscribes, and how often cmd/rqlited opens a store.

import (
	"go/ast"
	"sort"
	"strings"
)

func init() {
	register("ReadyTarget", func(x *X) {
		var resetIn, subscribeIn []string
		guarded := true
		for _, f := range x.Pkg("store") {
			for _, d := range f.Decls {
				fd, ok := d.(*ast.FuncDecl)
				if !ok || fd.Body == nil {
					continue
				}
				name := fd.Name.Name
				if fd.Recv != nil && len(fd.Recv.List) == 1 {
					name = recvName(fd.Recv.List[0].Type) + "." + name
				}
				firstReset, guardIdx := -1, -1
				for i, st := range fd.Body.List {
					if is, ok := st.(*ast.IfStmt); ok && x.Src(is.Cond) == "s.open.Is()" && len(is.Body.List) == 1 {
						if r, ok := is.Body.List[0].(*ast.ReturnStmt); ok && len(r.Results) == 1 && x.Src(r.Results[0]) == "ErrOpen" && guardIdx < 0 {
							guardIdx = i
						}
					}
					ast.Inspect(st, func(n ast.Node) bool {
						c, ok := n.(*ast.CallExpr)
						if !ok {
							return true
						}
						src := x.Src(c.Fun)
						if strings.HasSuffix(src, "Target.Reset") {
							resetIn = append(resetIn, name)
							if firstReset < 0 {
								firstReset = i
							}
						}
						if strings.HasSuffix(src, "Target.Subscribe") {
							subscribeIn = append(subscribeIn, name)
						}
						return true
					})
				}
				if firstReset >= 0 && !(guardIdx >= 0 && guardIdx < firstReset) {
					guarded = false
				}
			}
		}
		sort.Strings(resetIn)
		sort.Strings(subscribeIn)
		opens := 0
		for _, f := range x.Pkg("cmd/rqlited") {
			ast.Inspect(f, func(n ast.Node) bool {
				if c, ok := n.(*ast.CallExpr); ok && x.Src(c.Fun) == "str.Open" {
					opens++
				}
				return true
			})
		}
		x.Comment("store/: functions calling <x>Target.Reset(), and whether each first returns ErrOpen when s.open.Is()")
		x.DefStrings("resetCallers", resetIn)
		x.DefBool("resetOnlyAfterNotOpenGuard", guarded && len(resetIn) > 0)
		x.DefStrings("subscribers", subscribeIn)
		x.Raw("def storeOpenCallsInRqlited : Nat := " + itoa(opens))
	})
}

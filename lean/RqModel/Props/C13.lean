import RqModel.Model.Exec
namespace C13
open RqModel.Exec
theorem stub : True := trivial
end C13

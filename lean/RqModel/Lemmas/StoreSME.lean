/-
The store's apply paths with the ENVIRONMENT threaded through (C01, layer 2).

`CommandProcessor.Process` runs SQLite, which can read the applying node's clock and random
source: `CmdSem.applyE`. Every path of the node model is re-stated with the entry at log
index `i` applied in environment `envs i` (live apply: the moment it was committed; restart
replay / recovery replay: whenever that happens). If every LOGGED command is one whose
application does not depend on the environment and is what `applyCmd` says (`Denotes` — for
the statements in scope this is what layer 1 derives from the rewriter), the environment-
threaded paths coincide with the environment-free ones of RqModel/Model/StoreSM.lean, to which
C22 / C03 / C33 apply. Without it they do not (witness in Props/C01).
-/
import RqModel.Lemmas.StoreSM
import RqModel.Model.Converge
namespace RqModel.StoreSM
open RqModel.Converge (Env)

structure CmdSem where
  applyE : Env → Db → Cmd → Db

/-- the log entries from index `i` on, each applied in its own environment -/
def replayE (A : CmdSem) (envs : Nat → Env) : Nat → Db → List Cmd → Db
  | _, d, [] => d
  | i, d, c :: cs => replayE A envs (i + 1) (A.applyE (envs i) d c) cs

/-- the logged commands are environment independent, and `applyCmd` is what they do -/
def Denotes (A : CmdSem) (cs : List Cmd) : Prop := ∀ c ∈ cs, ∀ e d, A.applyE e d c = applyCmd d c

theorem Denotes.drop {A : CmdSem} {cs : List Cmd} (h : Denotes A cs) (k : Nat) : Denotes A (cs.drop k) :=
  fun c hc => h c (List.mem_of_mem_drop hc)

theorem replayE_eq (A : CmdSem) (envs : Nat → Env) : ∀ (cs : List Cmd) (i : Nat) (d : Db),
    Denotes A cs → replayE A envs i d cs = replay d cs
  | [], _, _, _ => rfl
  | c :: cs, i, d, h => by
    rw [replayE, h c (List.mem_cons_self), replayE_eq A envs cs (i + 1) _ (fun x hx => h x (List.mem_cons_of_mem _ hx))]
    rfl

/-- live apply of one entry in environment `e` -/
def writeE (A : CmdSem) (e : Env) (n : Node) (c : Cmd) : Node :=
  { write n c with live := A.applyE e n.live c }

theorem writeE_eq (A : CmdSem) (e : Env) (n : Node) (c : Cmd) (h : ∀ d, A.applyE e d c = applyCmd d c) :
    writeE A e n c = write n c := by
  have hl : (write n c).live = applyCmd n.live c := (fsmApply_fields (appendEntry n c) c).2.2.2.1
  unfold writeE
  rw [h, ← hl]

def replayLogE (A : CmdSem) (envs : Nat → Env) (n : Node) : Node :=
  { n with live := replayE A envs (max n.applied n.logStart) n.live (n.hist.drop (max n.applied n.logStart)),
           applied := n.hist.length }

def recoverNodeE (A : CmdSem) (envs : Nat → Env) (n : Node) (peers : Config) : Node :=
  let base : Nat × Db := n.snap.getD (0, [])
  let d := replayE A envs (max base.1 n.logStart) base.2 (n.hist.drop (max base.1 n.logStart))
  { n with snap := some (n.hist.length, d), logStart := n.hist.length, config := peers,
           peersFile := none, fp := false, fullNeeded := false }

/-- `Store.Open` with the replays running in the environments `envs` (and, under a peers file,
RecoverNode's replay in `renvs`) -/
def openNodeE (A : CmdSem) (envs renvs : Nat → Env) (n : Node) : Node :=
  match n.peersFile with
  | some peers =>
    if checkConfig peers then replayLogE A envs (restoreNewest (recoverNodeE A renvs (openPrep n) peers))
    else { n with fp := false }
  | none =>
    match n.snap with
    | some (i, _) =>
      if n.fp && n.dbFileOk && n.fpIdx == i then replayLogE A envs { openPrep n with live := n.dbFile, applied := i }
      else replayLogE A envs (restoreNewest (openPrep n))
    | none => replayLogE A envs (restoreNewest (openPrep n))

theorem replayLogE_eq (A : CmdSem) (envs : Nat → Env) (n : Node) (h : Denotes A n.hist) :
    replayLogE A envs n = replayLog n := by
  unfold replayLogE replayLog
  rw [replayE_eq A envs _ _ _ (h.drop _)]

theorem recoverNodeE_eq (A : CmdSem) (envs : Nat → Env) (n : Node) (peers : Config) (h : Denotes A n.hist) :
    recoverNodeE A envs n peers = recoverNode n peers := by
  unfold recoverNodeE recoverNode
  simp only
  rw [replayE_eq A envs _ _ _ (h.drop _)]

/-- **every Open path, run in arbitrary environments, is the environment-free `openNode`** -/
theorem openNodeE_eq (A : CmdSem) (envs renvs : Nat → Env) (n : Node) (h : Denotes A n.hist) :
    openNodeE A envs renvs n = openNode n := by
  unfold openNodeE openNode openFast openRebuild
  cases hp : n.peersFile with
  | some peers =>
    simp only
    split
    · rw [recoverNodeE_eq A renvs (openPrep n) peers h]
      exact replayLogE_eq A envs _ (by rw [(restoreNewest_fields _).1]; exact h)
    · rfl
  | none =>
    simp only
    cases hs : n.snap with
    | none => simp only; exact replayLogE_eq A envs _ (by rw [(restoreNewest_fields _).1]; exact h)
    | some p =>
      obtain ⟨i, d⟩ := p
      simp only
      split
      · exact replayLogE_eq A envs _ h
      · exact replayLogE_eq A envs _ (by rw [(restoreNewest_fields _).1]; exact h)

/-- a history of writes applied live, the `j`-th in environment `envs j` -/
def runWritesE (A : CmdSem) (envs : Nat → Env) : Nat → Node → List Cmd → Node
  | _, n, [] => n
  | j, n, c :: cs => runWritesE A envs (j + 1) (writeE A (envs j) n c) cs

theorem runWritesE_eq (A : CmdSem) (envs : Nat → Env) : ∀ (cs : List Cmd) (j : Nat) (n : Node),
    Denotes A cs → runWritesE A envs j n cs = cs.foldl write n
  | [], _, _, _ => rfl
  | c :: cs, j, n, h => by
    rw [runWritesE, writeE_eq A _ n c (fun d => h c (List.mem_cons_self) _ d),
      runWritesE_eq A envs cs (j + 1) _ (fun x hx => h x (List.mem_cons_of_mem _ hx))]
    rfl

theorem hist_foldl_write (cs : List Cmd) (n : Node) : (cs.foldl write n).hist = n.hist ++ cs := by
  induction cs generalizing n with
  | nil => simp
  | cons c cs ih =>
    rw [List.foldl_cons, ih]
    have : (write n c).hist = n.hist ++ [c] := (fsmApply_fields (appendEntry n c) c).1
    rw [this]; simp

end RqModel.StoreSM

package main

// ConvergeHook (C01): can an observer of commits (change data capture) decide what a node's
// database contains? SQLite turns a COMMIT into a ROLLBACK when its commit hook returns
// non-zero; these facts are the verdicts the registered hook can give and how rqlite maps
// them to SQLite's return code.

import (
	"go/ast"
	"sort"
	"strings"
)

func init() {
	register("ConvergeHook", func(x *X) {
		x.Comment("db/cdc.go (*CDCStreamer).CommitHook: the result of every return statement, in source order")
		var rets []string
		if fd := x.Func("db", "CDCStreamer", "CommitHook"); fd != nil && fd.Body != nil {
			ast.Inspect(fd.Body, func(n ast.Node) bool {
				switch v := n.(type) {
				case *ast.FuncLit:
					return false
				case *ast.ReturnStmt:
					var rs []string
					for _, r := range v.Results {
						rs = append(rs, x.Src(r))
					}
					rets = append(rets, strings.Join(rs, ", "))
				}
				return true
			})
		}
		x.DefStrings("commitHookReturns", rets)

		x.Comment("db/db.go (*DB).RegisterCommitHook: the callback handed to SQLite (`cb = func() int {…}`), its branches on the hook's verdict in source order")
		var mapping []string
		cbType := ""
		if fd := x.Func("db", "DB", "RegisterCommitHook"); fd != nil && fd.Body != nil {
			ast.Inspect(fd.Body, func(n ast.Node) bool {
				a, ok := n.(*ast.AssignStmt)
				if !ok || len(a.Lhs) != 1 || len(a.Rhs) != 1 || x.Src(a.Lhs[0]) != "cb" {
					return true
				}
				fl, ok := a.Rhs[0].(*ast.FuncLit)
				if !ok {
					return true
				}
				cbType = x.Src(fl.Type)
				for _, st := range fl.Body.List {
					switch v := st.(type) {
					case *ast.IfStmt:
						line := "if " + x.Src(v.Cond) + ":"
						for _, b := range v.Body.List {
							if r, ok := b.(*ast.ReturnStmt); ok && len(r.Results) == 1 {
								line += " return " + x.Src(r.Results[0])
							} else {
								line += " ?"
							}
						}
						if v.Else != nil {
							line += " else ?"
						}
						mapping = append(mapping, line)
					case *ast.ReturnStmt:
						if len(v.Results) == 1 {
							mapping = append(mapping, "return "+x.Src(v.Results[0]))
						}
					case *ast.ExprStmt:
						if !strings.HasPrefix(x.Src(v.X), "stats.Add(") {
							mapping = append(mapping, "?"+x.Src(v.X))
						}
					default:
						mapping = append(mapping, "?"+x.Src(st))
					}
				}
				return false
			})
		}
		x.DefStrings("registerCommitHookMapping", mapping)
		x.DefString("commitCallbackType", cbType)

		x.Comment("db/db.go (*DB).RegisterPreUpdateHook: type of the callback handed to SQLite (no result: it cannot veto)")
		preType := ""
		if fd := x.Func("db", "DB", "RegisterPreUpdateHook"); fd != nil && fd.Body != nil {
			ast.Inspect(fd.Body, func(n ast.Node) bool {
				if a, ok := n.(*ast.AssignStmt); ok && len(a.Lhs) == 1 && len(a.Rhs) == 1 && x.Src(a.Lhs[0]) == "cb" {
					if fl, ok := a.Rhs[0].(*ast.FuncLit); ok {
						preType = x.Src(fl.Type)
					}
				}
				return true
			})
		}
		x.DefString("preUpdateCallbackType", preType)

		x.Comment("store: the commit hooks the store registers: in fsmApply, and everywhere else (distinct, sorted)")
		var inApply []string
		other := map[string]bool{}
		files := x.Pkg("store")
		var names []string
		for n := range files {
			names = append(names, n)
		}
		sort.Strings(names)
		for _, fn := range names {
			for _, d := range files[fn].Decls {
				fd, ok := d.(*ast.FuncDecl)
				if !ok || fd.Body == nil {
					continue
				}
				for _, c := range x.Calls(fd.Body, "RegisterCommitHook") {
					arg := "?"
					if len(c.Args) == 1 {
						arg = x.Src(c.Args[0])
					}
					if fd.Name.Name == "fsmApply" {
						inApply = append(inApply, arg)
					} else {
						other[arg] = true
					}
				}
			}
		}
		var others []string
		for a := range other {
			others = append(others, a)
		}
		sort.Strings(others)
		x.DefStrings("fsmApplyCommitHooks", inApply)
		x.DefStrings("otherCommitHooks", others)
	})
}

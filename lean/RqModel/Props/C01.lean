/-
C01  Replicas converge: the same committed log gives the same database on every node,
whichever apply path it took and whenever it ran.

Layer 1 (statements). `Sem D S` is SQLite seen from the log: `exec` may read the applying
node's clock and random source; `rewrite` is what the leader does before logging; `Covered`
are the statements in the property's scope. `converge` / `C01_full_holds`: for EVERY such
semantics, every sequence of requests with covered statements through any write endpoint,
and every choice of environments, the four apply paths — live, restart replay, snapshot
install at any index + suffix, recovery (snapshot at any index folded by RecoverNode + empty
suffix) — end in the same database.
   The law `rewritten_indep` is NOT an assumption for the real rewriter: `sqlSem` builds the
semantics from agent a5's C14 model (statement trees `Rewrite.Node`, `Rewrite.rewrite` =
`Rewriter.Do`, C14's denotational `eval` extended with a random source) and derives the law
from `C14.no_nondet_left` (the rewriter's output is clean) + `evalE_indep` / `rewrite_noRand`
(Lemmas/ConvergeSql.lean). Unparsable texts are `SqlStmt.raw`: passed through unrewritten, not
covered, and `uncovered_statement_witness` shows such a statement can diverge.
Layer 2 (store). The node model's paths with the environment threaded through every apply
(`openNodeE`, `recoverNodeE`, `runWritesE`; Lemmas/StoreSME.lean) equal the environment-free
ones whenever the logged commands are environment independent (`store_paths_converge`), and
differ otherwise (`store_layer_can_diverge_witness`).
Tied to the code by the end-to-end differential run (package http: real HTTP service → real
store → live / replay / install on a joining node / recovery) and the regenerated endpoint facts.
-/
import RqModel.Lemmas.ConvergeSql
import RqModel.Lemmas.StoreSME
import RqModel.Props.C14
import RqModel.Props.C03
import RqModel.Gen.ConvergeHook
import RqModel.Gen.WalCkpt
import RqModel.Model.WalCkpt
namespace C01
open RqModel.Converge RqModel.StoreSM

variable {D S : Type}

/-- a logged statement that does not consult the environment -/
def Indep (M : Sem D S) (s : S) : Prop := ∀ e1 e2 d, M.exec e1 d s = M.exec e2 d s

theorem applyFrom_indep (M : Sem D S) (log : List S) (h : ∀ s ∈ log, Indep M s)
    (e1 e2 : Nat → Env) (i j : Nat) (d : D) :
    applyFrom M e1 i d log = applyFrom M e2 j d log := by
  induction log generalizing i j d with
  | nil => rfl
  | cons s ss ih =>
    simp only [applyFrom]
    rw [h s (List.mem_cons_self) (e1 i) (e2 j) d]
    exact ih (fun t ht => h t (List.mem_cons_of_mem _ ht)) (i + 1) (j + 1) _

theorem applyFrom_append (M : Sem D S) (e : Nat → Env) (i : Nat) (d : D) (a b : List S) :
    applyFrom M e i d (a ++ b) = applyFrom M e (i + a.length) (applyFrom M e i d a) b := by
  induction a generalizing i d with
  | nil => simp [applyFrom]
  | cons s ss ih =>
    simp only [List.cons_append, applyFrom, List.length_cons]
    rw [ih]; congr 1; omega

/-- the endpoint table is computed from the handlers' call lists: every write endpoint calls the
rewriter before it forwards -/
theorem all_endpoints_rewrite (ep : Endpoint) : rewrites ep = true := by cases ep <;> decide

/-- everything an endpoint puts into the log for covered statements is environment independent -/
theorem logged_indep (M : Sem D S) (ep : Endpoint) (le : Env) (ss : List S) (hc : ∀ s ∈ ss, M.Covered s) :
    ∀ s ∈ logged M ep le ss, Indep M s := by
  intro s hs
  unfold logged at hs
  rw [if_pos (all_endpoints_rewrite ep)] at hs
  obtain ⟨t, ht, rfl⟩ := List.mem_map.1 hs
  intro e1 e2 d
  exact M.rewritten_indep le t (hc t ht) e1 e2 d

/-- a request as it reaches a leader: endpoint, the leader's environment at that moment,
the statements -/
structure Req (S : Type) where
  ep : Endpoint
  le : Env
  ss : List S

/-- the committed log produced by a sequence of requests -/
def logOf (M : Sem D S) (rs : List (Req S)) : List S := rs.flatMap fun r => logged M r.ep r.le r.ss

def CoveredReqs (M : Sem D S) (rs : List (Req S)) : Prop := ∀ r ∈ rs, ∀ s ∈ r.ss, M.Covered s

theorem log_indep (M : Sem D S) (rs : List (Req S)) (hc : CoveredReqs M rs) : ∀ s ∈ logOf M rs, Indep M s := by
  intro s hs
  obtain ⟨r, hrm, hsr⟩ := List.mem_flatMap.1 hs
  exact logged_indep M r.ep r.le r.ss (hc r hrm) s hsr

/-- the four apply paths over a log, each entry applied in the environment of whoever applies it:
live; restart replay; install of a snapshot taken (by `snapshotter`) at index `k`, then the suffix;
recovery = RecoverNode folds the log from a snapshot at `j` (in `recoverer`'s environments) into
one snapshot at the end, which the restarted node restores (nothing left to replay) -/
structure Paths (M : Sem D S) (d0 : D) (log : List S) where
  eLive : Nat → Env
  eReplay : Nat → Env
  eSnap : Nat → Env
  eInst : Nat → Env
  eRecSnap : Nat → Env
  eRec : Nat → Env
  k : Nat
  j : Nat

def Paths.liveDb {M : Sem D S} {d0 : D} {log : List S} (p : Paths M d0 log) : D := applyFrom M p.eLive 0 d0 log
def Paths.replayDb {M : Sem D S} {d0 : D} {log : List S} (p : Paths M d0 log) : D := applyFrom M p.eReplay 0 d0 log
def Paths.installDb {M : Sem D S} {d0 : D} {log : List S} (p : Paths M d0 log) : D :=
  applyFrom M p.eInst p.k (applyFrom M p.eSnap 0 d0 (log.take p.k)) (log.drop p.k)
def Paths.recoverDb {M : Sem D S} {d0 : D} {log : List S} (p : Paths M d0 log) : D :=
  applyFrom M p.eRec p.j (applyFrom M p.eRecSnap 0 d0 (log.take p.j)) (log.drop p.j)

theorem split_indep (M : Sem D S) (log : List S) (hi : ∀ s ∈ log, Indep M s) (d0 : D) (k : Nat)
    (a b c : Nat → Env) :
    applyFrom M b k (applyFrom M a 0 d0 (log.take k)) (log.drop k) = applyFrom M c 0 d0 log := by
  have hit : ∀ s ∈ log.take k, Indep M s := fun s hs => hi s (List.mem_of_mem_take hs)
  have hid : ∀ s ∈ log.drop k, Indep M s := fun s hs => hi s (List.mem_of_mem_drop hs)
  conv => rhs; rw [(List.take_append_drop k log).symm, applyFrom_append]
  rw [applyFrom_indep M (log.take k) hit a c 0 0 d0]
  exact applyFrom_indep M (log.drop k) hid _ _ _ _ _

/-- **converge.** For every semantics, every sequence of requests with covered statements
through any write endpoints, every initial database and every choice of environments and
snapshot indices: all four apply paths end in the same database. -/
theorem converge (M : Sem D S) (rs : List (Req S)) (hc : CoveredReqs M rs) (d0 : D)
    (p : Paths M d0 (logOf M rs)) :
    p.replayDb = p.liveDb ∧ p.installDb = p.liveDb ∧ p.recoverDb = p.liveDb := by
  have hi := log_indep M rs hc
  exact ⟨applyFrom_indep M _ hi _ _ 0 0 d0, split_indep M _ hi d0 p.k _ _ _, split_indep M _ hi d0 p.j _ _ _⟩

/-- the property, over an ARBITRARY semantics and all four paths -/
def C01_full : Prop :=
  ∀ (D S : Type) (M : Sem D S) (rs : List (Req S)), CoveredReqs M rs →
    ∀ (d0 : D) (p : Paths M d0 (logOf M rs)),
      p.replayDb = p.liveDb ∧ p.installDb = p.liveDb ∧ p.recoverDb = p.liveDb

theorem C01_full_holds : C01_full := fun _ _ M rs hc d0 p => converge M rs hc d0 p

/-! ### observers of commits cannot decide what a node holds

A node with change data capture enabled applies entries with a commit hook attached whose answer
may depend on private, node-local state (how full the consumer's channel is); the other paths
run without it. The dependency is explicit: `NoVeto`. -/

theorem execObserved_noVeto (M : Sem D S) (ob : Observer D S) (h : NoVeto ob) (e : Env) (o : ob.O) (d : D) (s : S) :
    (execObserved M ob e o d s).2 = M.exec e d s := by
  simp [execObserved, h.stands]

/-- with an observer that cannot veto, observed live apply holds what plain apply holds -
whatever the observer's state, at every entry -/
theorem applyObserved_noVeto (M : Sem D S) (ob : Observer D S) (h : NoVeto ob) (envs : Nat → Env) (log : List S) :
    ∀ (i : Nat) (o : ob.O) (d : D), (applyObserved M ob envs i o d log).2 = applyFrom M envs i d log := by
  induction log with
  | nil => intro i o d; rfl
  | cons s ss ih =>
    intro i o d
    simp only [applyObserved, applyFrom]
    rw [ih, execObserved_noVeto M ob h]

/-- **converge_observed.** As `converge`, with the live node observed by ANY observer that cannot
veto, started in ANY private state: replay, install and recovery (which run unobserved) agree
with the observed live apply. -/
theorem converge_observed (M : Sem D S) (rs : List (Req S)) (hc : CoveredReqs M rs) (d0 : D)
    (p : Paths M d0 (logOf M rs)) (ob : Observer D S) (hv : NoVeto ob) (o0 : ob.O) :
    p.replayDb = (applyObserved M ob p.eLive 0 o0 d0 (logOf M rs)).2 ∧
    p.installDb = (applyObserved M ob p.eLive 0 o0 d0 (logOf M rs)).2 ∧
    p.recoverDb = (applyObserved M ob p.eLive 0 o0 d0 (logOf M rs)).2 := by
  rw [applyObserved_noVeto M ob hv]
  exact converge M rs hc d0 p

/-- the model of db/cdc.go's hook lets every commit stand: for every channel capacity (0 too),
every fill level and every statement -/
theorem cdc_observer_cannot_veto (cap : Nat) (changes : S → Bool) : NoVeto (cdcObserver (D := D) cap changes) := by
  constructor
  intro o d s
  simp only [cdcObserver]
  split <;> (show commitStands (hookRC (cdcVerdict _)) = true; decide)

/-- **converge_with_cdc.** CDC enabled on the live node, consumer never reading, channel of any
capacity, already filled to any level: all paths still agree. -/
theorem converge_with_cdc (M : Sem D S) (rs : List (Req S)) (hc : CoveredReqs M rs) (d0 : D)
    (p : Paths M d0 (logOf M rs)) (cap fill : Nat) (changes : S → Bool) :
    p.replayDb = (applyObserved M (cdcObserver cap changes) p.eLive 0 fill d0 (logOf M rs)).2 ∧
    p.installDb = (applyObserved M (cdcObserver cap changes) p.eLive 0 fill d0 (logOf M rs)).2 ∧
    p.recoverDb = (applyObserved M (cdcObserver cap changes) p.eLive 0 fill d0 (logOf M rs)).2 :=
  converge_observed M rs hc d0 p _ (cdc_observer_cannot_veto cap changes) fill

/-- `NoVeto` is needed: a hook that answers "not delivered" on a full channel (capacity 1, two
row-changing entries) leaves the observed node without the second entry, which every other
path applies. -/
theorem vetoing_observer_diverges_witness :
    (applyObserved miniSem (vetoingObserver 1 (fun _ => true)) (fun _ => ⟨0, 0⟩) 0 (0 : Nat) []
      [XStmt.put 1 (.lit 5), XStmt.put 2 (.lit 6)]).2 = [(1, 5)] ∧
    applyFrom miniSem (fun _ => ⟨0, 0⟩) 0 [] [XStmt.put 1 (.lit 5), XStmt.put 2 (.lit 6)] = [(1, 5), (2, 6)] := by
  decide

/-! ### the real rewriter: the law is derived, not assumed -/

/-- a statement as the leader sees it: parsed by rqlite/sql into a tree (C14's `Node`), or a text
the parser rejects — `Process` passes those through unchanged -/
inductive SqlStmt where
  | parsed (n : RqModel.Rewrite.Node)
  | raw (text : String)

/-- SQLite over statement trees: a compositional value semantics with clock and random source
(`ESem`, extending C14's `Sem`), the effect of a statement whose tree has value `v`, and whatever
SQLite does with a text the rqlite parser could not parse (it may read the environment) -/
structure SqlWorld (D V : Type) where
  sem    : ESem V
  run    : D → V → D
  rawRun : Env → D → String → D

/-- the rewriter configuration a leader in environment `le` runs with: both rewrites on, its own
random source, its clock reading printed into the pinned literal -/
def cfgOf (le : Env) : RqModel.Rewrite.Cfg := ⟨true, true, fun k => Int.ofNat (le.rnd + k), toString le.now⟩

/-- **the C01 semantics built from the C14 model.** `rewritten_indep` is a theorem here:
`C14.no_nondet_left` (no clock read is left), `rewrite_noRand` (no random call is left in a
covered statement) and `evalE_indep` (such a tree has one value in all environments). -/
def sqlSem {V : Type} (W : SqlWorld D V) : Sem D SqlStmt where
  exec e d s := match s with
    | .parsed n => W.run d (evalE W.sem e n)
    | .raw t => W.rawRun e d t
  rewrite le s := match s with
    | .parsed n => .parsed (RqModel.Rewrite.rewrite (cfgOf le) n).1
    | .raw t => .raw t
  Covered s := match s with
    | .parsed n => covered n = true
    | .raw _ => False
  rewritten_indep := by
    intro le s hc e1 e2 d
    cases s with
    | raw t => exact absurd hc (by simp)
    | parsed n =>
      have hclean := C14.no_nondet_left (cfgOf le) rfl rfl n
      have hnr := rewrite_noRand (cfgOf le) rfl n hc
      show W.run d (evalE W.sem e1 _) = W.run d (evalE W.sem e2 _)
      rw [evalE_indep W.sem _ hclean hnr e1 e2]

/-- so the real rewriter's statements converge on all four paths -/
theorem converge_sql {V : Type} (W : SqlWorld D V) (rs : List (Req SqlStmt)) (hc : CoveredReqs (sqlSem W) rs)
    (d0 : D) (p : Paths (sqlSem W) d0 (logOf (sqlSem W) rs)) :
    p.replayDb = p.liveDb ∧ p.installDb = p.liveDb ∧ p.recoverDb = p.liveDb :=
  converge (sqlSem W) rs hc d0 p

/-- what every path computes for a time-only statement is the value at the LEADER's clock
(C14.meaning_preserved; random rewriting off, the form the law is stated in there) -/
theorem logged_value_is_leaders {V : Type} (S : ESem V) (le : Env) (n : RqModel.Rewrite.Node)
    (hr : noRand n = true)
    (hlaw : ∀ r, (semAt S r).lit "jd" (toString le.now) = (semAt S r).now le.now) (e : Env) :
    let c : RqModel.Rewrite.Cfg := ⟨false, true, fun _ => 0, toString le.now⟩
    evalE S e (RqModel.Rewrite.rewrite c n).1 = evalE S ⟨le.now, e.rnd⟩ n := by
  intro c
  unfold evalE
  exact (C14.meaning_preserved (semAt S e.rnd) c le.now rfl rfl (hlaw e.rnd) n).1 e.now

/-! ### non-vacuity and the boundary of the claim -/

/-- a world over integers: a tree's value is the sum of its parts, `now`/random read the environment,
the statement stores its value under key 1 -/
def demoWorld : SqlWorld Db Int where
  sem :=
    { lit := fun k _ => if k == "randnum" then 3 else if k == "jd" then 5 else 1,
      ident := fun _ => 0, app := fun _ a x => a.sum + x.sum, ord := List.sum, ret := List.sum,
      node := fun _ k => k.sum, now := fun t => Int.ofNat t, rnd := fun r _ _ _ => Int.ofNat r }
  run := fun d v => dbPut d 1 v
  rawRun := fun e d _ => dbPut d 1 (Int.ofNat e.rnd)

open RqModel.Rewrite in
/-- INSERT … VALUES(random(), datetime('now')) : covered; live and replay agree although the
environments differ -/
def demoStmt : SqlStmt :=
  .parsed (.other "InsertStatement" (.cons (.call "random" .nil .nil)
    (.cons (.call "datetime" (.cons (.lit "string" "now") .nil) .nil) .nil)))

example : (sqlSem demoWorld).Covered demoStmt := by show covered _ = true; decide

example :
    let M := sqlSem demoWorld
    let log := logOf M [⟨.execute, ⟨100, 7⟩, [demoStmt]⟩]
    applyFrom M (fun _ => ⟨100, 7⟩) 0 [] log = [(1, 8)] ∧ applyFrom M (fun _ => ⟨555, 9⟩) 0 [] log = [(1, 8)] ∧
    -- unrewritten, the same statement differs between the two environments
    M.exec ⟨100, 7⟩ [] demoStmt = [(1, 107)] ∧ M.exec ⟨555, 9⟩ [] demoStmt = [(1, 564)] := by
  decide

open RqModel.Rewrite in
/-- **uncovered_statement_witness**: RANDOM() inside ORDER BY (excluded by the property) is not
rewritten and a text the parser rejects is passed through: both can diverge between a node
applying live and one replaying later — `Covered` is exactly where the claim stops. -/
theorem uncovered_statement_witness :
    let M := sqlSem demoWorld
    let ob : SqlStmt := .parsed (.other "SelectStatement" (.cons (.ord (.cons (.call "random" .nil .nil) .nil)) .nil))
    ¬ M.Covered ob ∧ ¬ M.Covered (.raw "INSERT INTO t VALUES(random());;") ∧
    applyFrom M (fun _ => ⟨100, 7⟩) 0 [] (logOf M [⟨.execute, ⟨100, 7⟩, [ob]⟩]) ≠
      applyFrom M (fun _ => ⟨555, 9⟩) 0 [] (logOf M [⟨.execute, ⟨100, 7⟩, [ob]⟩]) ∧
    applyFrom M (fun _ => ⟨100, 7⟩) 0 [] (logOf M [⟨.loadText, ⟨100, 7⟩, [.raw "x"]⟩]) ≠
      applyFrom M (fun _ => ⟨555, 9⟩) 0 [] (logOf M [⟨.loadText, ⟨100, 7⟩, [.raw "x"]⟩]) := by
  refine ⟨?_, ?_, ?_, ?_⟩
  · show ¬ (covered _ = true); decide
  · exact fun h => h
  · decide
  · decide

/-- the toy instance of the first round still satisfies the (now conditional) law -/
example : ∀ s, miniSem.Covered s := fun _ => trivial

/-! ### layer 2: the store's apply paths, with the environment threaded through -/

/-- For every command semantics `A` (SQLite under the FSM, reading the applying node's clock and
random source), every sequence of commands whose application is environment independent
(`Denotes`: what layer 1 establishes for logged statements), every crash point and every way of
going down, and EVERY choice of environments for the live applies, the restart replay, the
recovery replay and the install: the node that applied live, the node restarted from any crash
point, the node recovered from a peers file and a node that installed a snapshot taken at any
index and applied the suffix hold the same database. -/
theorem store_paths_converge (A : CmdSem) (cs : List Cmd) (hd : Denotes A cs)
    (liveEnv replayEnv recEnv recReplayEnv snapEnv instEnv : Nat → Env) (dn : C33.Down) (peers : Config)
    (hv : checkConfig peers = true) (k : Nat) :
    let n := runWritesE A liveEnv 0 {} cs
    n.live = replay [] cs ∧
    (openNodeE A replayEnv recEnv (crash n)).live = n.live ∧
    (openNodeE A replayEnv recReplayEnv { C33.goDown n dn with peersFile := some peers }).live = n.live ∧
    replayE A instEnv k (replayE A snapEnv 0 [] (cs.take k)) (cs.drop k) = n.live := by
  intro n
  have hn : n = C22.run {} (cs.map C22.Op.write) := by
    show runWritesE A liveEnv 0 {} cs = _
    rw [runWritesE_eq A liveEnv cs 0 {} hd]
    unfold C22.run
    rw [List.foldl_map]; rfl
  have hh : n.hist = cs := by
    show (runWritesE A liveEnv 0 {} cs).hist = cs
    rw [runWritesE_eq A liveEnv cs 0 {} hd, hist_foldl_write]; rfl
  have hlive : n.live = replay [] cs := by
    rw [hn, C22.live_run C22.good_init, List.foldl_map]; rfl
  refine ⟨hlive, ?_, ?_, ?_⟩
  · rw [openNodeE_eq A _ _ (crash n) (by show Denotes A n.hist; rw [hh]; exact hd)]
    have := (C03.restart_exact (cs.map C22.Op.write) .rest).1
    rw [← hn] at this; exact this
  · have hg := C33.goDown_spec (n := n) (by rw [hn]; exact C22.good_run C22.good_init _) dn
    rw [openNodeE_eq A _ _ _ (by show Denotes A (C33.goDown n dn).hist; rw [hg.2.2.1, hh]; exact hd)]
    have := (C33.recover_keeps_applied (cs.map C22.Op.write) dn peers hv).1
    rw [← hn] at this; exact this
  · rw [replayE_eq A snapEnv _ 0 [] (fun c hc => hd c (List.mem_of_mem_take hc)),
      replayE_eq A instEnv _ k _ (hd.drop k), ← replay_append, List.take_append_drop, hlive]

/-- a command semantics that reads the environment for one command form (a NOOP that stamps the
applying node's random source into key 999) -/
def demoA : CmdSem where
  applyE e d c := match c with
    | .noop => dbPut d 999 (Int.ofNat e.rnd)
    | c => applyCmd d c

/-- the hypothesis of `store_paths_converge` is satisfiable by a semantics that DOES read the
environment (for commands that are not in the log) … -/
example : Denotes demoA [.exec false [.put 1 5], .load [(2, 2)], .exec true [.add 2 1]] := by
  intro c hc e d
  simp only [List.mem_cons, List.mem_nil_iff, or_false] at hc
  rcases hc with rfl | rfl | rfl <;> rfl

/-- … and **the store layer can diverge** when it fails: with an environment-dependent command in
the log, the node that applied it live and the same node after a restart hold different databases -/
theorem store_layer_can_diverge_witness :
    let n := runWritesE demoA (fun _ => ⟨100, 7⟩) 0 {} [.exec false [.put 1 5], .noop]
    n.live = [(1, 5), (999, 7)] ∧
    (openNodeE demoA (fun _ => ⟨500, 9⟩) (fun _ => ⟨500, 9⟩) (crash n)).live = [(1, 5), (999, 9)] := by
  decide

/-- which RANDOMBLOB arguments are covered, stated rather than hidden (`covered` asks the
rewriter model's top-level `blobLenOfArgs`): since fix 2d6515f the literals SQLite reads as less
than one — 16-digit hex literals ≥ 2^63, 0, negative and fractional ones — are pinned (one
byte) and covered; a computed size, a size above SQLite's maximum and `-0x8000000000000000`
(which SQLite rejects) are left alone by design and are not. -/
theorem blob_literal_coverage :
    covered (.call "randomblob" (.cons (.lit "number" "0xFFFFFFFFFFFFFFFF") .nil) .nil) = true ∧
    covered (.call "randomblob" (.cons (.lit "number" "0x8000000000000000") .nil) .nil) = true ∧
    covered (.call "randomblob" (.cons (.other "UnaryExpr:-" (.cons (.lit "number" "1") .nil)) .nil) .nil) = true ∧
    covered (.call "randomblob" (.cons (.lit "number" "0") .nil) .nil) = true ∧
    covered (.call "randomblob" (.cons (.lit "number" "0x10") .nil) .nil) = true ∧
    covered (.call "randomblob" (.cons (.lit "number" "1000000001") .nil) .nil) = false ∧
    covered (.call "randomblob" (.cons (.other "UnaryExpr:-" (.cons (.lit "number" "0x8000000000000000") .nil)) .nil) .nil) = false ∧
    covered (.call "randomblob" (.cons (.other "BinaryExpr" (.cons (.lit "number" "1") (.cons (.lit "number" "1") .nil))) .nil) .nil) = false := by
  decide

/-! ### regenerated facts -/

/-- the handlers' call lists ARE the model's `endpointCalls` (from which `rewrites` is computed) -/
theorem code_write_endpoints :
    RqModel.Gen.StoreOrder.execEndpoint = ["s.queuedExecute", "s.execute"] ∧
    RqModel.Gen.StoreOrder.executeEndpoint = endpointCalls .execute ∧
    RqModel.Gen.StoreOrder.queuedExecEndpoint = endpointCalls .queued ∧
    RqModel.Gen.StoreOrder.requestEndpoint = endpointCalls .request ∧
    RqModel.Gen.StoreOrder.httpLoadSteps = endpointCalls .loadText ∧
    RqModel.Gen.StoreOrder.queryEndpoint = endpointCalls .queryStrong :=
  ⟨rfl, by decide, by decide, by decide, by decide, by decide⟩

/-- the commit hook the store registers in fsmApply is `(*CDCStreamer).CommitHook`; every return
statement of it returns what the model's `cdcVerdict` says (all `true`); `db.RegisterCommitHook`
maps the verdict to SQLite's code as `hookRC` does; the pre-update callback has no result. Nothing
else registers a (non-nil) commit hook. -/
theorem code_commit_hook_cannot_veto :
    RqModel.Gen.ConvergeHook.commitHookReturns = cdcHookReturns ∧
    RqModel.Gen.ConvergeHook.registerCommitHookMapping = registerMapping ∧
    RqModel.Gen.ConvergeHook.commitCallbackType = "func() int" ∧
    RqModel.Gen.ConvergeHook.preUpdateCallbackType = "func(d sqlite3.SQLitePreUpdateData)" ∧
    RqModel.Gen.ConvergeHook.fsmApplyCommitHooks = ["s.cdcStreamer.CommitHook"] ∧
    RqModel.Gen.ConvergeHook.otherCommitHooks = ["nil"] :=
  ⟨by decide, by decide, by decide, by decide, by decide, by decide⟩

/-- every path that rebuilds from the snapshot chain (install, recovery, forced restore) agrees with
live apply only if every WAL frame reaches the chain, i.e. SQLite never checkpoints on its own
(C06's law). That holds on the connection `PRAGMA wal_autocheckpoint=0` was issued on — the
read-write pool's single connection, which is never recycled (no idle limit, no lifetime). -/
theorem code_writer_connection_never_recycled :
    RqModel.Gen.WalCkpt.rwPoolSettings = RqModel.WalCkpt.rwPoolSettings ∧
    RqModel.Gen.WalCkpt.autocheckpointOff = RqModel.WalCkpt.autocheckpointOff := by decide

/-- both code paths that apply log entries to a database go through `CommandProcessor.Process` -/
theorem code_single_apply_function :
    RqModel.Gen.StoreOrder.applyPaths = ["fsmApply:s.cmdProc.Process", "recoverNode:cmdProc.Process"] := rfl

end C01

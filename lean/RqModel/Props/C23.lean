/-
C23  Queued writes are applied in order and none are dropped.

Property theorems only. Model: RqModel/Model/QueueSvc.lean (the `runQueue`
consumer with its retry loop on top of the queue LTS of C24). `Execute` is an
external component: each call may succeed or fail, with no assumption on how
often it fails. "Accepted" = `stmtQueue.Write` returned a sequence number;
acceptance order = sequence-number order = `q.written`.
-/
import RqModel.Lemmas.QueueSvc
import RqModel.Lemmas.QueueSvcDrain
import RqModel.Props.C24
import RqModel.Gen.QueueSvc
namespace C23
open RqModel.QueueSvc
open RqModel.Queue hiding Step step run mk next init DState mk_inv run_inv next_inv step_inv optStep step'

theorem inv (m : Nat) (b t : Int) (steps : List Step) : SInv (run (mk m b t) steps) :=
  run_inv _ _ (mk_inv m b t)

/-- the statements handed to successful `Execute` calls are those of the fully processed requests -/
theorem applied_eq_done (v : Svc) (h : SInv v) (h0 : v.lostAcks = 0) :
    v.applied.flatten = v.done.flatMap (·.objs) := by
  rw [h.applied h0]
  generalize v.done = ds
  induction ds with
  | nil => rfl
  | cons r rs ih =>
    simp only [List.filter_cons, List.flatMap_cons]
    cases ho : r.objs with
    | nil => simpa [ho] using ih
    | cons a as => simp [ho, ih]

theorem done_prefix_emitted (v : Svc) (h : SInv v) : v.done <+: v.q.emitted := ⟨optL v.cur, h.emitted.symm⟩

/-- **Applied in acceptance order.** At every moment the statements applied so far
(successful `Execute` calls, concatenated) are a prefix of the statements of all
accepted requests in sequence-number order: nothing is reordered, duplicated or
skipped. -/
theorem applied_order_is_acceptance_order (m : Nat) (b t : Int) (steps : List Step)
    (h0 : (run (mk m b t) steps).lostAcks = 0) :
    (run (mk m b t) steps).applied.flatten <+: (run (mk m b t) steps).q.written.flatMap (·.objs) := by
  have h := inv m b t steps
  rw [applied_eq_done _ h h0]
  obtain ⟨rest, hr⟩ := done_prefix_emitted _ h
  have h1 : (run (mk m b t) steps).done.flatMap (·.objs) <+: (run (mk m b t) steps).q.emitted.flatMap (·.objs) :=
    ⟨rest.flatMap (·.objs), by rw [← hr, List.flatMap_append]⟩
  exact h1.trans (C24.emitted_is_prefix_of_written _ h.reach).1

/-- **Each request's statements stay together, in their original order.** The
applied statement stream is exactly the concatenation of the first `k` accepted
requests (whole requests, in sequence-number order) for some `k`. -/
theorem request_statements_contiguous (m : Nat) (b t : Int) (steps : List Step)
    (h0 : (run (mk m b t) steps).lostAcks = 0) :
    ∃ k, (run (mk m b t) steps).applied.flatten =
      ((run (mk m b t) steps).q.written.take k).flatMap (·.objs) := by
  have h := inv m b t steps
  rw [applied_eq_done _ h h0]
  obtain ⟨rest, hr⟩ := done_prefix_emitted _ h
  have hwf : ∀ r ∈ (run (mk m b t) steps).done, WfReq (run (mk m b t) steps).q.batchSize r :=
    fun r hm => C24.emitted_wf h.reach r (by rw [← hr]; exact List.mem_append_left _ hm)
  rw [C24.objs_of_members _ _ hwf]
  have hp : (run (mk m b t) steps).done.flatMap (·.members) <+: (run (mk m b t) steps).q.written := by
    have h1 : (run (mk m b t) steps).done.flatMap (·.members) <+:
        (run (mk m b t) steps).q.emitted.flatMap (·.members) :=
      ⟨rest.flatMap (·.members), by rw [← hr, List.flatMap_append]⟩
    exact h1.trans (C24.no_split _ h.reach).2
  refine ⟨((run (mk m b t) steps).done.flatMap (·.members)).length, ?_⟩
  exact congrArg _ (List.prefix_iff_eq_take.1 hp)

/-- **None dropped while running.** (a) Every request the consumer has taken from
the queue is either fully processed or is the one it is still retrying — it never
moves on past a request whose `Execute` has not succeeded. (b) A failed `Execute`
changes nothing but the failure counter. (c) While the consumer runs, the retried
request can always complete: `Execute` succeeding appends exactly its statements
to the applied stream and finishes it. Together with C24 (everything written
reaches the consumer) nothing accepted is dropped, however many failures occur. -/
theorem none_dropped_while_running (m : Nat) (b t : Int) (steps : List Step) :
    let v := run (mk m b t) steps
    v.q.emitted = v.done ++ optL v.cur ∧
    (∀ k v', step v (.execFail k) = some v' →
      v'.q = v.q ∧ v'.cur = v.cur ∧ v'.done = v.done ∧ v'.applied = v.applied) ∧
    (∀ r, v.cur = some r → v.stopped = false →
      ∃ v', step v .execOk = some v' ∧ v'.done = v.done ++ [r] ∧
        v'.applied = v.applied ++ [r.objs] ∧ v'.cur = none) := by
  refine ⟨(inv m b t steps).emitted, ?_, ?_⟩
  · intro k v' hs
    simp only [step] at hs
    split at hs
    · cases hs
    · split at hs
      · cases hs; exact ⟨rfl, rfl, rfl, rfl⟩
      · cases hs
  · intro r hc hst
    refine ⟨_, by simp only [step, hst, hc]; rfl, ?_, ?_, ?_⟩ <;> simp [finish]

/-- **Nothing accepted is left behind (progress, safety form).** From any reachable
state in which the queue and the consumer are running and the queue has a timeout:
if `Execute` stops failing and everybody keeps running (scheduler `svcDrain`, which
needs at most `nu v` steps because every step lowers that measure), then every
statement of every accepted request has been applied, in acceptance order, and
nothing is left in the queue or in the consumer's hands. -/
theorem all_accepted_are_applied (v : Svc) (hreach : ∃ m b t steps, v = run (mk m b t) steps)
    (hq : v.q.stopped = false) (hv : v.stopped = false) (ht : v.q.timeout ≠ 0) (h0 : v.lostAcks = 0) :
    (svcDrain (nu v) v).applied.flatten = v.q.written.flatMap (·.objs) ∧
    (svcDrain (nu v) v).q.written = v.q.written ∧ (svcDrain (nu v) v).cur = none ∧
    C24.inflight (svcDrain (nu v) v).q = [] := by
  obtain ⟨m, b, t, steps, rfl⟩ := hreach
  obtain ⟨hi, he, ha, hfl⟩ := svcDrain_spec _ _ (inv m b t steps) hq hv (Nat.le_refl _)
  simp only [env, Prod.mk.injEq] at he
  simp only [flags, Prod.mk.injEq] at hfl
  generalize svcDrain (nu (run (mk m b t) steps)) (run (mk m b t) steps) = v' at hi he ha hfl ⊢
  have h0' : v'.lostAcks = 0 := by rw [hfl.2]; exact h0
  have hqo : v'.q.qObjs = [] := by
    by_cases hqo : v'.q.qObjs = []
    · exact hqo
    · have := hi.reach.armed (by rw [he.1]; exact hq) (by rw [he.2.1]; exact ht) hqo
      rw [ha.settled.timer] at this; cases this
  have hin := C24.inflight_nil_of_settled _ ha.settled hqo
  refine ⟨?_, he.2.2, ha.cur, hin⟩
  rw [applied_eq_done _ hi h0', ← he.2.2]
  have hem : v'.q.emitted = v'.done := by rw [hi.emitted, ha.cur]; simp [optL]
  rw [← hem]
  exact (C24.emitted_is_prefix_of_written _ hi.reach).2 hin

/-! #### ... for EVERY schedule, with any finite number of `Execute` failures

A schedule is any list of steps of the queue loop and of `runQueue` (`send`, `recv`, `fire`,
`take`, `execOk`, and `execFail k` for any error kind), in any order, each enabled when taken
(`runS`). Failing `Execute` calls change nothing; every other step lowers `nu`. -/

/-- **Only failures can prolong a schedule**: the number of steps that are not failed `Execute`
calls is at most `nu v`, whatever the order and however many failures are interleaved. -/
theorem every_schedule_terminates (v v' : Svc) (hreach : ∃ m b t steps, v = run (mk m b t) steps)
    (sched : List SStep) (hrun : runS v sched = some v') :
    (sched.filter (fun st => !st.isFail)).length ≤ nu v := by
  obtain ⟨m, b, t, steps, rfl⟩ := hreach
  have := (runS_spec sched _ v' (inv m b t steps) hrun).2.1
  omega

/-- **Every maximal schedule applies everything accepted.** From any reachable running state of
a queue with a timeout: take the loop's, the timer's and the consumer's steps in ANY order,
with ANY finite number of failed `Execute` calls of any kind in between; once nothing but a
further failure could happen (fairness: `Execute` eventually succeeds — "a leader is
reachable" — so the run does not stop earlier), every accepted statement has been applied, in
acceptance order, and nothing is left anywhere. (Exactly-once under `lostAcks = 0`.) -/
theorem every_maximal_schedule_applies_everything (v v' : Svc)
    (hreach : ∃ m b t steps, v = run (mk m b t) steps)
    (hq : v.q.stopped = false) (hv : v.stopped = false) (ht : v.q.timeout ≠ 0) (h0 : v.lostAcks = 0)
    (sched : List SStep) (hrun : runS v sched = some v') (hqs : QuiescentS v') :
    v'.applied.flatten = v.q.written.flatMap (·.objs) ∧ v'.cur = none ∧ C24.inflight v'.q = [] := by
  obtain ⟨m, b, t, steps, rfl⟩ := hreach
  obtain ⟨hi, _, he, hfl⟩ := runS_spec sched _ v' (inv m b t steps) hrun
  simp only [env, Prod.mk.injEq] at he
  simp only [flags, Prod.mk.injEq] at hfl
  have hq' : v'.q.stopped = false := by rw [he.1]; exact hq
  have hv' : v'.stopped = false := by rw [hfl.1]; exact hv
  have ha := allApplied_of_quiescent v' hq' hv' hqs
  have hqo : v'.q.qObjs = [] := by
    by_cases hqo : v'.q.qObjs = []
    · exact hqo
    · have := hi.reach.armed hq' (by rw [he.2.1]; exact ht) hqo
      rw [ha.settled.timer] at this; cases this
  have hin := C24.inflight_nil_of_settled _ ha.settled hqo
  refine ⟨?_, ha.cur, hin⟩
  rw [applied_eq_done _ hi (by rw [hfl.2]; exact h0), ← he.2.2]
  have hem : v'.q.emitted = v'.done := by rw [hi.emitted, ha.cur]; simp [optL]
  rw [← hem]
  exact (C24.emitted_is_prefix_of_written _ hi.reach).2 hin

/-- **A waiting request returns only after its batch was applied.** Every flush
channel that has been closed belongs to a write that is a member of a fully
processed request — one whose statements (if it has any) were passed to an
`Execute` call that succeeded before the channel was closed. -/
theorem wait_returns_after_apply (m : Nat) (b t : Int) (steps : List Step) :
    ∀ f ∈ (run (mk m b t) steps).q.closedFlush,
      ∃ r ∈ (run (mk m b t) steps).done, ∃ w ∈ r.members, w.flush = some f ∧
        (r.objs = [] ∨ r.objs ∈ (run (mk m b t) steps).applied) := by
  intro f hf
  have h := inv m b t steps
  obtain ⟨i, r, w, hi, hg, hw, hwf, _⟩ := C24.flush_closed_only_by_its_batch _ h.reach f hf
  have hlt := h.closedReqs i hi
  have hr : r ∈ (run (mk m b t) steps).done := by
    rw [h.emitted, List.getElem?_append_left hlt] at hg
    exact List.mem_of_getElem? hg
  refine ⟨r, hr, w, hw, hwf, ?_⟩
  cases ho : r.objs with
  | nil => exact Or.inl rfl
  | cons a as =>
    right
    apply h.appliedSub.subset
    rw [← ho]
    exact List.mem_map.2 ⟨r, List.mem_filter.2 ⟨hr, by simp [ho]⟩, rfl⟩

/-- the response's sequence number is the queue's: requests are numbered in acceptance order -/
theorem sequence_numbers_increase (m : Nat) (b t : Int) (steps : List Step) :
    (run (mk m b t) steps).q.written.Pairwise (fun a b => a.seq < b.seq) :=
  (C24.write_numbers_increase _ (inv m b t steps).reach).1

/-! ### exactly-once, and what an error that hides a committed batch does to it

`runQueue` retries `Execute` on EVERY error. Some errors (raft.ErrLeadershipLost — "leadership
lost while committing log" —, an enqueue/apply timeout, a lost response of a forwarded
request) do not tell whether the entry was committed; if it was, the retry applies the batch
a second time (step `execFailCommitted`). The property text promises order, contiguity and
"none dropped", not exactly-once; the theorems above therefore carry the hypothesis
`lostAcks = 0`, and this section states what holds without it. -/

/-- the exactly-once reading of the property, for ALL behaviours of `Execute` -/
def C23_full : Prop :=
  ∀ (m : Nat) (b t : Int) (steps : List Step),
    (run (mk m b t) steps).applied.flatten <+: (run (mk m b t) steps).q.written.flatMap (·.objs)

/-- it holds whenever no error hid a committed batch (decidable exclusion: `lostAcks = 0`) -/
theorem exactly_once_partial (m : Nat) (b t : Int) (steps : List Step)
    (h0 : (run (mk m b t) steps).lostAcks = 0) :
    (run (mk m b t) steps).applied.flatten <+: (run (mk m b t) steps).q.written.flatMap (·.objs) :=
  applied_order_is_acceptance_order m b t steps h0

/-- and it fails otherwise: one accepted statement, `Execute` commits it but reports
"leadership lost", the consumer retries, the statement is applied twice -/
theorem exactly_once_witness : ¬ C23_full := by
  intro h
  have := h 8 1 0 [.queue (.write [7] none), .queue .recv, .queue .send, .take, .execFailCommitted, .execOk]
  revert this
  decide

/-- **At-least-once, in order, nothing foreign — for every behaviour of `Execute`.** Even when
errors hide committed batches: every fully processed batch is in the applied list, in
acceptance order (the applied list may contain extra repeats), every applied entry is the
statement list of a request the consumer received from the queue (so statements of a request
always stay together and in order), and a repeat can only be of the batch being retried. -/
theorem at_least_once_in_order (m : Nat) (b t : Int) (steps : List Step) :
    (((run (mk m b t) steps).done.filter (fun r => !r.objs.isEmpty)).map (·.objs)).Sublist
      (run (mk m b t) steps).applied ∧
    (∀ a ∈ (run (mk m b t) steps).applied, ∃ r ∈ (run (mk m b t) steps).q.emitted, a = r.objs) :=
  ⟨(inv m b t steps).appliedSub, (inv m b t steps).appliedFrom⟩

/-- **Shutdown freezes application.** Once `runQueue` has returned (`Service.Close`),
no step applies anything more: whatever is still queued, and the request that was being
retried, stay unapplied. This is outside the property ("while the node keeps running"):
`all_accepted_are_applied` has `stopped = false` as a hypothesis, and this theorem shows the
hypothesis is needed. -/
theorem stopped_freezes_applied (v : Svc) (st : Step) (h : v.stopped = true) :
    (next v st).applied = v.applied ∧ (next v st).done = v.done ∧ (next v st).stopped = true := by
  cases st with
  | queue qs =>
    simp only [next, step]
    split <;> simp [h]
  | take => simp [next, step, h]
  | execFail k => simp [next, step, h]
  | execFailCommitted => simp [next, step, h]
  | execOk => simp [next, step, h]
  | stop => simp [next, step, h]

/-- a request accepted and being retried when the service is closed is never applied -/
theorem shutdown_strands_witness :
    let v := run (mk 8 2 5) [.queue (.write [1] none), .queue .recv, .queue .fire, .queue .send, .take,
      .execFail .other, .stop, .execOk, .queue (.write [2] none), .take, .execOk]
    v.applied = [] ∧ v.cur.isSome = true ∧ v.q.written.length = 2 := by decide

/-- **The 408 wait-timeout path only observes** (regenerated): the branch of
`queuedExecute` taken when the wait times out makes no call on the queue, so a timed-out
waiter's statements stay accepted and everything above (order, no drops, progress) still
applies to them; the model needs no step for it. -/
theorem wait_timeout_is_observer :
    RqModel.Gen.QueueSvc.waitTimeoutBranchFound = true ∧
    RqModel.Gen.QueueSvc.waitTimeoutBranchQueueCalls = 0 := by decide

/-- **Shape of the consumer in the current sources** (regenerated): in `runQueue` the only
`req.Close()` comes after the retry loop, the loop contains exactly one `Execute` call and
its only `break` (in any branch, then or else) is under `err == nil` and its only `return` is
the one on `closeCh` — the loop is left only by success or shutdown, whatever the error kind; `queuedExecute` writes to the queue exactly once
and waits on the flush channel only after that write. -/
theorem consumer_shape :
    RqModel.Gen.QueueSvc.runQueueFound = true ∧ RqModel.Gen.QueueSvc.closeAfterRetryLoop = true ∧
    RqModel.Gen.QueueSvc.reqCloseCalls = 1 ∧ RqModel.Gen.QueueSvc.executeCallsInLoop = 1 ∧
    RqModel.Gen.QueueSvc.breaksUnderNilErr = 1 ∧ RqModel.Gen.QueueSvc.otherBreaksInLoop = 0 ∧
    RqModel.Gen.QueueSvc.returnsInLoop = 1 ∧
    RqModel.Gen.QueueSvc.queuedExecuteFound = true ∧ RqModel.Gen.QueueSvc.stmtQueueWrites = 1 ∧
    RqModel.Gen.QueueSvc.waitOnFlushChanAfterWrite = true := by decide

/-! ### non-vacuity: two requests batched together, a failure burst, then success; a waiter -/
example :
    let v := run (mk 8 2 0) [.queue (.write [1, 2] (some 7)), .queue (.write [3] none), .queue .recv, .queue .recv,
      .queue .send, .take, .execFail .leaderNotFound, .execFail .other, .queue (.write [4] none), .execOk]
    v.applied = [[1, 2, 3]] ∧ v.failed = 2 ∧ v.q.closedFlush = [7] ∧ v.done.length = 1 := by decide

example :
    let v := run (mk 8 2 0) [.queue (.write [1, 2] (some 7)), .queue (.write [3] none), .queue .recv, .queue .recv,
      .queue .send, .take, .execFail .notLeader]
    v.applied = [] ∧ v.q.closedFlush = [] ∧ v.cur.isSome = true := by decide

end C23

/-
Helper lemmas for the WAL model: big-endian encode/decode, and the writer/reader round trip.
-/
import RqModel.Model.Wal
namespace RqModel.Wal

theorem u8 (a : Nat) (h : a < 256) : (UInt8.ofNat a).toNat = a := by
  simp [UInt8.toNat_ofNat', Nat.mod_eq_of_lt h]

theorem be32_enc32_append (n : Nat) (x : Bytes) (h : n < 4294967296) : be32 (enc32 n ++ x) = n := by
  simp only [enc32, List.cons_append, List.nil_append, be32]
  rw [u8 _ (Nat.mod_lt _ (by decide)), u8 _ (Nat.mod_lt _ (by decide)), u8 _ (Nat.mod_lt _ (by decide)),
    u8 _ (Nat.mod_lt _ (by decide))]
  omega

theorem enc32_length (n : Nat) : (enc32 n).length = 4 := rfl

theorem enc32_be32 (a b c d : UInt8) (t : Bytes) : enc32 (be32 (a :: b :: c :: d :: t)) = [a, b, c, d] := by
  have ha := a.toNat_lt; have hb := b.toNat_lt; have hc := c.toNat_lt; have hd := d.toNat_lt
  simp only [be32, enc32]
  have e1 : (a.toNat * 16777216 + b.toNat * 65536 + c.toNat * 256 + d.toNat) / 16777216 % 256 = a.toNat := by omega
  have e2 : (a.toNat * 16777216 + b.toNat * 65536 + c.toNat * 256 + d.toNat) / 65536 % 256 = b.toNat := by omega
  have e3 : (a.toNat * 16777216 + b.toNat * 65536 + c.toNat * 256 + d.toNat) / 256 % 256 = c.toNat := by omega
  have e4 : (a.toNat * 16777216 + b.toNat * 65536 + c.toNat * 256 + d.toNat) % 256 = d.toNat := by omega
  rw [e1, e2, e3, e4]
  simp

theorem be32_lt (l : Bytes) : be32 l < 4294967296 := by
  unfold be32
  split
  · rename_i a b c d _
    have ha := a.toNat_lt; have hb := b.toNat_lt; have hc := c.toNat_lt; have hd := d.toNat_lt
    omega
  · omega

def GoodFrame (h : Header) (f : Frame) : Prop :=
  f.data.length = h.pageSize ∧ f.pgno ≠ 0 ∧ f.pgno < 4294967296 ∧ f.commit < 4294967296

theorem u32_toNat_lt (c : UInt32) : c.toNat < 4294967296 := c.toNat_lt

theorem readFrames_serializeFrames (h : Header) (hp : h.pageSize % 8 = 0)
    (hs1 : h.salt1 < 4294967296) (hs2 : h.salt2 < 4294967296) :
    ∀ (fs : List Frame) (chk : UInt32 × UInt32) (fuel : Nat), fs.length < fuel →
      (∀ f ∈ fs, GoodFrame h f) →
      readFrames true h fuel chk (serializeFrames h chk fs) = (fs, .eof) := by
  intro fs
  induction fs with
  | nil =>
    intro chk fuel hf _
    obtain ⟨k, rfl⟩ : ∃ k, fuel = k + 1 := ⟨fuel - 1, by omega⟩
    simp [serializeFrames, readFrames]
  | cons f t ih =>
    intro chk fuel hf hg
    obtain ⟨k, rfl⟩ : ∃ k, fuel = k + 1 := ⟨fuel - 1, by omega⟩
    obtain ⟨gd, gp, gpl, gcl⟩ := hg f (by simp)
    -- name the pieces
    generalize hc1 : cksum h.le chk.1 chk.2 (enc32 f.pgno ++ enc32 f.commit) = c1
    generalize hc : cksum h.le c1.1 c1.2 f.data = c
    have hbs : serializeFrames h chk (f :: t) =
        enc32 f.pgno ++ (enc32 f.commit ++ (enc32 h.salt1 ++ (enc32 h.salt2 ++
          (enc32 c.1.toNat ++ (enc32 c.2.toNat ++ (f.data ++ serializeFrames h c t)))))) := by
      simp only [serializeFrames, hc1, hc, List.append_assoc]
    generalize htail : f.data ++ serializeFrames h c t = tail at hbs
    rw [hbs]
    have F4 : be32 (enc32 f.pgno ++ (enc32 f.commit ++ (enc32 h.salt1 ++ (enc32 h.salt2 ++
          (enc32 c.1.toNat ++ (enc32 c.2.toNat ++ tail)))))) = f.pgno := be32_enc32_append _ _ gpl
    simp only [readFrames]
    have L : ¬ (enc32 f.pgno ++ (enc32 f.commit ++ (enc32 h.salt1 ++ (enc32 h.salt2 ++
          (enc32 c.1.toNat ++ (enc32 c.2.toNat ++ tail)))))).length < 24 := by
      simp [enc32_length]; omega
    have D4 : ∀ (a : Nat) (x : Bytes), (enc32 a ++ x).drop 4 = x := by intros; simp [enc32]
    have D8 : ∀ (a b : Nat) (x : Bytes), (enc32 a ++ (enc32 b ++ x)).drop 8 = x := by intros; simp [enc32]
    have D12 : ∀ (a b c : Nat) (x : Bytes), (enc32 a ++ (enc32 b ++ (enc32 c ++ x))).drop 12 = x := by
      intros; simp [enc32]
    have D16 : ∀ (a b c d : Nat) (x : Bytes), (enc32 a ++ (enc32 b ++ (enc32 c ++ (enc32 d ++ x)))).drop 16 = x := by
      intros; simp [enc32]
    have D20 : ∀ (a b c d e : Nat) (x : Bytes),
        (enc32 a ++ (enc32 b ++ (enc32 c ++ (enc32 d ++ (enc32 e ++ x))))).drop 20 = x := by
      intros; simp [enc32]
    have D24 : ∀ (a b c d e g : Nat) (x : Bytes),
        (enc32 a ++ (enc32 b ++ (enc32 c ++ (enc32 d ++ (enc32 e ++ (enc32 g ++ x)))))).drop 24 = x := by
      intros; simp [enc32]
    have T8 : ∀ (a b : Nat) (x : Bytes), (enc32 a ++ (enc32 b ++ x)).take 8 = enc32 a ++ enc32 b := by
      intros; simp [enc32]
    rw [if_neg L, D8, D12, D4, D24, D16, D20, T8, F4]
    rw [be32_enc32_append _ _ hs1, be32_enc32_append _ _ hs2, be32_enc32_append _ _ gcl,
      be32_enc32_append _ _ (u32_toNat_lt _), be32_enc32_append _ _ (u32_toNat_lt _)]
    simp only [ne_eq, not_true_eq_false, or_self, if_false, if_true]
    subst htail
    have hl : ¬ (f.data ++ serializeFrames h c t).length < h.pageSize := by simp; omega
    have ht : (f.data ++ serializeFrames h c t).take h.pageSize = f.data := by rw [← gd]; simp
    have hd : (f.data ++ serializeFrames h c t).drop h.pageSize = serializeFrames h c t := by rw [← gd]; simp
    rw [if_neg hl, if_neg (by omega), ht, hd, hc1, hc]
    simp only [not_true_eq_false, or_self, if_false, gp]
    rw [ih c k (by simpa using hf) (fun g hg' => hg g (by simp [hg']))]

theorem serializeFrames_length (h : Header) : ∀ (fs : List Frame) (chk : UInt32 × UInt32),
    24 * fs.length ≤ (serializeFrames h chk fs).length := by
  intro fs
  induction fs with
  | nil => intro _; simp [serializeFrames]
  | cons f t ih =>
    intro chk
    simp only [serializeFrames, List.length_append, enc32_length, List.length_cons]
    have := ih (cksum h.le (cksum h.le chk.1 chk.2 (enc32 f.pgno ++ enc32 f.commit)).1
      (cksum h.le chk.1 chk.2 (enc32 f.pgno ++ enc32 f.commit)).2 f.data)
    omega

/-- a header as `parseHeader` produces it -/
def Header.WF (h : Header) : Prop :=
  (h.magic = magicLE ∨ h.magic = magicBE) ∧ h.pageSize < 4294967296 ∧ h.seq < 4294967296 ∧
  h.salt1 < 4294967296 ∧ h.salt2 < 4294967296 ∧
  cksum h.le 0 0 (enc32 h.magic ++ (enc32 walVersion ++ (enc32 h.pageSize ++ (enc32 h.seq ++
    (enc32 h.salt1 ++ enc32 h.salt2))))) = (h.chk1, h.chk2)

theorem parseHeader_serialize (h : Header) (hw : h.WF) (body : Bytes) :
    parseHeader (serializeHeader h ++ body) = .ok h := by
  obtain ⟨hm, hps, hsq, hs1, hs2, hck⟩ := hw
  have hbs : serializeHeader h ++ body =
      enc32 h.magic ++ (enc32 walVersion ++ (enc32 h.pageSize ++ (enc32 h.seq ++ (enc32 h.salt1 ++
        (enc32 h.salt2 ++ (enc32 h.chk1.toNat ++ (enc32 h.chk2.toNat ++ body))))))) := by
    simp only [serializeHeader, List.append_assoc]
  rw [hbs]
  have hml : h.magic < 4294967296 := by rcases hm with e | e <;> rw [e] <;> decide
  have L : ¬ (enc32 h.magic ++ (enc32 walVersion ++ (enc32 h.pageSize ++ (enc32 h.seq ++ (enc32 h.salt1 ++
        (enc32 h.salt2 ++ (enc32 h.chk1.toNat ++ (enc32 h.chk2.toNat ++ body))))))) ).length < 32 := by
    simp [enc32_length]; omega
  have D4 : ∀ (a : Nat) (x : Bytes), (enc32 a ++ x).drop 4 = x := by intros; simp [enc32]
  have D8 : ∀ (a b : Nat) (x : Bytes), (enc32 a ++ (enc32 b ++ x)).drop 8 = x := by intros; simp [enc32]
  have D12 : ∀ (a b c : Nat) (x : Bytes), (enc32 a ++ (enc32 b ++ (enc32 c ++ x))).drop 12 = x := by
    intros; simp [enc32]
  have D16 : ∀ (a b c d : Nat) (x : Bytes), (enc32 a ++ (enc32 b ++ (enc32 c ++ (enc32 d ++ x)))).drop 16 = x := by
    intros; simp [enc32]
  have D20 : ∀ (a b c d e : Nat) (x : Bytes),
      (enc32 a ++ (enc32 b ++ (enc32 c ++ (enc32 d ++ (enc32 e ++ x))))).drop 20 = x := by
    intros; simp [enc32]
  have D24 : ∀ (a b c d e g : Nat) (x : Bytes),
      (enc32 a ++ (enc32 b ++ (enc32 c ++ (enc32 d ++ (enc32 e ++ (enc32 g ++ x)))))).drop 24 = x := by
    intros; simp [enc32]
  have D28 : ∀ (a b c d e g i : Nat) (x : Bytes),
      (enc32 a ++ (enc32 b ++ (enc32 c ++ (enc32 d ++ (enc32 e ++ (enc32 g ++ (enc32 i ++ x))))))).drop 28 = x := by
    intros; simp [enc32]
  have T24 : ∀ (a b c d e g : Nat) (x : Bytes),
      (enc32 a ++ (enc32 b ++ (enc32 c ++ (enc32 d ++ (enc32 e ++ (enc32 g ++ x)))))).take 24 =
        enc32 a ++ (enc32 b ++ (enc32 c ++ (enc32 d ++ (enc32 e ++ enc32 g)))) := by
    intros; simp [enc32]
  simp only [parseHeader]
  rw [if_neg L, be32_enc32_append _ _ hml, D4, D8, D12, D16, D20, D24, D28, T24]
  rw [be32_enc32_append _ _ (by decide : walVersion < 4294967296), be32_enc32_append _ _ hps,
    be32_enc32_append _ _ hsq, be32_enc32_append _ _ hs1, be32_enc32_append _ _ hs2,
    be32_enc32_append _ _ (u32_toNat_lt _), be32_enc32_append _ _ (u32_toNat_lt _)]
  have hle : (h.magic == magicLE) = h.le := rfl
  rw [hle, hck]
  have hm' : ¬ (h.magic ≠ magicLE ∧ h.magic ≠ magicBE) := by
    rcases hm with e | e <;> simp [e]
  rw [if_neg hm']
  simp

theorem take4_eq (l : Bytes) (h : 4 ≤ l.length) : l.take 4 = enc32 (be32 l) := by
  match l, h with
  | a :: b :: c :: d :: t, _ => rw [enc32_be32]; rfl

theorem take24_eq (l : Bytes) (h : 24 ≤ l.length) :
    l.take 24 = enc32 (be32 l) ++ (enc32 (be32 (l.drop 4)) ++ (enc32 (be32 (l.drop 8)) ++
      (enc32 (be32 (l.drop 12)) ++ (enc32 (be32 (l.drop 16)) ++ enc32 (be32 (l.drop 20)))))) := by
  have s : ∀ (m : Bytes) (k : Nat), m.take (4 + k) = m.take 4 ++ (m.drop 4).take k := by
    intro m k; rw [List.take_add]
  rw [show (24 : Nat) = 4 + (4 + (4 + (4 + (4 + 4)))) from rfl]
  rw [s, s, s, s, s]
  simp only [List.drop_drop]
  rw [take4_eq l (by omega), take4_eq (l.drop 4) (by simp; omega), take4_eq (l.drop (4+4)) (by simp; omega),
    take4_eq (l.drop (4+4+4)) (by simp; omega), take4_eq (l.drop (4+4+4+4)) (by simp; omega),
    take4_eq (l.drop (4+4+4+4+4)) (by simp; omega)]

/-- every header `parseHeader` accepts is well formed -/
theorem parseHeader_wf (wal : Bytes) (h : Header) (hp : parseHeader wal = .ok h) : h.WF := by
  simp only [parseHeader] at hp
  split at hp
  · cases hp
  rename_i hl
  split at hp
  · cases hp
  rename_i hm
  split at hp
  · cases hp
  rename_i hc
  split at hp
  · cases hp
  rename_i hv
  obtain rfl := HdrRes.ok.inj hp
  have hm' : be32 wal = magicLE ∨ be32 wal = magicBE := by
    by_cases e : be32 wal = magicLE
    · exact Or.inl e
    · by_cases e' : be32 wal = magicBE
      · exact Or.inr e'
      · exact absurd ⟨e, e'⟩ hm
  refine ⟨hm', be32_lt _, be32_lt _, be32_lt _, be32_lt _, ?_⟩
  have hv' : be32 (wal.drop 4) = walVersion := by simpa using hv
  have := take24_eq wal (by omega)
  rw [hv'] at this
  simp only [Header.le]
  rw [← this]

/-- frames produced by the scan carry 32-bit fields, a non-zero page number and at most a
page of data -/
theorem readFrames_good (full : Bool) (h : Header) : ∀ (fuel : Nat) (chk : UInt32 × UInt32) (bs : Bytes),
    ∀ f ∈ (readFrames full h fuel chk bs).1,
      f.pgno ≠ 0 ∧ f.pgno < 4294967296 ∧ f.commit < 4294967296 ∧ f.data.length ≤ h.pageSize := by
  intro fuel
  induction fuel with
  | zero => intro _ _ f hf; simp [readFrames] at hf
  | succ k ih =>
    intro chk bs f hf
    simp only [readFrames] at hf
    split at hf
    · simp at hf
    split at hf
    · simp at hf
    split at hf
    · split at hf
      · simp at hf
      split at hf
      · simp at hf
      split at hf
      · simp at hf
      split at hf
      · simp at hf
      rename_i hz
      simp only [List.mem_cons] at hf
      rcases hf with rfl | hf
      · exact ⟨hz, be32_lt _, be32_lt _, by simp [List.length_take]; omega⟩
      · exact ih _ _ f hf
    · split at hf
      · simp at hf
      rename_i hz
      simp only [List.mem_cons] at hf
      rcases hf with rfl | hf
      · exact ⟨hz, be32_lt _, be32_lt _, by simp [List.length_take]; omega⟩
      · exact ih _ _ f hf

/-- index (counting from `i`) of the last frame for page `p` -/
def lastIdx : List Frame → Nat → Nat → Option Nat
  | [], _, _ => none
  | f :: rest, i, p =>
    match lastIdx rest (i + 1) p with
    | some j => some j
    | none => if f.pgno = p then some i else none

theorem lastIdx_ge : ∀ (l : List Frame) (i p j : Nat), lastIdx l i p = some j → i ≤ j := by
  intro l
  induction l with
  | nil => intro i p j h; simp [lastIdx] at h
  | cons f rest ih =>
    intro i p j h
    simp only [lastIdx] at h
    cases hr : lastIdx rest (i + 1) p with
    | some k => rw [hr] at h; cases h; have := ih _ _ _ hr; omega
    | none =>
      rw [hr] at h
      by_cases hf : f.pgno = p
      · simp [hf] at h; omega
      · simp [hf] at h

theorem lastIdx_none_iff : ∀ (l : List Frame) (i p : Nat),
    lastIdx l i p = none ↔ l.any (fun g => g.pgno == p) = false := by
  intro l
  induction l with
  | nil => intro i p; simp [lastIdx]
  | cons f rest ih =>
    intro i p
    simp only [lastIdx, List.any_cons, Bool.or_eq_false_iff, beq_eq_false_iff_ne]
    cases hr : lastIdx rest (i + 1) p with
    | some k =>
      cases hany : rest.any (fun g => g.pgno == p) with
      | false => have := (ih (i + 1) p).2 hany; rw [hr] at this; cases this
      | true => simp
    | none =>
      have := (ih (i + 1) p).1 hr
      by_cases hf : f.pgno = p <;> simp [hf, this]

/-- the loop, on a list that ends with a commit frame -/
theorem scanLoop_spec : ∀ (l : List Frame) (i : Nat) (tx frames : Nat → Option Nat) (p : Nat),
    l ≠ [] → openTx l = false →
    scanLoop l i tx frames p =
      (match lastIdx l i p with
       | some j => some j
       | none => match tx p with | some v => some v | none => frames p) := by
  intro l
  induction l with
  | nil => intro _ _ _ _ h; exact absurd rfl h
  | cons f rest ih =>
    intro i tx frames p _ ho
    by_cases hr : rest = []
    · subst hr
      have hc : (f.commit == 0) = false := by simpa [openTx] using ho
      simp only [scanLoop, hc, lastIdx, mapsCopy, upd]
      by_cases hp : p = f.pgno
      · simp [hp, mapsCopy, upd]
      · have : ¬ f.pgno = p := fun h => hp h.symm
        simp [hp, this, mapsCopy, upd]
        cases tx p <;> rfl
    · have ho' : openTx rest = false := by
        cases rest with
        | nil => exact absurd rfl hr
        | cons g t => simpa [openTx, List.getLast?_cons_cons] using ho
      simp only [scanLoop, lastIdx]
      by_cases hc : (f.commit == 0) = true
      · simp only [hc, if_true]
        rw [ih (i + 1) _ _ p hr ho']
        cases lastIdx rest (i + 1) p with
        | some j => rfl
        | none =>
          simp only [upd]
          by_cases hp : p = f.pgno
          · simp [hp]
          · have : ¬ f.pgno = p := fun h => hp h.symm
            simp [hp, this]
      · simp only [hc, if_false, Bool.false_eq_true]
        rw [ih (i + 1) _ _ p hr ho']
        cases lastIdx rest (i + 1) p with
        | some j => rfl
        | none =>
          simp only [mapsCopy, upd]
          by_cases hp : p = f.pgno
          · simp [hp]
          · have : ¬ f.pgno = p := fun h => hp h.symm
            simp [hp, this]
            cases tx p <;> rfl

/-- keeping the frames that are the last for their page = `compactFrames` -/
theorem keepValues_lastIdx (m : Nat → Option Nat) : ∀ (l : List Frame) (i : Nat),
    (∀ (k : Nat) (f : Frame), l[k]? = some f → (m f.pgno = some (i + k) ↔ (l.drop (k + 1)).any (fun g => g.pgno == f.pgno) = false)) →
    keepValues m l i = compactFrames l := by
  intro l
  induction l with
  | nil => intro _ _; rfl
  | cons f rest ih =>
    intro i hk
    have h0 := hk 0 f (by simp)
    simp only [Nat.add_zero, Nat.zero_add, List.drop_succ_cons, List.drop_zero] at h0
    have hrest : keepValues m rest (i + 1) = compactFrames rest := by
      apply ih (i + 1)
      intro k g hg
      have := hk (k + 1) g (by simpa using hg)
      simpa [Nat.add_assoc, Nat.add_comm 1 k] using this
    simp only [keepValues, compactFrames, hrest]
    by_cases ha : rest.any (fun g => g.pgno == f.pgno) = true
    · have : ¬ m f.pgno = some i := fun h => by rw [h0.1 h] at ha; cases ha
      simp [ha, this]
    · have ha' : rest.any (fun g => g.pgno == f.pgno) = false := by simpa using ha
      simp [ha', h0.2 ha']

theorem lastIdx_at : ∀ (l : List Frame) (i k : Nat) (f : Frame), l[k]? = some f →
    (lastIdx l i f.pgno = some (i + k) ↔ (l.drop (k + 1)).any (fun g => g.pgno == f.pgno) = false) := by
  intro l
  induction l with
  | nil => intro i k f h; simp at h
  | cons g rest ih =>
    intro i k f h
    cases k with
    | zero =>
      simp only [List.getElem?_cons_zero, Option.some.injEq] at h
      subst h
      simp only [lastIdx, Nat.add_zero, Nat.zero_add, List.drop_succ_cons, List.drop_zero]
      cases hr : lastIdx rest (i + 1) g.pgno with
      | some j =>
        have hge := lastIdx_ge _ _ _ _ hr
        have hany : rest.any (fun x => x.pgno == g.pgno) = true := by
          cases ha : rest.any (fun x => x.pgno == g.pgno) with
          | true => rfl
          | false => have := (lastIdx_none_iff rest (i + 1) g.pgno).2 ha; rw [hr] at this; cases this
        simp only [hany, Bool.true_eq_false, iff_false, Option.some.injEq]
        omega
      | none =>
        have := (lastIdx_none_iff rest (i + 1) g.pgno).1 hr
        simp [this]
    | succ k' =>
      have h' : rest[k']? = some f := by simpa using h
      have := ih (i + 1) k' f h'
      simp only [lastIdx, List.drop_succ_cons]
      cases hr : lastIdx rest (i + 1) f.pgno with
      | some j =>
        rw [hr] at this
        simp only at this ⊢
        rw [← this]
        constructor <;> intro e <;> (have := Option.some.inj e; congr 1; omega)
      | none =>
        -- impossible: f itself is in `rest`
        have hany := (lastIdx_none_iff rest (i + 1) f.pgno).1 hr
        have hmem : f ∈ rest := List.mem_of_getElem? h'
        have : rest.any (fun x => x.pgno == f.pgno) = true := List.any_eq_true.2 ⟨f, hmem, by simp⟩
        rw [hany] at this; cases this

/-- **scan_literal_eq.** The two-map algorithm of `scan` followed by the sort by offset
yields, for every frame list that does not end in an open transaction, exactly
`compactFrames`: the last frame of every page, in file order. -/
theorem scanLiteral_eq (fs : List Frame) (h : openTx fs = false) : scanLiteral fs = compactFrames fs := by
  by_cases hne : fs = []
  · subst hne; rfl
  · unfold scanLiteral
    apply keepValues_lastIdx
    intro k f hk
    rw [scanLoop_spec fs 0 _ _ f.pgno hne h]
    have := lastIdx_at fs 0 k f hk
    cases hl : lastIdx fs 0 f.pgno with
    | some j => rw [hl] at this; simpa using this
    | none => rw [hl] at this; simpa using this


/-- bytes at which every scan stops: too short for a frame header, or another generation's salts -/
def Stops (h : Header) (tail : Bytes) : Prop :=
  tail.length < 24 ∨ be32 (tail.drop 8) ≠ h.salt1 ∨ be32 (tail.drop 12) ≠ h.salt2

theorem readFrames_stops (full : Bool) (h : Header) (fuel : Nat) (chk : UInt32 × UInt32) (tail : Bytes)
    (hs : Stops h tail) : readFrames full h fuel chk tail = ([], .eof) := by
  cases fuel with
  | zero => rfl
  | succ k =>
    simp only [readFrames]
    rcases hs with h1 | h2
    · rw [if_pos h1]
    · by_cases h1 : tail.length < 24
      · rw [if_pos h1]
      · rw [if_neg h1, if_pos h2]

/-- chain-valid frames followed by bytes at which the scan stops: BOTH scan modes read exactly
the frames, wherever in the chain they start -/
theorem readFrames_serializeFrames_tail (full : Bool) (h : Header) (hp : h.pageSize % 8 = 0)
    (hs1 : h.salt1 < 4294967296) (hs2 : h.salt2 < 4294967296) (tail : Bytes) (hst : Stops h tail) :
    ∀ (fs : List Frame) (chk chk' : UInt32 × UInt32) (fuel : Nat), fs.length < fuel →
      (∀ f ∈ fs, GoodFrame h f) → (full = true → chk' = chk) →
      readFrames full h fuel chk' (serializeFrames h chk fs ++ tail) = (fs, .eof) := by
  intro fs
  induction fs with
  | nil =>
    intro chk chk' fuel _ _ _
    simp only [serializeFrames, List.nil_append]
    exact readFrames_stops full h fuel chk' tail hst
  | cons f t ih =>
    intro chk chk' fuel hf hg hck
    obtain ⟨k, rfl⟩ : ∃ k, fuel = k + 1 := ⟨fuel - 1, by omega⟩
    obtain ⟨gd, gp, gpl, gcl⟩ := hg f (by simp)
    generalize hc1 : cksum h.le chk.1 chk.2 (enc32 f.pgno ++ enc32 f.commit) = c1
    generalize hc : cksum h.le c1.1 c1.2 f.data = c
    have hbs : serializeFrames h chk (f :: t) ++ tail =
        enc32 f.pgno ++ (enc32 f.commit ++ (enc32 h.salt1 ++ (enc32 h.salt2 ++
          (enc32 c.1.toNat ++ (enc32 c.2.toNat ++ (f.data ++ (serializeFrames h c t ++ tail))))))) := by
      simp only [serializeFrames, hc1, hc, List.append_assoc]
    generalize htail : f.data ++ (serializeFrames h c t ++ tail) = rest at hbs
    rw [hbs]
    have F4 : be32 (enc32 f.pgno ++ (enc32 f.commit ++ (enc32 h.salt1 ++ (enc32 h.salt2 ++
          (enc32 c.1.toNat ++ (enc32 c.2.toNat ++ rest)))))) = f.pgno := be32_enc32_append _ _ gpl
    simp only [readFrames]
    have L : ¬ (enc32 f.pgno ++ (enc32 f.commit ++ (enc32 h.salt1 ++ (enc32 h.salt2 ++
          (enc32 c.1.toNat ++ (enc32 c.2.toNat ++ rest)))))).length < 24 := by
      simp [enc32_length]; omega
    have D4 : ∀ (a : Nat) (x : Bytes), (enc32 a ++ x).drop 4 = x := by intros; simp [enc32]
    have D8 : ∀ (a b : Nat) (x : Bytes), (enc32 a ++ (enc32 b ++ x)).drop 8 = x := by intros; simp [enc32]
    have D12 : ∀ (a b c : Nat) (x : Bytes), (enc32 a ++ (enc32 b ++ (enc32 c ++ x))).drop 12 = x := by
      intros; simp [enc32]
    have D16 : ∀ (a b c d : Nat) (x : Bytes), (enc32 a ++ (enc32 b ++ (enc32 c ++ (enc32 d ++ x)))).drop 16 = x := by
      intros; simp [enc32]
    have D20 : ∀ (a b c d e : Nat) (x : Bytes),
        (enc32 a ++ (enc32 b ++ (enc32 c ++ (enc32 d ++ (enc32 e ++ x))))).drop 20 = x := by
      intros; simp [enc32]
    have D24 : ∀ (a b c d e g : Nat) (x : Bytes),
        (enc32 a ++ (enc32 b ++ (enc32 c ++ (enc32 d ++ (enc32 e ++ (enc32 g ++ x)))))).drop 24 = x := by
      intros; simp [enc32]
    have T8 : ∀ (a b : Nat) (x : Bytes), (enc32 a ++ (enc32 b ++ x)).take 8 = enc32 a ++ enc32 b := by
      intros; simp [enc32]
    rw [if_neg L, D8, D12, D4, D24, D16, D20, T8, F4]
    rw [be32_enc32_append _ _ hs1, be32_enc32_append _ _ hs2, be32_enc32_append _ _ gcl,
      be32_enc32_append _ _ (u32_toNat_lt _), be32_enc32_append _ _ (u32_toNat_lt _)]
    simp only [ne_eq, not_true_eq_false, or_self, if_false]
    subst htail
    have hl : ¬ (f.data ++ (serializeFrames h c t ++ tail)).length < h.pageSize := by simp; omega
    have ht : (f.data ++ (serializeFrames h c t ++ tail)).take h.pageSize = f.data := by rw [← gd]; simp
    have hd : (f.data ++ (serializeFrames h c t ++ tail)).drop h.pageSize = serializeFrames h c t ++ tail := by
      rw [← gd]; simp
    cases full with
    | true =>
      have := hck rfl
      subst this
      simp only [if_true]
      rw [if_neg hl, if_neg (by omega), ht, hd, hc1, hc]
      simp only [not_true_eq_false, or_self, if_false, gp]
      rw [ih c c k (by simpa using hf) (fun g hg' => hg g (by simp [hg'])) (fun _ => rfl)]
    | false =>
      simp only [Bool.false_eq_true, if_false, gp, ht, hd]
      rw [ih c chk' k (by simpa using hf) (fun g hg' => hg g (by simp [hg'])) (fun h => by cases h)]

/-- dropping whole frames from a serialised chain leaves the serialised rest of the chain -/
theorem serializeFrames_drop (h : Header) : ∀ (fs : List Frame) (chk : UInt32 × UInt32) (k : Nat),
    (∀ f ∈ fs, f.data.length = h.pageSize) → k ≤ fs.length →
    ∃ chk', (serializeFrames h chk fs).drop (k * frameSize h) = serializeFrames h chk' (fs.drop k) := by
  intro fs
  induction fs with
  | nil => intro chk k _ hk; exact ⟨chk, by simp [serializeFrames]⟩
  | cons f t ih =>
    intro chk k hd hk
    cases k with
    | zero => exact ⟨chk, by simp⟩
    | succ j =>
      have hfd := hd f (by simp)
      obtain ⟨c', hc'⟩ := ih (cksum h.le (cksum h.le chk.1 chk.2 (enc32 f.pgno ++ enc32 f.commit)).1
        (cksum h.le chk.1 chk.2 (enc32 f.pgno ++ enc32 f.commit)).2 f.data) j
        (fun g hg => hd g (by simp [hg])) (by simpa using hk)
      refine ⟨c', ?_⟩
      have e : (j + 1) * frameSize h = frameSize h + j * frameSize h := by rw [Nat.succ_mul]; omega
      simp only [serializeFrames, List.drop_succ_cons]
      rw [← hc', e, ← List.drop_drop]
      congr 1
      apply List.drop_left'
      simp [enc32_length, frameSize, hfd]; omega

theorem serializeFrames_length_eq (h : Header) : ∀ (fs : List Frame) (chk : UInt32 × UInt32),
    (∀ f ∈ fs, f.data.length = h.pageSize) → (serializeFrames h chk fs).length = fs.length * frameSize h := by
  intro fs
  induction fs with
  | nil => intro _ _; simp [serializeFrames]
  | cons f t ih =>
    intro chk hd
    have := ih (cksum h.le (cksum h.le chk.1 chk.2 (enc32 f.pgno ++ enc32 f.commit)).1
      (cksum h.le chk.1 chk.2 (enc32 f.pgno ++ enc32 f.commit)).2 f.data) (fun g hg => hd g (by simp [hg]))
    simp only [serializeFrames, List.length_append, enc32_length, this, hd f (by simp), List.length_cons,
      frameSize, Nat.succ_mul]
    omega

end RqModel.Wal

/-
Invariant of the snapshot-stream locking system (RqModel/Model/Streamer.lean)
and its preservation by every step. Used by Props/C11.
-/
import RqModel.Model.Streamer
namespace RqModel.Streamer
open RqModel.Rsync

structure StreamInv (st : Stream) : Prop where
  once : st.endReads = (if st.closed then 1 else 0)
  rc : st.rcCloses = (if st.closed then 1 else 0)
  to : st.timedOut = true → st.closed = true
  armed : st.closed = false → st.timeout > 0 → st.deadline.isSome = true

structure Inv (s : Sys) : Prop where
  count : s.m.numReaders = ((openCount s.streams + s.aux : Nat) : Int)
  owner : s.m.owner ≠ "" ↔ s.reaping = 1
  one : s.reaping ≤ 1
  excl : s.reaping = 1 → openCount s.streams = 0 ∧ s.aux = 0
  streams : ∀ st ∈ s.streams, StreamInv st
  noPanic : s.panicked = false

theorem init_inv : Inv {} := by
  refine ⟨by simp [openCount], by simp, by simp, by simp, by simp, rfl⟩

theorem openCount_cons (a : Stream) (l : List Stream) :
    openCount (a :: l) = (if a.closed then 0 else 1) + openCount l := by
  simp only [openCount, List.filter_cons]
  cases a.closed <;> simp <;> omega

theorem openCount_append (a b : List Stream) : openCount (a ++ b) = openCount a + openCount b := by
  simp [openCount, List.filter_append]

theorem openCount_set (l : List Stream) (i : Nat) (st st' : Stream) (h : l[i]? = some st) :
    openCount (l.set i st') + (if st.closed then 0 else 1) =
      openCount l + (if st'.closed then 0 else 1) := by
  induction l generalizing i with
  | nil => simp at h
  | cons a t ih =>
    cases i with
    | zero =>
      simp only [List.getElem?_cons_zero, Option.some.injEq] at h
      subst h
      simp only [List.set_cons_zero, openCount_cons]
      omega
    | succ j =>
      simp only [List.getElem?_cons_succ] at h
      have := ih j h
      simp only [List.set_cons_succ, openCount_cons]
      omega

theorem streams_set (l : List Stream) (i : Nat) (st' : Stream)
    (h : ∀ x ∈ l, StreamInv x) (h' : StreamInv st') : ∀ x ∈ l.set i st', StreamInv x := by
  intro x hx
  rcases List.mem_or_eq_of_mem_set hx with hx | hx
  · exact h x hx
  · subst hx; exact h'

theorem close_streamInv (st : Stream) (h : StreamInv st) : StreamInv st.close.1 := by
  unfold Stream.close
  split
  · exact h
  · rename_i hc
    have hc' : st.closed = false := by simpa using hc
    have h1 := h.once; have h2 := h.rc
    simp only [hc', Bool.false_eq_true, if_false] at h1 h2
    exact ⟨by simp [h1], by simp [h2], fun _ => rfl, fun hcl => by simp at hcl⟩

theorem checkIdle_streamInv (st : Stream) (now : Nat) (h : StreamInv st) : StreamInv (st.checkIdle now).1 := by
  unfold Stream.checkIdle
  split
  · exact h
  · rename_i hc
    have hc' : st.closed = false := by simpa using hc
    have h1 := h.once; have h2 := h.rc
    simp only [hc', Bool.false_eq_true, if_false] at h1 h2
    dsimp only
    split
    · refine ⟨by simp [hc', h1], by simp [hc', h2], ?_, fun _ _ => rfl⟩
      intro ht; have := h.to ht; rw [hc'] at this; cases this
    · exact ⟨by simp [h1], by simp [h2], fun _ => rfl, fun hcl => by simp at hcl⟩

theorem read_streamInv (st st' : Stream) (now n : Nat) (h : StreamInv st) (hr : st.read now n = some st') :
    StreamInv st' ∧ st'.closed = st.closed := by
  unfold Stream.read at hr
  split at hr
  · cases hr
  · simp only [Option.some.injEq] at hr
    subst hr
    split
    · exact ⟨⟨h.once, h.rc, h.to, h.armed⟩, rfl⟩
    · exact ⟨h, rfl⟩

/-- a stream step that released: exactly one open stream fewer, and `EndRead` is safe -/
theorem release_inv (s : Sys) (i : Nat) (st st' : Stream) (rel : Bool)
    (h : Inv s) (hg : s.streams[i]? = some st) (hs' : StreamInv st')
    (hrel : rel = true → st.closed = false ∧ st'.closed = true)
    (hnrel : rel = false → st'.closed = st.closed) :
    Inv (release { s with streams := s.streams.set i st' } rel) := by
  obtain ⟨hc, ho, h1, hx, hst, hp⟩ := h
  have hset := openCount_set s.streams i st st' hg
  have hstreams := streams_set s.streams i st' hst hs'
  cases rel with
  | false =>
    have e := hnrel rfl
    have hoc : openCount (s.streams.set i st') = openCount s.streams := by
      rw [e] at hset; omega
    simp only [release, Bool.false_eq_true, if_false]
    exact ⟨by rw [hoc]; exact hc, ho, h1, by rw [hoc]; exact hx, hstreams, hp⟩
  | true =>
    obtain ⟨e1, e2⟩ := hrel rfl
    rw [e1, e2] at hset
    simp only [Bool.false_eq_true, if_false, if_true] at hset
    have hpos : 1 ≤ openCount s.streams := by omega
    have hoc : openCount (s.streams.set i st') = openCount s.streams - 1 := by omega
    have hnot : ¬ s.reaping = 1 := fun hr => by have := (hx hr).1; omega
    have hn : ¬ (s.m.numReaders - 1 < 0) := by rw [hc]; omega
    simp only [release, if_true, Mrsw.endRead, hn, if_false, note, reduceCtorEq]
    refine ⟨?_, ho, h1, fun hr => absurd hr hnot, hstreams, hp⟩
    simp only [hoc, hc]
    omega

theorem step_inv (s : Sys) (stp : Step) (h : Inv s) : Inv (step s stp) := by
  have h' := h
  obtain ⟨hc, ho, h1, hx, hst, hp⟩ := h
  have hw0 : s.m.owner = "" ↔ s.reaping = 0 := by
    constructor
    · intro e
      have : ¬ s.reaping = 1 := fun l => (ho.2 l) e
      omega
    · intro e
      by_cases hoo : s.m.owner = ""
      · exact hoo
      · have := ho.1 hoo; omega
  cases stp with
  | open_ timeout now =>
    simp only [step, Mrsw.beginRead]
    by_cases hown : s.m.owner = ""
    · simp only [hown, ne_eq, not_true_eq_false, if_false]
      have hr0 := hw0.1 hown
      refine ⟨?_, by simp [hown, hr0], h1, fun hr => by simp only at hr; omega, ?_, hp⟩
      · simp only [openCount_append, hc]
        have : openCount [newStream timeout now] = 1 := by simp [openCount, newStream]
        rw [this]; omega
      · intro st hm
        rcases List.mem_append.1 hm with hm | hm
        · exact hst st hm
        · simp only [List.mem_singleton] at hm
          subst hm
          refine ⟨rfl, rfl, fun ht => by simp [newStream] at ht, ?_⟩
          intro _ hto
          simp only [newStream] at hto ⊢
          simp [hto]
    · simp only [ne_eq, hown, not_false_eq_true, if_true]
      exact h'
  | openFail =>
    simp only [step, Mrsw.beginRead]
    by_cases hown : s.m.owner = ""
    · simp only [hown, ne_eq, not_true_eq_false, if_false]
      have hn : ¬ (s.m.numReaders + 1 - 1 < 0) := by rw [hc]; omega
      simp only [Mrsw.endRead, hn, if_false, note, reduceCtorEq]
      refine ⟨by simp only [hc]; omega, by simp only [hown]; exact ho |> fun h => by simpa [hown] using h, h1, hx, hst, hp⟩
    · simp only [ne_eq, hown, not_false_eq_true, if_true]
      exact h'
  | close i =>
    simp only [step]
    cases hg : s.streams[i]? with
    | none => exact h'
    | some st =>
      simp only
      apply release_inv s i st _ _ h' hg (close_streamInv st (hst st (List.mem_of_getElem? hg)))
      · intro hrel
        unfold Stream.close at hrel ⊢
        split at hrel
        · cases hrel
        · rename_i hcl
          simp only [hcl, if_false]
          exact ⟨by simpa using hcl, rfl⟩
      · intro hrel
        unfold Stream.close at hrel ⊢
        split
        · rfl
        · rename_i hcl; simp only [hcl, if_false] at hrel; cases hrel
  | checkIdle i now =>
    simp only [step]
    cases hg : s.streams[i]? with
    | none => exact h'
    | some st =>
      simp only
      apply release_inv s i st _ _ h' hg (checkIdle_streamInv st now (hst st (List.mem_of_getElem? hg)))
      · intro hrel
        unfold Stream.checkIdle at hrel ⊢
        split at hrel
        · cases hrel
        · rename_i hcl
          simp only [hcl, if_false]
          dsimp only at hrel ⊢
          split at hrel
          · cases hrel
          · rename_i hidle
            simp only [hidle, if_false]
            exact ⟨by simpa using hcl, rfl⟩
      · intro hrel
        unfold Stream.checkIdle at hrel ⊢
        split
        · rfl
        · rename_i hcl
          simp only [hcl, if_false] at hrel
          dsimp only at hrel ⊢
          split
          · rfl
          · rename_i hidle; simp only [hidle, if_false] at hrel; cases hrel
  | read i now n =>
    simp only [step]
    cases hg : s.streams[i]? with
    | none => exact h'
    | some st =>
      simp only
      cases hr : st.read now n with
      | none => exact h'
      | some st' =>
        simp only
        obtain ⟨hi, hcl⟩ := read_streamInv st st' now n (hst st (List.mem_of_getElem? hg)) hr
        have hset := openCount_set s.streams i st st' hg
        rw [hcl] at hset
        have hoc : openCount (s.streams.set i st') = openCount s.streams := by omega
        exact ⟨by rw [hoc]; exact hc, ho, h1, by rw [hoc]; exact hx, streams_set _ _ _ hst hi, hp⟩
  | auxBegin =>
    simp only [step, Mrsw.beginRead]
    by_cases hown : s.m.owner = ""
    · simp only [hown, ne_eq, not_true_eq_false, if_false]
      have hr0 := hw0.1 hown
      exact ⟨by simp only [hc]; omega, by simp [hown, hr0], h1, fun hr => by simp only at hr; omega, hst, hp⟩
    · simp only [ne_eq, hown, not_false_eq_true, if_true]
      exact h'
  | auxBeginBlocking =>
    simp only [step, Mrsw.beginReadBlocking, Mrsw.readEnabled]
    by_cases hown : s.m.owner = ""
    · simp only [hown, beq_self_eq_true, if_true]
      have hr0 := hw0.1 hown
      exact ⟨by simp only [hc]; omega, by simp [hown, hr0], h1, fun hr => by simp only at hr; omega, hst, hp⟩
    · have : (s.m.owner == "") = false := by simpa using hown
      simp only [this, Bool.false_eq_true, if_false]
      exact h'
  | auxEnd =>
    simp only [step]
    split
    · rename_i hpos
      have hnot : ¬ s.reaping = 1 := fun hr => by have := (hx hr).2; omega
      have hn : ¬ (s.m.numReaders - 1 < 0) := by rw [hc]; omega
      simp only [Mrsw.endRead, hn, if_false, note, reduceCtorEq]
      exact ⟨by simp only [hc]; omega, ho, h1, fun hr => absurd hr hnot, hst, hp⟩
    · exact h'
  | reapTry =>
    simp only [step, Mrsw.beginWrite]
    have hne : ("reap" : String) ≠ "" := by decide
    simp only [hne, if_false]
    by_cases hown : s.m.owner = ""
    · simp only [hown, ne_eq, not_true_eq_false, if_false]
      have hr0 := hw0.1 hown
      by_cases hr : s.m.numReaders > 0
      · simp only [hr, if_true]; exact h'
      · simp only [hr, if_false]
        refine ⟨hc, by simp [hr0, hne], by simp only; omega, fun _ => ?_, hst, hp⟩
        rw [hc] at hr
        constructor <;> simp only <;> omega
    · simp only [ne_eq, hown, not_false_eq_true, if_true]
      exact h'
  | reapBlocking =>
    simp only [step, Mrsw.beginWriteBlocking]
    have hne : ("reap" : String) ≠ "" := by decide
    simp only [hne, if_false]
    by_cases hen : s.m.writeEnabled = true
    · simp only [hen, if_true]
      simp only [Mrsw.writeEnabled, Bool.and_eq_true, beq_iff_eq, decide_eq_true_eq] at hen
      have hr0 := hw0.1 hen.1
      refine ⟨hc, by simp [hr0, hne], by simp only; omega, fun _ => ?_, hst, hp⟩
      have := hen.2
      rw [hc] at this
      constructor <;> simp only <;> omega
    · simp only [hen, if_false]
      exact h'
  | reapEnd =>
    simp only [step]
    split
    · rename_i hpos
      have hr1 : s.reaping = 1 := by omega
      have hown : s.m.owner ≠ "" := ho.2 hr1
      simp only [Mrsw.endWrite, hown, if_false, note, reduceCtorEq]
      exact ⟨hc, by simp [hr1], by simp only; omega, fun hr => by simp only; omega, hst, hp⟩
    · exact h'

theorem run_inv (s : Sys) (steps : List Step) (h : Inv s) : Inv (run s steps) := by
  induction steps generalizing s with
  | nil => exact h
  | cons st steps ih => exact ih _ (step_inv s st h)

end RqModel.Streamer

#!/bin/bash
# tools/verify_seed.sh <ID> [name]  — confirm a seeded change delivered in /tmp/seed-out/<ID>:
#  patch applies to /repo HEAD, tree builds, tests of touched packages pass (demo excluded),
#  demo FAILS with the patch and PASSES without it. On success copy to /verif/seeded/<name>/.
set -u
export GOFLAGS=-mod=mod GOPROXY=off GOSUMDB=off GOTOOLCHAIN=local
id=$1; name=${2:-$id}
src=${SEED_OUT:-/tmp/seed-out}/$id
wt=/tmp/seedverify-$id-$$
git -C /repo worktree add -q --detach $wt HEAD || exit 2
cleanup() { git -C /repo worktree remove --force $wt; }
trap cleanup EXIT
cd $wt
git apply $src/patch.diff || { echo "FAIL: patch does not apply"; exit 1; }
go1.26 build ./... || { echo "FAIL: build"; exit 1; }
pkgs=$(git diff --name-only | xargs -n1 dirname | sort -u | sed 's|^|./|' | tr '\n' ' ')
echo "touched packages: $pkgs"
go1.26 test -count=1 -vet=off -timeout 25m $pkgs 2>&1 | tail -5
[ ${PIPESTATUS[0]} -eq 0 ] || { echo "FAIL: existing tests of touched packages fail with the patch"; exit 1; }
# place demo
place=$(python3 - <<PY
import json,os
m=json.load(open('$src/meta.json'))
import re; print(re.sub(r'\\s+\\([^()]*\\)\\s*$','',m.get('demo_cmd','')))
PY
)
for f in $(find $src/demo -type f \( -name "*.go" -o -name "*.sqlite" -o -name "*.json" -o -name "*.sh" \)); do
  # placement: same relative dir as in the seed worktree
  rel=$(cd ${SEED_WT:-/tmp/seed}-$id 2>/dev/null && git status --porcelain | awk '{print $2}' | grep "$(basename $f)\$" | head -1)
  [ -z "$rel" ] && rel=$(python3 -c "
import json,re,glob
s=open('$src/meta.json').read()
for t in glob.glob('$src/demo/*.txt')+glob.glob('$src/*.txt')+glob.glob('$src/*.md'): s+=open(t).read()
b='$(basename $f)'
mm=re.search(r'(?:->|placed at|place at|to)\s*\`?([\w/.-]*/'+re.escape(b)+')', s)
if not mm: mm=re.search(re.escape(b)+r'[^\n]{0,40}?(?:->|place at|placed at|goes to|to)\s*\`?([\w/.-]+/[\w.-]+_test\.go)', s)
print(mm.group(1) if mm else '')")
  [ -z "$rel" ] && { echo "FAIL: cannot place demo $f"; exit 1; }
  mkdir -p $(dirname $rel); cp $f $rel; echo "demo placed: $rel"
done
echo "demo cmd: $place"
bash -c "$place" > /tmp/seedverify-$id.with.log 2>&1; rcw=$?
git apply -R $src/patch.diff
bash -c "$place" > /tmp/seedverify-$id.without.log 2>&1; rco=$?
echo "demo with patch rc=$rcw ; without patch rc=$rco"
if [ $rcw -ne 0 ] && [ $rco -eq 0 ]; then
  mkdir -p /verif/seeded/$name && cp -r $src/patch.diff $src/demo $src/meta.json /verif/seeded/$name/
  tail -5 /tmp/seedverify-$id.with.log > /verif/seeded/$name/demo_with_patch.log
  tail -3 /tmp/seedverify-$id.without.log > /verif/seeded/$name/demo_without_patch.log
  echo "CONFIRMED $name"
else
  echo "FAIL: demo does not discriminate"; tail -5 /tmp/seedverify-$id.with.log /tmp/seedverify-$id.without.log; exit 1
fi

package main

// Consts: numeric call-site arguments and constants that properties depend on.

func init() {
	register("Consts", func(x *X) {
		// C31: (*Store).Close waits for the snapshot gate:
		//   s.snapshotCAS.BeginWithRetry("close", <timeout>, <retryInterval>)
		x.Comment("store/store.go (*Store).Close: BeginWithRetry(\"close\", timeout, retryInterval) in ns")
		var tOK, rOK bool
		var tV, rV int64
		if fd := x.Func("store", "Store", "Close"); fd != nil {
			for _, c := range x.Calls(fd.Body, "BeginWithRetry") {
				if len(c.Args) == 3 && x.Src(c.Args[0]) == `"close"` {
					tV, tOK = x.Const("store", c.Args[1])
					rV, rOK = x.Const("store", c.Args[2])
				}
			}
		}
		x.DefOptInt("closeCasTimeoutNs", tV, tOK)
		x.DefOptInt("closeCasRetryNs", rV, rOK)
	})
}

package snapshot

// C07 correspondence + spec oracle: crash enumeration of a real reap on a real
// snapshot store (real SQLite files), compared with the Lean model `snapfs`
// (RqModel/Model/SnapFS.lean).
//
// No hooks in /repo are needed:
//   * the REAL plan is captured by pointing Store.reapPlanPath at a path whose
//     final rename must fail (a non-empty directory): reapInternal builds the plan,
//     writes <path>.tmp and returns before executing anything;
//   * plan.Execute takes a Visitor, so the real Executor is wrapped in a
//     fault-injecting visitor that stops before op k and leaves the partial effect
//     of a non-atomic op k on disk (prefix of the multi-WAL checkpoint via the real
//     Executor.Checkpoint on a prefix of the WAL list, rename-only, checkpoint applied
//     but WAL file still present, partial RemoveAll, truncated meta.json / CRC sidecar);
//   * interrupted recoveries repeat Store.check's plan handling (real ReadFromFile,
//     real LastOpDone/Checker, real Execute) with the same visitor;
//   * the final recovery is the real NewStore (real check), followed by the real
//     List / Open / Restore of the newest snapshot and the real CRC verification.

import (
	"encoding/json"
	"errors"
	"fmt"
	"hash/fnv"
	"io"
	"os"
	"path/filepath"
	"sort"
	"strconv"
	"strings"
	"testing"

	"github.com/hashicorp/raft"
	"github.com/rqlite/rqlite/v10/db"
	"github.com/rqlite/rqlite/v10/internal/rsum"
	"github.com/rqlite/rqlite/v10/snapshot/plan"
	"github.com/rqlite/rqlite/v10/snapshot/sidecar"
)

const c07NewName = 999999

// ---- real SQLite artifacts: one history, db_t holds rows 1..t, seg_t takes db_{t-1} to db_t

type c07Art struct {
	dir     string
	n       int
	segHash map[uint64]int
}

func (a *c07Art) dbPath(t int) string  { return filepath.Join(a.dir, fmt.Sprintf("db_%02d.db", t)) }
func (a *c07Art) segPath(t int) string { return filepath.Join(a.dir, fmt.Sprintf("seg_%02d.wal", t)) }

func c07Hash(path string) (uint64, int64, error) {
	b, err := os.ReadFile(path)
	if err != nil {
		return 0, 0, err
	}
	h := fnv.New64a()
	h.Write(b)
	return h.Sum64(), int64(len(b)), nil
}

func c07CopyFile(src, dst string) error {
	b, err := os.ReadFile(src)
	if err != nil {
		return err
	}
	return os.WriteFile(dst, b, 0o644)
}

func c07BuildArtifacts(t *testing.T, n int) *c07Art {
	t.Helper()
	a := &c07Art{dir: t.TempDir(), n: n, segHash: map[uint64]int{}}
	live := filepath.Join(a.dir, "live.db")
	d, err := db.Open(live, false, true)
	if err != nil {
		t.Fatalf("open live db: %v", err)
	}
	defer d.Close()
	exec := func(q string) {
		rs, err := d.ExecuteStringStmt(q)
		if err != nil {
			t.Fatalf("exec %q: %v", q, err)
		}
		for _, r := range rs {
			if r.GetError() != "" {
				t.Fatalf("exec %q: %s", q, r.GetError())
			}
		}
	}
	exec("CREATE TABLE t (id INTEGER PRIMARY KEY, pad TEXT)")
	if _, err := d.Checkpoint(db.CheckpointTruncate); err != nil {
		t.Fatalf("checkpoint: %v", err)
	}
	for i := 1; i <= n; i++ {
		pad := strings.Repeat(fmt.Sprintf("%02d", i), 50+(i%4)*700)
		exec(fmt.Sprintf("INSERT INTO t(id, pad) VALUES(%d, '%s')", i, pad))
		if i%5 == 0 {
			exec(fmt.Sprintf("UPDATE t SET pad = pad || 'u%d' WHERE id = 1", i))
		}
		if err := c07CopyFile(live+"-wal", a.segPath(i)); err != nil {
			t.Fatalf("copy wal: %v", err)
		}
		if !db.IsValidSQLiteWALFile(a.segPath(i)) {
			t.Fatalf("segment %d is not a valid WAL", i)
		}
		h, _, _ := c07Hash(a.segPath(i))
		a.segHash[h] = i
		m, err := d.Checkpoint(db.CheckpointTruncate)
		if err != nil || !m.Success() {
			t.Fatalf("checkpoint %d: %v %v", i, err, m)
		}
		if err := c07CopyFile(live, a.dbPath(i)); err != nil {
			t.Fatalf("copy db: %v", err)
		}
	}
	return a
}

// c07Content returns the ids in table t of the database file at path (opened on a private copy,
// without any -wal), or "corrupt:<why>".
func c07Content(path string) string {
	tmp, err := os.MkdirTemp("", "c07q")
	if err != nil {
		return "corrupt:tmp"
	}
	defer os.RemoveAll(tmp)
	cp := filepath.Join(tmp, "q.db")
	if err := c07CopyFile(path, cp); err != nil {
		return "corrupt:copy"
	}
	if !db.IsValidSQLiteFile(cp) {
		return "corrupt:invalid"
	}
	d, err := db.Open(cp, false, true)
	if err != nil {
		return "corrupt:open"
	}
	defer d.Close()
	res, err := d.VerifyIntegrity()
	if err != nil || !res.OK {
		return "corrupt:integrity"
	}
	rows, err := d.QueryStringStmt("SELECT id FROM t ORDER BY rowid")
	if err != nil || len(rows) != 1 || rows[0].GetError() != "" {
		return "corrupt:query"
	}
	var ids []string
	for _, v := range rows[0].Values {
		ids = append(ids, strconv.FormatInt(v.GetParameters()[0].GetI(), 10))
	}
	if len(ids) == 0 {
		return "e"
	}
	return strings.Join(ids, ",")
}

func c07Range(a, b int) string { // "a,a+1,...,b" or "-" when empty
	var s []string
	for i := a; i <= b; i++ {
		s = append(s, strconv.Itoa(i))
	}
	if len(s) == 0 {
		return "-"
	}
	return strings.Join(s, ",")
}

// ---- store shapes ---------------------------------------------------------------

type c07Dir struct {
	nat   int
	tmp   bool
	term  uint64
	index uint64
	dbT   int   // 0: no data.db; else data.db holds rows 1..dbT
	wals  []int // segment numbers
	noMeta bool
}

func (d c07Dir) realName() string {
	n := fmt.Sprintf("%d-%d-%013d", d.term, d.index, 1000000000000+int64(d.nat))
	if d.tmp {
		n += tmpSuffix
	}
	return n
}

type c07Shape struct {
	dirs   []c07Dir
	newest int // last point covered
	desc   string
}

func c07GenShape(r *vfRng, maxOld, maxFullWals, maxInc, maxIncWals, maxT int) c07Shape {
	var sh c07Shape
	t := 0
	nat := 0
	term := uint64(1)
	add := func(full bool, nw int) bool {
		if full {
			if t+1+nw > maxT {
				return false
			}
		} else if t+nw > maxT {
			return false
		}
		nat++
		d := c07Dir{nat: nat, term: term}
		if full {
			t++
			d.dbT = t
		}
		for i := 0; i < nw; i++ {
			t++
			d.wals = append(d.wals, t)
		}
		d.index = uint64(10 * t)
		sh.dirs = append(sh.dirs, d)
		return true
	}
	nOld := r.Intn(maxOld + 1)
	desc := ""
	for i := 0; i < nOld; i++ {
		if i == 0 || r.Chance(50) {
			if add(true, r.Intn(2)) {
				desc += "F"
			}
		} else {
			if add(false, 1+r.Intn(2)) {
				desc += "i"
			}
		}
		if r.Chance(30) {
			term++
		}
	}
	fw := r.Intn(maxFullWals + 1)
	if !add(true, fw) {
		fw = 0
		add(true, 0)
	}
	desc += fmt.Sprintf("|F%d|", fw)
	nInc := r.Intn(maxInc + 1)
	for i := 0; i < nInc; i++ {
		nw := 1 + r.Intn(maxIncWals)
		if r.Chance(25) {
			term++
		}
		if add(false, nw) {
			desc += fmt.Sprintf("I%d", nw)
		}
	}
	sh.newest = t
	if r.Chance(35) { // a leftover temporary directory of an abandoned sink
		nat = 50 + r.Intn(5)
		d := c07Dir{nat: nat, tmp: true, term: term + 1, index: uint64(10*t + 5), noMeta: r.Bool()}
		if r.Bool() {
			d.dbT = 1 + r.Intn(t)
		}
		sh.dirs = append(sh.dirs, d)
		desc += "+tmp"
	}
	sh.desc = desc
	return sh
}

// c07DirectedShape builds a fixed shape: `olds` is a string of F (full, no WAL of its own) and
// i (incremental, one WAL), then the newest full with fw WALs, then incrementals with the given
// numbers of WALs.
func c07DirectedShape(olds string, fw int, incs []int) c07Shape {
	var sh c07Shape
	t, nat := 0, 0
	term := uint64(1)
	add := func(full bool, nw int) {
		nat++
		d := c07Dir{nat: nat, term: term}
		if full {
			t++
			d.dbT = t
		}
		for i := 0; i < nw; i++ {
			t++
			d.wals = append(d.wals, t)
		}
		d.index = uint64(10 * t)
		sh.dirs = append(sh.dirs, d)
	}
	for _, c := range olds {
		if c == 'F' {
			add(true, 0)
		} else {
			add(false, 1)
		}
	}
	add(true, fw)
	desc := olds + fmt.Sprintf("|F%d|", fw)
	for _, nw := range incs {
		add(false, nw)
		desc += fmt.Sprintf("I%d", nw)
	}
	sh.newest = t
	sh.desc = desc
	return sh
}

type c07Env struct {
	t      *testing.T
	art    *c07Art
	root   string // the snapshot store directory (fixed path, re-created per case)
	names  map[string]int
	walID  map[string]int
	newStr string
}

func c07WriteCRC(path string) error {
	sum, err := rsum.CRC32(path)
	if err != nil {
		return err
	}
	return sidecar.WriteFile(path+crcSuffix, sum)
}

func (e *c07Env) materialize(sh c07Shape) {
	os.RemoveAll(e.root)
	if err := os.MkdirAll(e.root, 0o755); err != nil {
		e.t.Fatal(err)
	}
	e.names = map[string]int{}
	for _, d := range sh.dirs {
		p := filepath.Join(e.root, d.realName())
		if err := os.MkdirAll(p, 0o755); err != nil {
			e.t.Fatal(err)
		}
		e.names[strings.TrimSuffix(d.realName(), tmpSuffix)] = d.nat
		if d.dbT > 0 {
			dbp := filepath.Join(p, dbfileName)
			if err := c07CopyFile(e.art.dbPath(d.dbT), dbp); err != nil {
				e.t.Fatal(err)
			}
			if err := c07WriteCRC(dbp); err != nil {
				e.t.Fatal(err)
			}
		}
		for i, w := range d.wals {
			wp := filepath.Join(p, fmt.Sprintf("%020d.wal", i+1))
			if err := c07CopyFile(e.art.segPath(w), wp); err != nil {
				e.t.Fatal(err)
			}
			if err := c07WriteCRC(wp); err != nil {
				e.t.Fatal(err)
			}
		}
		if !d.noMeta {
			m := &raft.SnapshotMeta{ID: strings.TrimSuffix(d.realName(), tmpSuffix), Index: d.index, Term: d.term, Version: 1}
			if err := writeMeta(p, m); err != nil {
				e.t.Fatal(err)
			}
		}
	}
}

func (e *c07Env) modelDirLines(sh c07Shape) []string {
	var ls []string
	for _, d := range sh.dirs {
		mt := "-"
		if !d.noMeta {
			mt = fmt.Sprintf("%d,%d,%d", d.nat, d.index, d.term)
		}
		dbs := "-"
		if d.dbT > 0 {
			dbs = c07Range(1, d.dbT)
		}
		var ws []string
		for _, w := range d.wals {
			ws = append(ws, strconv.Itoa(w))
		}
		wss := "-"
		if len(ws) > 0 {
			wss = strings.Join(ws, ",")
		}
		tmp := 0
		if d.tmp {
			tmp = 1
		}
		ls = append(ls, fmt.Sprintf("dir %d %d %s %s %s - %s", d.nat, tmp, mt, dbs, dbs, wss))
	}
	return ls
}

func (e *c07Env) natOf(name string) int {
	name = strings.TrimSuffix(name, tmpSuffix)
	if n, ok := e.names[name]; ok {
		return n
	}
	if name == e.newStr {
		return c07NewName
	}
	return -1
}

// dumpReal renders the on-disk state in the format of the model's `dump`.
func (e *c07Env) dumpReal() string {
	ents, err := os.ReadDir(e.root)
	if err != nil {
		return "unreadable"
	}
	type row struct {
		nat int
		s   string
	}
	var rows []row
	planS := "noplan"
	planTmp := 0
	for _, en := range ents {
		if !en.IsDir() {
			switch en.Name() {
			case reapPlanFile:
				p, err := plan.ReadFromFile(filepath.Join(e.root, en.Name()))
				if err != nil {
					planS = "plan=unreadable"
				} else {
					planS = "plan=" + e.planStr(p)
				}
			case reapPlanFile + ".tmp":
				planTmp = 1
			}
			continue
		}
		nat := e.natOf(en.Name())
		dp := filepath.Join(e.root, en.Name())
		tmp := 0
		if isTmpName(en.Name()) {
			tmp = 1
		}
		mt := "-"
		if m, err := readRaftMeta(metaPath(dp)); err == nil {
			mt = fmt.Sprintf("%d,%d,%d", e.natOf(m.ID), m.Index, m.Term)
		}
		dbs, crc := "-", "-"
		dbp := filepath.Join(dp, dbfileName)
		if _, err := os.Stat(dbp); err == nil {
			dbs = c07Content(dbp)
		}
		if want, err := sidecar.ReadCRC32File(dbp + crcSuffix); err == nil {
			if got, err := rsum.CRC32(dbp); err == nil && got == want {
				crc = "ok"
			} else {
				crc = "stale"
			}
		}
		dw := "-"
		if _, err := os.Stat(dbp + "-wal"); err == nil {
			dw = "y"
		}
		wm, _ := filepath.Glob(filepath.Join(dp, "*"+walfileSuffix))
		sort.Strings(wm)
		var ws []string
		for _, w := range wm {
			h, _, _ := c07Hash(w)
			if id, ok := e.art.segHash[h]; ok {
				ws = append(ws, strconv.Itoa(id))
			} else {
				ws = append(ws, "unknown")
			}
		}
		wss := "-"
		if len(ws) > 0 {
			wss = strings.Join(ws, ",")
		}
		rows = append(rows, row{nat, fmt.Sprintf("%d:%d:%s:%s:%s:%s:%s", nat, tmp, mt, dbs, crc, dw, wss)})
	}
	sort.Slice(rows, func(i, j int) bool { return rows[i].nat < rows[j].nat })
	var parts []string
	for _, r := range rows {
		parts = append(parts, r.s)
	}
	parts = append(parts, planS, fmt.Sprintf("plantmp=%d", planTmp))
	return strings.Join(parts, " ")
}

// planStr renders a real plan in the model's op syntax.
func (e *c07Env) planStr(p *plan.Plan) string {
	if len(p.Ops) == 0 {
		return "-"
	}
	var ops []string
	for _, op := range p.Ops {
		ops = append(ops, e.opStr(op))
	}
	return strings.Join(ops, ";")
}

func (e *c07Env) dirNat(path string) int { return e.natOf(filepath.Base(path)) }

func (e *c07Env) opStr(op plan.Operation) string {
	switch op.Type {
	case plan.OpCheckpoint:
		var ws []string
		for _, w := range op.WALs {
			ws = append(ws, fmt.Sprintf("%d.%d", e.dirNat(filepath.Dir(w)), e.walID[w]))
		}
		s := "-"
		if len(ws) > 0 {
			s = strings.Join(ws, ",")
		}
		if filepath.Base(op.DB) != dbfileName {
			return "ck/bad-db-path"
		}
		return fmt.Sprintf("ck/%d/%s", e.dirNat(filepath.Dir(op.DB)), s)
	case plan.OpCalcCRC32:
		if filepath.Base(op.Src) != dbfileName || op.Dst != op.Src+crcSuffix {
			return "crc/bad-path"
		}
		return fmt.Sprintf("crc/%d", e.dirNat(filepath.Dir(op.Src)))
	case plan.OpRemoveAll:
		return fmt.Sprintf("rm/%d", e.dirNat(op.Src))
	case plan.OpWriteMeta:
		var m raft.SnapshotMeta
		if err := json.Unmarshal(op.Data, &m); err != nil {
			return "wm/bad-json"
		}
		return fmt.Sprintf("wm/%d/%d.%d.%d", e.dirNat(op.Dst), e.natOf(m.ID), m.Index, m.Term)
	case plan.OpVerifyDB:
		if filepath.Base(op.Src) != dbfileName {
			return "vf/bad-path"
		}
		return fmt.Sprintf("vf/%d", e.dirNat(filepath.Dir(op.Src)))
	case plan.OpRename:
		return fmt.Sprintf("mv/%d/%d", e.dirNat(op.Src), e.dirNat(op.Dst))
	}
	return "other/" + string(op.Type)
}

// ---- plan capture -----------------------------------------------------------------

// capturePlan runs the REAL reapInternal with the plan path redirected so that the plan is
// built and written (<blocker>.tmp) but its rename into place fails, i.e. nothing executes.
func (e *c07Env) capturePlan(verify bool) (*plan.Plan, string, error) {
	str, err := NewStore(e.root)
	if err != nil {
		return nil, "", fmt.Errorf("NewStore on pristine store: %w", err)
	}
	defer str.Close()
	str.fatalFn = nil
	str.SetNoVerifyDB(!verify)
	blockDir := filepath.Join(filepath.Dir(e.root), "planblock")
	os.RemoveAll(blockDir)
	os.Remove(blockDir + ".tmp")
	if err := os.MkdirAll(filepath.Join(blockDir, "x"), 0o755); err != nil {
		return nil, "", err
	}
	str.reapPlanPath = blockDir
	_, _, rerr := str.reapInternal()
	b, err := os.ReadFile(blockDir + ".tmp")
	if err != nil {
		if rerr == nil {
			return nil, "", nil // nothing to reap
		}
		return nil, rerr.Error(), nil
	}
	if rerr == nil || !strings.Contains(rerr.Error(), "writing reap plan") {
		return nil, "", fmt.Errorf("plan capture: unexpected result %v", rerr)
	}
	p := plan.New()
	if err := json.Unmarshal(b, p); err != nil {
		return nil, "", err
	}
	os.Remove(blockDir + ".tmp")
	return p, "", nil
}

// ---- fault-injecting visitor ---------------------------------------------------------

var errC07Crash = errors.New("verif: simulated crash")

type c07Cut struct {
	kind  string // n | c | r | t
	lo    bool
	j     int
	stage int
	zeroWal bool // stage 2 variant: WAL file left truncated to zero bytes instead of intact
	sel   c07Sel
}

type c07Sel struct {
	mt, db, crc, dbWal bool
	wals               []int
}

func (s c07Sel) String() string {
	b := func(x bool) string {
		if x {
			return "1"
		}
		return "0"
	}
	ws := "-"
	if len(s.wals) > 0 {
		var p []string
		for _, w := range s.wals {
			p = append(p, strconv.Itoa(w))
		}
		ws = strings.Join(p, ",")
	}
	return "r." + b(s.mt) + b(s.db) + b(s.crc) + b(s.dbWal) + "." + ws
}

func (c c07Cut) String() string {
	switch c.kind {
	case "c":
		lo := 0
		if c.lo {
			lo = 1
		}
		return fmt.Sprintf("c.%d.%d.%d", lo, c.j, c.stage)
	case "r":
		return c.sel.String()
	case "t":
		return "t"
	}
	return "n"
}

type c07Visitor struct {
	e    *c07Env
	real *plan.Executor
	k    int // ops to run to completion before the cut
	cut  c07Cut
	i    int
}

func (v *c07Visitor) step() bool { v.i++; return v.i-1 < v.k }

func (v *c07Visitor) Rename(src, dst string) error {
	if v.step() {
		return v.real.Rename(src, dst)
	}
	return errC07Crash
}
func (v *c07Visitor) Remove(path string) error {
	if v.step() {
		return v.real.Remove(path)
	}
	return errC07Crash
}
func (v *c07Visitor) MkdirAll(path string) error {
	if v.step() {
		return v.real.MkdirAll(path)
	}
	return errC07Crash
}
func (v *c07Visitor) CopyFile(src, dst string) error {
	if v.step() {
		return v.real.CopyFile(src, dst)
	}
	return errC07Crash
}
func (v *c07Visitor) VerifyDB(p string) error {
	if v.step() {
		return v.real.VerifyDB(p)
	}
	return errC07Crash
}

func (v *c07Visitor) RemoveAll(path string) error {
	if v.step() {
		return v.real.RemoveAll(path)
	}
	if v.cut.kind == "r" {
		v.e.partialRemoveAll(path, v.cut.sel)
	}
	return errC07Crash
}

func (v *c07Visitor) WriteMeta(dir string, data []byte) error {
	if v.step() {
		return v.real.WriteMeta(dir, data)
	}
	if v.cut.kind == "t" {
		if _, err := os.Stat(dir); err == nil {
			if f, err := os.Create(filepath.Join(dir, metaFileName)); err == nil {
				f.Close()
			}
		}
	}
	return errC07Crash
}

func (v *c07Visitor) CalcCRC32(dataPath, crcPath string) error {
	if v.step() {
		return v.real.CalcCRC32(dataPath, crcPath)
	}
	if v.cut.kind == "t" {
		if _, err := os.Stat(dataPath); err == nil {
			if f, err := os.Create(crcPath); err == nil {
				f.Close()
			}
		}
	}
	return errC07Crash
}

// applyOnly leaves dbPath with its -wal checkpointed in but the -wal file still present.
func c07ApplyOnly(dbPath string, zero bool) error {
	walPath := dbPath + "-wal"
	saved, err := os.ReadFile(walPath)
	if err != nil {
		return err
	}
	if err := db.CheckpointRemove(dbPath); err != nil {
		return err
	}
	if zero {
		saved = nil
	}
	return os.WriteFile(walPath, saved, 0o644)
}

func (v *c07Visitor) Checkpoint(dbPath string, wals []string) (int, error) {
	if v.step() {
		return v.real.Checkpoint(dbPath, wals)
	}
	if v.cut.kind != "c" {
		return 0, errC07Crash
	}
	walPath := dbPath + "-wal"
	_, lerr := os.Stat(walPath)
	if lerr == nil && v.cut.lo {
		if _, err := os.Stat(dbPath); err == nil {
			if err := c07ApplyOnly(dbPath, v.cut.zeroWal); err != nil {
				v.e.t.Fatalf("apply-only on leftover: %v", err)
			}
		}
		return 0, errC07Crash
	}
	var existing []string
	for _, w := range wals {
		if _, err := os.Stat(w); err == nil {
			existing = append(existing, w)
		}
	}
	j := v.cut.j
	if j > len(existing) {
		j = len(existing)
	}
	// the real Executor on a prefix of the WAL list: leftover handling + j full iterations
	if _, err := v.real.Checkpoint(dbPath, existing[:j]); err != nil {
		return 0, errC07Crash
	}
	if j < len(existing) && v.cut.stage > 0 {
		if _, err := os.Stat(dbPath); err != nil {
			return 0, errC07Crash
		}
		if err := os.Rename(existing[j], walPath); err != nil {
			v.e.t.Fatalf("rename wal: %v", err)
		}
		if v.cut.stage >= 2 {
			if err := c07ApplyOnly(dbPath, v.cut.zeroWal); err != nil {
				v.e.t.Fatalf("apply-only: %v", err)
			}
		}
	}
	return 0, errC07Crash
}

func (e *c07Env) partialRemoveAll(dir string, sel c07Sel) {
	if _, err := os.Stat(dir); err != nil {
		return
	}
	if !sel.mt {
		os.Remove(metaPath(dir))
	}
	dbp := filepath.Join(dir, dbfileName)
	if !sel.db {
		os.Remove(dbp)
	}
	if !sel.crc {
		os.Remove(dbp + crcSuffix)
	}
	if !sel.dbWal {
		os.Remove(dbp + "-wal")
		os.Remove(dbp + "-shm")
	}
	keep := map[int]bool{}
	for _, w := range sel.wals {
		keep[w] = true
	}
	wm, _ := filepath.Glob(filepath.Join(dir, "*"+walfileSuffix))
	for _, w := range wm {
		h, _, _ := c07Hash(w)
		if !keep[e.art.segHash[h]] {
			os.Remove(w)
			os.Remove(w + crcSuffix)
		}
	}
}

// ---- cuts ------------------------------------------------------------------------------

func (e *c07Env) genSel(r *vfRng, sh c07Shape, nat int) c07Sel {
	s := c07Sel{mt: r.Bool(), db: r.Bool(), crc: r.Bool(), dbWal: r.Bool()}
	for _, d := range sh.dirs {
		if d.nat == nat {
			for _, w := range d.wals {
				if r.Bool() {
					s.wals = append(s.wals, w)
				}
			}
		}
	}
	return s
}

func (e *c07Env) genOpCut(r *vfRng, sh c07Shape, p *plan.Plan, k int) c07Cut {
	if k >= len(p.Ops) || r.Chance(15) {
		return c07Cut{kind: "n"}
	}
	op := p.Ops[k]
	switch op.Type {
	case plan.OpCheckpoint:
		return c07Cut{kind: "c", lo: r.Chance(40), j: r.Intn(len(op.WALs) + 1), stage: r.Intn(3), zeroWal: r.Chance(30)}
	case plan.OpRemoveAll:
		return c07Cut{kind: "r", sel: e.genSel(r, sh, e.dirNat(op.Src))}
	case plan.OpWriteMeta, plan.OpCalcCRC32:
		return c07Cut{kind: "t"}
	}
	return c07Cut{kind: "n"}
}

// observeReal opens the newest snapshot through the real store API and restores it.
func (e *c07Env) observeReal(str *Store) (string, error) {
	metas, err := str.List()
	if err != nil {
		return "", fmt.Errorf("List: %w", err)
	}
	if len(metas) == 0 {
		return "none", nil
	}
	m, rc, err := str.Open(metas[0].ID)
	if err != nil {
		return "", fmt.Errorf("Open(%s): %w", metas[0].ID, err)
	}
	defer rc.Close()
	tmp, err := os.MkdirTemp("", "c07r")
	if err != nil {
		return "", err
	}
	defer os.RemoveAll(tmp)
	dst := filepath.Join(tmp, "restored.db")
	if _, err := Restore(rc, dst); err != nil {
		io.Copy(io.Discard, rc)
		return "", fmt.Errorf("Restore: %w", err)
	}
	return fmt.Sprintf("%d %d %s", m.Index, m.Term, c07Content(dst)), nil
}

type c07Case struct {
	shape   c07Shape
	verify  bool
	reapCut string
	recCuts []string
}

func TestVerifC07(t *testing.T) {
	rep := vfNewReport("C07", "real snapshot stores (0-2[3] older snapshots, newest full with 0-1[3] WALs, 0-2[4] incrementals with 1-2[3] WALs, optional leftover .tmp dir; real SQLite db/WAL files) × crash point of the real reap plan (before/after every op, inside the multi-WAL checkpoint: after j WALs / after the rename / after the checkpoint before WAL removal, partial RemoveAll, truncated meta.json/CRC sidecar) × 0-2 interrupted recoveries × real NewStore; a case is non-trivial when the reap plan is non-empty and the crash is inside the plan; distinct by shape+cuts")
	defer rep.Write()
	r := vfNewRng(7)
	maxT := 14
	art := c07BuildArtifacts(t, maxT)
	base := t.TempDir()
	e := &c07Env{t: t, art: art, root: filepath.Join(base, "snaps")}
	pristine := filepath.Join(base, "pristine")

	nShapes := vfScale(18, 260)
	cutsPerShapeBase := vfScale(6, 30)
	var allOps, allImpl [][]string
	for si := 0; si < nShapes; si++ {
		var sh c07Shape
		// every run starts with the remove-only shapes (newest is a full snapshot with nothing newer:
		// the older ones are just deleted) and one of each other kind
		directed := []c07Shape{
			c07DirectedShape("Fi", 0, nil), c07DirectedShape("F", 0, nil), c07DirectedShape("FiFi", 0, nil),
			c07DirectedShape("Fi", 1, []int{2}), c07DirectedShape("", 1, []int{1}), c07DirectedShape("", 0, nil),
		}
		if si < len(directed) {
			sh = directed[si]
		} else if vfThorough() {
			sh = c07GenShape(r, 3, 3, 4, 3, maxT)
		} else {
			sh = c07GenShape(r, 2, 1, 2, 2, maxT)
		}
		verify := !r.Chance(25)
		e.materialize(sh)
		e.walID = map[string]int{}
		for _, d := range sh.dirs {
			for i, w := range d.wals {
				e.walID[filepath.Join(e.root, d.realName(), fmt.Sprintf("%020d.wal", i+1))] = w
			}
		}
		os.RemoveAll(pristine)
		if err := copyDir(e.root, pristine); err != nil {
			t.Fatalf("copy pristine: %v", err)
		}
		restore := func() {
			os.RemoveAll(e.root)
			if err := copyDir(pristine, e.root); err != nil {
				t.Fatalf("restore pristine: %v", err)
			}
		}
		e.newStr = ""

		// --- pristine store: real plan vs model plan, pre-reap observation
		ops := []string{"reset"}
		impl := []string{"ok"}
		for _, l := range e.modelDirLines(sh) {
			ops = append(ops, l)
			impl = append(impl, "ok")
		}
		setup := append([]string(nil), ops...)
		p, perr, err := e.capturePlan(verify)
		if err != nil {
			t.Fatalf("shape %s: %v", sh.desc, err)
		}
		if after := e.dumpRealNoPlan(); !strings.Contains(sh.desc, "+tmp") && after != e.dumpPristine(pristine) {
			if p != nil || perr != "" {
				t.Fatalf("plan capture modified the store: %s vs %s", after, e.dumpPristine(pristine))
			}
			// reapInternal touched the store although no plan reached the disk
			// (plan_written_before_mutation); show what a crash between / inside its removals leaves
			rep.Fail("reap-mutates-without-plan", fmt.Sprintf("shape %s: directories removed although no REAP_PLAN was written: before %s after %s", sh.desc, e.dumpPristine(pristine), after),
				map[string]interface{}{"shape": sh.desc})
			var gone []string
			ents, _ := os.ReadDir(pristine)
			for _, en := range ents {
				if en.IsDir() && !fileExistsC07(filepath.Join(e.root, en.Name())) {
					gone = append(gone, en.Name())
				}
			}
			sort.Strings(gone)
			for cut := 1; cut < 2*len(gone); cut++ {
				k, partial := cut/2, cut%2 == 1
				restore()
				what := ""
				for i, g := range gone {
					if i < k {
						os.RemoveAll(filepath.Join(e.root, g))
						what += " " + g + ":removed"
					} else if i == k && partial {
						os.Remove(metaPath(filepath.Join(e.root, g)))
						what += " " + g + ":meta.json-removed"
					}
				}
				var problems []string
				if s2, err := NewStore(e.root); err != nil {
					problems = append(problems, "NewStore: "+err.Error())
				} else {
					s2.fatalFn = nil
					if metas, err := s2.ListAll(); err != nil {
						problems = append(problems, "ListAll: "+err.Error())
					} else {
						for _, m := range metas {
							if _, rc, err := s2.Open(m.ID); err != nil {
								problems = append(problems, "Open("+m.ID+"): "+err.Error())
							} else {
								rc.Close()
							}
						}
					}
					s2.Close()
				}
				if len(problems) > 0 {
					rep.Fail("catalog-broken-after-crash-in-unplanned-reap", fmt.Sprintf("shape %s, reap crashing with [%s ] and no plan to resume, restart: %s", sh.desc, what, strings.Join(problems, "; ")),
						map[string]interface{}{"shape": sh.desc, "crash": what})
				}
			}
			restore()
			continue
		}
		restore()
		vb := 0
		if verify {
			vb = 1
		}
		ops = append(ops, fmt.Sprintf("mkplan %d %d", c07NewName, vb))
		switch {
		case perr != "":
			impl = append(impl, "err "+c07ErrKind(perr))
		case p == nil:
			impl = append(impl, "none")
		default:
			for _, op := range p.Ops {
				if op.Type == plan.OpRename {
					e.newStr = filepath.Base(op.Dst)
				}
			}
			impl = append(impl, "plan "+e.planStr(p))
		}
		// pre-reap observation through the real API
		str0, err := NewStore(e.root)
		if err != nil {
			t.Fatalf("NewStore pristine: %v", err)
		}
		str0.fatalFn = nil
		pre, err := e.observeReal(str0)
		str0.Close()
		if err != nil {
			t.Fatalf("pre-reap observe: %v", err)
		}
		ops = append(ops, "obs")
		impl = append(impl, pre)
		want := fmt.Sprintf("%s", c07Range(1, sh.newest))
		if !strings.HasSuffix(pre, " "+want) {
			t.Fatalf("harness: pristine store %s resolves to %q, want content %s", sh.desc, pre, want)
		}
		allOps = append(allOps, ops)
		allImpl = append(allImpl, impl)
		rep.Count("shape:" + sh.desc)
		if p == nil {
			rep.Count("plan:none")
			// still: complete reap is a no-op
			continue
		}
		rep.Count(fmt.Sprintf("plan-ops=%d", len(p.Ops)))

		// --- complete real Reap vs model reap
		{
			restore()
			str, err := NewStore(e.root)
			if err != nil {
				t.Fatalf("NewStore: %v", err)
			}
			str.fatalFn = nil
			str.SetNoVerifyDB(!verify)
			_, _, rerr := str.Reap()
			// the real run chose its own new name
			e.adoptNewName()
			o := append(append([]string(nil), setup...), "check", fmt.Sprintf("reap %d %d", c07NewName, vb), "dump", "obs")
			im := append(append([]string(nil), impl[:len(setup)]...), "ok")
			if rerr != nil {
				im = append(im, "err "+c07ErrKind(rerr.Error()))
				rep.Fail("complete-reap-fails", fmt.Sprintf("shape %s: Reap() = %v", sh.desc, rerr), map[string]interface{}{"shape": sh.desc})
			} else {
				im = append(im, "ok")
			}
			im = append(im, e.dumpReal())
			post, oerr := e.observeReal(str)
			if oerr != nil {
				post = "err " + oerr.Error()
			}
			im = append(im, post)
			if rerr == nil && post != pre {
				rep.Fail("complete-reap-changes-newest", fmt.Sprintf("shape %s: before %q after %q", sh.desc, pre, post), map[string]interface{}{"shape": sh.desc})
			}
			if verr := str.Verify(); verr != nil {
				rep.Fail("crc-mismatch-after-reap", fmt.Sprintf("shape %s: %v", sh.desc, verr), map[string]interface{}{"shape": sh.desc})
			}
			str.Close()
			allOps = append(allOps, o)
			allImpl = append(allImpl, im)
			rep.Case("complete|"+sh.desc, true)
		}

		// --- the verification steps of reapInternal: a damaged input file is noticed before the plan
		// is built or written (inputs.Check, when the store-wide check already ran in this process;
		// otherwise ensureVerified), and nothing is touched
		if len(p.Ops) > 0 && p.Ops[0].Type == plan.OpCheckpoint && len(p.Ops[0].WALs) > 0 && (si < 10 || vfThorough()) {
			for _, verifiedFirst := range []bool{true, false} {
				restore()
				str, err := NewStore(e.root)
				if err != nil {
					t.Fatalf("NewStore: %v", err)
				}
				str.fatalFn = nil
				str.SetNoVerifyDB(!verify)
				str.reapDisabled.Set()
				if verifiedFirst {
					if verr := str.EnsureVerify(); verr != nil {
						t.Fatalf("EnsureVerify on the pristine store: %v", verr)
					}
				}
				victim := p.Ops[0].WALs[len(p.Ops[0].WALs)-1]
				wb, rerr0 := os.ReadFile(victim)
				if rerr0 != nil || len(wb) < 64 {
					t.Fatalf("harness: cannot read input %s: %v", victim, rerr0)
				}
				wb[len(wb)/2] ^= 0xff
				os.WriteFile(victim, wb, 0o644)
				before := e.dumpReal()
				_, _, rerr := str.reapInternal()
				kind, vok, iok := "inputs-crc", 1, 0
				if !verifiedFirst {
					kind, vok, iok = "verify-crc", 0, 0
				}
				got := "ok"
				if rerr != nil {
					got = "err " + c07ErrKind(rerr.Error())
					if strings.Contains(rerr.Error(), "CRC32 mismatch") {
						got = "err " + kind
					}
				}
				after := e.dumpReal()
				if rerr == nil || after != before || fileExistsC07(filepath.Join(e.root, reapPlanFile)) {
					rep.Fail("reap-proceeds-on-damaged-input", fmt.Sprintf("shape %s, input %s damaged (store-wide check ran before: %v): reapInternal = %v, store changed: %v, plan file: %v",
						sh.desc, filepath.Base(victim), verifiedFirst, rerr, after != before, fileExistsC07(filepath.Join(e.root, reapPlanFile))), map[string]interface{}{"shape": sh.desc})
				}
				str.Close()
				o := append(append([]string(nil), setup...), "check", fmt.Sprintf("reapck %d %d %d %d", c07NewName, vb, vok, iok))
				im := append(append([]string(nil), impl[:len(setup)]...), "ok", got)
				allOps = append(allOps, o)
				allImpl = append(allImpl, im)
				rep.Count("verification:" + kind)
			}
			restore()
		}

		// --- crash enumeration
		type cutSpec struct {
			k   int
			cut c07Cut
			pre string // bp0 bp1 pd cp or ""
		}
		var cuts []cutSpec
		if vfThorough() {
			for k := 0; k <= len(p.Ops); k++ {
				cuts = append(cuts, cutSpec{k: k, cut: c07Cut{kind: "n"}})
			}
		}
		// directed cuts: inside the multi-WAL checkpoint with the LAST (and the first) WAL in the
		// checkpoint position -- renamed only, and checkpointed but not yet removed
		if len(p.Ops) > 0 && p.Ops[0].Type == plan.OpCheckpoint {
			nw := len(p.Ops[0].WALs)
			cuts = append(cuts,
				cutSpec{k: 0, cut: c07Cut{kind: "c", j: nw - 1, stage: 1}},
				cutSpec{k: 0, cut: c07Cut{kind: "c", j: nw - 1, stage: 2, zeroWal: r.Bool()}})
			if nw > 1 {
				cuts = append(cuts, cutSpec{k: 0, cut: c07Cut{kind: "c", j: r.Intn(nw - 1), stage: 1 + r.Intn(2)}})
			}
			// BETWEEN two WAL checkpoints: j WALs consumed (data.db rewritten, its sidecar still the
			// pre-reap one), the next one not yet renamed — the state the resume path's input
			// verification (verifyPlanInputs) must accept
			for j := 1; j < nw && j <= 3; j++ {
				cuts = append(cuts, cutSpec{k: 0, cut: c07Cut{kind: "c", j: j, stage: 0}})
			}
		}
		cutsPerShape := cutsPerShapeBase + len(cuts)
		for len(cuts) < cutsPerShape {
			switch r.Intn(12) {
			case 0:
				cuts = append(cuts, cutSpec{pre: []string{"bp0", "bp1", "pd", "cp"}[r.Intn(4)]})
			default:
				k := r.Intn(len(p.Ops) + 1)
				cuts = append(cuts, cutSpec{k: k, cut: e.genOpCut(r, sh, p, k)})
			}
		}
		for _, cs := range cuts {
			restore()
			e.newStr = ""
			for _, op := range p.Ops {
				if op.Type == plan.OpRename {
					e.newStr = filepath.Base(op.Dst)
				}
			}
			o := append([]string(nil), setup...)
			im := append([]string(nil), impl[:len(setup)]...)
			reapCut := cs.pre
			planPath := filepath.Join(e.root, reapPlanFile)
			switch cs.pre {
			case "bp0":
			case "bp1":
				b, _ := json.Marshal(p)
				os.WriteFile(planPath+".tmp", b[:len(b)/2], 0o644)
			case "pd", "cp", "":
				if err := plan.WriteToFile(p, planPath); err != nil {
					t.Fatal(err)
				}
				k := cs.k
				if cs.pre != "" {
					k = len(p.Ops)
				}
				v := &c07Visitor{e: e, real: plan.NewExecutor(), k: k, cut: cs.cut}
				err := p.Execute(v)
				if err != nil && !errors.Is(err, errC07Crash) {
					rep.Count("reap-op-error")
				}
				if cs.pre == "cp" && err == nil {
					os.Remove(planPath)
				}
				if cs.pre == "" {
					reapCut = fmt.Sprintf("ip/%d/%s", cs.k, cs.cut)
				}
			}
			o = append(o, fmt.Sprintf("reapcrash %d %d %s", c07NewName, vb, reapCut), "dump")
			im = append(im, "ok", e.dumpReal())
			rep.Count("reapcut:" + c07CutClass(reapCut))

			// interrupted recoveries
			nRec := r.Intn(3)
			var recDesc []string
			for ri := 0; ri < nRec; ri++ {
				rc := e.interruptedRecovery(r, sh, rep)
				recDesc = append(recDesc, rc)
				o = append(o, "reccrash "+rc, "dump")
				im = append(im, "ok", e.dumpReal())
				rep.Count("reccut:" + c07CutClass(rc))
			}

			// the uninterrupted recovery: the real NewStore
			str, nerr := NewStore(e.root)
			o = append(o, "check")
			if nerr != nil {
				im = append(im, "err "+c07ErrKind(nerr.Error()))
				rep.Fail("store-does-not-open-after-crash:"+c07CutClass(reapCut),
					fmt.Sprintf("shape %s verify=%v crash %s recoveries %v: NewStore: %v", sh.desc, verify, reapCut, recDesc, nerr),
					map[string]interface{}{"shape": sh.desc, "reapcut": reapCut, "reccuts": recDesc, "verify": verify})
			} else {
				str.fatalFn = nil
				im = append(im, "ok")
				o = append(o, "dump", "obs")
				im = append(im, e.dumpReal())
				post, oerr := e.observeReal(str)
				if oerr != nil {
					post = "err " + oerr.Error()
				}
				im = append(im, post)
				if post != pre {
					rep.Fail("newest-snapshot-changed-after-crash:"+c07CutClass(reapCut),
						fmt.Sprintf("shape %s verify=%v crash %s recoveries %v: before reap %q, after recovery %q", sh.desc, verify, reapCut, recDesc, pre, post),
						map[string]interface{}{"shape": sh.desc, "reapcut": reapCut, "reccuts": recDesc, "verify": verify, "before": pre, "after": post})
				}
				if verr := str.Verify(); verr != nil {
					rep.Fail("crc-mismatch-after-recovery:"+c07CutClass(reapCut),
						fmt.Sprintf("shape %s crash %s recoveries %v: %v", sh.desc, reapCut, recDesc, verr),
						map[string]interface{}{"shape": sh.desc, "reapcut": reapCut, "reccuts": recDesc})
				}
				// a second reap after recovery must work too (idempotence at the API level)
				if _, _, err := str.Reap(); err != nil {
					rep.Fail("reap-after-recovery-fails", fmt.Sprintf("shape %s crash %s: %v", sh.desc, reapCut, err), map[string]interface{}{"shape": sh.desc, "reapcut": reapCut})
				}
				str.Close()
			}
			allOps = append(allOps, o)
			allImpl = append(allImpl, im)
			rep.Case(sh.desc+"|"+reapCut+"|"+strings.Join(recDesc, "|"), cs.pre == "" && cs.k < len(p.Ops))
			if len(rep.Samples) < 4 {
				rep.Sample(map[string]interface{}{"shape": sh.desc, "plan": e.planStr(p), "crash": reapCut, "interrupted_recoveries": recDesc, "before": pre})
			}
		}
	}
	rep.vfCompareSegments("snapfs", allOps, allImpl)
}

// interruptedRecovery repeats the plan handling of Store.check with a cut and returns the model's reccut.
func (e *c07Env) interruptedRecovery(r *vfRng, sh c07Shape, rep *vfReport) string {
	planPath := filepath.Join(e.root, reapPlanFile)
	choice := r.Intn(10)
	if choice == 0 {
		return "as"
	}
	os.Remove(tmpName(planPath))
	if choice == 1 {
		return "tr"
	}
	if choice <= 7 || !e.hasTmpDir() {
		if !fileExistsC07(planPath) {
			return "tr"
		}
		p, err := plan.ReadFromFile(planPath)
		if err != nil {
			e.t.Fatalf("read plan: %v", err)
		}
		done, err := p.LastOpDone(plan.NewChecker())
		if err != nil {
			e.t.Fatalf("LastOpDone: %v", err)
		}
		k := r.Intn(len(p.Ops) + 1)
		cut := e.genOpCut(r, sh, p, k)
		if r.Chance(10) {
			k = len(p.Ops)
			cut = c07Cut{kind: "n"}
		}
		if !done {
			v := &c07Visitor{e: e, real: plan.NewExecutor(), k: k, cut: cut}
			if err := p.Execute(v); err != nil && !errors.Is(err, errC07Crash) {
				rep.Count("recovery-op-error")
			}
		}
		if k >= len(p.Ops) {
			return "pd"
		}
		return fmt.Sprintf("ip/%d/%s", k, cut)
	}
	// run the plan part of check completely, then stop inside the temporary-directory removal
	if fileExistsC07(planPath) {
		p, err := plan.ReadFromFile(planPath)
		if err != nil {
			e.t.Fatalf("read plan: %v", err)
		}
		done, _ := p.LastOpDone(plan.NewChecker())
		if !done {
			if err := p.Execute(plan.NewExecutor()); err != nil {
				// check would have returned the error: nothing else happens
				return "tr"
			}
		}
		os.Remove(planPath)
	}
	ents, _ := os.ReadDir(e.root)
	var gone []string
	pn := 0
	sel := c07Sel{}
	for _, en := range ents {
		if en.IsDir() && isTmpName(en.Name()) {
			nat := e.natOf(en.Name())
			if r.Bool() {
				os.RemoveAll(filepath.Join(e.root, en.Name()))
				gone = append(gone, strconv.Itoa(nat))
			} else {
				pn = nat
				sel = e.genSel(r, sh, nat)
				e.partialRemoveAll(filepath.Join(e.root, en.Name()), sel)
			}
		}
	}
	g := "-"
	if len(gone) > 0 {
		g = strings.Join(gone, ",")
	}
	return fmt.Sprintf("td/%s/%d/%s", g, pn, sel)
}

func fileExistsC07(p string) bool {
	fi, err := os.Stat(p)
	return err == nil && !fi.IsDir()
}

func (e *c07Env) hasTmpDir() bool {
	ents, _ := os.ReadDir(e.root)
	for _, en := range ents {
		if en.IsDir() && isTmpName(en.Name()) {
			return true
		}
	}
	return false
}

// adoptNewName maps the one directory name the harness did not create to the model's new name.
func (e *c07Env) adoptNewName() {
	ents, _ := os.ReadDir(e.root)
	for _, en := range ents {
		if en.IsDir() {
			if _, ok := e.names[strings.TrimSuffix(en.Name(), tmpSuffix)]; !ok {
				e.newStr = en.Name()
			}
		}
	}
}

func (e *c07Env) dumpRealNoPlan() string { return e.dumpReal() }

func (e *c07Env) dumpPristine(p string) string {
	old := e.root
	e.root = p
	defer func() { e.root = old }()
	return e.dumpReal()
}

func c07CutClass(c string) string {
	parts := strings.Split(c, "/")
	if parts[0] == "ip" && len(parts) == 3 {
		return "ip/" + strings.SplitN(parts[2], ".", 2)[0]
	}
	return parts[0]
}

func c07ErrKind(msg string) string {
	switch {
	case strings.Contains(msg, "no full snapshot found"):
		return "no-full"
	case strings.Contains(msg, "reading meta.json"):
		return "load-meta"
	case strings.Contains(msg, "missing data file"):
		return "load-nodata"
	case strings.Contains(msg, "loading CRC32"):
		return "load-crc"
	case strings.Contains(msg, "calculating CRC32"):
		return "crc-nodata"
	case strings.Contains(msg, "checkpoint"):
		return "ckpt-nodb"
	case strings.Contains(msg, "file exists"), strings.Contains(msg, "directory not empty"):
		return "rename-exists"
	case strings.Contains(msg, "no such file"):
		return "rename-nosrc"
	}
	return "other:" + msg
}

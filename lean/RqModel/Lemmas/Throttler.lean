/-
Helper definitions and lemmas for Props/C36 (the property file holds property theorems only).
-/
import RqModel.Model.Throttler
namespace RqModel.Throttler

/-- the delay level is inside the configured table and the release rate is positive -/
def InRange (t : T) : Prop :=
  0 ≤ t.level ∧ t.level ≤ (t.delays.length : Int) - 1 ∧ 1 ≤ t.rate

theorem new_inRange (ds : List Int) (r i : Int) : InRange (new ds r i) := by
  refine ⟨by simp [new], ?_, ?_⟩
  · cases ds with
    | nil => simp [new]
    | cons a as => simp [new]
  · simp only [new]; split <;> omega

theorem touch_level (t : T) (n : Nat) : (touch t n).level = t.level ∧
    (touch t n).delays = t.delays ∧ (touch t n).rate = t.rate ∧ (touch t n).idle = t.idle ∧
    (touch t n).hasTimer = t.hasTimer := by
  unfold touch; split <;> simp

/-- the configuration (table, rate, idle timeout, timer existence) is never changed by a step -/
theorem apply_config (t : T) (op : Op) :
    (apply t op).delays = t.delays ∧ (apply t op).rate = t.rate ∧
    (apply t op).idle = t.idle ∧ (apply t op).hasTimer = t.hasTimer := by
  cases op with
  | signal n =>
    simp only [apply, signal]
    split <;> simp [(touch_level _ n)]
  | release n => simp [apply, release, (touch_level _ n)]
  | reset => simp [apply, reset]
  | fire n => simp only [apply, fire]; split <;> simp [reset]
  | staleFire => simp [apply, reset]

/-- after a `Signal`/`Release` at time `n` on a throttler that has an idle timer, the
timer is armed for exactly `n + idleTimeout` -/
theorem touch_arms (t : T) (n : Nat) (h : t.hasTimer = true) :
    (signal t n).deadline = some (n + t.idle.toNat) ∧
    (release t n).deadline = some (n + t.idle.toNat) := by
  constructor
  · unfold signal; split <;> simp [touch, h]
  · simp [release, touch, h]

/-- the timer step is enabled from the deadline on and never earlier -/
theorem fire_enabled_iff (t : T) (n now : Nat) (h : t.hasTimer = true) :
    (fireEnabled (signal t n) now = true ↔ n + t.idle.toNat ≤ now) ∧
    (fireEnabled (release t n) now = true ↔ n + t.idle.toNat ≤ now) := by
  obtain ⟨h1, h2⟩ := touch_arms t n h
  simp [fireEnabled, h1, h2]

end RqModel.Throttler

/-
Model for C06: incremental WAL segments under busy and partial checkpoints.

Code modelled (read line by line):
* db/checkpoint_manager.go  `(*CheckpointManager).Checkpoint` (both the `w == nil`
  short-circuit used by full snapshots and the capturing path used by incremental
  snapshots), its three-outcome bookkeeping;
* db/wal_reset_watch.go     `Arm`, `Disarm`, `Check`;
* db/wal/compacting_section_scanner.go `scan` at the abstraction "latest committed
  frame per page, in file-offset order, `ErrOpenTransaction` when the tail is open";
* store/store.go `fsmSnapshot` incremental branch: `CreateWAL`, `defer Cancel`,
  `Checkpoint(walWriter)`, return on error (segment removed), `Close` on success
  (segment kept), and the full branch `Checkpoint(nil)`.

External component with ASSUMED laws (SQLite's WAL; exercised, never proved, by the
C06 differential run against a real database with real reader connections):
* the WAL file is a header salt plus frames; `mxFrame`, `nBackfill`;
* a reader that starts when the WAL is fully backfilled takes WAL_READ_LOCK(0) and
  reads the database file only (`mark = none`); otherwise it pins `mxFrame`
  (`mark = some mxFrame`);
* `wal_checkpoint(TRUNCATE)`: frames up to the smallest pinned mark are backfilled
  unless a lock-0 reader is present (then nothing moves); if not everything is
  backfilled → busy with moved < pages; if everything is backfilled but a reader pins
  a mark → busy with moved = pages; otherwise the WAL is truncated to zero bytes and
  the header salt changes → rc 0, pages 0, moved 0;
* the next write RESETS the WAL (new salt, frames restart at 1, old frames stay in
  the file past the new ones) iff the WAL is non-empty, fully backfilled and no
  reader pins a mark; otherwise it appends;
* a new salt is never equal to an earlier one (`nextSalt`, law `∀ s, s < nextSalt s`,
  a hypothesis of the theorems; SQLite increments salt-1).
A page's content is an opaque version number; the harness maps page images to ids.
-/
import RqModel.Model.Util
namespace RqModel.WalCkpt
open RqModel.Util

structure Frame where
  pgno   : Nat
  ver    : Nat
  commit : Nat      -- 0: not a commit frame; else database size in pages after commit
deriving Repr, DecidableEq, Inhabited

/-- a database image: size in pages and page contents (page numbers start at 1) -/
structure Db where
  size : Nat
  page : Nat → Nat

/-- frames up to and including the last commit frame -/
def committed : List Frame → List Frame
  | [] => []
  | f :: fs =>
    match committed fs with
    | [] => if f.commit = 0 then [] else [f]
    | r => f :: r

/-- content of the last frame for page `p` -/
def lastVer : List Frame → Nat → Option Nat
  | [], _ => none
  | f :: fs, p => (lastVer fs p).or (if f.pgno = p then some f.ver else none)

/-- database size recorded by the last frame -/
def finalSize : List Frame → Nat
  | [] => 0
  | [f] => f.commit
  | _ :: f :: fs => finalSize (f :: fs)

/-- A complete checkpoint of the committed part of a WAL into a database: every page takes
its latest frame, the file takes the size recorded by the last commit. (SQLite's law.) -/
def ckpt (d : Db) (fs : List Frame) : Db :=
  let c := committed fs
  if c.isEmpty then d
  else
    { size := finalSize c
      page := fun p => if p = 0 ∨ finalSize c < p then 0 else (lastVer c p).getD (d.page p) }

/-- A partial backfill: pages are written, the file is not resized. -/
def backfillPages (d : Db) (fs : List Frame) : Db :=
  { size := d.size, page := fun p => (lastVer fs p).getD (d.page p) }

/-- `CompactingFrameScanner.scan` on frames that all belong to committed transactions:
the latest frame of every page, in file order. -/
def compact : List Frame → List Frame
  | [] => []
  | f :: fs => if fs.any (fun g => g.pgno = f.pgno) then compact fs else f :: compact fs

structure Reader where
  id   : Nat
  mark : Option Nat      -- none: WAL_READ_LOCK(0), reads the database file only
deriving Repr, DecidableEq

/-- db/wal_reset_watch.go -/
structure Watch where
  armed  : Bool := false
  salt   : Nat := 0
  resume : Nat := 0
deriving Repr, DecidableEq

def Watch.disarm : Watch := {}
def Watch.arm (salt resume : Nat) : Watch := { armed := true, salt := salt, resume := resume }

/-- `Check`: (watch afterwards, frame index to start from, reset detected) -/
def Watch.check (w : Watch) (cur : Nat) : Watch × Nat × Bool :=
  if !w.armed then (w, 0, false)
  else if w.salt = cur then (w, w.resume, false)
  else (Watch.disarm, 0, true)

structure State where
  file     : Db
  frames   : List Frame := []      -- current generation of the WAL; mxFrame = length
  backfill : Nat := 0              -- nBackfill
  salt     : Nat := 0
  walEmpty : Bool := true          -- the WAL file is zero bytes long
  readers  : List Reader := []
  watch    : Watch := {}
  base     : Db                    -- database of the last full snapshot
  segs     : List (List Frame) := []   -- segments captured since (the staging/snapshot chain)
  dueFull  : Bool := false         -- the store's "full snapshot due next"
  gen      : Nat := 0              -- ghost: number of WAL resets/truncations so far
  armGen   : Nat := 0              -- ghost: `gen` when the watch was last armed

def State.mx (s : State) : Nat := s.frames.length
def State.marks (s : State) : List Nat := s.readers.filterMap (·.mark)
def State.lock0 (s : State) : Bool := s.readers.any (fun r => r.mark.isNone)

/-- what every reader that starts now sees -/
def State.logical (s : State) : Db := ckpt s.file s.frames
/-- what the snapshot chain rebuilds -/
def State.rebuilt (s : State) : Db := s.segs.foldl ckpt s.base

inductive Op where
  | write (fs : List Frame)
  | rstart (id : Nat)
  | rstop (id : Nat)
  | capture          -- incremental snapshot attempt: CreateWAL + Checkpoint(walWriter)
  | captureCloseFails -- the same, but `walWriter.Close()` fails after the checkpoint
  | full             -- full snapshot attempt: Checkpoint(nil), taken when a full snapshot is due
  | needFull         -- anything that makes the store ask for a full snapshot next
deriving Repr

/-- SQLite writes every page a transaction adds to the database: all pages between the
old size and the new size have a frame -/
def growOK (sz : Nat) (fs : List Frame) : Bool :=
  (List.range (finalSize fs + 1)).all (fun p => decide (p ≤ sz) || (lastVer fs p).isSome)

/-- a write transaction as seen in the WAL of a database of `sz` pages: non-empty, ends
with a commit frame, no page 0, grown pages written -/
def validTx (sz : Nat) (fs : List Frame) : Bool :=
  decide (finalSize fs ≠ 0) && fs.all (fun f => decide (f.pgno ≠ 0)) && growOK sz fs

inductive WriteKind where | fresh | reset | append
deriving Repr, DecidableEq

def writeKind (s : State) : WriteKind :=
  if s.walEmpty then .fresh
  else if s.mx ≠ 0 ∧ s.backfill = s.mx ∧ s.marks = [] then .reset
  else .append

def doWrite (nextSalt : Nat → Nat) (s : State) (fs : List Frame) : State :=
  match writeKind s with
  | .fresh  => { s with frames := fs, backfill := 0, walEmpty := false }
  | .reset  => { s with frames := fs, backfill := 0, salt := nextSalt s.salt, gen := s.gen + 1 }
  | .append => { s with frames := s.frames ++ fs }

def doRStart (s : State) (id : Nat) : State :=
  let m := if s.backfill = s.mx then none else some s.mx
  { s with readers := s.readers ++ [⟨id, m⟩] }

def doRStop (s : State) (id : Nat) : State :=
  { s with readers := s.readers.filter (fun r => r.id ≠ id) }

structure CkptMeta where
  rc : Nat
  pages : Nat
  moved : Nat
deriving Repr, DecidableEq

/-- how far a checkpoint can backfill: up to the smallest pinned mark, and not at all
while a lock-0 reader is present -/
def ckptB (s : State) : Nat :=
  if s.backfill < s.marks.foldl min s.mx ∧ s.lock0 = false then s.marks.foldl min s.mx else s.backfill

/-- `PRAGMA wal_checkpoint(TRUNCATE)` on a non-empty WAL file -/
def sqliteCheckpoint (nextSalt : Nat → Nat) (s : State) : State × CkptMeta :=
  if ckptB s < s.mx then
    ({ s with file := backfillPages s.file (s.frames.take (ckptB s)), backfill := ckptB s }, ⟨1, s.mx, ckptB s⟩)
  else if s.marks ≠ [] then
    ({ s with file := ckpt s.file s.frames, backfill := s.mx }, ⟨1, s.mx, s.mx⟩)
  else
    ({ s with file := ckpt s.file s.frames, frames := [], backfill := 0, walEmpty := true,
              salt := nextSalt s.salt, gen := s.gen + 1 }, ⟨0, 0, 0⟩)

inductive CkErr where | none | busy | invariant | notComplete | openTx | closeFailed
deriving Repr, DecidableEq

structure CaptureOut where
  cm      : CkptMeta
  reset   : Bool
  err     : CkErr
  seg     : Option (List Frame)   -- the segment left in the staging directory, if any
deriving Repr

/-! #### the outcome branches of `CheckpointManager.Checkpoint`, as a table
The SAME value is (a) interpreted by `captureFinish` and (b) compared, rendered as strings,
with the branch structure extracted from db/checkpoint_manager.go (Props/C06 `code_outcome_branches`). -/

inductive Cond where | rcZero | movedLtPages | movedEqPages
deriving Repr, DecidableEq

def Cond.code : Cond → String
  | .rcZero => "rc == 0"
  | .movedLtPages => "pnCkpt < pnLog"
  | .movedEqPages => "pnCkpt == pnLog"

def Cond.holds : Cond → CkptMeta → Bool
  | .rcZero, m => m.rc = 0
  | .movedLtPages, m => m.moved < m.pages
  | .movedEqPages, m => m.moved = m.pages

inductive WatchAct where | keep | disarm | armPreMoved
deriving Repr, DecidableEq

def WatchAct.code : WatchAct → List String
  | .keep => []
  | .disarm => ["Disarm()"]
  | .armPreMoved => ["Arm(preChkSalt, int64(pnCkpt))"]

inductive Ret where | nil | busy
deriving Repr, DecidableEq

def Ret.code : Ret → String
  | .nil => "nil"
  | .busy => "ErrDatabaseCheckpointBusy"

def Ret.err : Ret → CkErr
  | .nil => .none
  | .busy => .busy

structure Branch where
  cond : Cond
  act  : WatchAct
  ret  : Ret
deriving Repr, DecidableEq

/-- the `if rc == 0 … if pnCkpt < pnLog … else if pnCkpt == pnLog …` chain, in source order -/
def branches : List Branch :=
  [⟨.rcZero, .disarm, .nil⟩, ⟨.movedLtPages, .keep, .busy⟩, ⟨.movedEqPages, .armPreMoved, .nil⟩]

def applyBranch (pre : Nat) (reset : Bool) (seg : List Frame) (r : State × CkptMeta) (b : Branch) : State × CaptureOut :=
  let st : State := match b.act with
    | .keep => r.1
    | .disarm => { r.1 with watch := Watch.disarm }
    | .armPreMoved => { r.1 with watch := Watch.arm pre r.2.moved, armGen := r.1.gen }
  match b.ret with
  | .nil => ({ st with segs := st.segs ++ [seg] }, ⟨r.2, reset, .none, some seg⟩)
  | .busy => (st, ⟨r.2, reset, .busy, none⟩)     -- the store's deferred Cancel removes the file

/-! #### the SQLite law this model rests on: frames leave the WAL ONLY through `sqliteCheckpoint`
i.e. SQLite never checkpoints on its own. `PRAGMA wal_autocheckpoint=0` is per CONNECTION and is
issued once, on the read-write pool's first connection; the law therefore needs that connection
never to be replaced: the pool holds one connection, with no lifetime and NO idle limit. -/

/-- the settings of the read-write pool (sorted), and where autocheckpoint is switched off -/
def rwPoolSettings : List String := ["SetConnMaxLifetime(0)", "SetMaxOpenConns(1)"]
def autocheckpointOff : List String := ["rwDB.Exec", "PRAGMA wal_autocheckpoint=0"]

/-- where the attempt's `WALReset` is set in the source: ONE place, the result literal built
before the outcome branches — `captureFinish` hands the same `reset` to every branch, the busy
one included (the watch's `Check` is one-shot: an attempt that drops the flag loses it for good) -/
def resetSites : List String := ["literal:walReset:before-branches"]

/-- the bookkeeping after the checkpoint pragma returned `r`: the first branch whose condition
holds; none holding is the invariant error. `pre` is the salt read before the checkpoint, `seg`
the compacted WAL already written to the writer -/
def captureFinish (pre : Nat) (reset : Bool) (seg : List Frame) (r : State × CkptMeta) : State × CaptureOut :=
  match branches.find? (fun b => b.cond.holds r.2) with
  | some b => applyBranch pre reset seg r b
  | none => (r.1, ⟨r.2, reset, .invariant, none⟩)

/-- incremental branch of `fsmSnapshot` over `CheckpointManager.Checkpoint(w, …)`, as one
function (the specification the step interpreter `runInc` below is proved equal to) -/
def doCapture (nextSalt : Nat → Nat) (s : State) : State × CaptureOut :=
  if s.walEmpty then
    -- `!fsutil.PathExistsWithData(walPath)`: ErrNoWALToSnapshot, nothing is touched
    (s, ⟨⟨0, 0, 0⟩, false, .none, none⟩)
  else
    let c := s.watch.check s.salt
    let tail := s.frames.drop c.2.1
    if committed tail ≠ tail then
      ({ s with watch := c.1 }, ⟨⟨0, 0, 0⟩, c.2.2, .openTx, none⟩)
    else
      captureFinish s.salt c.2.2 (compact tail) (sqliteCheckpoint nextSalt { s with watch := c.1 })

/-- the same attempt when `walWriter.Close()` fails AFTER the checkpoint succeeded (sidecar
or fsync error): the deferred Cancel removes the staged file, so the frames the checkpoint
just moved into the database are in no segment; since the `fix:` commit the store then asks
for a full snapshot (before it, it did not, and the next incremental broke the chain) -/
def doCaptureCloseFail (nextSalt : Nat → Nat) (s : State) : State × CaptureOut :=
  let r := doCapture nextSalt s
  match r.2.seg with
  | some _ => ({ r.1 with segs := s.segs, dueFull := true }, { r.2 with err := .closeFailed, seg := none })
  | none => r

/-! #### the incremental branch of `fsmSnapshot` as its list of steps
`incSteps` is interpreted by `runInc` (so the ORDER matters to the theorems: with the deferred
Cancel registered after the checkpoint call, a busy checkpoint would leave its file behind)
and, rendered as strings, compared with the steps extracted from store/store.go. -/

inductive IncStep where
  | checkWALData | ensureDir | newStagingDir | createWAL | deferCancel | checkpoint | closeWAL
  | pathStreamer | stateReader
deriving Repr, DecidableEq

def IncStep.code : IncStep → List String
  | .checkWALData => ["if-not fsutil.PathExistsWithData"]
  | .ensureDir => ["if-err fsutil.EnsureDirExists"]
  | .newStagingDir => ["snapshot.NewStagingDir"]
  | .createWAL => ["sd.CreateWAL"]
  | .deferCancel => ["defer walWriter.Cancel"]
  | .checkpoint => ["if-err s.checkpointer.Checkpoint", "arg walWriter"]
  | .closeWAL => ["if-err walWriter.Close"]
  | .pathStreamer => ["snapshot.NewSnapshotPathStreamer"]
  | .stateReader => ["snapshot.NewStateReader"]

def incSteps : List IncStep :=
  [.checkWALData, .ensureDir, .newStagingDir, .createWAL, .deferCancel, .checkpoint, .closeWAL, .pathStreamer, .stateReader]

/-- `CheckpointManager.Checkpoint(w, …)` on a non-empty WAL: new state (chain untouched), result,
and what was written to `w` -/
def cmCheckpoint (nextSalt : Nat → Nat) (s : State) : State × CaptureOut × List Frame :=
  let c := s.watch.check s.salt
  let tail := s.frames.drop c.2.1
  if committed tail ≠ tail then
    ({ s with watch := c.1 }, ⟨⟨0, 0, 0⟩, c.2.2, .openTx, none⟩, [])
  else
    let r := captureFinish s.salt c.2.2 (compact tail) (sqliteCheckpoint nextSalt { s with watch := c.1 })
    ({ r.1 with segs := s.segs }, r.2, compact tail)

structure IncRun where
  st       : State
  out      : CaptureOut := ⟨⟨0, 0, 0⟩, false, .none, none⟩
  file     : Option (List Frame) := none   -- the file in the staging directory
  closed   : Bool := false
  deferred : Bool := false                 -- `defer walWriter.Cancel()` registered
  returned : Bool := false

def incStep (nextSalt : Nat → Nat) (closeOk : Bool) (x : IncRun) (step : IncStep) : IncRun :=
  if x.returned then x else
  match step with
  | .checkWALData => if x.st.walEmpty then { x with returned := true } else x
  | .createWAL => { x with file := some [] }
  | .deferCancel => { x with deferred := true }
  | .checkpoint =>
    let r := cmCheckpoint nextSalt x.st
    { x with st := r.1, out := r.2.1, file := x.file.map (fun _ => r.2.2), returned := decide (r.2.1.err ≠ .none) }
  | .closeWAL =>
    if closeOk then { x with closed := true }
    else { x with st := { x.st with dueFull := true }, out := { x.out with err := .closeFailed }, returned := true }
  | _ => x

/-- run the steps, then the deferred Cancel (a no-op once Close succeeded); the file that is
left in the staging directory joins the chain -/
def runInc (nextSalt : Nat → Nat) (closeOk : Bool) (steps : List IncStep) (s : State) : State × CaptureOut :=
  let x := steps.foldl (incStep nextSalt closeOk) { st := s }
  let file := if x.deferred && !x.closed then none else x.file
  ({ x.st with segs := x.st.segs ++ file.toList }, { x.out with seg := file })

/-- `Checkpoint(nil, …)` bookkeeping after the pragma returned `r`; a failed attempt changes
nothing about what is due next (it already was a full snapshot) -/
def fullFinish (r : State × CkptMeta) : State × CkptMeta × CkErr :=
  if r.2.rc ≠ 0 then
    (r.1, r.2, .notComplete)
  else
    ({ r.1 with watch := Watch.disarm, base := r.1.file, segs := [], dueFull := false }, r.2, .none)

/-- full branch of `fsmSnapshot` over `CheckpointManager.Checkpoint(nil, …)`; a successful
full snapshot becomes the new base of the chain -/
def doFull (nextSalt : Nat → Nat) (s : State) : State × CkptMeta × CkErr :=
  if s.walEmpty then
    ({ s with watch := Watch.disarm, base := s.file, segs := [], dueFull := false }, ⟨0, 0, 0⟩, .none)
  else
    fullFinish (sqliteCheckpoint nextSalt s)

/-- one step of the system. `fsmSnapshot` takes the full branch exactly when a full snapshot is
due (`snapshotDueNext`), the incremental branch otherwise. -/
def next (nextSalt : Nat → Nat) (s : State) : Op → State
  | .write fs => if validTx s.logical.size fs then doWrite nextSalt s fs else s
  | .rstart id => if s.readers.any (·.id = id) then s else doRStart s id
  | .rstop id => doRStop s id
  | .capture => if s.dueFull then s else (runInc nextSalt true incSteps s).1
  | .captureCloseFails => if s.dueFull then s else (runInc nextSalt false incSteps s).1
  | .full => if s.dueFull then (doFull nextSalt s).1 else s
  | .needFull => { s with dueFull := true }

def run (nextSalt : Nat → Nat) (s : State) (ops : List Op) : State := ops.foldl (next nextSalt) s

def emptyDb : Db := ⟨0, fun _ => 0⟩
def fresh (d : Db) : State := { file := d, base := d }

/-! ### line protocol (`rqdrv walckpt`)
`open <v1,v2,…|->`                       database file of n pages with those contents → `ok`
`write <pgno:ver:commit,…>`              → `fresh|reset|append`
`rstart <id>` / `rstop <id>`             → `ok`
`capture`  → `rc=<n> pages=<n> moved=<n> reset=<b> err=<e> armed=<b> resume=<n> seg=<frames|-|none>`
`full`     → `rc=<n> pages=<n> moved=<n> err=<e> armed=<b>`
`captureb` / `fullb` → `err=<e> [kept=<b>] walempty=<b>`  (store-level view)
`captureclosefailb` → the same with `walWriter.Close()` failing, plus `fulldue=<b>`
`needfull` → `ok`
`dbfile`   → `<v1,v2,…|->`   the database file
`logical`  → `<v1,…>`        file + WAL;  `rebuilt` → base + captured segments -/

structure DState where
  s : State := fresh emptyDb

def init : DState := {}

def drvSalt (n : Nat) : Nat := n + 1

def parseFrame (t : String) : Option Frame :=
  match (t.splitOn ":").mapM String.toNat? with
  | some [p, v, c] => some ⟨p, v, c⟩
  | _ => none

def parseFrames (t : String) : Option (List Frame) :=
  if t == "-" then some [] else (t.splitOn ",").mapM parseFrame

def showFrames (fs : List Frame) : String :=
  if fs.isEmpty then "-" else
    joinWith "," (fs.map fun f => s!"{f.pgno}:{f.ver}:{f.commit}")

def showDb (d : Db) : String :=
  if d.size = 0 then "-" else joinWith "," ((List.range d.size).map fun i => toString (d.page (i + 1)))

def dbOfList (vs : List Nat) : Db :=
  { size := vs.length, page := fun p => if p = 0 then 0 else vs.getD (p - 1) 0 }

def errStr : CkErr → String
  | .none => "none" | .busy => "busy" | .invariant => "invariant"
  | .notComplete => "notcomplete" | .openTx => "opentx" | .closeFailed => "closefailed"

def step (d : DState) (line : String) : DState × String :=
  match words line with
  | ["open", vs] =>
    match natList vs with
    | some l => ({ s := fresh (dbOfList l) }, "ok")
    | none => (d, "bad-op")
  | ["write", fs] =>
    match parseFrames fs with
    | some fs =>
      if validTx d.s.logical.size fs then
        let k := writeKind d.s
        ({ s := doWrite drvSalt d.s fs },
          match k with | .fresh => "fresh" | .reset => "reset" | .append => "append")
      else (d, "bad-op")
    | none => (d, "bad-op")
  | ["rstart", id] =>
    match id.toNat? with
    | some id => if d.s.readers.any (·.id = id) then (d, "bad-op") else ({ s := doRStart d.s id }, "ok")
    | none => (d, "bad-op")
  | ["rstop", id] =>
    match id.toNat? with
    | some id => if d.s.readers.any (·.id = id) then ({ s := doRStop d.s id }, "ok") else (d, "bad-op")
    | none => (d, "bad-op")
  | ["capture"] =>
    if d.s.dueFull then (d, "full-due")
    else
      let (s', o) := runInc drvSalt true incSteps d.s
      let seg := match o.seg with | none => "none" | some fs => showFrames fs
      ({ s := s' },
        s!"rc={o.cm.rc} pages={o.cm.pages} moved={o.cm.moved} reset={boolStr o.reset} err={errStr o.err} armed={boolStr s'.watch.armed} resume={s'.watch.resume} seg={seg}")
  | ["full"] =>
    if !d.s.dueFull then (d, "not-due") else
    let (s', m, e) := doFull drvSalt d.s
    ({ s := s' }, s!"rc={m.rc} pages={m.pages} moved={m.moved} err={errStr e} armed={boolStr s'.watch.armed}")
  -- the same two operations as seen through the store (`Store.Snapshot`): only the error
  -- class and whether the WAL file ended up empty are observable there
  | ["captureb"] =>
    if d.s.dueFull then (d, "full-due")
    else
      let (s', o) := runInc drvSalt true incSteps d.s
      ({ s := s' }, s!"err={errStr o.err} kept={boolStr o.seg.isSome} walempty={boolStr s'.walEmpty}")
  | ["captureclosefailb"] =>
    if d.s.dueFull then (d, "full-due")
    else
      let (s', o) := runInc drvSalt false incSteps d.s
      ({ s := s' }, s!"err={errStr o.err} kept={boolStr o.seg.isSome} walempty={boolStr s'.walEmpty} fulldue={boolStr s'.dueFull}")
  | ["fullb"] =>
    if !d.s.dueFull then (d, "not-due") else
    let (s', _, e) := doFull drvSalt d.s
    ({ s := s' }, s!"err={errStr e} walempty={boolStr s'.walEmpty}")
  | ["needfull"] => ({ s := { d.s with dueFull := true } }, "ok")
  | ["dbfile"] => (d, showDb d.s.file)
  | ["logical"] => (d, showDb d.s.logical)
  | ["rebuilt"] => (d, showDb d.s.rebuilt)
  | _ => (d, "bad-op")

end RqModel.WalCkpt
--! driver: walckpt RqModel.WalCkpt

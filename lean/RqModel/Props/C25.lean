/-
C25  CDC delivers every committed change at least once with its log index.

Model: RqModel/Model/CdcPipe.lean (one node's pipeline: streamer → HWM filter → batcher →
FIFO → leader loop → endpoint; HWM broadcast/prune; snapshot sync; restart with raft
replay), tied to the real cdc.Service + db.CDCStreamer + Bolt FIFO + HTTP sink by the C25
correspondence run.
-/
import RqModel.Model.CdcPipe
import RqModel.Lemmas.Cdc8
import RqModel.Gen.CdcPipe
namespace C25
open RqModel.CdcPipe RqModel.Fifo

/-- change `c` of entry `k` has reached the endpoint in a group labelled `k` -/
def deliveredB (s : St) (c : Change) : Bool :=
  s.delivered.any fun d => d.2.any fun g => g.idx == c.1 && g.chg.contains c

/-- all changes of the entries applied in a history -/
def changesOf (ops : List Op) : List Change :=
  ops.flatMap fun
    | .entry e => changesFrom e.idx 0 e.stmts
    | _ => []

/-- the healing suffix: the endpoint works, this node leads, the batcher's timer fires -/
def heal : List Op := [.endpoint true, .leader true, .timer]

/-- raft applies log entries in strictly increasing index order (a fact about the
environment, not an exclusion) -/
def logOrdered (last : Nat) : List Op → Prop
  | [] => True
  | .entry e :: rest => last < e.idx ∧ logOrdered e.idx rest
  | _ :: rest => logOrdered last rest

/-- the exclusion under which the statement is proved: every applied entry yields at most
one event group (single statement, or a transaction, or at most one statement touching a
matching table) -/
def allSingleGroup (ops : List Op) : Prop :=
  ∀ op ∈ ops, match op with
    | .entry e => single e = true
    | _ => True

/-- `wfOps` (the hypothesis of the lemmas) is exactly: log order + the exclusion -/
theorem wfOps_iff (last : Nat) (ops : List Op) : wfOps last ops ↔ logOrdered last ops ∧ allSingleGroup ops := by
  induction ops generalizing last with
  | nil => simp [wfOps, logOrdered, allSingleGroup]
  | cons op rest ih =>
    cases op <;> simp [wfOps, logOrdered, allSingleGroup, ih] <;> grind

/-- THE FULL STATEMENT — the property as stated, for one node of a cluster (false of the
faithful model, see the witnesses): for every batch size and every history of entries
applied in log order, timer firings, snapshots, leadership changes, outages, HWM broadcasts
from other nodes, ticks and restarts, followed by `heal`: every change of every applied
entry has been delivered by this node in a group labelled with its entry's index, or lies at
or below a high-water mark announced by another node (which then delivered it). No retry
limit, every stored item decodes (the initial state's defaults). -/
def at_least_once_full : Prop :=
  ∀ (b : Nat) (ops : List Op), 0 < b → logOrdered 0 ops →
    ∀ c ∈ changesOf ops,
      deliveredB (run { batchSz := b } (ops ++ heal)) c = true ∨
      c.1 ≤ (run { batchSz := b } (ops ++ heal)).maxIn

/-- the streamer loses the index after the first commit inside one log entry -/
theorem streamer_index_witness :
    streamEntry ⟨77, false, [1, 1, 1]⟩ = [⟨77, [(77, 0)]⟩, ⟨0, [(77, 1)]⟩, ⟨0, [(77, 2)]⟩] := by decide

/-- batch size 3: statements 2 and 3 arrive labelled 0 -/
theorem at_least_once_witness_mislabelled :
    (run { batchSz := 3 } ([.leader true, .entry ⟨77, false, [1, 1, 1]⟩] ++ heal)).delivered =
      [(77, [⟨77, [(77, 0)]⟩, ⟨0, [(77, 1)]⟩, ⟨0, [(77, 2)]⟩])] := by decide

/-- batch size 1: statements 2 and 3 never arrive (enqueued at FIFO key 0, suppressed) -/
theorem at_least_once_witness :
    ¬ at_least_once_full := by
  intro h
  have := h 1 [.leader true, .entry ⟨77, false, [1, 1, 1]⟩] (by decide) (by simp [logOrdered]) (77, 1) (by decide)
  revert this
  decide

/-- keeping the index in the streamer is not enough: with batch size 1 the second batch has
the same highest index as the first and is suppressed by the FIFO -/
theorem keep_index_not_enough_witness :
    deliveredB (run { batchSz := 1, keepIdx := true } ([.leader true, .entry ⟨77, false, [1, 1, 1]⟩] ++ heal)) (77, 1) = false := by
  decide

/-! ### at least once, for entries that yield one event group -/

theorem wf_heal (last : Nat) : wfOps last heal := by
  simp [heal, wfOps]

theorem flags_endpoint (s : St) : (stepOp s (.endpoint true)).up = true := by
  show (pumpAll { s with up := true }).up = true
  unfold pumpAll
  rw [(same_pump _ _).up]

theorem flags_leader (s : St) : (stepOp s (.leader true)).leader = true ∧ (stepOp s (.leader true)).up = s.up := by
  show (pumpAll (stepCore s (.leader true))).leader = true ∧ (pumpAll (stepCore s (.leader true))).up = s.up
  unfold pumpAll
  rw [(same_pump _ _).leader, (same_pump _ _).up]
  simp only [stepCore]
  by_cases h : true = s.leader
  · rw [if_pos h]; exact ⟨h.symm, rfl⟩
  · rw [if_neg h]; simp

/-- after the healing suffix nothing is left in the batcher, in the leader loop's hand, or
emittable from the FIFO -/
theorem healed_is_drained (s : St) (ht : Top s) :
    let t := run s heal
    Top t ∧ t.batcher = [] ∧ t.held = none ∧ t.fifo.nextEv = none ∧ t.log = s.log := by
  have t1 := top_step s (.endpoint true) ht trivial
  have t2 := top_step _ (.leader true) t1 trivial
  have t3 := top_step _ .timer t2 trivial
  have hup : (stepOp (stepOp s (.endpoint true)) (.leader true)).up = true := by
    rw [(flags_leader _).2]; exact flags_endpoint s
  have hld := (flags_leader (stepOp s (.endpoint true))).1
  have hfl := flush_good _ _ t2.base t2.cov
  have hsf := same_flush (stepOp (stepOp s (.endpoint true)) (.leader true))
  have hdr := pumpAll_drains (flushBatcher (stepOp (stepOp s (.endpoint true)) (.leader true))) hfl.1.fifo
    (by rw [hsf.leader]; exact hld) (by rw [hsf.up]; exact hup)
  have hbat : (pumpAll (flushBatcher (stepOp (stepOp s (.endpoint true)) (.leader true)))).batcher = [] := by
    unfold pumpAll; rw [pump_batcher]; exact flush_batcher_nil _
  have hlog : (stepOp (stepOp (stepOp s (.endpoint true)) (.leader true)) .timer).log = s.log := by
    rw [stepOp_log _ .timer t2, stepOp_log _ (.leader true) t1, stepOp_log _ (.endpoint true) ht]
  exact ⟨t3, hbat, hdr.1, hdr.2, hlog⟩

theorem deliveredB_of (s : St) (c : Change) (d : Nat × Batch) (g : Group)
    (hd : d ∈ s.delivered) (hg : g ∈ d.2) (hi : g.idx = c.1) (hc : c ∈ g.chg) : deliveredB s c = true := by
  unfold deliveredB
  rw [List.any_eq_true]
  refine ⟨d, hd, ?_⟩
  rw [List.any_eq_true]
  refine ⟨g, hg, ?_⟩
  simp [hi, hc]

/-- change `c` was in an event given up on after a finite retry limit was exhausted -/
def droppedB (s : St) (c : Change) : Bool :=
  s.dropped.any fun d => d.2.any fun g => g.idx == c.1 && g.chg.contains c

theorem droppedB_of (s : St) (c : Change) (d : Nat × Batch) (g : Group)
    (hd : d ∈ s.dropped) (hg : g ∈ d.2) (hi : g.idx = c.1) (hc : c ∈ g.chg) : droppedB s c = true := by
  unfold droppedB
  rw [List.any_eq_true]
  refine ⟨d, hd, ?_⟩
  rw [List.any_eq_true]
  refine ⟨g, hg, ?_⟩
  simp [hi, hc]

theorem top_init_mr (b mr : Nat) (dec : Batch → Bool) (st : Nat) (gu : Bool) (hb : 0 < b) :
    Top { batchSz := b, maxRetries := mr, decodable := dec, failStatus := st, giveUpOnRejection := gu } := by
  have h := top_init b hb
  exact ⟨base_transfer _ _ _ h.base rfl rfl rfl rfl rfl rfl rfl rfl rfl rfl,
    cov_transfer _ _ _ h.cov (fun x hx _ => hx) rfl rfl rfl rfl rfl rfl, h.logOk, h.sorted, h.frontLe⟩

/-- **At least once, unless the leader loop explicitly gives the event up** — the two DROP
branches of the leader loop made explicit: for every batch size, EVERY retry limit `mr`
(0 = none) and EVERY predicate `dec` telling which batches' stored bytes decompress, under the
same histories as `at_least_once_partial`, every change has been POSTed with its entry's
index, or was in an event the leader gave up on (`dropped`: retry limit exhausted,
decompression failed, or — what-if switch `gu` — the endpoint answered a 4xx status `st`), or lies at or below an HWM announced by another node. -/
theorem at_least_once_or_dropped (b mr : Nat) (dec : Batch → Bool) (st : Nat) (gu : Bool) (ops : List Op) (hb : 0 < b) (hwf : wfOps 0 ops) :
    ∀ c ∈ changesOf ops,
      deliveredB (run { batchSz := b, maxRetries := mr, decodable := dec, failStatus := st, giveUpOnRejection := gu } (ops ++ heal)) c = true ∨
      droppedB (run { batchSz := b, maxRetries := mr, decodable := dec, failStatus := st, giveUpOnRejection := gu } (ops ++ heal)) c = true ∨
      c.1 ≤ (run { batchSz := b, maxRetries := mr, decodable := dec, failStatus := st, giveUpOnRejection := gu } (ops ++ heal)).maxIn := by
  intro c hc
  have h0 := top_init_mr b mr dec st gu hb
  have hw0 : wfOps (lastIdx ({ batchSz := b, maxRetries := mr, decodable := dec, failStatus := st, giveUpOnRejection := gu } : St).log) ops := by simpa [lastIdx] using hwf
  have ht := top_run _ ops h0 hw0
  obtain ⟨_, hlogE⟩ := log_of_run _ ops h0 hw0
  rw [run_append]
  obtain ⟨htF, hbat, hheld, hne, hlog⟩ := healed_is_drained _ ht
  unfold changesOf at hc
  rw [List.mem_flatMap] at hc
  obtain ⟨op, hop, hcop⟩ := hc
  cases op with
  | entry e =>
    simp only at hcop
    have he : e ∈ (run { batchSz := b, maxRetries := mr, decodable := dec, failStatus := st, giveUpOnRejection := gu } ops).log := hlogE e hop
    have hs := (ht.logOk e he).2.2
    obtain ⟨g, hg, hgi, hcg, hc1⟩ := change_in_group (run (run { batchSz := b, maxRetries := mr, decodable := dec, failStatus := st, giveUpOnRejection := gu } ops) heal).keepIdx e hs c hcop
    have hgG : g ∈ groups (run (run { batchSz := b, maxRetries := mr, decodable := dec, failStatus := st, giveUpOnRejection := gu } ops) heal) := by
      rw [mem_groups]; exact ⟨e, by rw [hlog]; exact he, hg⟩
    rcases done_of_drained _ htF hbat hheld hne g hgG with (⟨d, hd, hgd⟩ | ⟨d, hd, hgd⟩) | h
    · left; exact deliveredB_of _ c d g hd hgd (by rw [hgi, hc1]) hcg
    · right; left; exact droppedB_of _ c d g hd hgd (by rw [hgi, hc1]) hcg
    · right; right; rw [hc1, ← hgi]; exact h
  | timer => simp at hcop
  | sync => simp at hcop
  | leader _ => simp at hcop
  | endpoint _ => simp at hcop
  | hwm _ => simp at hcop
  | tick => simp at hcop
  | restart => simp at hcop

/-- **At least once, unless a finite retry limit is configured and exhausted** — the
property's own exception: with every stored item decodable (see `FlateLaw`),
for every batch size and EVERY retry limit `mr` (0 = none), every change has been POSTed
with its entry's index, or was in an event the leader gave up on after the limit
(`dropped`), or lies at or below an HWM announced by another node. -/
theorem at_least_once_or_retry_limit (b mr : Nat) (ops : List Op) (hb : 0 < b) (hwf : wfOps 0 ops) :
    ∀ c ∈ changesOf ops,
      deliveredB (run { batchSz := b, maxRetries := mr } (ops ++ heal)) c = true ∨
      droppedB (run { batchSz := b, maxRetries := mr } (ops ++ heal)) c = true ∨
      c.1 ≤ (run { batchSz := b, maxRetries := mr } (ops ++ heal)).maxIn :=
  at_least_once_or_dropped b mr (fun _ => true) 503 false ops hb hwf

/-! ### the stored form of a FIFO item

The FIFO stores `flate.Compress(json.Marshal(batch))`; the leader loop sends
`flate.Decompress(stored)` and DROPS the item when that fails. `FlateLaw` is what the
delivery theorems assume of the pair: a round trip for EVERY input, with NO bound on its
size (one batch holds up to `MaxBatchSz` groups, one group every row a transaction touched:
tens of MiB are ordinary). The model's leader loop consults `St.decodable`, which
`FlateLaw.decodes` derives from the pair; `internal/rarchive/flate` is tied to the law by the
regenerated fact `flate_decompress_unbounded` and by a round-trip oracle on inputs up to
16 MiB. -/

structure FlateLaw (β : Type) where
  compress : Batch → β
  decompress : β → Option Batch
  round : ∀ b : Batch, decompress (compress b) = some b

/-- what the leader loop experiences for batch `b` under a compress/decompress pair -/
def decodesWith {β : Type} (compress : Batch → β) (decompress : β → Option Batch) (b : Batch) : Bool :=
  (decompress (compress b)).isSome

def FlateLaw.decodes {β : Type} (L : FlateLaw β) : Batch → Bool := decodesWith L.compress L.decompress

theorem FlateLaw.decodes_all {β : Type} (L : FlateLaw β) : L.decodes = fun _ => true := by
  funext b
  simp [FlateLaw.decodes, decodesWith, L.round]

/-- the law is satisfiable: storing the batch as it is -/
def idFlate : FlateLaw Batch := { compress := id, decompress := some, round := fun _ => rfl }

/-- a decompressor that refuses outputs above a size bound (size = number of changes): it
breaks `FlateLaw.round` for every batch above the bound -/
def boundedDecompress (bound : Nat) (b : Batch) : Option Batch :=
  if (b.map (·.chg.length)).sum > bound then none else some b

/-- **Witness: a size bound in `Decompress` loses changes for good.** One transaction
touching three statements' rows (one group of 3 changes, stored under key 1) followed by
a small write; decompression refuses anything above 2 changes. On the healed leader the big
event is dropped (no POST, not even a failed one), the small one is delivered, the HWM
passes 1: the three changes of entry 1 are never delivered, with no retry limit set. -/
theorem decode_failure_witness :
    let big : Entry := ⟨1, true, [1, 1, 1]⟩
    let s := run { batchSz := 1, decodable := decodesWith id (boundedDecompress 2) }
      ([.entry big, .entry ⟨2, false, [1]⟩] ++ heal)
    deliveredB s (1, 0) = false ∧ droppedB s (1, 0) = true ∧
      deliveredB s (2, 0) = true ∧ s.hwm = 2 ∧ s.fifo.nextEv = none ∧ s.maxRetries = 0 := by
  decide

/-- **At least once, with the entry's index** (the part of the full statement that holds).
For EVERY batch size and EVERY history of applied log entries (strictly increasing indexes,
each yielding at most one event group: single-statement requests, requests in a
transaction, requests of which at most one statement touches a matching table), batcher
timer firings, snapshots, leadership changes, endpoint outages, HWM broadcasts from other
nodes, HWM ticks and restarts with raft replay, in any order and number: once the endpoint
works, this node leads and the batcher's timer has fired, every change of every applied
entry has been POSTed in a group labelled with its entry's index — or lies at or below a
high-water mark announced by another node (which, by that node's own guarantee, delivered
it). Hypotheses carried by the initial state: no finite retry limit (`maxRetries = 0`) and
every stored item decompresses (`decodable = fun _ => true`; `at_least_once_single_group_under_flate_law`
derives that from `FlateLaw`; see `flate_decompress_unbounded`, `decode_failure_witness`).
Compared with `at_least_once_full` the one extra hypothesis is the exclusion `allSingleGroup`
(`wfOps_iff`: `wfOps` = log order + every entry yields at most one event group). -/
theorem at_least_once_partial (b : Nat) (ops : List Op) (hb : 0 < b) (hwf : wfOps 0 ops) :
    ∀ c ∈ changesOf ops,
      deliveredB (run { batchSz := b } (ops ++ heal)) c = true ∨
      c.1 ≤ (run { batchSz := b } (ops ++ heal)).maxIn := by
  intro c hc
  rcases at_least_once_or_retry_limit b 0 ops hb hwf c hc with h | h | h
  · exact Or.inl h
  · -- no retry limit: nothing is ever dropped
    exfalso
    have := (run_no_drop { batchSz := b, maxRetries := 0 } (ops ++ heal) rfl rfl (fun _ => rfl)).1
    unfold droppedB at h
    rw [this] at h
    simp at h
  · exact Or.inr h

/-! ### how the endpoint fails

The sink accepts 200 and 202; every other answer (any status of any class) and every transport
error is a failed attempt, and the leader loop retries failed attempts without looking at the
reason. `failStatus` is what the endpoint answers during the outages of a history. -/

/-- **At least once, whatever a failing endpoint answers**: `at_least_once_partial` for EVERY
failure status (400, 401, 404, 413, 429, 500, 503, 0 = no answer, …): outages are transient
whatever they look like, nothing is given up on. -/
theorem at_least_once_for_every_failure_status (b st : Nat) (ops : List Op) (hb : 0 < b) (hwf : wfOps 0 ops) :
    ∀ c ∈ changesOf ops,
      deliveredB (run { batchSz := b, failStatus := st } (ops ++ heal)) c = true ∨
      c.1 ≤ (run { batchSz := b, failStatus := st } (ops ++ heal)).maxIn := by
  intro c hc
  rcases at_least_once_or_dropped b 0 (fun _ => true) st false ops hb hwf c hc with h | h | h
  · exact Or.inl h
  · exfalso
    have := (run_no_drop { batchSz := b, failStatus := st } (ops ++ heal) rfl rfl (fun _ => rfl)).1
    unfold droppedB at h
    rw [this] at h
    simp at h
  · exact Or.inr h

/-- **Witness: treating a 4xx answer as a final rejection loses changes with no retry limit
set.** The endpoint answers 404 for a while (a route being redeployed), the leader holds
entry 5; with the rejection rule it forgets the event; after the endpoint is back entry 6 is
delivered, the HWM passes 5, change 5.0 is never delivered. Without the rule (the tree), or
with the rule and a 503/429 answer, it is delivered. -/
theorem rejection_rule_witness :
    let h : List Op := [.leader true, .endpoint false, .entry ⟨5, false, [1]⟩, .endpoint true, .entry ⟨6, false, [1]⟩] ++ heal
    let bad := run { batchSz := 1, failStatus := 404, giveUpOnRejection := true } h
    (deliveredB bad (5, 0) = false ∧ droppedB bad (5, 0) = true ∧ deliveredB bad (6, 0) = true ∧
      bad.hwm = 6 ∧ bad.maxRetries = 0) ∧
    deliveredB (run { batchSz := 1, failStatus := 404 } h) (5, 0) = true ∧
    deliveredB (run { batchSz := 1, failStatus := 503, giveUpOnRejection := true } h) (5, 0) = true ∧
    deliveredB (run { batchSz := 1, failStatus := 429, giveUpOnRejection := true } h) (5, 0) = true := by
  decide

/-- **The part of `at_least_once_full` that holds, with every hypothesis spelled out**: the
full statement's own hypotheses (batch size, log order) plus (1) the exclusion
`allSingleGroup` and (2) a compress/decompress pair for the FIFO's stored form satisfying the
round-trip law `FlateLaw` (no size bound), from which the leader loop's `decodable` is
derived. (No retry limit: `maxRetries` defaults to 0; `at_least_once_or_dropped` covers the
rest.) -/
theorem at_least_once_single_group_under_flate_law {β : Type} (L : FlateLaw β)
    (b : Nat) (ops : List Op) (hb : 0 < b) (hlog : logOrdered 0 ops) (hsingle : allSingleGroup ops) :
    ∀ c ∈ changesOf ops,
      deliveredB (run { batchSz := b, decodable := L.decodes } (ops ++ heal)) c = true ∨
      c.1 ≤ (run { batchSz := b, decodable := L.decodes } (ops ++ heal)).maxIn := by
  rw [L.decodes_all]
  exact at_least_once_partial b ops hb ((wfOps_iff 0 ops).2 ⟨hlog, hsingle⟩)

/-- the law is inhabited, so the theorem above is not vacuous -/
example (b : Nat) (ops : List Op) (hb : 0 < b) (hlog : logOrdered 0 ops) (hsingle : allSingleGroup ops) :=
  at_least_once_single_group_under_flate_law idFlate b ops hb hlog hsingle

/-- **Within one tenure the POSTs are in strictly increasing key order** (the key of a
POST is the highest log index it carries). `pre` is any earlier history; `seg` any stretch
of operations without a leadership change or restart — entries, timer firings, snapshots,
outages, HWM broadcasts and ticks in any order. No exclusion is needed: this also holds
for multi-statement entries. -/
theorem nondecreasing_within_tenure (b : Nat) (pre seg : List Op)
    (hseg : ∀ op ∈ seg, (∀ x, op ≠ .leader x) ∧ op ≠ .restart) :
    ∃ D : List (Nat × Batch),
      (run { batchSz := b } (pre ++ seg)).delivered = (run { batchSz := b } pre).delivered ++ D ∧
      (D.map (·.1)).Pairwise (· < ·) := by
  rw [run_append]
  obtain ⟨D, h1, h2, _, _⟩ := run_deliveries (run { batchSz := b } pre) seg hseg
  exact ⟨D, h1, h2⟩

/-! ### what a HWM broadcast promises -/

/-- THE STATEMENT for the node's own broadcasts: whenever this node has broadcast HWM `h`,
every change at or below `h` has been delivered (here, or according to another node's
announcement). Other nodes prune their queues on the strength of this promise, so
at-least-once ACROSS nodes rests on it. `fromFirstKey` = `NewService` derives the start HWM
from the first FIFO key (before the `fix:` commit) instead of starting at 0. -/
def broadcast_truthful_full (fromFirstKey : Bool) : Prop :=
  ∀ (b : Nat) (ops : List Op), 0 < b → wfOps 0 ops →
    ∀ h ∈ (run { batchSz := b, hwmFromFirstKey := fromFirstKey } ops).broadcasts, ∀ c ∈ changesOf ops, c.1 ≤ h →
      deliveredB (run { batchSz := b, hwmFromFirstKey := fromFirstKey } ops) c = true ∨
      c.1 ≤ (run { batchSz := b, hwmFromFirstKey := fromFirstKey } ops).maxIn

/-- The repaired defect. `NewService` used to set the HWM to (first FIFO key - 1). With batch
size 2 the entries 5 and 6 sit in ONE item keyed 6, so the restarted node believed 5 was
done; leading with the endpoint down its ticker broadcast 5 although change 5.0 was never
sent. On two real services this loses change 5.0 for good (a second node prunes it, leads,
delivers 6, broadcasts 6, and the first node prunes its only copy). With the start HWM 0 the
same history broadcasts nothing. (`broadcast_truthful_full false` itself is NOT proved: the
cross-node composition stays an assumption of `at_least_once_partial`.) -/
theorem broadcast_truthful_witness :
    ¬ broadcast_truthful_full true ∧
    (run { batchSz := 2 } [.entry ⟨5, false, [1]⟩, .entry ⟨6, false, [1]⟩, .restart, .endpoint false,
        .leader true, .tick]).broadcasts = [] := by
  constructor
  · intro h
    have := h 2 [.entry ⟨5, false, [1]⟩, .entry ⟨6, false, [1]⟩, .restart, .endpoint false, .leader true, .tick]
      (by decide) (by simp [wfOps, single, nonEmptyStmts]) 5 (by decide) (5, 0) (by decide) (by decide)
    revert this
    decide
  · decide

/-! ### the snapshot sync and groups still in the hand-off channel -/

/-- cdc/service.go: the snapshot-sync case of `writeToBatcher` drains the hand-off channel
before it writes the flush marker (the model's `drainOnSync = true`), and the leader loop
keeps an unsent event across a stop (the model's `held` surviving `leader false`) -/
theorem service_facts :
    RqModel.Gen.CdcPipe.syncDrainsHandoff = some true ∧
    RqModel.Gen.CdcPipe.leaderKeepsUnsent = some true := by decide

/-- internal/rarchive/flate (the package `cdc/service.go` imports as `flate`): `Decompress`
reads the WHOLE inflated stream — a `bytes.Reader` over the input, the standard library's
inflater, `io.ReadAll` — with no limit reader and no size error, and `Compress` writes the
whole input and closes the writer. With the standard library's deflate round trip this is
`FlateLaw.round` for inputs of any size. The correspondence run checks the round trip itself
on 9–16 MiB inputs. -/
theorem flate_decompress_unbounded :
    RqModel.Gen.CdcPipe.cdcFlateImport = "github.com/rqlite/rqlite/v10/internal/rarchive/flate" ∧
    RqModel.Gen.CdcPipe.flateDecompressStmts =
      ["reader := bytes.NewReader(data)", "r := flate.NewReader(reader)", "defer r.Close()",
       "return io.ReadAll(r)"] ∧
    RqModel.Gen.CdcPipe.flateCompressStmts =
      ["var buf bytes.Buffer", "w, err := flate.NewWriter(&buf, flate.BestCompression)",
       "if err != nil { return nil, err }", "_, err = w.Write(data)",
       "if err != nil { w.Close() return nil, err }", "err = w.Close()",
       "if err != nil { return nil, err }", "return buf.Bytes(), nil"] := by decide

/-- cdc/service.go `leaderLoop` and cdc/sink.go `HTTPSink.Write`: inside the retry loop the
only things tested are: success, the configured retry limit, the back-off policy and cap, the
stop signal and the back-off timer — never the KIND of failure; and the sink distinguishes
exactly "200 or 202" from everything else. This is the model's `up`/`failStatus`: whatever a
failing endpoint answers, the attempt is retried (`givesUpOf … false …`). -/
theorem retry_loop_ignores_the_failure_kind :
    RqModel.Gen.CdcPipe.leaderRetryLoopConds =
      ["if err == nil", "if s.transmitMaxRetries != retryForever && nAttempts == s.transmitMaxRetries",
       "if s.transmitRetryPolicy == ExponentialRetryPolicy", "if retryDelay > s.transmitMaxBackoff",
       "case <-stop", "case <-t.C"] ∧
    RqModel.Gen.CdcPipe.httpSinkWriteConds =
      ["if err != nil", "if err != nil",
       "if resp.StatusCode != http.StatusOK && resp.StatusCode != http.StatusAccepted"] := by decide

/-- cdc/service.go `leaderLoop`: when `flate.Decompress(ev.Data)` fails the loop forgets the
event and goes on to the next one — the model's decompress DROP (`pump`, `undecodable`) -/
theorem leader_decode_failure_is_a_drop :
    RqModel.Gen.CdcPipe.leaderDecodeFailure = ["s.unsent = nil", "continue"] := by decide

/-- **Entries still in the hand-off channel**: with the drain on a snapshot sync (the tree),
for ANY interleaving of queued entries (`entryQueued`: applied, groups still in the channel)
and operations, once the channel has drained the pipeline is in exactly the state reached by
the history in which each entry is applied, where it was queued, at a quiescent point
(`OpQ.flat`). Proved for every history (`runHand_is_run`: the pipeline steps other than
`sync`/`restart` never read the raft log). A restart is modelled as finding the channel
drained; the schedule in which the process dies with groups still in the channel is not
modelled (those entries are above every snapshot, because the sync drains the channel, so
raft replays them). -/
theorem handoff_histories_are_quiescent_histories (s : St) (xs : List OpQ) :
    (drainHand (runHand true { s := s } xs)).s = run s (xs.map OpQ.flat) :=
  runHand_is_run { s := s } xs

/-- hence at-least-once for histories with queued entries anywhere (same hypotheses as
`at_least_once_partial`, on the flattened history) -/
theorem at_least_once_with_queued_entries (b : Nat) (xs : List OpQ) (hb : 0 < b)
    (hwf : wfOps 0 (xs.map OpQ.flat)) :
    ∀ c ∈ changesOf (xs.map OpQ.flat),
      deliveredB (drainHand (runHand true { s := { batchSz := b } } (xs ++ heal.map OpQ.op))).s c = true ∨
      c.1 ≤ (drainHand (runHand true { s := { batchSz := b } } (xs ++ heal.map OpQ.op))).s.maxIn := by
  have hflat : (xs ++ heal.map OpQ.op).map OpQ.flat = xs.map OpQ.flat ++ heal := by
    simp [heal, OpQ.flat]
  rw [runHand_is_run, hflat]
  exact at_least_once_partial b (xs.map OpQ.flat) hb hwf

/-- The repaired defect (`drainOnSync = false`): the flush of a snapshot sync overtook the
group of an entry still in the channel; after the snapshot the entry is no longer replayed,
so a restart lost it — observed end to end on the real service (60 entries, forced
schedule: entries 46.. never reached the endpoint). With the drain it is delivered. -/
theorem sync_overtake_witness :
    (runHand false { s := { batchSz := 8 } }
      ([.entryQueued ⟨5, false, [1]⟩, .op .sync, .op .restart] ++ heal.map OpQ.op)).s.delivered = [] ∧
    (runHand true { s := { batchSz := 8 } }
      ([.entryQueued ⟨5, false, [1]⟩, .op .sync, .op .restart] ++ heal.map OpQ.op)).s.delivered =
        [(5, [⟨5, [(5, 0)]⟩])] := by decide

/-! ### order of the LABELS within a tenure -/

/-- labels (entry indexes carried by the groups) of a list of POSTs, in order -/
def labels (d : List (Nat × Batch)) : List Nat := d.flatMap fun p => p.2.map (·.idx)

/-- THE FULL STATEMENT of the property's second sentence at the level of labels: between
two leadership changes the labels that reach the endpoint never decrease. -/
def label_order_full : Prop :=
  ∀ (b : Nat) (pre seg : List Op), 0 < b → wfOps 0 (pre ++ seg) →
    (∀ op ∈ seg, (∀ x, op ≠ .leader x) ∧ op ≠ .restart) →
    ∀ D, (run { batchSz := b } (pre ++ seg)).delivered = (run { batchSz := b } pre).delivered ++ D →
      (labels D).Pairwise (· ≤ ·)

/-- False even for single-statement entries: after a restart raft replays entries that are
still queued, and a replayed entry can share a batch with one that was not queued yet. Batch
size 3: items keyed 5 and 6 carry entries 5 and 6; entry 7 is still in the batcher when the
node restarts; the replay forms a new item keyed 7 carrying 5,6,7. One later tenure delivers
the labels 5, 6, 5, 6, 7. Redelivery is inherent to at-least-once; what holds is the order
of the POST keys (`nondecreasing_within_tenure`). The multi-statement finding breaks label
order too (77,0,0: `at_least_once_witness_mislabelled`). -/
theorem label_order_witness : ¬ label_order_full := by
  intro h
  have key := h 3
    [.entry ⟨5, false, [1]⟩, .timer, .entry ⟨6, false, [1]⟩, .timer, .entry ⟨7, false, [1]⟩, .restart,
     .endpoint false, .leader true]
    [.endpoint true] (by decide) (by simp [wfOps, single, nonEmptyStmts]) (by simp)
    [(5, [⟨5, [(5, 0)]⟩]), (6, [⟨6, [(6, 0)]⟩]), (7, [⟨5, [(5, 0)]⟩, ⟨6, [(6, 0)]⟩, ⟨7, [(7, 0)]⟩])] (by decide)
  revert key
  decide

/-- the same with the ghost field spelled out: `maxHwmIn ops` is the highest HWM another
node announced during the history -/
theorem at_least_once_partial' (b : Nat) (ops : List Op) (hb : 0 < b) (hwf : wfOps 0 ops) :
    ∀ c ∈ changesOf ops,
      deliveredB (run { batchSz := b } (ops ++ heal)) c = true ∨ c.1 ≤ maxHwmIn ops := by
  intro c hc
  rcases at_least_once_partial b ops hb hwf c hc with h | h
  · exact Or.inl h
  · right
    rw [run_maxIn] at h
    have : maxHwmIn (ops ++ heal) = maxHwmIn ops := by
      rw [maxHwmIn_append]; simp [heal, maxHwmIn]
    simpa [this] using h

/-- the exclusion is decidable and the hypotheses are satisfiable by a history with an
outage, a step-down during the retry, a restart, a snapshot and a foreign HWM -/
example : wfOps 0 [.leader true, .endpoint false, .entry ⟨5, false, [1]⟩, .entry ⟨6, true, [2, 0, 1]⟩,
    .leader false, .sync, .restart, .hwm 3, .entry ⟨8, false, [0, 1]⟩] := by
  simp [wfOps, single, nonEmptyStmts]

example : (run { batchSz := 2 } ([.leader true, .endpoint false, .entry ⟨5, false, [1]⟩, .entry ⟨6, true, [2, 0, 1]⟩,
    .leader false, .sync, .restart, .hwm 3, .entry ⟨8, false, [0, 1]⟩] ++ heal)).delivered =
    [(6, [⟨5, [(5, 0)]⟩, ⟨6, [(6, 0), (6, 2)]⟩]), (8, [⟨8, [(8, 1)]⟩])] := by decide

end C25

/-
Model of CDC event production (C27): db/db.go RegisterPreUpdateHook (convertFn), db/cdc.go
CDCStreamer (PreupdateHook / CommitHook / Reset), driven by the statement loop of a write
request.

SQLite is a parameter with assumed semantics, here in executable form: a statement is the
ordered list of row changes it makes before it either completes or fails; the pre-update
hook fires for every row change as it is made (also for the rows of a statement that fails
afterwards and is undone); the commit hook fires when a write transaction commits - after
every successful writing statement in auto-commit mode (also one that changed no row), once at
COMMIT inside a transaction; a statement that fails is undone (statement-level abort) without any hook.

The streamer keeps `pending`; a statement that fails after touching rows leaves its events
there, and the next commit of the same request delivers them (recorded known finding).
-/
import RqModel.Model.Util
namespace RqModel.Cdc
open RqModel.Util

/-- the operation code SQLite hands to the pre-update hook -/
inductive Op where
  | insert | update | delete
  | unknown (code : Nat)
deriving Repr, DecidableEq

/-- a column value as the driver hands it over (normalizeCDCValues maps each Go type to the
CDCValue case of the same type: int64→I, float64→D, bool→B, string→S, []byte→Y, nil→nil) -/
inductive Val where
  | int (z : Int) | real (tok : String) | bool (b : Bool) | text (s : String) | blob (bs : List UInt8) | null
deriving Repr, DecidableEq

abbrev Row := List Val

/-- `sqlite3.SQLitePreUpdateData`: one row change as SQLite reports it to the hook. `old` is what
`d.Old()` yields (defined for UPDATE and DELETE), `new` what `d.New()` yields (INSERT and UPDATE).
`id` is a ghost field naming the change for the harness. -/
structure Change where
  table : String
  id : Nat
  op : Op := .insert
  oldRowID : Int := 0
  newRowID : Int := 0
  old : Row := []
  new : Row := []
deriving Repr, DecidableEq

/-- `command.CDCEvent` -/
structure Event where
  table : String
  id : Nat                       -- ghost: which change
  op : Op
  oldRowId : Int := 0
  newRowId : Int := 0
  oldRow : Option Row := none
  newRow : Option Row := none
  error : Bool := false
deriving Repr, DecidableEq

def Event.values (e : Event) : Bool := e.oldRow.isSome || e.newRow.isSome

structure Cfg where
  idsOnly : Bool
  tables : Option (List String)   -- `none` = no filter; else the tables the regex matches
  room : Nat := 1000000           -- free slots of the output channel while the request runs (nobody reads)
  colsFail : List String := []    -- tables for which `ColumnNames` fails at commit time
deriving Repr

/-- the table filter of `convertFn` (`tblRe.MatchString`, cached) -/
def tableMatches (c : Cfg) (t : String) : Bool :=
  match c.tables with
  | some ts => ts.contains t
  | none => true

/-- the `switch d.Op` of `convertFn`: operation and row ids; `none` = unknown operation code -/
def baseEvent (d : Change) : Option Event :=
  match d.op with
  | .insert => some { table := d.table, id := d.id, op := d.op, newRowId := d.newRowID }
  | .update => some { table := d.table, id := d.id, op := d.op, oldRowId := d.oldRowID, newRowId := d.newRowID }
  | .delete => some { table := d.table, id := d.id, op := d.op, oldRowId := d.oldRowID }
  | .unknown _ => none

/-- the two `if d.Op != …` blocks of `convertFn`: old row unless INSERT, new row unless DELETE -/
def withRows (d : Change) (ev : Event) : Event :=
  let ev := if d.op != .insert then { ev with oldRow := some d.old } else ev
  if d.op != .delete then { ev with newRow := some d.new } else ev

/-- `convertFn` of RegisterPreUpdateHook (db/db.go), line by line: table filter; operation and row
ids; stop there in row-ids-only mode; old row unless INSERT; new row unless DELETE. `none` = the
table is filtered out (no event). An unknown operation code yields an event carrying an error. -/
def convert (c : Cfg) (d : Change) : Option Event :=
  if !tableMatches c d.table then none
  else
    match baseEvent d with
    | none => some { table := d.table, id := d.id, op := d.op, error := true }
    | some ev => if c.idsOnly then some ev else some (withRows d ev)

structure Stmt where
  touched : List Change    -- row changes made (in order) before the statement ended
  ok : Bool                -- false: the statement then failed and was undone
  writes : Bool := true    -- the statement opens a write transaction (false: SELECT …); the commit
                           -- hook fires for every committed write transaction, also one that changed no row
deriving Repr, DecidableEq

structure St where
  pending : List Event := []
  groups : List (List Event) := []   -- delivered, oldest first
  dropped : Nat := 0                 -- groups dropped because the channel was full (cdcDroppedEvents)
deriving Repr, DecidableEq

def preupdate (c : Cfg) (st : St) (ch : Change) : St :=
  match convert c ch with
  | some ev => { st with pending := st.pending ++ [ev] }
  | none => st

def preupdates (c : Cfg) (st : St) (chs : List Change) : St := chs.foldl (preupdate c) st

/-- the column-name loop of `CommitHook`: an event of a table whose `ColumnNames` fails carries an error -/
def markCols (c : Cfg) (ev : Event) : Event :=
  if c.colsFail.contains ev.table then { ev with error := true } else ev

/-- `CommitHook`: nothing pending → nothing; otherwise the group is handed to the channel if there is
room (`select … default`), else DROPPED; either way `pending` starts afresh and the hook returns true
(the commit itself is never affected) -/
def commit (c : Cfg) (st : St) : St :=
  if st.pending.isEmpty then st
  else if st.groups.length < c.room then
    { st with pending := [], groups := st.groups ++ [st.pending.map (markCols c)] }
  else { st with pending := [], dropped := st.dropped + 1 }

/-- auto-commit mode: every statement is its own transaction; a commit happens only when a
statement that changed something succeeds -/
def runAuto (c : Cfg) : St → List Stmt → St
  | st, [] => st
  | st, s :: rest =>
    let st1 := preupdates c st s.touched
    if s.ok then runAuto c (if s.writes then commit c st1 else st1) rest
    else runAuto c st1 rest

/-- inside BEGIN … COMMIT: the first failure rolls everything back and stops the request (C13);
`none` = rolled back -/
def runTx (c : Cfg) : St → List Stmt → St × Bool
  | st, [] => (st, true)
  | st, s :: rest =>
    let st1 := preupdates c st s.touched
    if s.ok then runTx c st1 rest else (st1, false)

/-- one write request: `Reset` (a new log entry), the statements, the final COMMIT of a transaction
(the commit hook fires only if the transaction changed something) -/
def request (c : Cfg) (tx : Bool) (stmts : List Stmt) : St :=
  let st0 : St := {}
  if tx then
    let (st1, ok) := runTx c st0 stmts
    if ok && stmts.any (fun s => s.writes) then commit c st1 else st1
  else runAuto c st0 stmts

/-! ### line protocol
`cfg <idsOnly 0|1> <*|table,table|-> [room]` → `ok`   (`*` no filter, `-` filter matching nothing; room = free channel slots)
`req <tx 0|1> <stmt;stmt;…|->` → `<group|group|…|-> <pending count>`
stmt: `ok:<changes>` | `fail:<changes>` | `read:` (no write transaction); changes `.`-separated
`<table>#<id>#<i|u|d>#<old rowid>#<new rowid>#<old row|->#<new row|->` or empty (rows hex-encoded).
event: `<table>#<id>#<op>#<OldRowId>#<NewRowId>#<OldRow|->#<NewRow|->`; events `,`-separated. -/

structure DState where
  cfg : Cfg := { idsOnly := false, tables := none }

def parseOp (s : String) : Option Op :=
  if s == "i" then some .insert else if s == "u" then some .update else if s == "d" then some .delete else none

def opStr : Op → String
  | .insert => "i" | .update => "u" | .delete => "d" | .unknown _ => "?"

def parseRow (s : String) : Option Row :=
  if s == "-" then some [] else (tokString s).map fun t => [.text t]

def parseIntTok (s : String) : Option Int :=
  match s.toList with
  | '-' :: ds => (String.ofList ds).toNat?.map fun n => -(n : Int)
  | _ => s.toNat?.map fun n => (n : Int)

/-- `<table>#<id>#<i|u|d>#<old rowid>#<new rowid>#<old row|->#<new row|->`; a row travels as one opaque
hex-encoded value (its canonical rendering by the harness) -/
def parseChange (s : String) : Option Change :=
  match s.splitOn "#" with
  | [t, i, o, oi, ni, orow, nrow] => do
    let n ← i.toNat?
    let op ← parseOp o
    let oi ← parseIntTok oi
    let ni ← parseIntTok ni
    let orow ← parseRow orow
    let nrow ← parseRow nrow
    pure { table := t, id := n, op := op, oldRowID := oi, newRowID := ni, old := orow, «new» := nrow }
  | _ => none

def parseStmt (s : String) : Option Stmt :=
  match s.splitOn ":" with
  | [k, cs] =>
    let chs := if cs == "" then some [] else (cs.splitOn ".").mapM parseChange
    if k == "ok" then chs.map (⟨·, true, true⟩) else if k == "fail" then chs.map (⟨·, false, true⟩)
    else if k == "read" then some ⟨[], true, false⟩ else none
  | _ => none

def rowStr : Option Row → String
  | some [.text t] => hexOfString t
  | some [] => "x"
  | some _ => "?"
  | none => "-"

def evStr (e : Event) : String :=
  "#".intercalate [e.table, toString e.id, opStr e.op, toString e.oldRowId, toString e.newRowId,
    rowStr e.oldRow, rowStr e.newRow]

def outStr (st : St) : String :=
  (if st.groups.isEmpty then "-" else "|".intercalate (st.groups.map fun g => ",".intercalate (g.map evStr))) ++
  " " ++ toString st.pending.length ++ (if st.dropped == 0 then "" else " dropped:" ++ toString st.dropped)

def step (d : DState) (line : String) : DState × String :=
  match words line with
  | ["cfg", i, ts] =>
    match (if i == "1" then some true else if i == "0" then some false else none) with
    | some i =>
      let tables := if ts == "*" then none else if ts == "-" then some [] else some (ts.splitOn ",")
      ({ cfg := { idsOnly := i, tables := tables } }, "ok")
    | none => (d, "bad-op")
  | ["cfg", i, ts, room] =>
    match (if i == "1" then some true else if i == "0" then some false else none), room.toNat? with
    | some i, some room =>
      let tables := if ts == "*" then none else if ts == "-" then some [] else some (ts.splitOn ",")
      ({ cfg := { idsOnly := i, tables := tables, room := room } }, "ok")
    | _, _ => (d, "bad-op")
  | ["req", tx, ss] =>
    match (if tx == "1" then some true else if tx == "0" then some false else none),
          (if ss == "-" then some [] else (ss.splitOn ";").mapM parseStmt) with
    | some tx, some stmts => (d, outStr (request d.cfg tx stmts))
    | _, _ => (d, "bad-op")
  | _ => (d, "bad-op")

def init : DState := {}

end RqModel.Cdc
--! driver: cdc RqModel.Cdc

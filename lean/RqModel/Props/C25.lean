/-
C25  CDC delivers every committed change at least once with its log index.

Model: RqModel/Model/CdcPipe.lean (one node's pipeline: streamer → HWM filter → batcher →
FIFO → leader loop → endpoint; HWM broadcast/prune; snapshot sync; restart with raft
replay), tied to the real cdc.Service + db.CDCStreamer + Bolt FIFO + HTTP sink by the C25
correspondence run.
-/
import RqModel.Model.CdcPipe
import RqModel.Lemmas.Cdc7
namespace C25
open RqModel.CdcPipe RqModel.Fifo

/-- change `c` of entry `k` has reached the endpoint in a group labelled `k` -/
def deliveredB (s : St) (c : Change) : Bool :=
  s.delivered.any fun d => d.2.any fun g => g.idx == c.1 && g.chg.contains c

/-- all changes of the entries applied in a history -/
def changesOf (ops : List Op) : List Change :=
  ops.flatMap fun
    | .entry e => changesFrom e.idx 0 e.stmts
    | _ => []

/-- the healing suffix: the endpoint works, this node leads, the batcher's timer fires -/
def heal : List Op := [.endpoint true, .leader true, .timer]

/-- THE FULL STATEMENT (false of the faithful model, see the witnesses): after any history
followed by `heal`, every change of every applied entry has been delivered, labelled with
its entry's index. -/
def at_least_once_full : Prop :=
  ∀ (b : Nat) (ops : List Op), 0 < b →
    ∀ c ∈ changesOf ops, deliveredB (run { batchSz := b } (ops ++ heal)) c = true

/-- the streamer loses the index after the first commit inside one log entry -/
theorem streamer_index_witness :
    streamEntry ⟨77, false, [1, 1, 1]⟩ = [⟨77, [(77, 0)]⟩, ⟨0, [(77, 1)]⟩, ⟨0, [(77, 2)]⟩] := by decide

/-- batch size 3: statements 2 and 3 arrive labelled 0 -/
theorem at_least_once_witness_mislabelled :
    (run { batchSz := 3 } ([.leader true, .entry ⟨77, false, [1, 1, 1]⟩] ++ heal)).delivered =
      [(77, [⟨77, [(77, 0)]⟩, ⟨0, [(77, 1)]⟩, ⟨0, [(77, 2)]⟩])] := by decide

/-- batch size 1: statements 2 and 3 never arrive (enqueued at FIFO key 0, suppressed) -/
theorem at_least_once_witness :
    ¬ at_least_once_full := by
  intro h
  have := h 1 [.leader true, .entry ⟨77, false, [1, 1, 1]⟩] (by decide) (77, 1) (by decide)
  revert this
  decide

/-- keeping the index in the streamer is not enough: with batch size 1 the second batch has
the same highest index as the first and is suppressed by the FIFO -/
theorem keep_index_not_enough_witness :
    deliveredB (run { batchSz := 1, keepIdx := true } ([.leader true, .entry ⟨77, false, [1, 1, 1]⟩] ++ heal)) (77, 1) = false := by
  decide

/-! ### at least once, for entries that yield one event group -/

theorem wf_heal (last : Nat) : wfOps last heal := by
  simp [heal, wfOps]

theorem flags_endpoint (s : St) : (stepOp s (.endpoint true)).up = true := by
  show (pumpAll { s with up := true }).up = true
  unfold pumpAll
  rw [(same_pump _ _).up]

theorem flags_leader (s : St) : (stepOp s (.leader true)).leader = true ∧ (stepOp s (.leader true)).up = s.up := by
  show (pumpAll (stepCore s (.leader true))).leader = true ∧ (pumpAll (stepCore s (.leader true))).up = s.up
  unfold pumpAll
  rw [(same_pump _ _).leader, (same_pump _ _).up]
  simp only [stepCore]
  by_cases h : true = s.leader
  · rw [if_pos h]; exact ⟨h.symm, rfl⟩
  · rw [if_neg h]; simp

/-- after the healing suffix nothing is left in the batcher, in the leader loop's hand, or
emittable from the FIFO -/
theorem healed_is_drained (s : St) (ht : Top s) :
    let t := run s heal
    Top t ∧ t.batcher = [] ∧ t.held = none ∧ t.fifo.nextEv = none ∧ t.log = s.log := by
  have t1 := top_step s (.endpoint true) ht trivial
  have t2 := top_step _ (.leader true) t1 trivial
  have t3 := top_step _ .timer t2 trivial
  have hup : (stepOp (stepOp s (.endpoint true)) (.leader true)).up = true := by
    rw [(flags_leader _).2]; exact flags_endpoint s
  have hld := (flags_leader (stepOp s (.endpoint true))).1
  have hfl := flush_good _ _ t2.base t2.cov
  have hsf := same_flush (stepOp (stepOp s (.endpoint true)) (.leader true))
  have hdr := pumpAll_drains (flushBatcher (stepOp (stepOp s (.endpoint true)) (.leader true))) hfl.1.fifo
    (by rw [hsf.leader]; exact hld) (by rw [hsf.up]; exact hup)
  have hbat : (pumpAll (flushBatcher (stepOp (stepOp s (.endpoint true)) (.leader true)))).batcher = [] := by
    unfold pumpAll; rw [pump_batcher]; exact flush_batcher_nil _
  have hlog : (stepOp (stepOp (stepOp s (.endpoint true)) (.leader true)) .timer).log = s.log := by
    rw [stepOp_log _ .timer t2, stepOp_log _ (.leader true) t1, stepOp_log _ (.endpoint true) ht]
  exact ⟨t3, hbat, hdr.1, hdr.2, hlog⟩

theorem deliveredB_of (s : St) (c : Change) (d : Nat × Batch) (g : Group)
    (hd : d ∈ s.delivered) (hg : g ∈ d.2) (hi : g.idx = c.1) (hc : c ∈ g.chg) : deliveredB s c = true := by
  unfold deliveredB
  rw [List.any_eq_true]
  refine ⟨d, hd, ?_⟩
  rw [List.any_eq_true]
  refine ⟨g, hg, ?_⟩
  simp [hi, hc]

/-- **At least once, with the entry's index** (the part of the full statement that holds).
For EVERY batch size and EVERY history of applied log entries (strictly increasing indexes,
each yielding at most one event group: single-statement requests, requests in a
transaction, requests of which at most one statement touches a matching table), batcher
timer firings, snapshots, leadership changes, endpoint outages, HWM broadcasts from other
nodes, HWM ticks and restarts with raft replay, in any order and number: once the endpoint
works, this node leads and the batcher's timer has fired, every change of every applied
entry has been POSTed in a group labelled with its entry's index — or lies at or below a
high-water mark announced by another node (which, by that node's own guarantee, delivered
it). -/
theorem at_least_once_partial (b : Nat) (ops : List Op) (hb : 0 < b) (hwf : wfOps 0 ops) :
    ∀ c ∈ changesOf ops,
      deliveredB (run { batchSz := b } (ops ++ heal)) c = true ∨
      c.1 ≤ (run { batchSz := b } (ops ++ heal)).maxIn := by
  intro c hc
  have h0 := top_init b hb
  have hw0 : wfOps (lastIdx ({ batchSz := b } : St).log) ops := by simpa [lastIdx] using hwf
  have ht := top_run _ ops h0 hw0
  obtain ⟨_, hlogE⟩ := log_of_run _ ops h0 hw0
  rw [run_append]
  obtain ⟨htF, hbat, hheld, hne, hlog⟩ := healed_is_drained _ ht
  -- the entry the change belongs to
  unfold changesOf at hc
  rw [List.mem_flatMap] at hc
  obtain ⟨op, hop, hcop⟩ := hc
  cases op with
  | entry e =>
    simp only at hcop
    have he : e ∈ (run { batchSz := b } ops).log := hlogE e hop
    have hs := (ht.logOk e he).2.2
    obtain ⟨g, hg, hgi, hcg, hc1⟩ := change_in_group (run (run { batchSz := b } ops) heal).keepIdx e hs c hcop
    have hgG : g ∈ groups (run (run { batchSz := b } ops) heal) := by
      rw [mem_groups]; exact ⟨e, by rw [hlog]; exact he, hg⟩
    rcases done_of_drained _ htF hbat hheld hne g hgG with ⟨d, hd, hgd⟩ | h
    · left; exact deliveredB_of _ c d g hd hgd (by rw [hgi, hc1]) hcg
    · right; rw [hc1, ← hgi]; exact h
  | timer => simp at hcop
  | sync => simp at hcop
  | leader _ => simp at hcop
  | endpoint _ => simp at hcop
  | hwm _ => simp at hcop
  | tick => simp at hcop
  | restart => simp at hcop

/-- **Within one tenure the POSTs are in strictly increasing key order** (the key of a
POST is the highest log index it carries). `pre` is any earlier history; `seg` any stretch
of operations without a leadership change or restart — entries, timer firings, snapshots,
outages, HWM broadcasts and ticks in any order. No exclusion is needed: this also holds
for multi-statement entries. -/
theorem nondecreasing_within_tenure (b : Nat) (pre seg : List Op)
    (hseg : ∀ op ∈ seg, (∀ x, op ≠ .leader x) ∧ op ≠ .restart) :
    ∃ D : List (Nat × Batch),
      (run { batchSz := b } (pre ++ seg)).delivered = (run { batchSz := b } pre).delivered ++ D ∧
      (D.map (·.1)).Pairwise (· < ·) := by
  rw [run_append]
  obtain ⟨D, h1, h2, _, _⟩ := run_deliveries (run { batchSz := b } pre) seg hseg
  exact ⟨D, h1, h2⟩

/-! ### what a HWM broadcast promises -/

/-- THE FULL STATEMENT for the node's own broadcasts (false, see the witness): whenever this
node has broadcast HWM `h`, every change at or below `h` has been delivered (here, or
according to another node's announcement). Other nodes prune their queues on the strength
of this promise, so at-least-once across leader changes rests on it. -/
def broadcast_truthful_full : Prop :=
  ∀ (b : Nat) (ops : List Op), 0 < b → wfOps 0 ops →
    ∀ h ∈ (run { batchSz := b } ops).broadcasts, ∀ c ∈ changesOf ops, c.1 ≤ h →
      deliveredB (run { batchSz := b } ops) c = true ∨ c.1 ≤ (run { batchSz := b } ops).maxIn

/-- After a restart `NewService` sets the HWM to (first FIFO key - 1). With batch size 2 the
entries 5 and 6 sit in ONE item keyed 6, so the restarted node believes 5 is done; as
leader with the endpoint down its ticker broadcasts 5 although change 5.0 was never sent. -/
theorem broadcast_truthful_witness : ¬ broadcast_truthful_full := by
  intro h
  have := h 2 [.entry ⟨5, false, [1]⟩, .entry ⟨6, false, [1]⟩, .restart, .endpoint false, .leader true, .tick]
    (by decide) (by simp [wfOps, single, nonEmptyStmts]) 5 (by decide) (5, 0) (by decide) (by decide)
  revert this
  decide

/-- the same with the ghost field spelled out: `maxHwmIn ops` is the highest HWM another
node announced during the history -/
theorem at_least_once_partial' (b : Nat) (ops : List Op) (hb : 0 < b) (hwf : wfOps 0 ops) :
    ∀ c ∈ changesOf ops,
      deliveredB (run { batchSz := b } (ops ++ heal)) c = true ∨ c.1 ≤ maxHwmIn ops := by
  intro c hc
  rcases at_least_once_partial b ops hb hwf c hc with h | h
  · exact Or.inl h
  · right
    rw [run_maxIn] at h
    have : maxHwmIn (ops ++ heal) = maxHwmIn ops := by
      rw [maxHwmIn_append]; simp [heal, maxHwmIn]
    simpa [this] using h

/-- the exclusion is decidable and the hypotheses are satisfiable by a history with an
outage, a step-down during the retry, a restart, a snapshot and a foreign HWM -/
example : wfOps 0 [.leader true, .endpoint false, .entry ⟨5, false, [1]⟩, .entry ⟨6, true, [2, 0, 1]⟩,
    .leader false, .sync, .restart, .hwm 3, .entry ⟨8, false, [0, 1]⟩] := by
  simp [wfOps, single, nonEmptyStmts]

example : (run { batchSz := 2 } ([.leader true, .endpoint false, .entry ⟨5, false, [1]⟩, .entry ⟨6, true, [2, 0, 1]⟩,
    .leader false, .sync, .restart, .hwm 3, .entry ⟨8, false, [0, 1]⟩] ++ heal)).delivered =
    [(6, [⟨5, [(5, 0)]⟩, ⟨6, [(6, 0), (6, 2)]⟩]), (8, [⟨8, [(8, 1)]⟩])] := by decide

end C25

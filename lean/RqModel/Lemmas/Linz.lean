/-
Lemmas about keyed-register histories (Model/Linz.lean): a history whose operations can
be laid out along ONE log, consistently with real time and with the values of a
sequential table, is linearizable (`single_log_linearizable`).
-/
import RqModel.Model.Linz
namespace RqModel.Linz

theorem legal_reads (h : History) (s : St) (rs : List Nat) (tail : List Kind)
    (hr : ∀ r ∈ rs, ∃ k res, (opAt h r).kind = .read k res ∧ s.lookup k = res) :
    legalFrom s (kindsOf h rs ++ tail) = legalFrom s tail := by
  induction rs with
  | nil => rfl
  | cons r rs ih =>
    obtain ⟨k, res, hk, hres⟩ := hr r (by simp)
    simp only [kindsOf, List.map_cons, List.cons_append, legalFrom, hk, applyKind, hres, if_true]
    exact ih (fun r' hr' => hr r' (by simp [hr']))

theorem legal_build (h : History) (reads : Nat → List Nat) (rest : List Nat) (p : Nat) (s : St)
    (hreads : ∀ q, p ≤ q → ∀ r ∈ reads q, ∃ k res, (opAt h r).kind = .read k res ∧
        (runWrites h (rest.take (q - p)) s).lookup k = res)
    (hlog : ∀ j, j < rest.length → ∀ k res, (opAt h (rest.getD j 0)).kind = .read k res →
        (runWrites h (rest.take j) s).lookup k = res) :
    legalFrom s (kindsOf h (build reads p rest)) = true := by
  induction rest generalizing p s with
  | nil =>
    simp only [build]
    have := legal_reads h s (reads p) [] (by
      intro r hr
      obtain ⟨k, res, hk, hv⟩ := hreads p (Nat.le_refl _) r hr
      exact ⟨k, res, hk, by simpa [runWrites] using hv⟩)
    simpa [legalFrom] using this
  | cons x rest ih =>
    simp only [build, kindsOf, List.map_append, List.map_cons]
    have h1 := legal_reads h s (reads p) ((opAt h x).kind :: kindsOf h (build reads (p + 1) rest)) (by
      intro r hr
      obtain ⟨k, res, hk, hv⟩ := hreads p (Nat.le_refl _) r hr
      exact ⟨k, res, hk, by simpa [runWrites] using hv⟩)
    simp only [kindsOf] at h1
    rw [h1]
    cases hx : (opAt h x).kind with
    | write k v =>
      simp only [legalFrom, applyKind]
      apply ih (p + 1) ((k, v) :: s)
      · intro q hq r hr
        obtain ⟨k', res, hk, hv⟩ := hreads q (by omega) r hr
        refine ⟨k', res, hk, ?_⟩
        have : q - p = (q - (p + 1)) + 1 := by omega
        rw [this] at hv
        simpa [runWrites, hx] using hv
      · intro j hj k' res hk
        have := hlog (j + 1) (by simp; omega) k' res (by simpa using hk)
        simpa [runWrites, hx] using this
    | read k res =>
      have hv := hlog 0 (by simp) k res (by simpa using hx)
      simp only [List.take_zero, runWrites] at hv
      simp only [legalFrom, applyKind, hv, if_true]
      apply ih (p + 1) s
      · intro q hq r hr
        obtain ⟨k', res', hk, hv'⟩ := hreads q (by omega) r hr
        refine ⟨k', res', hk, ?_⟩
        have : q - p = (q - (p + 1)) + 1 := by omega
        rw [this] at hv'
        simpa [runWrites, hx] using hv'
      · intro j hj k' res' hk
        have := hlog (j + 1) (by simp; omega) k' res' (by simpa using hk)
        simpa [runWrites, hx] using this

/-- membership in the interleaving -/
theorem mem_build (reads : Nat → List Nat) (p : Nat) (rest : List Nat) (x : Nat) :
    x ∈ build reads p rest ↔ x ∈ rest ∨ ∃ q, p ≤ q ∧ q ≤ p + rest.length ∧ x ∈ reads q := by
  induction rest generalizing p with
  | nil =>
    simp only [build, List.not_mem_nil, false_or, List.length_nil, Nat.add_zero]
    constructor
    · intro hx; exact ⟨p, Nat.le_refl _, Nat.le_refl _, hx⟩
    · rintro ⟨q, h1, h2, hx⟩
      have : q = p := by omega
      subst this; exact hx
  | cons y rest ih =>
    simp only [build, List.mem_append, List.mem_cons, ih, List.length_cons]
    constructor
    · rintro (hx | hx | hx | ⟨q, h1, h2, hx⟩)
      · exact Or.inr ⟨p, Nat.le_refl _, by omega, hx⟩
      · exact Or.inl (Or.inl hx)
      · exact Or.inl (Or.inr hx)
      · exact Or.inr ⟨q, by omega, by omega, hx⟩
    · rintro ((hx | hx) | ⟨q, h1, h2, hx⟩)
      · exact Or.inr (Or.inl hx)
      · exact Or.inr (Or.inr (Or.inl hx))
      · by_cases hq : q = p
        · subst hq; exact Or.inl hx
        · exact Or.inr (Or.inr (Or.inr ⟨q, by omega, by omega, hx⟩))

/-- ranks: a read of block `q` has rank `2q+1`, the `j`-th remaining log operation `2(p+j)+2` -/
structure Ranked (rk : Nat → Nat) (reads : Nat → List Nat) (p : Nat) (rest : List Nat) : Prop where
  readRank : ∀ q, ∀ x ∈ reads q, rk x = 2 * q + 1
  logRank : ∀ j, j < rest.length → rk (rest.getD j 0) = 2 * (p + j) + 2

theorem Ranked.tail {rk reads p x rest} (h : Ranked rk reads p (x :: rest)) : Ranked rk reads (p + 1) rest :=
  ⟨h.readRank, fun j hj => by
    have := h.logRank (j + 1) (by simp; omega)
    simp only [List.getD_cons_succ] at this
    rw [this]; omega⟩

theorem rank_ge_of_mem_build {rk reads p rest} (hr : Ranked rk reads p rest) (y : Nat)
    (hy : y ∈ build reads p rest) : 2 * p + 1 ≤ rk y := by
  rcases (mem_build reads p rest y).1 hy with hy | ⟨q, h1, _, hy⟩
  · obtain ⟨j, hj, hje⟩ := List.getElem_of_mem hy
    have := hr.logRank j hj
    have hg : rest.getD j 0 = rest[j] := by simp [List.getD, hj]
    rw [hg, hje] at this
    omega
  · have := hr.readRank q y hy
    omega

theorem pairwise_build (R : Nat → Nat → Prop) (rk : Nat → Nat) (reads : Nat → List Nat) (S : Nat → Prop)
    (hblock : ∀ q, (reads q).Pairwise R) (hrank : ∀ x y, S x → S y → rk x < rk y → R x y)
    (hSr : ∀ q, ∀ x ∈ reads q, S x)
    (p : Nat) (rest : List Nat) (hSl : ∀ x ∈ rest, S x) (hr : Ranked rk reads p rest) :
    (build reads p rest).Pairwise R := by
  have hS : ∀ p' rest', (∀ x ∈ rest', S x) → ∀ y ∈ build reads p' rest', S y := by
    intro p' rest' hl y hy
    rcases (mem_build reads p' rest' y).1 hy with h | ⟨q, _, _, h⟩
    · exact hl y h
    · exact hSr q y h
  induction rest generalizing p with
  | nil => exact hblock p
  | cons x rest ih =>
    simp only [build]
    rw [List.pairwise_append]
    have hx : rk x = 2 * p + 2 := by
      have := hr.logRank 0 (by simp)
      simpa using this
    have hSx : S x := hSl x (by simp)
    have hSrest : ∀ y ∈ rest, S y := fun y hy => hSl y (by simp [hy])
    refine ⟨hblock p, ?_, ?_⟩
    · rw [List.pairwise_cons]
      refine ⟨?_, ih (p + 1) hSrest hr.tail⟩
      intro y hy
      have := rank_ge_of_mem_build hr.tail y hy
      exact hrank x y hSx (hS _ _ hSrest y hy) (by omega)
    · intro a ha b hb
      have hra := hr.readRank p a ha
      rcases List.mem_cons.1 hb with rfl | hb
      · exact hrank a b (hSr p a ha) hSx (by omega)
      · have := rank_ge_of_mem_build hr.tail b hb
        exact hrank a b (hSr p a ha) (hS _ _ hSrest b hb) (by omega)

/-- **A history with a single log is linearizable.** Let `logOps` be the operations that went
through the replicated log, in log order, and let every other linearized operation be a
read answered from the state after `q` log operations (`reads q` lists those, each block
in an order that respects real time). If
* every operation whose response the client saw is one of these,
* the value every read returned is the one the sequential table holds after the writes
  of the log prefix it saw (a strong read: the prefix before it),
* and real time never contradicts the ranks (`precedes h a b → rk a ≤ rk b` for linearized
  `a`, `b`, where the `j`-th log operation has rank `2j+2` and a read of block `q` rank `2q+1`),
then the history is linearizable. -/
theorem single_log_linearizable (h : History) (logOps : List Nat) (reads : Nat → List Nat) (rk : Nat → Nat)
    (hr : Ranked rk reads 0 logOps)
    (hreadsNodup : ∀ q, (reads q).Nodup)
    (hrange : ∀ x, (x ∈ logOps ∨ ∃ q, x ∈ reads q) → x < h.length)
    (hcomplete : ∀ i, i < h.length → (opAt h i).resp ≠ none →
        i ∈ logOps ∨ ∃ q, q ≤ logOps.length ∧ i ∈ reads q)
    (hreadVal : ∀ q, ∀ r ∈ reads q, ∃ k res, (opAt h r).kind = .read k res ∧
        (runWrites h (logOps.take q) []).lookup k = res)
    (hlogVal : ∀ j, j < logOps.length → ∀ k res, (opAt h (logOps.getD j 0)).kind = .read k res →
        (runWrites h (logOps.take j) []).lookup k = res)
    (hrt : ∀ a b, (a ∈ logOps ∨ ∃ q, a ∈ reads q) → (b ∈ logOps ∨ ∃ q, b ∈ reads q) →
        precedes h a b → rk a ≤ rk b)
    (hblockRT : ∀ q, (reads q).Pairwise (fun x y => ¬ precedes h y x)) :
    Linearizable h := by
  let S : Nat → Prop := fun x => x ∈ logOps ∨ ∃ q, x ∈ reads q
  have hSr : ∀ q, ∀ x ∈ reads q, S x := fun q x hx => Or.inr ⟨q, hx⟩
  have hSl : ∀ x ∈ logOps, S x := fun x hx => Or.inl hx
  refine ⟨build reads 0 logOps, ?_, ?_, ?_, ?_, ?_⟩
  · exact pairwise_build (· ≠ ·) rk reads S (fun q => hreadsNodup q)
      (fun x y _ _ hlt e => by subst e; omega) hSr 0 logOps hSl hr
  · intro i hi
    rcases (mem_build reads 0 logOps i).1 hi with hi | ⟨q, _, _, hi⟩
    · exact hrange i (Or.inl hi)
    · exact hrange i (Or.inr ⟨q, hi⟩)
  · intro i hi hne
    rcases hcomplete i hi hne with hl | ⟨q, hq, hm⟩
    · exact (mem_build reads 0 logOps i).2 (Or.inl hl)
    · exact (mem_build reads 0 logOps i).2 (Or.inr ⟨q, Nat.zero_le _, by omega, hm⟩)
  · apply pairwise_build (fun a b => ¬ precedes h b a) rk reads S hblockRT ?_ hSr 0 logOps hSl hr
    intro x y hx hy hlt hpre
    have := hrt y x hy hx hpre
    omega
  · exact legal_build h reads logOps 0 [] (fun q _ r hr' => by simpa using hreadVal q r hr') hlogVal


end RqModel.Linz

package http

// C18 (HTTP half): wire-level differential run of the real http.Service against
// the Lean model `wire` (routing + guard regenerated from http/service.go) + the
// property itself evaluated on the bytes the real service returns on a real
// socket: every endpoint (and path variants that fall under the same prefix
// cases) x credential store x credential presentation.

import (
	"bufio"
	"bytes"
	"context"
	"encoding/base64"
	"fmt"
	"io"
	"net"
	"sort"
	"strconv"
	"strings"
	"sync"
	"testing"
	"time"

	"github.com/rqlite/rqlite/v10/auth"
	cluster "github.com/rqlite/rqlite/v10/cluster/proto"
	command "github.com/rqlite/rqlite/v10/command/proto"
	"github.com/rqlite/rqlite/v10/proxy"
	"github.com/rqlite/rqlite/v10/store"
)

const c18Marker = "SECRET-DATABASE-CONTENT"

// planted in everything the mocks report about the node and the cluster
const c18StatusCanary = "SECRET-NODE-STATUS"

type c18Rec struct {
	mu    sync.Mutex
	calls []string
}

func (r *c18Rec) add(s string) {
	r.mu.Lock()
	r.calls = append(r.calls, s)
	r.mu.Unlock()
}
func (r *c18Rec) take() []string {
	r.mu.Lock()
	defer r.mu.Unlock()
	c := r.calls
	r.calls = nil
	return c
}

// c18Store implements http.Store and proxy.Store; every call is recorded.
type c18Store struct{ r *c18Rec }

func (m *c18Store) Execute(ctx context.Context, er *command.ExecuteRequest) ([]*command.ExecuteQueryResponse, uint64, error) {
	m.r.add("Execute")
	return []*command.ExecuteQueryResponse{{Result: &command.ExecuteQueryResponse_Error{Error: c18Marker}}}, 1, nil
}
func (m *c18Store) Query(ctx context.Context, qr *command.QueryRequest) ([]*command.QueryRows, command.ConsistencyLevel, uint64, error) {
	m.r.add("Query")
	return []*command.QueryRows{{Columns: []string{c18Marker}}}, command.ConsistencyLevel_NONE, 1, nil
}
func (m *c18Store) Request(ctx context.Context, eqr *command.ExecuteQueryRequest) ([]*command.ExecuteQueryResponse, uint64, uint64, error) {
	m.r.add("Request")
	return []*command.ExecuteQueryResponse{{Result: &command.ExecuteQueryResponse_Error{Error: c18Marker}}}, 1, 1, nil
}
func (m *c18Store) Load(ctx context.Context, lr *command.LoadRequest) error {
	m.r.add("Load")
	return nil
}
func (m *c18Store) Backup(ctx context.Context, br *command.BackupRequest, dst io.Writer) error {
	m.r.add("Backup")
	_, err := dst.Write([]byte(c18Marker))
	return err
}
func (m *c18Store) Remove(ctx context.Context, rn *command.RemoveNodeRequest) error {
	m.r.add("Remove")
	return nil
}
func (m *c18Store) Stepdown(wait bool, id string) error { m.r.add("Stepdown"); return nil }
func (m *c18Store) LeaderAddr() (string, error) {
	m.r.add("LeaderAddr")
	return c18StatusCanary + ":4002", nil
}
func (m *c18Store) Leader() (*store.Server, error) {
	m.r.add("Leader")
	return &store.Server{ID: c18StatusCanary, Addr: c18StatusCanary + ":4002"}, nil
}
func (m *c18Store) Nodes() ([]*store.Server, error) {
	m.r.add("Nodes")
	return []*store.Server{{ID: c18StatusCanary, Addr: c18StatusCanary + ":4002"}}, nil
}
func (m *c18Store) Ready() bool { m.r.add("Ready"); return true }
func (m *c18Store) Committed(timeout time.Duration) (uint64, error) {
	m.r.add("Committed")
	return 1, nil
}
func (m *c18Store) Stats() (map[string]any, error) {
	m.r.add("Stats")
	return map[string]any{"marker": c18Marker, "status": c18StatusCanary}, nil
}
func (m *c18Store) Snapshot(n uint64) error { m.r.add("Snapshot"); return nil }
func (m *c18Store) Reap() (int, int, error) { m.r.add("Reap"); return 0, 0, nil }
func (m *c18Store) ReadFrom(r io.Reader) (int64, error) {
	m.r.add("ReadFrom")
	n, _ := io.Copy(io.Discard, r)
	return n, nil
}

// c18Cluster implements http.Cluster and proxy.Cluster.
type c18Cluster struct{ r *c18Rec }

func (m *c18Cluster) GetNodeMeta(ctx context.Context, a string, r int, t time.Duration) (*cluster.NodeMeta, error) {
	m.r.add("cluster.GetNodeMeta")
	return &cluster.NodeMeta{Url: "http://" + c18StatusCanary + ":4001", Version: c18StatusCanary}, nil
}
func (m *c18Cluster) Stats() (map[string]any, error) { m.r.add("cluster.Stats"); return nil, nil }
func (m *c18Cluster) Execute(ctx context.Context, er *command.ExecuteRequest, addr string, creds *cluster.Credentials, t time.Duration, r int) ([]*command.ExecuteQueryResponse, uint64, error) {
	m.r.add("cluster.Execute")
	return nil, 0, nil
}
func (m *c18Cluster) Query(ctx context.Context, qr *command.QueryRequest, addr string, creds *cluster.Credentials, t time.Duration, r int) ([]*command.QueryRows, uint64, error) {
	m.r.add("cluster.Query")
	return nil, 0, nil
}
func (m *c18Cluster) Request(ctx context.Context, eqr *command.ExecuteQueryRequest, nodeAddr string, creds *cluster.Credentials, timeout time.Duration, r int) ([]*command.ExecuteQueryResponse, uint64, uint64, error) {
	m.r.add("cluster.Request")
	return nil, 0, 0, nil
}
func (m *c18Cluster) Backup(ctx context.Context, br *command.BackupRequest, addr string, creds *cluster.Credentials, t time.Duration, w io.Writer) error {
	m.r.add("cluster.Backup")
	return nil
}
func (m *c18Cluster) Load(ctx context.Context, lr *command.LoadRequest, nodeAddr string, creds *cluster.Credentials, timeout time.Duration, r int) error {
	m.r.add("cluster.Load")
	return nil
}
func (m *c18Cluster) RemoveNode(ctx context.Context, rn *command.RemoveNodeRequest, addr string, creds *cluster.Credentials, t time.Duration) error {
	m.r.add("cluster.RemoveNode")
	return nil
}
func (m *c18Cluster) Stepdown(ctx context.Context, sr *command.StepdownRequest, addr string, creds *cluster.Credentials, t time.Duration) error {
	m.r.add("cluster.Stepdown")
	return nil
}

// ---- credential stores (same shape as the cluster half) ---------------------------

type c18Entry struct {
	user, pass string
	perms      []string
	// keys absent from the entry in the credentials FILE (the value is then empty: every
	// entry is decoded into a fresh value and inherits nothing from the entry before it)
	noUser, noPass, noPerms bool
}

func c18StoreJSON(es []c18Entry) string {
	var parts []string
	for _, e := range es {
		var kv []string
		if !e.noUser {
			kv = append(kv, fmt.Sprintf(`"username":%q`, e.user))
		}
		if !e.noPass {
			kv = append(kv, fmt.Sprintf(`"password":%q`, e.pass))
		}
		if !e.noPerms {
			var ps []string
			for _, p := range e.perms {
				ps = append(ps, fmt.Sprintf("%q", p))
			}
			kv = append(kv, fmt.Sprintf(`"perms":[%s]`, strings.Join(ps, ",")))
		}
		parts = append(parts, "{"+strings.Join(kv, ",")+"}")
	}
	return "[" + strings.Join(parts, ",") + "]"
}

func c18Rule(es []c18Entry, u, p, perm string) bool {
	defs := map[string]c18Entry{}
	for _, e := range es {
		defs[e.user] = e
	}
	grants := func(user, perm string) bool {
		d, ok := defs[user]
		if !ok {
			return false
		}
		for _, x := range d.perms {
			if x == perm {
				return true
			}
		}
		return false
	}
	if grants("*", perm) || grants("*", "all") {
		return true
	}
	if u == "" {
		return false
	}
	d, ok := defs[u]
	if !ok || d.pass != p {
		return false
	}
	return grants(u, perm) || grants(u, "all")
}

var c18PermPool = []string{"all", "execute", "query", "backup", "load", "remove", "snapshot", "status", "ready", "leader-ops", "ui", "join"}

func c18GenStore(r *vfRng) []c18Entry {
	n := 1 + r.Intn(3)
	var es []c18Entry
	for i := 0; i < n; i++ {
		e := c18Entry{user: r.Pick([]string{"a", "a", "b", "*"}), pass: r.Pick([]string{"p", "q"})}
		k := r.Intn(4)
		for j := 0; j < k; j++ {
			e.perms = append(e.perms, r.Pick(c18PermPool))
		}
		// entries with absent keys, typically after a privileged entry
		switch r.Intn(10) {
		case 0, 1:
			e.noPerms, e.perms = true, nil
		case 2:
			e.noPass, e.pass = true, ""
		case 3:
			e.noUser, e.user = true, ""
		}
		es = append(es, e)
	}
	return es
}

type c18Pres struct {
	name       string
	creds      bool
	user, pass string
}

var c18Presentations = []c18Pres{
	{"none", false, "", ""},
	{"a-p", true, "a", "p"},
	{"a-q", true, "a", "q"},
	{"b-p", true, "b", "p"},
	{"unknown-user", true, "zed", "p"},
	{"empty-user", true, "", "p"},
}

// ---- endpoints ------------------------------------------------------------------

type c18Req struct {
	method, path, query, body string
	// documented permission(s): any-of groups that must all hold; nil = no permission documented (redirects, 404)
	need [][]string
}

var c18Reqs = []c18Req{
	{"GET", "/", "", "", nil},
	{"GET", "/console", "", "", nil},
	{"GET", "/console/", "", "", [][]string{{"ui"}}},
	{"POST", "/db/execute", "", `["CREATE TABLE t (x)"]`, [][]string{{"execute"}}},
	{"POST", "/db/execute", "queue&wait", `["INSERT INTO t VALUES(1)"]`, [][]string{{"execute"}}},
	{"POST", "/db/executeX/y", "", `["CREATE TABLE t (x)"]`, [][]string{{"execute"}}},
	{"GET", "/db/query", "q=SELECT%201", "", [][]string{{"query"}}},
	{"POST", "/db/query", "level=strong", `["SELECT 1"]`, [][]string{{"query"}}},
	{"GET", "/db/query/", "q=SELECT%201", "", [][]string{{"query"}}},
	{"POST", "/db/request", "", `["SELECT 1"]`, [][]string{{"query"}, {"execute"}}},
	{"POST", "/db/requestZ", "", `["INSERT INTO t VALUES(1)"]`, [][]string{{"query"}, {"execute"}}},
	{"GET", "/db/backup", "", "", [][]string{{"backup"}}},
	{"GET", "/db/backup", "fmt=sql", "", [][]string{{"backup"}}},
	{"GET", "/db/backup.sqlite", "", "", [][]string{{"backup"}}},
	{"POST", "/db/load", "", "CREATE TABLE t (x);", [][]string{{"load"}}},
	{"POST", "/db/sql", "", `["SELECT 1"]`, [][]string{{"query"}}},
	{"GET", "/db/sql", "q=SELECT%201", "", [][]string{{"query"}}},
	{"POST", "/boot", "", "SQLite format 3\x00 not really", [][]string{{"load"}}},
	{"POST", "/snapshot", "", "", [][]string{{"snapshot"}}},
	{"POST", "/reap", "", "", [][]string{{"snapshot"}}},
	{"DELETE", "/remove", "", `{"id":"n2"}`, [][]string{{"remove"}}},
	{"DELETE", "/remove/x", "", `{"id":"n2"}`, [][]string{{"remove"}}},
	{"GET", "/status", "", "", [][]string{{"status"}}},
	{"GET", "/statusz", "", "", [][]string{{"status"}}},
	{"GET", "/nodes", "", "", [][]string{{"status"}}},
	{"GET", "/nodes", "nonvoters&ver=2", "", [][]string{{"status"}}},
	{"GET", "/leader", "", "", [][]string{{"leader-ops"}}},
	{"POST", "/leader", "", "", [][]string{{"leader-ops"}}},
	{"GET", "/readyz", "", "", [][]string{{"ready"}}},
	{"GET", "/readyz", "noleader", "", [][]string{{"ready"}}},
	{"GET", "/licenses", "", "", [][]string{{"status"}}},
	{"GET", "/debug/vars", "", "", [][]string{{"status"}}},
	{"GET", "/debug/pprof/cmdline", "", "", [][]string{{"status"}}},
	{"GET", "/debug/pprof/", "", "", [][]string{{"status"}}},
	// paths that must fall through to the default case
	{"GET", "/DB/QUERY", "q=SELECT%201", "", nil},
	{"GET", "//db/query", "q=SELECT%201", "", nil},
	{"GET", "/db", "", "", nil},
	{"GET", "/leader/", "", "", nil},
	{"POST", "/boot/", "", "x", nil},
	{"GET", "/licensesX", "", "", nil},
	{"GET", "/debug/varsX", "", "", nil},
}

type c18Resp struct {
	status  int
	body    []byte
	headers string
	raw     []byte // every byte the server sent
}

// c18Do sends one request on a fresh TCP connection and reads everything until the server closes.
func c18Do(t *testing.T, addr string, q c18Req, p c18Pres) c18Resp {
	conn, err := net.DialTimeout("tcp", addr, 5*time.Second)
	if err != nil {
		t.Fatalf("dial: %v", err)
	}
	defer conn.Close()
	conn.SetDeadline(time.Now().Add(30 * time.Second))
	target := q.path
	if q.query != "" {
		target += "?" + q.query
	}
	var b strings.Builder
	fmt.Fprintf(&b, "%s %s HTTP/1.1\r\nHost: node\r\nConnection: close\r\n", q.method, target)
	if p.creds {
		fmt.Fprintf(&b, "Authorization: Basic %s\r\n", base64.StdEncoding.EncodeToString([]byte(p.user+":"+p.pass)))
	}
	if q.body != "" || q.method == "POST" {
		fmt.Fprintf(&b, "Content-Type: application/json\r\nContent-Length: %d\r\n", len(q.body))
	}
	b.WriteString("\r\n")
	b.WriteString(q.body)
	if _, err := conn.Write([]byte(b.String())); err != nil {
		t.Fatalf("write: %v", err)
	}
	all, err := io.ReadAll(conn)
	if err != nil {
		t.Fatalf("read all bytes of %s %s: %v", q.method, target, err)
	}
	i := bytes.Index(all, []byte("\r\n\r\n"))
	if i < 0 {
		t.Fatalf("%s %s: no header terminator in %q", q.method, target, all)
	}
	res := c18Resp{headers: string(all[:i]), body: all[i+4:], raw: all}
	line, _, _ := strings.Cut(res.headers, "\r\n")
	parts := strings.SplitN(line, " ", 3)
	if len(parts) < 2 {
		t.Fatalf("bad status line %q", line)
	}
	res.status, _ = strconv.Atoi(parts[1])
	if strings.Contains(strings.ToLower(res.headers), "transfer-encoding: chunked") {
		// de-chunk so that the body length is the payload length
		var out []byte
		br := bufio.NewReader(bytes.NewReader(res.body))
		for {
			l, err := br.ReadString('\n')
			if err != nil {
				break
			}
			n, err := strconv.ParseInt(strings.TrimSpace(l), 16, 64)
			if err != nil || n == 0 {
				break
			}
			chunk := make([]byte, n)
			io.ReadFull(br, chunk)
			out = append(out, chunk...)
			br.ReadString('\n')
		}
		res.body = out
	}
	return res
}

func c18CanonModel(m string) string {
	switch {
	case strings.HasPrefix(m, "handled:"):
		return "handled"
	case m == "status:http.StatusNotFound":
		return "404"
	}
	return m
}

func c18CanonImpl(status int) string {
	switch {
	case status == 401:
		return "401"
	case status == 301 || status == 302:
		return "redirect"
	case status == 404:
		return "404"
	}
	return "handled"
}

func TestVerifC18HTTP(t *testing.T) {
	rep := vfNewReport("C18", "http: every endpoint of the routing switch with a well-formed request (plus path variants under the same prefix cases and paths that must reach the default case) x credential store (none, or 1-3 generated entries over users {a,b,*}, passwords {p,q}, perms from the documented set) x presentation (no Authorization header, a/p, a/q, b/p, unknown user, empty user), one request per TCP connection with Connection: close, all bytes read; a store is non-trivial when it authorises some and refuses other requests; distinct by store text")
	defer rep.Write()
	r := vfNewRng(1818)
	nStores := vfScale(12, 400)

	type storeSpec struct {
		with bool
		es   []c18Entry
	}
	specs := []storeSpec{{false, nil}, {true, nil},
		{true, []c18Entry{{user: "a", pass: "p", perms: []string{"all"}}}},
		{true, []c18Entry{{user: "a", pass: "p", perms: []string{"query"}}, {user: "b", pass: "p", perms: []string{"backup", "execute"}}}},
		{true, []c18Entry{{user: "*", pass: "", perms: []string{"status", "ready"}}, {user: "a", pass: "q", perms: []string{"load", "remove", "leader-ops", "snapshot", "ui"}}}},
		{true, []c18Entry{{user: "a", pass: "p", perms: []string{"query"}}, {user: "a", pass: "q", perms: []string{"execute"}}}},
	}
	// credential FILES whose later entries lack keys: they must inherit nothing from the entry before
	specs = append(specs, storeSpec{true, []c18Entry{{user: "a", pass: "p", perms: []string{"all"}}, {user: "b", pass: "p", noPerms: true}}})
	specs = append(specs, storeSpec{true, []c18Entry{{user: "a", pass: "p", perms: []string{"all"}}, {user: "b", noPass: true, noPerms: true}}})
	specs = append(specs, storeSpec{true, []c18Entry{{user: "a", pass: "q", perms: []string{"execute", "query", "backup", "load", "status", "ready", "snapshot", "remove", "leader-ops", "ui"}}, {noUser: true, pass: "p", noPerms: true}, {user: "b", pass: "p", noPerms: true}}})
	for i := 0; i < nStores; i++ {
		specs = append(specs, storeSpec{true, c18GenStore(r)})
	}

	for si, sp := range specs {
		rec := &c18Rec{}
		st := &c18Store{r: rec}
		cl := &c18Cluster{r: rec}
		var cs CredentialStore
		if sp.with {
			a := auth.NewCredentialsStore()
			if err := a.Load(strings.NewReader(c18StoreJSON(sp.es))); err != nil {
				t.Fatalf("credential store load: %v", err)
			}
			cs = a
		}
		s := New("127.0.0.1:0", st, cl, proxy.New(st, cl), cs)
		s.logger.SetOutput(io.Discard)
		if err := s.Start(); err != nil {
			t.Fatalf("start: %v", err)
		}
		addr := s.Addr().String()
		storeText := "no-store"
		if sp.with {
			storeText = c18StoreJSON(sp.es)
		}

		ops := []string{"reset"}
		if sp.with {
			ops = append(ops, "emptystore")
			for _, e := range sp.es {
				ps := "!"
				if len(e.perms) > 0 {
					var hs []string
					for _, p := range e.perms {
						hs = append(hs, vfHex(p))
					}
					ps = strings.Join(hs, ",")
				}
				ops = append(ops, fmt.Sprintf("cred %s %s %s", vfHex(e.user), vfHex(e.pass), ps))
			}
		}
		impl := make([]string, len(ops))
		for i := range impl {
			impl[i] = "ok"
		}
		var modelOps []string
		var notes []string
		yes, no := 0, 0
		for _, q := range c18Reqs {
			for _, p := range c18Presentations {
				rec.take()
				res := c18Do(t, addr, q, p)
				// queued execute and friends may call the store slightly later; none of that may happen when refused
				calls := rec.take()
				sort.Strings(calls)
				modelOps = append(modelOps, fmt.Sprintf("http %s %s %s", vfHex(q.path), vfHex(p.user), vfHex(p.pass)))
				impl = append(impl, c18CanonImpl(res.status))
				notes = append(notes, fmt.Sprintf("%s %s?%s creds=%s -> %d calls=%v", q.method, q.path, q.query, p.name, res.status, calls))
				rep.Count("http:status=" + strconv.Itoa(res.status))
				rep.Count("http:presentation=" + p.name)
				if q.need == nil {
					continue
				}
				authorised := true
				if sp.with {
					for _, grp := range q.need {
						ok := false
						for _, perm := range grp {
							if c18Rule(sp.es, p.user, p.pass, perm) {
								ok = true
							}
						}
						if !ok {
							authorised = false
						}
					}
				}
				ep := q.method + " " + q.path
				replay := map[string]interface{}{"store": storeText, "request": ep + "?" + q.query, "presentation": p.name, "user": p.user, "password": p.pass, "status": res.status, "body": string(res.body), "store_calls": calls}
				if authorised {
					yes++
					if bytes.Contains(res.raw, []byte(c18Marker)) || bytes.Contains(res.raw, []byte(c18StatusCanary)) {
						rep.Count("http:authorised-answers-carrying-a-canary") // the canaries do reach authorised callers
					}
					if res.status == 401 {
						rep.Fail("http:"+ep+":refused-although-authorised", fmt.Sprintf("%s with %s(%q,%q) against store %s: authorised by the documented rule, got 401", ep, p.name, p.user, p.pass, storeText), replay)
					}
				} else {
					no++
					if res.status != 401 {
						rep.Fail("http:"+ep+":not-refused-when-denied", fmt.Sprintf("%s with %s(%q,%q) against store %s: not authorised, status %d", ep, p.name, p.user, p.pass, storeText, res.status), replay)
					}
					if len(calls) > 0 {
						rep.Fail("http:"+ep+":action-performed-when-denied", fmt.Sprintf("%s with %s(%q,%q) against store %s: not authorised, yet the node called %v", ep, p.name, p.user, p.pass, storeText, calls), replay)
					}
					// disclosure: nothing the store, the database or the cluster reported may appear anywhere
					// in the bytes of a refused request (headers included)
					for _, canary := range []string{c18Marker, c18StatusCanary} {
						if bytes.Contains(res.raw, []byte(canary)) {
							rep.Fail("http:"+ep+":content-disclosed-when-denied", fmt.Sprintf("%s with %s(%q,%q) against store %s: not authorised, yet the response contains %s", ep, p.name, p.user, p.pass, storeText, canary), replay)
						}
					}
					if len(res.body) > 0 || bytes.Contains(res.body, []byte(c18Marker)) {
						rep.Fail("http:"+ep+":body-returned-when-denied", fmt.Sprintf("%s with %s(%q,%q) against store %s: not authorised, %d body bytes returned", ep, p.name, p.user, p.pass, storeText, len(res.body)), replay)
					}
				}
			}
		}
		// OPTIONS is answered before routing: it must not reach the store either
		rec.take()
		res := c18Do(t, addr, c18Req{"OPTIONS", "/db/backup", "", "", nil}, c18Presentations[0])
		if calls := rec.take(); len(calls) > 0 || len(res.body) > 0 {
			rep.Fail("http:OPTIONS:touches-store-or-returns-body", fmt.Sprintf("OPTIONS /db/backup: calls %v, %d body bytes", calls, len(res.body)), nil)
		}
		s.Close()

		model, err := vfModel("wire", append(append([]string(nil), ops...), modelOps...))
		if err != nil {
			rep.Disagree(vfDisagreement{Component: "wire", Ops: vfTrunc(ops), Note: err.Error(), At: -1})
			return
		}
		for i := range modelOps {
			m := c18CanonModel(model[len(ops)+i])
			if m != impl[len(ops)+i] {
				rep.Count("http:cases-disagreeing")
				rep.Disagree(vfDisagreement{Component: "wire", Ops: append(append([]string(nil), ops...), modelOps[i]),
					Impl: []string{impl[len(ops)+i]}, Model: []string{m, "raw:" + model[len(ops)+i]}, At: len(ops), Note: notes[i] + " store=" + storeText})
			}
			rep.TracesValidated++
		}
		rep.Case("http-store:"+storeText, yes > 0 && no > 0)
		if si < 2 {
			rep.Sample(map[string]interface{}{"store": storeText, "requests": len(modelOps), "authorised": yes, "refused": no})
		}
	}
}

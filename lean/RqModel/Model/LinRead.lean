/-
Model of the linearizable-read wait of store/store.go (`waitForLinearizableRead`,
`fsmWaitIndex`, `fsmApply`, `fsmRestore`) on top of a typed raft log.
Used by C38 (completion), C16 (`linearizable_returns_only_after`) and C02.

What is modelled (read from the source line by line):

* The raft log of one node is a list of entries typed command / config / noop /
  barrier (hashicorp/raft `LogCommand`, `LogConfiguration`, `LogNoop`, `LogBarrier`);
  an entry that has been compacted away after a snapshot is `none`
  (`GetLog` returns `raft.ErrLogNotFound`).
* `commit` is `raft.CommitIndex()`. `handed` is how far the FSM goroutine
  (`runFSM`) has processed the committed log. Only a `command` entry calls
  `FSM.Apply` = `Store.fsmApply`, whose deferred block does
  `s.fsmIdx.Store(l.Index); s.fsmTarget.Signal(l.Index)`. Configuration, no-op and
  barrier entries never reach the Store. `fsmRestore` stores/signals the snapshot
  index. `ReadyTarget.Signal` ignores an index that is not larger than the
  current one, so `fsmIdx` below is the ReadyTarget's `currentTarget`.
* `waitForLinearizableRead`: the guard/step order, the read index (= commit
  index), and the index that is subscribed to: `fsmWaitIndex readIndex`, the
  backward scan over the log for the latest command entry at or below the read
  index (after the `fix:` commit; before it the read index itself was
  subscribed to, see `targetOld`).
-/
import RqModel.Model.Util
namespace RqModel.LinRead
open RqModel.Util

inductive EType | command | config | noop | barrier
deriving DecidableEq, Repr

structure Node where
  /-- entry with index `i ≥ 1` is `log[i-1]`; `none` = compacted away -/
  log     : List (Option EType) := []
  commit  : Nat := 0
  /-- entries `≤ handed` have been processed by raft's FSM goroutine -/
  handed  : Nat := 0
  /-- `Store.fsmIdx` (an atomic; what `fsmWaitIndex` loads) -/
  fsmIdx  : Nat := 0
  /-- `fsmTarget.currentTarget` (the ReadyTarget the wait subscribes to). `fsmApply` and
  `fsmRestore` update both; `Open` resets the target but, on the fast-restart path, sets
  `fsmIdx` to the snapshot index without signalling -/
  tgt     : Nat := 0
deriving Repr, DecidableEq

/-- result of `s.raftLog.GetLog(i, &l)`: `none` = outside the log (never asked for by
the scan), `some none` = `ErrLogNotFound` (compacted), `some (some t)` = entry type -/
def typeAtL (l : List (Option EType)) (i : Nat) : Option (Option EType) :=
  if i = 0 then none else l[i - 1]?

def Node.typeAt (n : Node) (i : Nat) : Option (Option EType) := typeAtL n.log i

/-- `Store.fsmWaitIndex idx`:
```go
fsmIdx := s.fsmIdx.Load()
for idx > fsmIdx {
    if err := s.raftLog.GetLog(idx, &l); err != nil {
        if err == raft.ErrLogNotFound { return fsmIdx }
        return idx
    }
    if l.Type == raft.LogCommand { return idx }
    idx--
}
return idx
``` -/
def scan (n : Node) : Nat → Nat
  | 0 => 0
  | i + 1 =>
    if i + 1 ≤ n.fsmIdx then i + 1
    else match n.typeAt (i + 1) with
      | none => i + 1                 -- any other GetLog error: keep the index (conservative)
      | some none => n.fsmIdx         -- compacted: covered by a snapshot of this FSM
      | some (some .command) => i + 1
      | some (some _) => scan n i

/-- the index `waitForLinearizableRead` subscribes to: the read index was taken earlier (at a
state whose commit index is `readIndex`); the scan runs, after VerifyLeader and the term
re-check, on the then current state `scanNode` -/
def targetAt (scanNode : Node) (readIndex : Nat) : Nat := scan scanNode readIndex

/-- the special case where nothing happened in between -/
def target (n : Node) : Nat := targetAt n n.commit

/-- the index subscribed to before the `fix:` commit: the read index itself -/
def targetOld (n : Node) : Nat := n.commit

/-- has the subscription channel been closed (`target <= currentTarget`) -/
def reached (n : Node) (t : Nat) : Bool := decide (t ≤ n.tgt)

/-- the ReadyTarget agrees with the FSM index (true once `fsmApply`/`fsmRestore` ran in this
process; `waitForLinearizableRead` only gets this far after a strong read of the current
term, i.e. after an `fsmApply` since `Open`) -/
def Synced (n : Node) : Prop := n.tgt = n.fsmIdx

instance (n : Node) : Decidable (Synced n) := by unfold Synced; exact inferInstance

/-! ### events of one node's log/FSM -/

inductive Ev
  | append (t : EType)   -- an entry is appended to the node's log
  | trunc (k : Nat)      -- a follower drops the uncommitted suffix after index k
  | commit (c : Nat)     -- the commit index moves to c
  | fsm                  -- runFSM processes the next committed entry
  | restore (i : Nat)    -- a snapshot with last index i is installed (fsmRestore)
  | compact (k : Nat)    -- log entries ≤ k are deleted after a snapshot
  | reopen (li : Nat)    -- the process restarts (`Store.Open`) with its latest snapshot at index li
                         -- (fast path; nothing above a node's latest snapshot is ever compacted)
deriving DecidableEq, Repr

def padTo (l : List (Option EType)) (i : Nat) : List (Option EType) :=
  l ++ List.replicate (i - l.length) none

def compactLog : List (Option EType) → Nat → List (Option EType)
  | [], _ => []
  | l, 0 => l
  | _ :: l, k + 1 => none :: compactLog l k

/-- guard of an event (an event whose guard is false does not happen) -/
def Ev.enabled (n : Node) : Ev → Bool
  | .append _ => true
  | .trunc k => decide (n.commit ≤ k)
  | .commit c => decide (n.commit ≤ c ∧ c ≤ n.log.length)
  | .fsm => decide (n.handed < n.commit)
  | .restore i => decide (n.handed ≤ i)
  | .compact k => decide (k ≤ n.handed)
  | .reopen li => decide (li ≤ n.handed) && (n.log.drop li).all (fun x => x.isSome)

/-- `runFSM` takes the next committed entry: only a command entry reaches `fsmApply` -/
def applyFsm (n : Node) : Node :=
  match n.typeAt (n.handed + 1) with
  | some (some .command) =>
    { n with handed := n.handed + 1, fsmIdx := n.handed + 1, tgt := max n.tgt (n.handed + 1) }
  | _ => { n with handed := n.handed + 1 }

def applyRaw (n : Node) : Ev → Node
  | .append t => { n with log := n.log ++ [some t] }
  | .trunc k => { n with log := n.log.take k }
  | .commit c => { n with commit := c }
  | .fsm => applyFsm n
  | .restore i =>
    { n with log := padTo n.log i, commit := max n.commit i, handed := i, fsmIdx := i, tgt := max n.tgt i }
  | .compact k => { n with log := compactLog n.log k }
  | .reopen li => { n with commit := li, handed := li, fsmIdx := li, tgt := 0 }

def applyEv (n : Node) (e : Ev) : Node := if e.enabled n then applyRaw n e else n

def run (n : Node) (es : List Ev) : Node := es.foldl applyEv n

/-- no process restart among the events (a restart ends every read in flight) -/
def NoReopen (es : List Ev) : Prop := ∀ e ∈ es, ∀ li, e ≠ .reopen li

/-- let the FSM goroutine process everything that is committed -/
def drain (n : Node) : Node := run n (List.replicate (n.commit - n.handed) Ev.fsm)

/-! ### waitForLinearizableRead -/

inductive LinOut | ok | strongNeeded | notLeader | notReady | verifyErr | staleRead | timeout
deriving DecidableEq, Repr

/-- everything `waitForLinearizableRead` looks at -/
structure LinEnv where
  readTerm       : Nat      -- `currReadTerm`, read by the caller before the call
  strongReadTerm : Nat      -- `s.strongReadTerm.Load()`
  isLeader       : Bool     -- `s.raft.State() == raft.Leader`
  ready          : Bool     -- `s.Ready()`
  node           : Node     -- log/commit/FSM state when `s.raft.CommitIndex()` is read
  verifyOk       : Bool     -- `s.VerifyLeader() == nil`
  termAfter      : Nat      -- `s.raft.CurrentTerm()` after VerifyLeader
  /-- the state when `s.fsmWaitIndex(readIndex)` scans the log (after the term re-check) -/
  scanNode       : Node
  /-- the FSM state at the moment the subscription is decided (channel closed or timeout) -/
  later          : Node
deriving Repr

/-- the step order of the function; tied to the source by `Gen.ReadPath.waitLinSteps` -/
def stepNames : List String :=
  ["s.strongReadTerm.Load", "s.raft.State", "s.Ready", "s.raft.CommitIndex", "s.VerifyLeader",
   "s.raft.CurrentTerm", "s.fsmWaitIndex", "s.fsmTarget.Subscribe"]

/-- what each exit of the function returns, in source order; tied to the source by
`retsOf Gen.ReadPath.waitLin` (the constructors of `LinOut` in the same order) -/
def retNames : List String :=
  ["ErrStrongReadNeeded", "ErrNotLeader", "ErrNotReady", "err", "ErrStaleRead", "nil",
   "fmt.Errorf(\"index %d: %w\", readIndex, ErrWaitForFSMTimeout)"]

def waitLin (e : LinEnv) : LinOut :=
  if e.readTerm ≠ e.strongReadTerm then .strongNeeded
  else if !e.isLeader then .notLeader
  else if !e.ready then .notReady
  else
    let readIndex := e.node.commit         -- readIndex := s.raft.CommitIndex()
    if !e.verifyOk then .verifyErr
    else if e.termAfter ≠ e.readTerm then .staleRead
    else if reached e.later (targetAt e.scanNode readIndex) then .ok else .timeout

/-! ### line protocol
Every op names a node. `reset` → `ok`.
`N append T` | `N trunc K` | `N commit C` | `N fsm` | `N restore I` | `N compact K` | `N reopen LI`
   → `ok`, or `bad-op` when the event's guard is false;
`N drain` → `ok`; `N fsmidx` → number; `N target` → number;
`N lin readTerm strongTerm leader ready verifyOk termAfter` → outcome of waitLin with
   node = later = current state. -/

structure DState where
  nodes : List (String × Node) := []

def getNode (d : DState) (k : String) : Node :=
  match d.nodes.find? (fun p => p.1 == k) with
  | some p => p.2
  | none => {}

def setNode (d : DState) (k : String) (n : Node) : DState :=
  if d.nodes.any (fun p => p.1 == k) then
    { nodes := d.nodes.map (fun p => if p.1 == k then (k, n) else p) }
  else { nodes := d.nodes ++ [(k, n)] }

def parseType : String → Option EType
  | "command" => some .command
  | "config" => some .config
  | "noop" => some .noop
  | "barrier" => some .barrier
  | _ => none

def parseBool : String → Option Bool
  | "true" => some true
  | "false" => some false
  | _ => none

def outStr : LinOut → String
  | .ok => "ok"
  | .strongNeeded => "upgrade"
  | .notLeader => "notleader"
  | .notReady => "notready"
  | .verifyErr => "verifyerr"
  | .staleRead => "stale"
  | .timeout => "timeout"

def doEv (d : DState) (k : String) (e : Ev) : DState × String :=
  let n := getNode d k
  if e.enabled n then (setNode d k (applyEv n e), "ok") else (d, "bad-op")

def step (d : DState) (line : String) : DState × String :=
  match words line with
  | ["reset"] => ({}, "ok")
  | [k, "append", t] =>
    match parseType t with
    | some t => doEv d k (.append t)
    | none => (d, "bad-op")
  | [k, "trunc", x] =>
    match x.toNat? with
    | some x => doEv d k (.trunc x)
    | none => (d, "bad-op")
  | [k, "commit", x] =>
    match x.toNat? with
    | some x => doEv d k (.commit x)
    | none => (d, "bad-op")
  | [k, "fsm"] => doEv d k .fsm
  | [k, "restore", x] =>
    match x.toNat? with
    | some x => doEv d k (.restore x)
    | none => (d, "bad-op")
  | [k, "compact", x] =>
    match x.toNat? with
    | some x => doEv d k (.compact x)
    | none => (d, "bad-op")
  | [k, "reopen", x] =>
    match x.toNat? with
    | some x => doEv d k (.reopen x)
    | none => (d, "bad-op")
  | [k, "tgt"] => (d, toString (getNode d k).tgt)
  | [k, "drain"] => (setNode d k (drain (getNode d k)), "ok")
  | [k, "fsmidx"] => (d, toString (getNode d k).fsmIdx)
  | [k, "target"] => (d, toString (target (getNode d k)))
  | [k, "lin", rt, st, ld, rd, vf, ta] =>
    match rt.toNat?, st.toNat?, parseBool ld, parseBool rd, parseBool vf, ta.toNat? with
    | some rt, some st, some ld, some rd, some vf, some ta =>
      let n := getNode d k
      (d, outStr (waitLin ⟨rt, st, ld, rd, n, vf, ta, n, n⟩))
    | _, _, _, _, _, _ => (d, "bad-op")
  | _ => (d, "bad-op")

def init : DState := {}

end RqModel.LinRead
--! driver: linread RqModel.LinRead

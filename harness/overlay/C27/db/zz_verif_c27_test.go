package db

// C27 correspondence + spec oracle: CDC events produced by the real pre-update / commit hooks
// and the real CDCStreamer for generated write programs, vs. the Lean model `cdc`
// (RqModel/Model/Cdc.lean), and vs. a SHADOW database: the same statements run on a second
// real SQLite database without hooks, whose tables are read (typeof/quote/hex of every column)
// before and after every statement. The row changes a statement made are the difference.

import (
	"expvar"
	"fmt"
	"math"
	"os"
	"regexp"
	"sort"
	"strconv"
	"strings"
	"testing"

	cdcjson "github.com/rqlite/rqlite/v10/cdc/json"
	command "github.com/rqlite/rqlite/v10/command/proto"
)

type c27Row struct {
	rowid int64
	vals  []string // canonical typed values
}

type c27Change struct {
	table        string
	op           string // insert update delete
	oldID, newID int64
	before       []string
	after        []string
	id           int
}

// c27Row renders a row for the driver line: the canonical values joined (integral REALs written as
// the integer SQLite hands to the hook), hex-encoded; "?" when the harness does not know the row
// (rows touched by a statement that failed afterwards), "-" when there is none.
func c27RowTok(vals []string, known bool) string {
	if vals == nil {
		if known {
			return "-"
		}
		return vfHex("?")
	}
	return vfHex(c27NumJoin(vals))
}

// token renders the change as SQLite reports it to the hook
func (c c27Change) token() string {
	known := c.before != nil || c.after != nil
	old, nw := c27RowTok(c.before, known), c27RowTok(c.after, known)
	if !known { // which sides exist follows from the operation
		switch c.op {
		case "insert":
			old = "-"
		case "delete":
			nw = "-"
		}
	}
	return fmt.Sprintf("%s#%d#%s#%d#%d#%s#%s", c.table, c.id, c.op[:1], c.oldID, c.newID, old, nw)
}

func (c c27Change) key() string { return fmt.Sprintf("%s/%s/%d/%d", c.table, c.op, c.oldID, c.newID) }

var c27Tables = map[string][]string{
	"t1": {"id", "i", "r", "s", "b", "n"},
	"t2": {"a", "k"},
}

const c27Schema1 = "CREATE TABLE t1 (id INTEGER PRIMARY KEY, i INTEGER, r REAL, s TEXT, b BLOB, n)"
const c27Schema2 = "CREATE TABLE t2 (a TEXT, k INTEGER UNIQUE)"

func c27Canon(typ, quoted, hx string) string {
	switch typ {
	case "integer":
		return "i:" + quoted
	case "real":
		f, _ := strconv.ParseFloat(quoted, 64)
		return "r:" + strconv.FormatFloat(f, 'g', -1, 64)
	case "text":
		return "t:" + strings.ToLower(hx)
	case "blob":
		return "b:" + strings.ToLower(hx)
	}
	return "n"
}

func c27CanonCDC(v *command.CDCValue) string {
	if v == nil {
		return "n"
	}
	switch w := v.GetValue().(type) {
	case *command.CDCValue_I:
		return "i:" + strconv.FormatInt(w.I, 10)
	case *command.CDCValue_D:
		if math.IsInf(w.D, 0) {
			return "r:inf"
		}
		return "r:" + strconv.FormatFloat(w.D, 'g', -1, 64)
	case *command.CDCValue_S:
		return "t:" + fmt.Sprintf("%x", w.S)
	case *command.CDCValue_Y:
		return "b:" + fmt.Sprintf("%x", w.Y)
	case *command.CDCValue_B:
		return "bool:" + strconv.FormatBool(w.B)
	}
	return "n"
}

// c27Snapshot reads a table of the shadow database.
func c27Snapshot(d *DB, table string) map[int64]c27Row {
	cols := c27Tables[table]
	var sel []string
	for _, c := range cols {
		sel = append(sel, fmt.Sprintf("typeof(%s), quote(%s), hex(%s)", c, c, c))
	}
	// read through the read-write connection so that an open transaction's own changes are seen
	rs, err := d.rwDB.Query(fmt.Sprintf("SELECT rowid, %s FROM %s ORDER BY rowid", strings.Join(sel, ", "), table))
	if err != nil {
		panic(fmt.Sprintf("c27 snapshot: %v", err))
	}
	defer rs.Close()
	out := map[int64]c27Row{}
	for rs.Next() {
		var rowid int64
		strs := make([]string, 3*len(cols))
		ptrs := []any{&rowid}
		for k := range strs {
			ptrs = append(ptrs, &strs[k])
		}
		if err := rs.Scan(ptrs...); err != nil {
			panic(fmt.Sprintf("c27 snapshot scan: %v", err))
		}
		r := c27Row{rowid: rowid}
		for k := range cols {
			r.vals = append(r.vals, c27Canon(strs[3*k], strs[3*k+1], strs[3*k+2]))
		}
		out[rowid] = r
	}
	return out
}

// c27Diff: the row changes between two snapshots, in rowid order. moved maps old rowid → new rowid
// for statements known to change rowids.
func c27Diff(table string, before, after map[int64]c27Row, moved map[int64]int64) []c27Change {
	var out []c27Change
	var ids []int64
	seen := map[int64]bool{}
	for id := range before {
		ids = append(ids, id)
		seen[id] = true
	}
	for id := range after {
		if !seen[id] {
			ids = append(ids, id)
		}
	}
	sort.Slice(ids, func(a, b int) bool { return ids[a] < ids[b] })
	movedTo := map[int64]bool{}
	for _, n := range moved {
		movedTo[n] = true
	}
	for _, id := range ids {
		b, inB := before[id]
		a, inA := after[id]
		if n, ok := moved[id]; ok && inB {
			out = append(out, c27Change{table: table, op: "update", oldID: id, newID: n, before: b.vals, after: after[n].vals})
			continue
		}
		if movedTo[id] && !inB {
			continue
		}
		switch {
		case inB && inA:
			if strings.Join(b.vals, "|") != strings.Join(a.vals, "|") {
				out = append(out, c27Change{table: table, op: "update", oldID: id, newID: id, before: b.vals, after: a.vals})
			}
		case inA:
			out = append(out, c27Change{table: table, op: "insert", newID: id, after: a.vals})
		case inB:
			out = append(out, c27Change{table: table, op: "delete", oldID: id, before: b.vals})
		}
	}
	return out
}

type c27Stmt struct {
	sql     string
	table   string
	kind    string
	fails   bool
	touched []c27Change // for failing statements: the rows touched before the failure (by construction)
	moved   map[int64]int64
}

type c27Gen struct {
	r      *vfRng
	next1  int64 // next fresh rowid in t1
	next2  int64
	live1  []int64 // rowids believed present in t1 (as of the shadow)
	live2  []int64
	nextK  int64
}

func (g *c27Gen) val(kind string) string {
	switch kind {
	case "i":
		return g.r.Pick([]string{"0", "1", "-5", "9223372036854775807", "-9223372036854775808", "42", "NULL"})
	case "r":
		return g.r.Pick([]string{"1.5", "0.1", "-2.25", "1e100", "3.141592653589793", "NULL", "100.0"})
	case "s":
		return g.r.Pick([]string{"'a'", "''", "'héllo'", "'日本'", "'it''s'", "NULL", "'x''y'", "'123'"})
	case "b":
		return g.r.Pick([]string{"x'00ff41'", "x''", "x'deadbeef'", "NULL", "x'616263'"})
	default:
		return g.r.Pick([]string{"7", "2.5", "'mixed'", "x'01'", "NULL"})
	}
}

func (g *c27Gen) t1Values(id string) string {
	return fmt.Sprintf("(%s, %s, %s, %s, %s, %s)", id, g.val("i"), g.val("r"), g.val("s"), g.val("b"), g.val("n"))
}

// stmt generates one statement against the CURRENT shadow content (live1/live2 are refreshed by the caller).
func (g *c27Gen) stmt() c27Stmt {
	pick := func(xs []int64) int64 { return xs[g.r.Intn(len(xs))] }
	switch p := g.r.Intn(100); {
	case p < 18:
		return c27Stmt{sql: "INSERT INTO t1(id, i, r, s, b, n) VALUES " + g.t1Values("NULL"), table: "t1", kind: "insert"}
	case p < 28:
		n := 2 + g.r.Intn(2)
		var vs []string
		for i := 0; i < n; i++ {
			vs = append(vs, g.t1Values("NULL"))
		}
		return c27Stmt{sql: "INSERT INTO t1(id, i, r, s, b, n) VALUES " + strings.Join(vs, ", "), table: "t1", kind: "insert-multi"}
	case p < 36:
		g.nextK++
		return c27Stmt{sql: fmt.Sprintf("INSERT INTO t2(a, k) VALUES(%s, %d)", g.val("s"), g.nextK), table: "t2", kind: "insert"}
	case p < 48 && len(g.live1) > 0:
		g.nextK++
		return c27Stmt{sql: fmt.Sprintf("UPDATE t1 SET s = %s, i = %s, n = 'u%d' WHERE id = %d", g.val("s"), g.val("i"), g.nextK, pick(g.live1)), table: "t1", kind: "update"}
	case p < 56 && len(g.live1) > 1:
		a := pick(g.live1)
		g.nextK++
		return c27Stmt{sql: fmt.Sprintf("UPDATE t1 SET r = %s, b = %s, n = 'u%d' WHERE id >= %d", g.val("r"), g.val("b"), g.nextK, a), table: "t1", kind: "update-range"}
	case p < 62 && len(g.live2) > 0:
		old := pick(g.live2)
		nw := old + 1000 + int64(g.r.Intn(50))
		return c27Stmt{sql: fmt.Sprintf("UPDATE t2 SET rowid = %d WHERE rowid = %d", nw, old), table: "t2", kind: "update-rowid", moved: map[int64]int64{old: nw}}
	case p < 72 && len(g.live1) > 0:
		return c27Stmt{sql: fmt.Sprintf("DELETE FROM t1 WHERE id = %d", pick(g.live1)), table: "t1", kind: "delete"}
	case p < 77 && len(g.live1) > 1:
		return c27Stmt{sql: fmt.Sprintf("DELETE FROM t1 WHERE id > %d", pick(g.live1)), table: "t1", kind: "delete-range"}
	case p < 80 && len(g.live2) > 0:
		return c27Stmt{sql: fmt.Sprintf("DELETE FROM t2 WHERE rowid = %d", pick(g.live2)), table: "t2", kind: "delete"}
	case p < 90 && len(g.live1) > 0:
		// fails after touching one or two fresh rows: the last row of the VALUES list repeats an existing primary key
		n := 1 + g.r.Intn(2)
		var vs []string
		var touched []c27Change
		for i := 0; i < n; i++ {
			id := g.next1 + 500 + int64(i)
			vs = append(vs, g.t1Values(strconv.FormatInt(id, 10)))
			touched = append(touched, c27Change{table: "t1", op: "insert", newID: id})
		}
		vs = append(vs, g.t1Values(strconv.FormatInt(pick(g.live1), 10)))
		return c27Stmt{sql: "INSERT INTO t1(id, i, r, s, b, n) VALUES " + strings.Join(vs, ", "), table: "t1", kind: "insert-failing-after-rows", fails: true, touched: touched}
	case p < 94:
		return c27Stmt{sql: "INSERT INTO t1(id, i) VALUES (NULL, 'x' || abs(-9223372036854775808))", table: "t1", kind: "failing-before-any-row", fails: true}
	case p < 97:
		return c27Stmt{sql: "SELECT count(*) FROM t1", table: "t1", kind: "read"}
	default:
		return c27Stmt{sql: "CREATE TABLE IF NOT EXISTS aux (z)", table: "t1", kind: "ddl"}
	}
}

// c27NumJoin joins canonical values, writing an integral REAL like the integer of the same value:
// SQLite keeps an integral value of a REAL column in integer form internally and hands that form to
// the pre-update hook (the column reads back as REAL); JSON writes both as the same number.
func c27NumJoin(vs []string) string {
	out := make([]string, len(vs))
	for i, v := range vs {
		out[i] = v
		if strings.HasPrefix(v, "r:") {
			if f, err := strconv.ParseFloat(v[2:], 64); err == nil && f == math.Trunc(f) && math.Abs(f) < 1e15 {
				out[i] = "i:" + strconv.FormatInt(int64(f), 10)
			}
		}
	}
	return strings.Join(out, "|")
}

func c27Open() (*DB, func()) {
	d, path := mustCreateOnDiskDatabaseWAL()
	mustExecute(d, c27Schema1)
	mustExecute(d, c27Schema2)
	return d, func() {
		d.Close()
		os.Remove(path)
		os.Remove(path + "-wal")
		os.Remove(path + "-shm")
	}
}

func c27Live(d *DB, table string) (ids []int64, max int64) {
	for id := range c27Snapshot(d, table) {
		ids = append(ids, id)
		if id > max {
			max = id
		}
	}
	sort.Slice(ids, func(a, b int) bool { return ids[a] < ids[b] })
	return
}

func TestVerifC27(t *testing.T) {
	rep := vfNewReport("C27", "generated write programs: 1-3 requests of 1-5 statements (single and multi-row INSERT, UPDATE by id / range / of the rowid, DELETE by id / range, statements failing before or after touching rows, reads, DDL) over t1 (rowid alias; INTEGER, REAL, TEXT, BLOB, untyped columns with extremes, non-ASCII, empty and NULL values) and t2 (plain rowid table), transaction on/off, row-ids-only on/off, table filter none / ^t1$ / ^t2$ / matching nothing; a request is non-trivial when it changes at least one row; distinct by the SQL of the request")
	defer rep.Write()
	r := vfNewRng(27)
	cases := vfScale(120, 15000)
	var segOps, segImpl [][]string

	for c := 0; c < cases; c++ {
		real, closeReal := c27Open()
		shadow, closeShadow := c27Open()
		// the shadow tells whether a statement committed a write transaction (SQLite fires the commit
		// hook for those only - e.g. not for CREATE TABLE IF NOT EXISTS of an existing table)
		shadowCommits := 0
		if err := shadow.RegisterCommitHook(func() bool { shadowCommits++; return true }); err != nil {
			t.Fatal(err)
		}
		idsOnly := r.Chance(30)
		filter := []string{"*", "*", "t1", "t2", "-"}[r.Intn(5)]
		var re *regexp.Regexp
		switch filter {
		case "t1":
			re = regexp.MustCompile("^t1$")
		case "t2":
			re = regexp.MustCompile("^t2$")
		case "-":
			re = regexp.MustCompile("^nosuchtable$")
		}
		matches := func(tbl string) bool { return re == nil || re.MatchString(tbl) }
		// the output channel: usually roomy; sometimes with room for 0-2 groups only (nobody reads while a
		// request runs): CommitHook then DROPS groups - and must still let the commit through
		room := 64
		if r.Chance(25) {
			room = r.Intn(3)
		}
		ch := make(chan *command.CDCIndexedEventGroup, room)
		streamer, err := NewCDCStreamer(ch, real)
		if err != nil {
			t.Fatal(err)
		}
		if err := real.RegisterPreUpdateHook(streamer.PreupdateHook, re, idsOnly); err != nil {
			t.Fatal(err)
		}
		if err := real.RegisterCommitHook(streamer.CommitHook); err != nil {
			t.Fatal(err)
		}
		ops := []string{fmt.Sprintf("cfg %s %s %d", map[bool]string{true: "1", false: "0"}[idsOnly], filter, room)}
		rep.Count(fmt.Sprintf("channel-room=%d", room))
		impl := []string{"ok"}
		rep.Count("filter=" + filter)
		rep.Count(fmt.Sprintf("row-ids-only=%v", idsOnly))
		g := &c27Gen{r: r}
		changeID := 0

		for q := 1 + r.Intn(3); q > 0; q-- {
			tx := r.Chance(40)
			rep.Count(fmt.Sprintf("transaction=%v", tx))
			var stmtToks []string
			var sqls []string
			byKey := map[string][]c27Change{} // expected (and phantom) changes of this request by key
			var committed []c27Change          // what the shadow says the request changed, in order
			phantomPossible := false
			failedAfterRows := false
			commitAfterFailure := false
			n := 1 + r.Intn(5)
			// the shadow runs the request statement by statement; a transaction is rolled back as a whole on failure
			var shadowTxChanges []c27Change
			if tx {
				mustExecute(shadow, "BEGIN")
			}
			aborted := false
			req := &command.Request{Transaction: tx}
			for i := 0; i < n && !aborted; i++ {
				g.live1, g.next1 = c27Live(shadow, "t1")
				g.live2, g.next2 = c27Live(shadow, "t2")
				s := g.stmt()
				rep.Count("stmt:" + s.kind)
				sqls = append(sqls, s.sql)
				req.Statements = append(req.Statements, &command.Statement{Sql: s.sql})
				before := c27Snapshot(shadow, s.table)
				commitsBefore := shadowCommits
				res, err := shadow.ExecuteStringStmt(s.sql)
				failed := err != nil || res[0].GetError() != ""
				if failed != s.fails {
					t.Fatalf("generator: statement %q failed=%v, expected %v (%v)", s.sql, failed, s.fails, res)
				}
				var chs []c27Change
				if failed {
					chs = s.touched
					if len(chs) > 0 {
						failedAfterRows = true
					}
				} else {
					chs = c27Diff(s.table, before, c27Snapshot(shadow, s.table), s.moved)
					if failedAfterRows && !tx && shadowCommits > commitsBefore {
						commitAfterFailure = true
					}
				}
				var toks []string
				for k := range chs {
					changeID++
					chs[k].id = changeID
					byKey[chs[k].key()] = append(byKey[chs[k].key()], chs[k])
					toks = append(toks, chs[k].token())
				}
				kind := "ok"
				if s.kind == "read" || (!tx && !failed && len(chs) == 0 && shadowCommits == commitsBefore) {
					kind = "read" // no write transaction was committed
				}
				if failed {
					kind = "fail"
					phantomPossible = phantomPossible || len(chs) > 0
					if tx {
						aborted = true
					}
				} else if tx {
					shadowTxChanges = append(shadowTxChanges, chs...)
				} else {
					committed = append(committed, chs...)
				}
				stmtToks = append(stmtToks, kind+":"+strings.Join(toks, "."))
			}
			if tx {
				if aborted {
					mustExecute(shadow, "ROLLBACK")
				} else {
					mustExecute(shadow, "COMMIT")
					committed = shadowTxChanges
				}
			}

			// ---- the real thing ----
			streamer.Reset(uint64(100 + c))
			droppedBefore := stats.Get(cdcDroppedEvents).(*expvar.Int).Value()
			if _, err := real.Execute(req, false); err != nil {
				t.Fatalf("Execute: %v", err)
			}
			var groups []*command.CDCIndexedEventGroup
		drain:
			for {
				select {
				case gr := <-ch:
					groups = append(groups, gr)
				default:
					break drain
				}
			}
			// both databases must hold the same rows (the shadow is a faithful shadow)
			for tbl := range c27Tables {
				a, b := c27Snapshot(real, tbl), c27Snapshot(shadow, tbl)
				if fmt.Sprint(a) != fmt.Sprint(b) {
					// the only thing between the two databases is the CDC hooks: a commit was vetoed or altered
					rep.Fail("database-differs-from-hookless-shadow", fmt.Sprintf("after %q (transaction=%v, channel room %d) table %s differs from the shadow database without CDC hooks: %d rows vs %d", sqls, tx, room, tbl, len(a), len(b)),
						map[string]interface{}{"sql": sqls, "transaction": tx, "channel_room": room})
					return
				}
			}

			// canonicalise the delivered groups into the model's vocabulary
			used := map[string]int{}
			var gs []string
			var delivered []c27Change
			replay := map[string]interface{}{"sql": sqls, "transaction": tx, "row_ids_only": idsOnly, "filter": filter}
			for _, gr := range groups {
				var es []string
				for _, ev := range gr.Events {
					op := map[command.CDCEvent_Operation]string{command.CDCEvent_INSERT: "insert", command.CDCEvent_UPDATE: "update", command.CDCEvent_DELETE: "delete"}[ev.Op]
					key := fmt.Sprintf("%s/%s/%d/%d", ev.Table, op, ev.OldRowId, ev.NewRowId)
					cands := byKey[key]
					if used[key] >= len(cands) {
						es = append(es, "unknown:"+key)
						rep.Fail("event-for-no-change", fmt.Sprintf("event %s corresponds to no row change of the request %q", key, sqls), replay)
						continue
					}
					chg := cands[used[key]]
					used[key]++
					hasVals := ev.OldRow != nil || ev.NewRow != nil
					known := chg.before != nil || chg.after != nil
					rowTok := func(r *command.CDCRow) string {
						if r == nil {
							return "-"
						}
						if !known {
							return vfHex("?")
						}
						var vs []string
						for _, v := range r.Values {
							vs = append(vs, c27CanonCDC(v))
						}
						return vfHex(c27NumJoin(vs))
					}
					tok := fmt.Sprintf("%s#%d#%s#%d#%d#%s#%s", ev.Table, chg.id, op[:1], ev.OldRowId, ev.NewRowId, rowTok(ev.OldRow), rowTok(ev.NewRow))
					es = append(es, tok)
					delivered = append(delivered, chg)
					// ---- the property on this event ----
					if !matches(ev.Table) {
						rep.Fail("filtered-table-delivered", fmt.Sprintf("event for table %s although the filter %q does not match it", ev.Table, filter), replay)
					}
					if idsOnly && hasVals {
						rep.Fail("row-ids-only-carries-values", fmt.Sprintf("row-ids-only mode but event %s carries column values", key), replay)
					}
					if !idsOnly && chg.before != nil || !idsOnly && chg.after != nil {
						var gotB, gotA []string
						if ev.OldRow != nil {
							for _, v := range ev.OldRow.Values {
								gotB = append(gotB, c27CanonCDC(v))
							}
						}
						if ev.NewRow != nil {
							for _, v := range ev.NewRow.Values {
								gotA = append(gotA, c27CanonCDC(v))
							}
						}
						if c27NumJoin(gotB) != c27NumJoin(chg.before) || c27NumJoin(gotA) != c27NumJoin(chg.after) {
							rep.Fail("event-values-differ:"+op, fmt.Sprintf("%s of %s row %d/%d: event before=%v after=%v, the rows were before=%v after=%v", op, ev.Table, ev.OldRowId, ev.NewRowId, gotB, gotA, chg.before, chg.after), replay)
						}
						if fmt.Sprint(ev.ColumnNames) != fmt.Sprint(c27Tables[ev.Table]) {
							rep.Fail("event-column-names", fmt.Sprintf("column names %v for table %s", ev.ColumnNames, ev.Table), replay)
						}
					}
				}
				gs = append(gs, strings.Join(es, ","))
			}
			// exactly the committed changes of matching tables, in order
			var want []string
			for _, chg := range committed {
				if matches(chg.table) {
					want = append(want, fmt.Sprintf("%s#%d", chg.table, chg.id))
				}
			}
			var got []string
			for _, chg := range delivered {
				got = append(got, fmt.Sprintf("%s#%d", chg.table, chg.id))
			}
			dropped := stats.Get(cdcDroppedEvents).(*expvar.Int).Value() - droppedBefore
			if dropped > 0 {
				rep.Count("request-with-dropped-groups")
			}
			if strings.Join(got, ",") != strings.Join(want, ",") && dropped == 0 {
				sig := "events-differ-from-committed-changes"
				if commitAfterFailure {
					sig = "phantom-events-of-failed-statement-delivered-with-next-commit"
				}
				rep.Fail(sig, fmt.Sprintf("request %q (transaction=%v): events describe changes %v, the committed changes are %v", sqls, tx, got, want), replay)
			}
			// the JSON rendering keeps one entry per event with the same operation and row ids
			if len(groups) > 0 {
				if b, err := cdcjson.MarshalToEnvelopeJSON("svc", "node", false, groups); err != nil || !strings.Contains(string(b), `"events"`) {
					rep.Fail("json-marshal", fmt.Sprintf("MarshalToEnvelopeJSON: %v", err), replay)
				} else if strings.Count(string(b), `"op":`) != len(delivered) {
					rep.Fail("json-event-count", fmt.Sprintf("JSON holds %d events for %d delivered", strings.Count(string(b), `"op":`), len(delivered)), replay)
				}
			}
			out := "-"
			if len(gs) > 0 {
				out = strings.Join(gs, "|")
			}
			st := "-"
			if len(stmtToks) > 0 {
				st = strings.Join(stmtToks, ";")
			}
			ops = append(ops, fmt.Sprintf("req %s %s", map[bool]string{true: "1", false: "0"}[tx], st))
			o := fmt.Sprintf("%s %d", out, streamer.Len())
			if dropped > 0 {
				o += fmt.Sprintf(" dropped:%d", dropped)
			}
			impl = append(impl, o)
			rep.Case(strings.Join(sqls, "; ")+fmt.Sprint(tx, idsOnly, filter), len(committed) > 0)
			if phantomPossible {
				rep.Count("request-with-statement-failing-after-rows")
			}
			if c < 2 {
				rep.Sample(map[string]interface{}{"sql": sqls, "transaction": tx, "groups": out, "committed_changes": want})
			}
		}
		real.RegisterPreUpdateHook(nil, nil, false)
		real.RegisterCommitHook(nil)
		shadow.RegisterCommitHook(nil)
		closeReal()
		closeShadow()
		segOps = append(segOps, ops)
		segImpl = append(segImpl, impl)
	}
	rep.vfCompareSegments("cdc", segOps, segImpl)
}

#!/bin/bash
# tools/verify_seed_manual.sh <srcdir> <name> "<demo_cmd>" src1:dst1 [src2:dst2 ...]
# like verify_seed.sh but with explicit demo placement (for seeds whose demo files carry a package prefix)
set -u
export GOFLAGS=-mod=mod GOPROXY=off GOSUMDB=off GOTOOLCHAIN=local
src=$1; name=$2; cmd=$3; shift 3
wt=/tmp/svm-$name-$$
git -C /repo worktree add -q --detach $wt HEAD || exit 2
trap "git -C /repo worktree remove --force $wt" EXIT
cd $wt
git apply $src/patch.diff || { echo "FAIL: patch does not apply"; exit 1; }
go1.26 build ./... || { echo "FAIL: build"; exit 1; }
pkgs=$(git diff --name-only | xargs -n1 dirname | sort -u | sed 's|^|./|' | tr '\n' ' ')
go1.26 test -count=1 -vet=off -timeout 25m $pkgs 2>&1 | tail -3
[ ${PIPESTATUS[0]} -eq 0 ] || { echo "FAIL: existing tests of touched packages fail"; exit 1; }
for p in "$@"; do cp $src/demo/${p%%:*} ${p##*:}; done
bash -c "$cmd" > /tmp/svm-$name.with.log 2>&1; rcw=$?
git apply -R $src/patch.diff
bash -c "$cmd" > /tmp/svm-$name.without.log 2>&1; rco=$?
echo "demo with patch rc=$rcw ; without patch rc=$rco"
if [ $rcw -ne 0 ] && [ $rco -eq 0 ]; then
  mkdir -p /verif/seeded/$name && cp -r $src/patch.diff $src/demo $src/meta.json /verif/seeded/$name/
  tail -5 /tmp/svm-$name.with.log > /verif/seeded/$name/demo_with_patch.log
  tail -3 /tmp/svm-$name.without.log > /verif/seeded/$name/demo_without_patch.log
  echo "CONFIRMED $name"
else echo "FAIL: demo does not discriminate"; exit 1; fi

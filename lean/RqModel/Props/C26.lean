/-
C26  The CDC disk queue is ordered, durable and duplicate-suppressing.

Property theorems only. Model: RqModel/Model/Fifo.lean (an exact sequential model of the
manager goroutine of cdc/fifo.go, tied to the real `cdc.Queue` by the C26 correspondence
run, including reopen between arbitrary operations and kill -9 of a child process).
Helper lemmas (the manager's invariant and its preservation): RqModel/Lemmas/Fifo.lean.

All statements quantify over EVERY operation sequence (`List Op`, unbounded) from a
fresh queue file; `Op.reopen` is both a clean Close/NewQueue and a kill + NewQueue
(assumed Bolt law: a returned `Update` is durable, an interrupted one is atomic).
-/
import RqModel.Lemmas.Fifo
namespace C26
open RqModel.Fifo
variable {α : Type}

/-- the largest index ever handed to `Enqueue` in a history (0 when none) -/
def maxEnq : List (Op α) → Nat
  | [] => 0
  | .enq k _ :: rest => max k (maxEnq rest)
  | _ :: rest => maxEnq rest

/-- no `DeleteRange n` with `k ≤ n` occurs in the history -/
def NoDelCovering (ops : List (Op α)) (k : Nat) : Prop := ∀ n, Op.del n ∈ ops → n < k

theorem reopen_keeps_persistent' (q : Q α) :
    (reopen q).items = q.items ∧ (reopen q).highest = q.highest := by
  simp only [reopen, loadHead]; simp

/-! ### persisted high key -/

theorem stepOp_highest (q : Q α) (op : Op α) (hq : Inv q) :
    (stepOp q op).1.highest = max q.highest (maxEnq [op]) := by
  cases op with
  | enq k d =>
    by_cases hk : k ≤ q.highest
    · simp [stepOp, enqueue, hk, maxEnq] <;> omega
    · have := (enqueue_items_of_gt q k d hq (by omega)).2.1
      simp [stepOp, this, maxEnq] <;> omega
  | del n => simp [stepOp, deleteRange_highest, maxEnq]
  | consume =>
    simp only [stepOp, consume, maxEnq]
    cases q.nextEv <;> simp
  | query => simp [stepOp, maxEnq]
  | reopen =>
    simp only [stepOp, reopen, loadHead, maxEnq]
    simp
  | kill =>
    simp only [stepOp, reopen, loadHead, maxEnq]
    simp

theorem maxEnq_cons (op : Op α) (rest : List (Op α)) : maxEnq (op :: rest) = max (maxEnq [op]) (maxEnq rest) := by
  cases op <;> simp [maxEnq]

theorem runQ_highest (q : Q α) (ops : List (Op α)) (hq : Inv q) :
    (runQ q ops).highest = max q.highest (maxEnq ops) := by
  induction ops generalizing q with
  | nil => simp [runQ, maxEnq]
  | cons op rest ih =>
    rw [runQ, ih _ (inv_stepOp q op hq), stepOp_highest q op hq, maxEnq_cons op rest]
    omega

/-- The remembered high key is the largest index ever enqueued, across any number of
reopens and kills in the history. -/
theorem highest_is_max_ever_enqueued (ops : List (Op α)) :
    (runQ empty ops).highest = maxEnq ops := by
  rw [runQ_highest _ _ inv_empty]; simp [empty]

/-- An enqueue at or below the highest index ever enqueued (also before earlier
reopens/kills) is acknowledged and changes nothing — neither stored items nor cursor. -/
theorem enqueue_at_or_below_highest_ignored (ops : List (Op α)) (k : Nat) (d : α)
    (h : k ≤ maxEnq ops) : enqueue (runQ empty ops) k d = runQ empty ops := by
  have := highest_is_max_ever_enqueued ops
  unfold enqueue
  simp [this, h]

theorem runQ_append (q : Q α) (a b : List (Op α)) : runQ q (a ++ b) = runQ (runQ q a) b := by
  induction a generalizing q with
  | nil => rfl
  | cons op a ih => simp [runQ, ih]

/-- **What a kill leaves durable.** After ANY history, killing the process (no Close) and
opening the queue again finds exactly the stored items and the high key that the
acknowledged operations produced: `max_key` is written in the same Bolt transaction as
every accepted enqueue, not at Close. -/
theorem durable_across_kill (ops : List (Op α)) :
    (runQ empty (ops ++ [.kill])).highest = maxEnq ops ∧
    (runQ empty (ops ++ [.kill])).items = (runQ empty ops).items := by
  rw [runQ_append]
  have := highest_is_max_ever_enqueued ops
  simp only [runQ, stepOp]
  exact ⟨by rw [(reopen_keeps_persistent' _).2]; exact this, (reopen_keeps_persistent' _).1⟩

/-- … so an enqueue at or below the highest index ever ACKNOWLEDGED is still ignored right
after a kill — also when that highest item has meanwhile been deleted and the index lives
only in `max_key`. -/
theorem enqueue_after_kill_ignored (ops : List (Op α)) (k : Nat) (d : α) (h : k ≤ maxEnq ops) :
    enqueue (runQ empty (ops ++ [.kill])) k d = runQ empty (ops ++ [.kill]) := by
  unfold enqueue
  simp [(durable_across_kill ops).1, h]

/-- … and an enqueue above it is stored and becomes the new high key. -/
theorem enqueue_above_highest_stored (ops : List (Op α)) (k : Nat) (d : α)
    (h : maxEnq ops < k) :
    (k, d) ∈ (enqueue (runQ empty ops) k d).items ∧ (enqueue (runQ empty ops) k d).highest = k := by
  have hq := inv_runQ empty ops inv_empty
  have hh := highest_is_max_ever_enqueued ops
  have := enqueue_items_of_gt (runQ empty ops) k d hq (by omega)
  simp [this.1, this.2.1]

/-! ### deleting up to an index removes exactly the items at or below it -/

theorem delete_exact (ops : List (Op α)) (n : Nat) (p : Item α) :
    p ∈ (deleteRange (runQ empty ops) n).items ↔ p ∈ (runQ empty ops).items ∧ n < p.1 := by
  rw [deleteRange_items _ _ (inv_runQ empty ops inv_empty)]
  simp [List.mem_filter]

theorem delete_keeps_highest (ops : List (Op α)) (n : Nat) :
    (deleteRange (runQ empty ops) n).highest = (runQ empty ops).highest :=
  deleteRange_highest _ _

/-! ### no acknowledged item is lost (history characterisation of the stored set) -/

theorem stepOp_items (q : Q α) (op : Op α) (hq : Inv q) (p : Item α) :
    p ∈ (stepOp q op).1.items ↔
      match op with
      | .enq k d => p ∈ q.items ∨ (q.highest < k ∧ p = (k, d))
      | .del n => p ∈ q.items ∧ n < p.1
      | _ => p ∈ q.items := by
  cases op with
  | enq k d =>
    by_cases hk : k ≤ q.highest
    · simp only [stepOp, enqueue, hk, ↓reduceIte]
      constructor
      · intro h; exact Or.inl h
      · rintro (h | ⟨h, _⟩)
        · exact h
        · omega
    · have := (enqueue_items_of_gt q k d hq (by omega)).1
      have hlt : q.highest < k := by omega
      simp [stepOp, this, hlt]
  | del n => simp [stepOp, deleteRange_items q n hq, List.mem_filter]
  | consume =>
    simp only [stepOp, consume]
    cases q.nextEv <;> simp
  | query => simp [stepOp]
  | reopen =>
    simp only [stepOp, reopen, loadHead] <;> simp
  | kill =>
    simp only [stepOp, reopen, loadHead] <;> simp

theorem noDel_cons (op : Op α) (rest : List (Op α)) (k : Nat) :
    NoDelCovering (op :: rest) k ↔ (∀ n, op = Op.del n → n < k) ∧ NoDelCovering rest k := by
  unfold NoDelCovering
  constructor
  · intro h
    exact ⟨fun n hn => h n (by simp [hn]), fun n hn => h n (by simp [hn])⟩
  · intro ⟨h1, h2⟩ n hn
    simp at hn
    rcases hn with hn | hn
    · exact h1 n hn.symm
    · exact h2 n hn

/-- from any state satisfying the invariant -/
theorem mem_items_runQ (q : Q α) (ops : List (Op α)) (hq : Inv q) (k : Nat) (d : α) :
    (k, d) ∈ (runQ q ops).items ↔
      ((k, d) ∈ q.items ∧ NoDelCovering ops k) ∨
      (∃ pre post, ops = pre ++ Op.enq k d :: post ∧
         max q.highest (maxEnq pre) < k ∧ NoDelCovering post k) := by
  induction ops generalizing q with
  | nil => simp [runQ, NoDelCovering]
  | cons op rest ih =>
    have hq1 := inv_stepOp q op hq
    rw [runQ, ih _ hq1, stepOp_items q op hq, stepOp_highest q op hq, noDel_cons]
    constructor
    · rintro (⟨hm, hnd⟩ | ⟨pre, post, hsplit, hmax, hnd⟩)
      · cases op with
        | enq k' d' =>
          simp only at hm
          rcases hm with hm | ⟨hlt, heq⟩
          · left; exact ⟨hm, ⟨(by intro n hn; cases hn), hnd⟩⟩
          · right
            simp at heq
            refine ⟨[], rest, ?_, ?_, hnd⟩
            · simp [heq.1, heq.2]
            · simp [maxEnq]; omega
        | del n =>
          simp only at hm
          left; exact ⟨hm.1, ⟨(by intro n' hn'; cases hn'; exact hm.2), hnd⟩⟩
        | consume => left; exact ⟨hm, ⟨(by intro n hn; cases hn), hnd⟩⟩
        | query => left; exact ⟨hm, ⟨(by intro n hn; cases hn), hnd⟩⟩
        | reopen => left; exact ⟨hm, ⟨(by intro n hn; cases hn), hnd⟩⟩
        | kill => left; exact ⟨hm, ⟨(by intro n hn; cases hn), hnd⟩⟩
      · right
        refine ⟨op :: pre, post, by simp [hsplit], ?_, hnd⟩
        rw [maxEnq_cons]; omega
    · rintro (⟨hm, hop, hnd⟩ | ⟨pre, post, hsplit, hmax, hnd⟩)
      · left
        refine ⟨?_, hnd⟩
        cases op with
        | enq k' d' => exact Or.inl hm
        | del n => exact ⟨hm, hop n rfl⟩
        | consume => exact hm
        | query => exact hm
        | reopen => exact hm
        | kill => exact hm
      · rcases List.cons_eq_append_iff.1 hsplit with ⟨hpre, hrest⟩ | ⟨pre', hpre, hrest⟩
        · -- the accepted enqueue is `op` itself
          subst hpre
          simp at hrest
          obtain ⟨hop, hrest⟩ := hrest
          subst hop; subst hrest
          left
          refine ⟨?_, hnd⟩
          simp only
          right
          simp [maxEnq] at hmax
          first | exact ⟨hmax, rfl⟩ | exact ⟨hmax, trivial⟩ | simp [hmax]
        · subst hpre
          right
          refine ⟨pre', post, hrest, ?_, hnd⟩
          rw [maxEnq_cons] at hmax; omega

/-- **No acknowledged item is lost, nothing else is stored.** After ANY history from a
fresh queue file — enqueues, deletes, consumes, queries, reopens and kills in any order
and number — `(k,d)` is stored exactly when the history contains an `Enqueue(k,d)` that
was above every index enqueued before it (so it was accepted, not suppressed) and no
later `DeleteRange n` had `k ≤ n`. Reopen/kill and consumption never remove anything. -/
theorem no_ack_lost (ops : List (Op α)) (k : Nat) (d : α) :
    (k, d) ∈ (runQ empty ops).items ↔
      ∃ pre post, ops = pre ++ Op.enq k d :: post ∧ maxEnq pre < k ∧ NoDelCovering post k := by
  rw [mem_items_runQ _ _ inv_empty]
  simp [empty]

/-- the bucket is always strictly ascending and the head is the `Seek(nextFrom)` result -/
theorem reachable_inv (ops : List (Op α)) : Inv (runQ empty ops) := inv_runQ _ _ inv_empty

/-- reopen / kill keep exactly the persistent part -/
theorem reopen_keeps_persistent (q : Q α) :
    (reopen q).items = q.items ∧ (reopen q).highest = q.highest := by
  simp only [reopen, loadHead]; simp

/-! ### emission order -/

theorem consume_emits_head (q : Q α) (hq : Inv q) (e : Item α) (h : (consume q).2 = some e) :
    e ∈ q.items ∧ q.nextFrom ≤ e.1 ∧ (consume q).1.nextFrom = e.1 + 1 := by
  unfold consume at *
  cases hne : q.nextEv with
  | none => simp [hne] at h
  | some e0 =>
    have hs : seek q.items q.nextFrom = some e0 := by rw [← hq.head]; exact hne
    simp [hne] at h
    subst h
    simp only [hne]
    exact ⟨seek_some_mem hs, seek_some_ge hs, trivial⟩

theorem stepOp_nextFrom_mono (q : Q α) (op : Op α) (hq : Inv q) (hop : op ≠ Op.reopen) (hk : op ≠ Op.kill) :
    q.nextFrom ≤ (stepOp q op).1.nextFrom := by
  cases op with
  | enq k d =>
    by_cases hk : k ≤ q.highest
    · simp [stepOp, enqueue, hk]
    · simp [stepOp, (enqueue_items_of_gt q k d hq (by omega)).2.2]
  | del n =>
    simp only [stepOp, deleteRange_nextFrom]
    split <;> omega
  | consume =>
    simp only [stepOp]
    cases h : (consume q).2 with
    | none =>
      unfold consume at *
      cases hne : q.nextEv <;> simp [hne] at h ⊢
    | some e => have := consume_emits_head q hq e h; omega
  | query => simp [stepOp]
  | reopen => exact absurd rfl hop
  | kill => exact absurd rfl hk

theorem emitted_increasing (q : Q α) (hq : Inv q) (ops : List (Op α)) (hno : Op.reopen ∉ ops) (hnk : Op.kill ∉ ops) :
    ((emitted q ops).map (·.1)).Pairwise (· < ·) ∧ ∀ e ∈ emitted q ops, q.nextFrom ≤ e.1 := by
  induction ops generalizing q with
  | nil => simp [emitted]
  | cons op rest ih =>
    have hop : op ≠ Op.reopen := fun h => hno (by simp [h])
    have hopk : op ≠ Op.kill := fun h => hnk (by simp [h])
    have hrest : Op.reopen ∉ rest := fun h => hno (by simp [h])
    have hrestk : Op.kill ∉ rest := fun h => hnk (by simp [h])
    have hq1 := inv_stepOp q op hq
    obtain ⟨ihp, ihb⟩ := ih _ hq1 hrest hrestk
    have hmono := stepOp_nextFrom_mono q op hq hop hopk
    unfold emitted
    cases hem : (stepOp q op).2 with
    | none =>
      simp only
      exact ⟨ihp, fun e he => Nat.le_trans hmono (ihb e he)⟩
    | some e0 =>
      simp only
      have hc : op = Op.consume := by
        cases op <;> simp [stepOp] at hem ⊢
      subst hc
      have hh := consume_emits_head q hq e0 (by simpa [stepOp] using hem)
      simp only [stepOp] at ihb ihp
      refine ⟨?_, ?_⟩
      · simp only [List.map_cons, List.pairwise_cons]
        refine ⟨?_, ihp⟩
        intro a ha
        simp at ha
        obtain ⟨b, hb⟩ := ha
        have := ihb (a, b) hb
        omega
      · intro e he
        simp at he
        rcases he with he | he
        · subst he; exact hh.2.1
        · have := ihb e he; omega

/-- **Within one open the queue emits in strictly increasing index order** (so every
index is emitted at most once per open — a deleted index can never be re-added, see
`enqueue_at_or_below_highest_ignored`). `pre` is any earlier history (with any number of
reopens); `seg` is any operation sequence without a reopen or kill, i.e. one open. -/
theorem emission_strictly_increasing_per_open (pre seg : List (Op α)) (h : Op.reopen ∉ seg) (hk : Op.kill ∉ seg) :
    ((emitted (runQ empty pre) seg).map (·.1)).Pairwise (· < ·) :=
  (emitted_increasing _ (reachable_inv pre) seg h hk).1

/-- every emitted event is an item stored at that moment (index and data) -/
theorem emits_only_stored (ops : List (Op α)) (e : Item α) (h : (consume (runQ empty ops)).2 = some e) :
    e ∈ (runQ empty ops).items :=
  (consume_emits_head _ (reachable_inv ops) e h).1

/-! ### progress -/

/-- `m` receives from `C` deliver exactly the first `m` stored items at or above the cursor -/
theorem drain_exact (q : Q α) (hq : Inv q) (m : Nat) :
    emitted q (List.replicate m Op.consume) =
      (q.items.filter (fun p => decide (q.nextFrom ≤ p.1))).take m := by
  induction m generalizing q with
  | zero => simp [emitted]
  | succ m ih =>
    rw [List.replicate_succ]
    unfold emitted
    have hhead := hq.head
    cases hs : seek q.items q.nextFrom with
    | none =>
      have hne : q.nextEv = none := by rw [hhead, hs]
      have hc : consume q = (q, none) := by simp [consume, hne]
      simp only [stepOp, hc]
      rw [ih q hq, filter_ge_of_seek_none _ _ hs]; simp
    | some e =>
      have hne : q.nextEv = some e := by rw [hhead, hs]
      have hc : consume q = ({ q with nextFrom := e.1 + 1, nextEv := seek q.items (e.1 + 1) }, some e) := by
        simp [consume, hne]
      have hq1 : Inv (consume q).1 := inv_consume q hq
      simp only [stepOp, hc] at hq1 ⊢
      rw [ih _ hq1, filter_ge_of_seek _ hq.sorted _ _ hs]
      simp

/-- **Progress.** From any reachable state, a stored item at or above the cursor is
received after at most `Len` consumes (nothing else needs to happen). -/
theorem progress (ops : List (Op α)) (p : Item α)
    (hp : p ∈ (runQ empty ops).items) (hc : (runQ empty ops).nextFrom ≤ p.1) :
    p ∈ emitted (runQ empty ops) (List.replicate (runQ empty ops).items.length Op.consume) := by
  rw [drain_exact _ (reachable_inv ops)]
  rw [List.take_of_length_le (Nat.le_trans (List.length_filter_le _ _) (Nat.le_refl _))]
  simp [List.mem_filter, hp, hc]

/-- after a reopen (or kill) the cursor is 0: every stored item is emitted again -/
theorem progress_after_reopen (ops : List (Op α)) (p : Item α) (hp : p ∈ (runQ empty ops).items) :
    p ∈ emitted (reopen (runQ empty ops)) (List.replicate (runQ empty ops).items.length Op.consume) := by
  have hq := inv_reopen _ (reachable_inv ops)
  have hi := (reopen_keeps_persistent (runQ empty ops)).1
  have hnf : (reopen (runQ empty ops)).nextFrom = 0 := by simp only [reopen, loadHead]
  rw [drain_exact _ hq, hi, hnf]
  rw [List.take_of_length_le (List.length_filter_le _ _)]
  simp [List.mem_filter, hp]

/-! ### non-vacuity: concrete histories exercising every hypothesis -/

def exOps : List (Op String) :=
  [.enq 3 "x01", .enq 2 "x02", .enq 5 "x05", .consume, .reopen, .enq 4 "x04", .enq 7 "x07", .del 3, .consume]

example : (runQ empty exOps).items = [(5, "x05"), (7, "x07")] ∧ (runQ empty exOps).highest = 7 ∧
    emitted empty exOps = [(3, "x01"), (5, "x05")] ∧ maxEnq exOps = 7 := by decide

-- the item (5,"x05") is stored because of the split pre = [enq 3, enq 2], post = the rest
example : ∃ pre post, exOps = pre ++ Op.enq 5 "x05" :: post ∧ maxEnq pre < 5 ∧ NoDelCovering post 5 :=
  ⟨[.enq 3 "x01", .enq 2 "x02"], [.consume, .reopen, .enq 4 "x04", .enq 7 "x07", .del 3, .consume], by decide, by decide,
    by intro n hn; simp at hn; omega⟩

-- one open, two emissions, strictly increasing; then progress from a non-zero cursor
example : emitted (runQ empty [.enq 1 "x", .enq 2 "x", .enq 4 "x"]) [.consume, .del 1, .consume, .consume] =
    [(1, "x"), (2, "x"), (4, "x")] := by decide

example : (runQ empty [.enq 1 "x", .consume, .enq 2 "x", .enq 4 "x"]).nextFrom = 2 ∧
    emitted (runQ empty [.enq 1 "x", .consume, .enq 2 "x", .enq 4 "x"]) (List.replicate 3 Op.consume) = [(2, "x"), (4, "x")] := by
  decide

/-- A stored item BELOW the cursor exists in reachable states (delete beyond the highest
index after an emission, then an enqueue below that bound): it stays stored, is not
emitted in this open, and is emitted after the next reopen. `progress` is therefore
stated for items at or above the cursor. -/
theorem stranded_below_delete_bound_witness :
    let q := runQ empty [.enq 1 "x01", .consume, .del 100, .enq 5 "x05"]
    q.items = [(5, "x05")] ∧ q.nextFrom = 101 ∧ (consume q).2 = none ∧
    (consume (reopen q)).2 = some (5, "x05") := by decide

/-- THE FULL STATEMENT of progress (no cursor hypothesis): every stored item is received
after at most `Len` consumes in the current open. -/
def progress_full : Prop :=
  ∀ (ops : List (Op String)) (p : Item String), p ∈ (runQ empty ops).items →
    p ∈ emitted (runQ empty ops) (List.replicate (runQ empty ops).items.length Op.consume)

/-- false: the stranded item of `stranded_below_delete_bound_witness` (known finding; `progress`
is the partial statement, under "the item is at or above the cursor") -/
theorem progress_witness : ¬ progress_full := by
  intro h
  have := h [.enq 1 "x01", .consume, .del 100, .enq 5 "x05"] (5, "x05") (by decide)
  revert this
  decide

end C26

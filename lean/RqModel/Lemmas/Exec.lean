/-
Helper definitions and lemmas for C13 (Model/Exec.lean): both statement loops
are instances of one generic loop; behaviour of the generic loop on statement
lists without explicit transaction control.
-/
import RqModel.Model.Exec
namespace RqModel.Exec

def fails : Stmt → Bool
  | .execFail => true
  | .prepFail => true
  | .queryFail => true
  | .partialFail _ => true
  | .startFail _ _ => true
  | .autoRollback => true
  | .timeout => true
  | _ => false

def isCtl : Stmt → Bool
  | .begin => true
  | .commit => true
  | .rollback => true
  | _ => false

def tokOf : Stmt → Option Nat
  | .ok d => some d
  | .returning d _ => some d
  | _ => none

/-- effect tokens of the writes in a statement list, in order -/
def writes (ss : List Stmt) : List Nat := ss.filterMap tokOf

def NoCtl (ss : List Stmt) : Prop := ∀ s ∈ ss, isCtl s = false

/-- result of a successful statement on the execute path -/
def execSucc (db : Db) (s : Stmt) : Res :=
  if forced s then .q (rowsOf db s) else execRes db s

/-- result of a successful statement on the unified path -/
def reqSucc (db : Db) (s : Stmt) : Res :=
  if readOnly s then .q (rowsOf db s) else execSucc db s

/-- the loop both paths implement: `stop` = abort at the first failure -/
def genLoop (succ : Db → Stmt → Res) (stop : Bool) : Bool → Db → List Stmt → Db × List Res × Bool
  | tx, db, [] => (db, [], tx)
  | tx, db, s :: rest =>
    if s = .empty then genLoop succ stop tx db rest
    else
      match sqlRun db s with
      | some db' =>
        let p := genLoop succ stop tx db' rest
        (p.1, succ db s :: p.2.1, p.2.2)
      | none =>
        if stop then (rollbackIgnore (failEffect db s), [.err], false)
        else
          let p := genLoop succ stop tx (failEffect db s) rest
          (p.1, .err :: p.2.1, p.2.2)

theorem execLoop_eq (rb tx : Bool) (db : Db) (ss : List Stmt) :
    execLoop rb tx db ss = genLoop execSucc (tx || rb) tx db ss := by
  induction ss generalizing db with
  | nil => simp [execLoop, genLoop]
  | cons s rest ih =>
    unfold execLoop genLoop
    by_cases he : s = .empty
    · simp [he, ih]
    · simp only [he, if_false]
      cases hr : sqlRun db s with
      | none =>
        cases tx <;> cases rb <;> simp [executeStmt, hr, ih]
      | some db' =>
        simp [executeStmt, hr, ih, execSucc]

theorem reqLoop_eq (rb tx : Bool) (db : Db) (ss : List Stmt) :
    reqLoop rb tx db ss = genLoop reqSucc (tx || rb) tx db ss := by
  induction ss generalizing db with
  | nil => simp [reqLoop, genLoop]
  | cons s rest ih =>
    unfold reqLoop genLoop
    by_cases he : s = .empty
    · simp [he, ih]
    · simp only [he, if_false]
      by_cases hp : prepares s = true
      · simp only [hp, Bool.not_true, Bool.false_eq_true, if_false]
        cases hr : sqlRun db s with
        | none =>
          cases hro : readOnly s <;> cases tx <;> cases rb <;>
            simp [executeStmt, queryStmt, hr, ih, abortOnError]
        | some db' =>
          cases hro : readOnly s <;>
            simp [executeStmt, queryStmt, hr, ih, reqSucc, execSucc, hro]
      · have hs : sqlRun db s = none ∧ failEffect db s = db := by
          cases s <;> simp_all [prepares, sqlRun, failEffect]
        have hp' : prepares s = false := by simpa using hp
        cases tx <;> cases rb <;> simp [hp', hs.1, hs.2, abortOnError, ih]

/-! ### plain specifications of the result list -/

/-- one result per non-empty statement, each the outcome of that statement in
the state left by the statements before it -/
def specAll (succ : Db → Stmt → Res) : Db → List Stmt → List Res
  | _, [] => []
  | db, s :: rest =>
    if s = .empty then specAll succ db rest
    else
      match sqlRun db s with
      | some db' => succ db s :: specAll succ db' rest
      | none => .err :: specAll succ (failEffect db s) rest

/-- the same, cut after the first failing statement -/
def specStop (succ : Db → Stmt → Res) : Db → List Stmt → List Res
  | _, [] => []
  | db, s :: rest =>
    if s = .empty then specStop succ db rest
    else
      match sqlRun db s with
      | some db' => succ db s :: specStop succ db' rest
      | none => [.err]

theorem genLoop_results (succ : Db → Stmt → Res) (stop tx : Bool) (db : Db) (ss : List Stmt) :
    (genLoop succ stop tx db ss).2.1 = if stop then specStop succ db ss else specAll succ db ss := by
  induction ss generalizing db with
  | nil => cases stop <;> simp [genLoop, specStop, specAll]
  | cons s rest ih =>
    unfold genLoop specStop specAll
    by_cases he : s = .empty
    · simp [he, ih]
    · simp only [he, if_false]
      cases hr : sqlRun db s with
      | none => cases stop <;> simp [ih]
      | some db' => cases stop <;> simp [ih]

theorem specAll_length (succ : Db → Stmt → Res) (db : Db) (ss : List Stmt) :
    (specAll succ db ss).length = (ss.filter (· ≠ .empty)).length := by
  induction ss generalizing db with
  | nil => simp [specAll]
  | cons s rest ih =>
    unfold specAll
    by_cases he : s = .empty
    · simp [he, ih]
    · simp only [he, if_false]
      cases hr : sqlRun db s <;> simp [he, ih]

theorem specStop_prefix (succ : Db → Stmt → Res) (db : Db) (ss : List Stmt) :
    specStop succ db ss <+: specAll succ db ss := by
  induction ss generalizing db with
  | nil => simp [specStop, specAll]
  | cons s rest ih =>
    unfold specStop specAll
    by_cases he : s = .empty
    · simp [he, ih]
    · simp only [he, if_false]
      cases hr : sqlRun db s with
      | none => simp
      | some db' => simpa using ih db'

/-! ### unfolding lemmas -/

theorem genLoop_empty (succ : Db → Stmt → Res) (stop tx : Bool) (db : Db) (rest : List Stmt) :
    genLoop succ stop tx db (.empty :: rest) = genLoop succ stop tx db rest := by
  rw [genLoop]; simp

theorem genLoop_some (succ : Db → Stmt → Res) (stop tx : Bool) (db db' : Db) (s : Stmt) (rest : List Stmt)
    (he : s ≠ .empty) (h : sqlRun db s = some db') :
    genLoop succ stop tx db (s :: rest) =
      ((genLoop succ stop tx db' rest).1, succ db s :: (genLoop succ stop tx db' rest).2.1,
        (genLoop succ stop tx db' rest).2.2) := by
  rw [genLoop]; simp [he, h]

theorem genLoop_none (succ : Db → Stmt → Res) (stop tx : Bool) (db : Db) (s : Stmt) (rest : List Stmt)
    (he : s ≠ .empty) (h : sqlRun db s = none) :
    genLoop succ stop tx db (s :: rest) =
      if stop then (rollbackIgnore (failEffect db s), [.err], false)
      else ((genLoop succ stop tx (failEffect db s) rest).1, .err :: (genLoop succ stop tx (failEffect db s) rest).2.1,
        (genLoop succ stop tx (failEffect db s) rest).2.2) := by
  rw [genLoop]; simp [he, h]

theorem specAll_empty (succ : Db → Stmt → Res) (db : Db) (rest : List Stmt) :
    specAll succ db (.empty :: rest) = specAll succ db rest := by
  rw [specAll]; simp

theorem specAll_some (succ : Db → Stmt → Res) (db db' : Db) (s : Stmt) (rest : List Stmt)
    (he : s ≠ .empty) (h : sqlRun db s = some db') :
    specAll succ db (s :: rest) = succ db s :: specAll succ db' rest := by
  rw [specAll]; simp [he, h]

/-! ### statements without explicit transaction control -/

theorem sqlRun_noctl (db : Db) (s : Stmt) (h : isCtl s = false) :
    sqlRun db s = if fails s then none
      else some (match tokOf s with | some d => db.write d | none => db) := by
  cases s <;> simp_all [isCtl, fails, tokOf, sqlRun]

theorem write_open (db : Db) (w : List Nat) (d : Nat) (h : db.open_ = some w) :
    db.write d = { db with open_ := some (w ++ [d]) } := by
  simp [Db.write, h]

theorem write_closed (db : Db) (d : Nat) (h : db.open_ = none) :
    db.write d = { db with committed := db.committed ++ [d] } := by
  simp [Db.write, h]

theorem NoCtl_cons {s : Stmt} {ss : List Stmt} (h : NoCtl (s :: ss)) : isCtl s = false ∧ NoCtl ss :=
  ⟨h s (by simp), fun t ht => h t (by simp [ht])⟩

theorem writes_cons (s : Stmt) (ss : List Stmt) :
    writes (s :: ss) = (match tokOf s with | some d => [d] | none => []) ++ writes ss := by
  unfold writes
  cases h : tokOf s <;> simp [h]

/-- a run of statements, none failing, inside an open transaction only extends the working copy -/
theorem genLoop_open_ok (succ : Db → Stmt → Res) (stop tx : Bool) (c w : List Nat)
    (pre rest : List Stmt) (hn : NoCtl pre) (hf : pre.any fails = false) :
    genLoop succ stop tx ⟨c, some w⟩ (pre ++ rest) =
      let p := genLoop succ stop tx ⟨c, some (w ++ writes pre)⟩ rest
      (p.1, specAll succ ⟨c, some w⟩ pre ++ p.2.1, p.2.2) := by
  induction pre generalizing w with
  | nil => simp [writes, specAll]
  | cons s pre ih =>
    obtain ⟨hs, hn'⟩ := NoCtl_cons hn
    simp only [List.any_cons, Bool.or_eq_false_iff] at hf
    obtain ⟨hfs, hf'⟩ := hf
    simp only [List.cons_append]
    by_cases he : s = .empty
    · subst he
      rw [genLoop_empty, specAll_empty, ih w hn' hf']
      simp [writes_cons, tokOf]
    · have hrun := sqlRun_noctl ⟨c, some w⟩ s hs
      simp only [hfs, Bool.false_eq_true, if_false] at hrun
      cases ht : tokOf s with
      | none =>
        simp only [ht] at hrun
        rw [genLoop_some _ _ _ _ _ _ _ he hrun, specAll_some _ _ _ _ _ he hrun, ih w hn' hf']
        simp [writes_cons, ht]
      | some d =>
        simp only [ht, write_open ⟨c, some w⟩ w d rfl] at hrun
        rw [genLoop_some _ _ _ _ _ _ _ he hrun, specAll_some _ _ _ _ _ he hrun, ih (w ++ [d]) hn' hf']
        simp [writes_cons, ht, List.append_assoc]

/-- the same outside a transaction: every write is committed at once -/
theorem genLoop_closed_ok (succ : Db → Stmt → Res) (stop tx : Bool) (c : List Nat)
    (pre rest : List Stmt) (hn : NoCtl pre) (hf : pre.any fails = false) :
    genLoop succ stop tx ⟨c, none⟩ (pre ++ rest) =
      let p := genLoop succ stop tx ⟨c ++ writes pre, none⟩ rest
      (p.1, specAll succ ⟨c, none⟩ pre ++ p.2.1, p.2.2) := by
  induction pre generalizing c with
  | nil => simp [writes, specAll]
  | cons s pre ih =>
    obtain ⟨hs, hn'⟩ := NoCtl_cons hn
    simp only [List.any_cons, Bool.or_eq_false_iff] at hf
    obtain ⟨hfs, hf'⟩ := hf
    simp only [List.cons_append]
    by_cases he : s = .empty
    · subst he
      rw [genLoop_empty, specAll_empty, ih c hn' hf']
      simp [writes_cons, tokOf]
    · have hrun := sqlRun_noctl ⟨c, none⟩ s hs
      simp only [hfs, Bool.false_eq_true, if_false] at hrun
      cases ht : tokOf s with
      | none =>
        simp only [ht] at hrun
        rw [genLoop_some _ _ _ _ _ _ _ he hrun, specAll_some _ _ _ _ _ he hrun, ih c hn' hf']
        simp [writes_cons, ht]
      | some d =>
        simp only [ht, write_closed ⟨c, none⟩ d rfl] at hrun
        rw [genLoop_some _ _ _ _ _ _ _ he hrun, specAll_some _ _ _ _ _ he hrun, ih (c ++ [d]) hn' hf']
        simp [writes_cons, ht, List.append_assoc]

/-- a failing statement under `stop` ends the loop and rolls the open transaction back;
nothing after it is executed -/
theorem genLoop_fail_stop (succ : Db → Stmt → Res) (tx : Bool) (db : Db) (f : Stmt) (post : List Stmt)
    (hf : sqlRun db f = none) (he : f ≠ .empty) :
    genLoop succ true tx db (f :: post) = (rollbackIgnore (failEffect db f), [.err], false) := by
  rw [genLoop_none _ _ _ _ _ _ he hf]; simp

/-- rolling back after a failing statement inside an open transaction discards whatever it left -/
theorem rollback_failEffect (c w : List Nat) (f : Stmt) :
    rollbackIgnore (failEffect ⟨c, some w⟩ f) = ⟨c, none⟩ := by
  cases f <;> simp [failEffect, rollbackIgnore, sqlRun, Db.write]

theorem fails_sqlRun (db : Db) (f : Stmt) (h : fails f = true) : sqlRun db f = none ∧ f ≠ .empty := by
  cases f <;> simp_all [fails, sqlRun]

/-- split a list at its first failing statement -/
theorem split_first_fail (ss : List Stmt) (h : ss.any fails = true) :
    ∃ pre f post, ss = pre ++ f :: post ∧ pre.any fails = false ∧ fails f = true := by
  induction ss with
  | nil => simp at h
  | cons s ss ih =>
    by_cases hs : fails s = true
    · exact ⟨[], s, ss, by simp, by simp, hs⟩
    · simp only [List.any_cons, hs, Bool.false_or] at h
      obtain ⟨pre, f, post, he, hp, hf⟩ := ih h
      refine ⟨s :: pre, f, post, by simp [he], ?_, hf⟩
      simp [hp]
      simpa using hs

theorem NoCtl_append_left {a b : List Stmt} (h : NoCtl (a ++ b)) : NoCtl a :=
  fun t ht => h t (by simp [ht])

theorem NoCtl_append_right {a b : List Stmt} (h : NoCtl (a ++ b)) : NoCtl b :=
  fun t ht => h t (by simp [ht])

end RqModel.Exec

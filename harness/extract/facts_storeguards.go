package main

// StoreGuards (C15, C20, C35): for (*Store).Execute / Query / Request in
// store/store.go, every "sink" — a call that touches the local database
// (s.db.*), appends to the Raft log (s.raft.Apply) or hands over to the apply
// helper (s.execute) — together with the guards that dominate it:
//   "guard:<cond> => <returned error>"  an earlier `if <cond> { return …, <err> }` on the path
//   "in:<cond>" / "in:!(<cond>)"        an enclosing if / else branch
// in source order. Purely syntactic.

import (
	"fmt"
	"go/ast"
	"strings"
)

type sgSink struct {
	fn, callee string
	guards     []string
}

type sgWalker struct {
	x     *X
	fn    string
	sinks []sgSink
}

func (w *sgWalker) isSink(c *ast.CallExpr) (string, bool) {
	p := w.x.Src(c.Fun)
	if strings.HasPrefix(p, "s.db.") || p == "s.raft.Apply" || p == "s.execute" {
		return p, true
	}
	return "", false
}

func (w *sgWalker) sinksIn(n ast.Node, guards []string) {
	if n == nil {
		return
	}
	ast.Inspect(n, func(m ast.Node) bool {
		if _, ok := m.(*ast.FuncLit); ok {
			return false // closures are reported where they are called from (convertFn etc. contain no sink)
		}
		if c, ok := m.(*ast.CallExpr); ok {
			if name, ok := w.isSink(c); ok {
				w.sinks = append(w.sinks, sgSink{w.fn, name, append([]string(nil), guards...)})
			}
		}
		return true
	})
}

// lastReturnErr: the block ends with `return …, <err>`; gives the source of the last result
func (w *sgWalker) lastReturnErr(b *ast.BlockStmt) (string, bool) {
	if b == nil || len(b.List) == 0 {
		return "", false
	}
	r, ok := b.List[len(b.List)-1].(*ast.ReturnStmt)
	if !ok || len(r.Results) == 0 {
		return "", ok
	}
	return w.x.Src(r.Results[len(r.Results)-1]), true
}

func (w *sgWalker) block(stmts []ast.Stmt, guards []string) []string {
	for _, s := range stmts {
		guards = w.stmt(s, guards)
	}
	return guards
}

// stmt processes one statement and returns the guards that hold after it
func (w *sgWalker) stmt(s ast.Stmt, guards []string) []string {
	switch t := s.(type) {
	case *ast.BlockStmt:
		return w.block(t.List, guards)
	case *ast.IfStmt:
		g := guards
		if t.Init != nil {
			w.sinksIn(t.Init, g)
		}
		cond := w.x.Src(t.Cond)
		if t.Init != nil {
			cond = w.x.Src(t.Init) + "; " + cond
		}
		w.sinksIn(t.Cond, g)
		w.block(t.Body.List, append(append([]string(nil), g...), "in:"+cond))
		if t.Else != nil {
			w.stmt(t.Else, append(append([]string(nil), g...), "in:!("+cond+")"))
		}
		if errv, ok := w.lastReturnErr(t.Body); ok && t.Else == nil {
			return append(append([]string(nil), g...), "guard:"+cond+" => "+errv)
		}
		return guards
	default:
		w.sinksIn(s, guards)
		return guards
	}
}

func init() {
	register("StoreGuards", func(x *X) {
		x.Comment("store/store.go (*Store).Execute/Query/Request: (function, sink, dominating guards in source order)")
		var items []string
		for _, fn := range []string{"Execute", "Query", "Request"} {
			fd := x.Func("store", "Store", fn)
			w := &sgWalker{x: x, fn: fn}
			if fd != nil && fd.Body != nil {
				w.block(fd.Body.List, nil)
			}
			for _, s := range w.sinks {
				items = append(items, fmt.Sprintf("  (%s, %s, %s)", LeanStr(s.fn), LeanStr(s.callee), leanStrs(s.guards)))
			}
			x.DefBool("found"+fn, fd != nil)
		}
		x.Raw("def sinks : List (String × String × List String) := [\n" + strings.Join(items, ",\n") + "]")
		// what `p` in the guard `p.Check()` is: (function, name of its request parameter, the statement defining p)
		var subj []string
		for _, fn := range []string{"Execute", "Query", "Request"} {
			fd := x.Func("store", "Store", fn)
			if fd == nil || fd.Type.Params == nil || len(fd.Type.Params.List) < 2 || len(fd.Type.Params.List[1].Names) != 1 {
				continue
			}
			param := fd.Type.Params.List[1].Names[0].Name
			def, n := "", 0
			for _, st := range fd.Body.List {
				if as, ok := st.(*ast.AssignStmt); ok && len(as.Lhs) == 1 && x.Src(as.Lhs[0]) == "p" {
					def = x.Src(as)
					n++
				}
			}
			if n != 1 {
				def = fmt.Sprintf("%d definitions of p", n)
			}
			subj = append(subj, fmt.Sprintf("  (%s, %s, %s)", LeanStr(fn), LeanStr(param), LeanStr(def)))
		}
		x.Raw("def pragmaCheckSubject : List (String × String × String) := [\n" + strings.Join(subj, ",\n") + "]")
		// the helper s.execute: its own sinks (it must not touch the database before Apply)
		var ex []string
		if fd := x.Func("store", "Store", "execute"); fd != nil {
			w := &sgWalker{x: x, fn: "execute"}
			w.block(fd.Body.List, nil)
			for _, s := range w.sinks {
				ex = append(ex, s.callee)
			}
		}
		x.DefStrings("executeHelperSinks", ex)
		// store/state.go (*PragmaCheckRequest).Check: calls IsBreakingPragma on every statement
		chk := false
		if fd := x.Func("store", "PragmaCheckRequest", "Check"); fd != nil {
			for _, c := range x.Calls(fd.Body, "IsBreakingPragma") {
				if len(c.Args) == 1 && x.Src(c.Args[0]) == "stmt.Sql" {
					ast.Inspect(fd.Body, func(n ast.Node) bool {
						if r, ok := n.(*ast.RangeStmt); ok && x.Src(r.X) == "p.Statements" {
							chk = true
						}
						return true
					})
				}
			}
		}
		x.Comment("store/state.go Check ranges over p.Statements and calls IsBreakingPragma(stmt.Sql)")
		x.DefBool("pragmaCheckCoversEveryStatement", chk)
		// the whole body of Check, statement by statement, and the body of its range loop:
		// any statement that can skip an element (continue / break / an extra condition) shows up here
		var checkBody, loopBody []string
		if fd := x.Func("store", "PragmaCheckRequest", "Check"); fd != nil {
			for _, st := range fd.Body.List {
				if r, ok := st.(*ast.RangeStmt); ok {
					checkBody = append(checkBody, "for "+x.Src(r.Key)+", "+x.Src(r.Value)+" := range "+x.Src(r.X))
					for _, b := range r.Body.List {
						loopBody = append(loopBody, x.Src(b))
					}
				} else {
					checkBody = append(checkBody, x.Src(st))
				}
			}
		}
		x.DefStrings("pragmaCheckBody", checkBody)
		x.DefStrings("pragmaCheckLoopBody", loopBody)
		// db/state.go: the critical names
		var names []string
		if init := x.PkgValue("db", "BreakingPragmas"); init != nil {
			if cl, ok := init.(*ast.CompositeLit); ok {
				for _, el := range cl.Elts {
					if kv, ok := el.(*ast.KeyValueExpr); ok {
						names = append(names, strings.Trim(x.Src(kv.Key), `"`))
					}
				}
			}
		}
		x.Comment("db/state.go BreakingPragmas keys")
		x.DefStrings("breakingPragmaKeys", names)
	})
}

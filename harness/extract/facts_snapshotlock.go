package main

// SnapshotLock: how snapshot/store.go brackets its use of the MultiRSW lock (C11), and what
// the BeginWithRetry loop consists of (C31).
//
//  Store.Reap:    first statement `if err := s.mrsw.BeginWrite("reap"); err != nil { return ... }`,
//                 second `defer s.mrsw.EndWrite()`.
//  Store.reapLoop: a function literal whose body has `s.mrsw.BeginWriteBlocking("reap")` directly
//                 followed by `defer s.mrsw.EndWrite()` and then `return s.reap()`.
//  Store.Open:    first statement takes the read lock (`s.mrsw.BeginRead()`), the only EndRead in
//                 the function sits in a deferred func under `if retErr != nil`, and the final
//                 return hands the lock to `NewLockingStreamer(...)`.
//  reap()/reapInternal() are called from nowhere else in the package (non-test files).

import (
	"fmt"
	"go/ast"
	"sort"
	"strings"
)

func init() {
	register("SnapshotLock", func(x *X) {
		reapBracket := false
		if fd := x.Func("snapshot", "Store", "Reap"); fd != nil && len(fd.Body.List) >= 2 {
			if is, ok := fd.Body.List[0].(*ast.IfStmt); ok && is.Init != nil && strings.Contains(x.Src(is.Init), `s.mrsw.BeginWrite("reap")`) {
				if ds, ok := fd.Body.List[1].(*ast.DeferStmt); ok && x.Src(ds.Call) == "s.mrsw.EndWrite()" {
					reapBracket = true
				}
			}
		}
		loopBracket := false
		if fd := x.Func("snapshot", "Store", "reapLoop"); fd != nil {
			ast.Inspect(fd.Body, func(n ast.Node) bool {
				fl, ok := n.(*ast.FuncLit)
				if !ok {
					return true
				}
				for i, st := range fl.Body.List {
					if es, ok := st.(*ast.ExprStmt); ok && x.Src(es.X) == `s.mrsw.BeginWriteBlocking("reap")` && i+2 < len(fl.Body.List)+1 {
						if i+1 < len(fl.Body.List) {
							if ds, ok := fl.Body.List[i+1].(*ast.DeferStmt); ok && x.Src(ds.Call) == "s.mrsw.EndWrite()" {
								if i+2 < len(fl.Body.List) {
									if rs, ok := fl.Body.List[i+2].(*ast.ReturnStmt); ok && len(rs.Results) == 1 && x.Src(rs.Results[0]) == "s.reap()" {
										loopBracket = true
									}
								}
							}
						}
					}
				}
				return true
			})
		}
		openFirst, openEndOnlyOnErr, openHandsOver := false, false, false
		if fd := x.Func("snapshot", "Store", "Open"); fd != nil && len(fd.Body.List) >= 2 {
			if is, ok := fd.Body.List[0].(*ast.IfStmt); ok && is.Init != nil && strings.Contains(x.Src(is.Init), "s.mrsw.BeginRead()") {
				openFirst = true
			}
			endReads, guarded := 0, 0
			ast.Inspect(fd.Body, func(n ast.Node) bool {
				if c, ok := n.(*ast.CallExpr); ok && x.Src(c.Fun) == "s.mrsw.EndRead" {
					endReads++
				}
				if ds, ok := n.(*ast.DeferStmt); ok {
					if fl, ok := ds.Call.Fun.(*ast.FuncLit); ok && len(fl.Body.List) == 1 {
						if is, ok := fl.Body.List[0].(*ast.IfStmt); ok && x.Src(is.Cond) == "retErr != nil" && len(is.Body.List) == 1 {
							if es, ok := is.Body.List[0].(*ast.ExprStmt); ok && x.Src(es.X) == "s.mrsw.EndRead()" {
								guarded++
							}
						}
					}
				}
				return true
			})
			openEndOnlyOnErr = endReads == 1 && guarded == 1
			if rs, ok := fd.Body.List[len(fd.Body.List)-1].(*ast.ReturnStmt); ok && len(rs.Results) == 3 {
				openHandsOver = strings.HasPrefix(x.Src(rs.Results[1]), "NewLockingStreamer(") && x.Src(rs.Results[2]) == "nil"
			}
		}
		// callers of reap()/reapInternal()
		var callers []string
		for _, f := range x.Pkg("snapshot") {
			for _, d := range f.Decls {
				fd, ok := d.(*ast.FuncDecl)
				if !ok || fd.Body == nil {
					continue
				}
				ast.Inspect(fd.Body, func(n ast.Node) bool {
					if c, ok := n.(*ast.CallExpr); ok {
						if s := x.Src(c.Fun); s == "s.reap" || s == "s.reapInternal" {
							callers = append(callers, fd.Name.Name+"->"+strings.TrimPrefix(s, "s."))
						}
					}
					return true
				})
			}
		}
		sort.Strings(callers)
		// LockingStreamer.Read must leave the idle timer alone (it only records the last-read time)
		readTimerCalls, readFound := 0, false
		if fd := x.Func("snapshot", "LockingStreamer", "Read"); fd != nil {
			readFound = true
			ast.Inspect(fd.Body, func(n ast.Node) bool {
				if c, ok := n.(*ast.CallExpr); ok && strings.Contains(x.Src(c.Fun), "timer") {
					readTimerCalls++
				}
				return true
			})
		}
		// every function of package snapshot that touches the MRSW lock: (acquisitions, acquisitions
		// immediately followed by the matching deferred release, other releases)
		var lockUse []string
		for _, f := range x.Pkg("snapshot") {
			for _, d := range f.Decls {
				fd, ok := d.(*ast.FuncDecl)
				if !ok || fd.Body == nil {
					continue
				}
				name := fd.Name.Name
				if fd.Recv != nil && len(fd.Recv.List) == 1 && recvName(fd.Recv.List[0].Type) != "Store" {
					name = recvName(fd.Recv.List[0].Type) + "." + name
				}
				begins, paired, ends := 0, 0, 0
				isBegin := func(n ast.Node) string {
					var found string
					ast.Inspect(n, func(m ast.Node) bool {
						if c, ok := m.(*ast.CallExpr); ok {
							src := x.Src(c.Fun)
							for _, b := range []string{"BeginReadBlocking", "BeginRead", "BeginWriteBlocking", "BeginWrite"} {
								if strings.HasSuffix(src, "mrsw."+b) {
									found = b
									return false
								}
							}
						}
						return true
					})
					return found
				}
				var visit func(list []ast.Stmt)
				visit = func(list []ast.Stmt) {
					for i, st := range list {
						// only the statement itself (for an if: its Init), not nested blocks
						var probe ast.Node
						switch t := st.(type) {
						case *ast.IfStmt:
							if t.Init != nil {
								probe = t.Init
							}
						case *ast.ExprStmt:
							probe = t
						}
						if probe != nil {
							if b := isBegin(probe); b != "" {
								if _, isDefer := st.(*ast.DeferStmt); !isDefer {
									begins++
									want := "EndRead"
									if strings.HasPrefix(b, "BeginWrite") {
										want = "EndWrite"
									}
									if i+1 < len(list) {
										if ds, ok := list[i+1].(*ast.DeferStmt); ok && strings.HasSuffix(x.Src(ds.Call.Fun), "mrsw."+want) {
											paired++
										}
									}
								}
							}
						}
					}
				}
				ast.Inspect(fd.Body, func(n ast.Node) bool {
					if b, ok := n.(*ast.BlockStmt); ok {
						visit(b.List)
					}
					if c, ok := n.(*ast.CallExpr); ok {
						src := x.Src(c.Fun)
						if strings.HasSuffix(src, "mrsw.EndRead") || strings.HasSuffix(src, "mrsw.EndWrite") {
							ends++
						}
					}
					return true
				})
				if begins+ends > 0 {
					lockUse = append(lockUse, fmt.Sprintf("(%s, %d, %d, %d)", LeanStr(name), begins, paired, ends-paired))
				}
			}
		}
		sort.Strings(lockUse)
		x.Comment("snapshot/: per function (name, lock acquisitions, acquisitions directly followed by the matching deferred release, other releases)")
		x.Raw("def lockUse : List (String × Nat × Nat × Nat) := [" + strings.Join(lockUse, ", ") + "]")

		x.Comment("snapshot/store.go lock brackets")
		x.DefBool("streamerReadFound", readFound)
		x.Raw("def streamerReadTimerCalls : Nat := " + itoa(readTimerCalls))
		x.DefBool("reapTakesWriteLockFirstAndDefersRelease", reapBracket)
		x.DefBool("reapLoopBracketsReapWithBlockingWriteLock", loopBracket)
		x.DefBool("openTakesReadLockFirst", openFirst)
		x.DefBool("openReleasesReadLockOnlyOnError", openEndOnlyOnErr)
		x.DefBool("openHandsLockToLockingStreamer", openHandsOver)
		x.DefStrings("reapCallers", callers)

		// C31: every user of the store's snapshot gate takes it itself, unconditionally
		var gateSites, ownerReads []string
		for _, f := range x.Pkg("store") {
			for _, d := range f.Decls {
				fd, ok := d.(*ast.FuncDecl)
				if !ok || fd.Body == nil {
					continue
				}
				var stack []ast.Node
				ast.Inspect(fd.Body, func(n ast.Node) bool {
					if n == nil {
						stack = stack[:len(stack)-1]
						return true
					}
					if c, ok := n.(*ast.CallExpr); ok {
						src := x.Src(c.Fun)
						if src == "s.snapshotCAS.Begin" || src == "s.snapshotCAS.BeginWithRetry" {
							cond := false
							for _, a := range stack {
								if is, ok := a.(*ast.IfStmt); ok && is.Cond != nil && strings.Contains(x.Src(is.Cond), "snapshotCAS") {
									// the acquiring `if err := ...Begin(); err != nil` itself has the call in Init, not in Cond
									cond = true
								}
							}
							owner := ""
							if len(c.Args) > 0 {
								owner = x.Src(c.Args[0])
							}
							gateSites = append(gateSites, fd.Name.Name+":"+strings.TrimPrefix(src, "s.snapshotCAS.")+":"+owner+":conditional="+boolStr(cond))
						}
						if src == "s.snapshotCAS.Owner" {
							ownerReads = append(ownerReads, fd.Name.Name)
						}
					}
					stack = append(stack, n)
					return true
				})
			}
		}
		sort.Strings(gateSites)
		sort.Strings(ownerReads)
		x.Comment("store/: every acquisition of s.snapshotCAS (function:call:owner:conditional on the gate's state?) and every reader of its owner")
		x.DefStrings("gateAcquisitions", gateSites)
		x.DefStrings("gateOwnerReaders", ownerReads)

		// C31: contents of the BeginWithRetry loop
		var loop []string
		if fd := x.Func("internal/rsync", "CheckAndSet", "BeginWithRetry"); fd != nil {
			for _, st := range fd.Body.List {
				if fs, ok := st.(*ast.ForStmt); ok && fs.Cond == nil {
					for _, b := range fs.Body.List {
						switch t := b.(type) {
						case *ast.AssignStmt:
							loop = append(loop, x.Src(t))
						case *ast.IfStmt:
							loop = append(loop, "if "+x.Src(t.Cond))
						case *ast.ExprStmt:
							loop = append(loop, x.Src(t.X))
						default:
							loop = append(loop, "other")
						}
					}
				} else if as, ok := st.(*ast.AssignStmt); ok {
					loop = append(loop, "before: "+x.Src(as))
				}
			}
		}
		x.Comment("internal/rsync/cas.go BeginWithRetry: statement before the loop and the loop body, in order")
		x.DefStrings("beginWithRetryBody", loop)
	})
}


func boolStr(b bool) string {
	if b {
		return "true"
	}
	return "false"
}

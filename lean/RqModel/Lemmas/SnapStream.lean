/-
Helper lemmas about the snapshot stream model (used by Props/C10 and Props/C12).
-/
import RqModel.Model.SnapStream
namespace RqModel.SnapStream

theorem drop_append_ge (x y : Bytes) (n : Nat) (h : x.length ≤ n) :
    (x ++ y).drop n = y.drop (n - x.length) := by
  rw [List.drop_append]; simp [List.drop_eq_nil_of_le h]

theorem take_append_ge (x y : Bytes) (n : Nat) (h : x.length ≤ n) :
    (x ++ y).take n = x ++ y.take (n - x.length) := by
  rw [List.take_append]; simp [List.take_of_length_le h]

theorem fullWrite_append : ∀ (todo : List FileHdr) (h : FileHdr) (cur : Bytes) (done : List Bytes) (x y : Bytes),
    y ≠ [] →
    fullWrite h cur todo done (x ++ y) =
      (fullWrite h cur todo done x).bind (fun st => fullWriteSt st y) := by
  intro todo
  induction todo with
  | nil =>
    intro h cur done x y hy0
    by_cases hx : x = []
    · subst hx; simp [fullWrite, fullWriteSt, Except.bind]
    · by_cases hlt : x.length < h.size - cur.length
      · -- x does not complete the artifact
        by_cases hy : y = []
        · subst hy; simp [fullWrite, fullWriteSt, Except.bind, hx, hlt]
        · have hxy : x ++ y ≠ [] := by simp [hx]
          simp only [fullWrite, hx, hxy, hlt, if_false, if_true, Except.bind, fullWriteSt, hy,
            List.length_append]
          by_cases h2 : x.length + y.length < h.size - cur.length
          · have : y.length < h.size - (cur.length + x.length) := by omega
            simp [h2, this, List.append_assoc]
          · have : ¬ y.length < h.size - (cur.length + x.length) := by omega
            simp only [h2, this, if_false]
            rw [drop_append_ge x y _ (by omega), take_append_ge x y _ (by omega)]
            have e : h.size - cur.length - x.length = h.size - (cur.length + x.length) := by omega
            simp [e, List.append_assoc]
      · -- x completes it
        have hxy : x ++ y ≠ [] := by simp [hx]
        have hge : ¬ (x ++ y).length < h.size - cur.length := by simp; omega
        simp only [fullWrite, hx, hxy, hlt, hge, if_false, Except.bind]
        by_cases hd : x.drop (h.size - cur.length) = []
        · have hxl : x.length = h.size - cur.length := by
            have := List.drop_eq_nil_iff.1 hd; omega
          simp only [hd, if_true, fullWriteSt]
          rw [drop_append_ge x y _ (by omega), take_append_ge x y _ (by omega)]
          simp [hxl]
          simp [hy0]
        · have : (x ++ y).drop (h.size - cur.length) ≠ [] := by
            rw [List.drop_append]; simp [hd]
          simp [hd, this]
  | cons h' t ih =>
    intro h cur done x y hy0
    by_cases hx : x = []
    · subst hx; simp [fullWrite, fullWriteSt, Except.bind]
    · by_cases hlt : x.length < h.size - cur.length
      · by_cases hy : y = []
        · subst hy; simp [fullWrite, fullWriteSt, Except.bind, hx, hlt]
        · have hxy : x ++ y ≠ [] := by simp [hx]
          simp only [fullWrite, hx, hxy, hlt, if_false, if_true, Except.bind, fullWriteSt, hy,
            List.length_append]
          by_cases h2 : x.length + y.length < h.size - cur.length
          · have : y.length < h.size - (cur.length + x.length) := by omega
            simp [h2, this, List.append_assoc]
          · have : ¬ y.length < h.size - (cur.length + x.length) := by omega
            simp only [h2, this, if_false]
            rw [drop_append_ge x y _ (by omega), take_append_ge x y _ (by omega)]
            have e : h.size - cur.length - x.length = h.size - (cur.length + x.length) := by omega
            simp [e, List.append_assoc]
      · have hxy : x ++ y ≠ [] := by simp [hx]
        have hge : ¬ (x ++ y).length < h.size - cur.length := by simp; omega
        simp only [fullWrite, hx, hxy, hlt, hge, if_false]
        have e1 : (x ++ y).drop (h.size - cur.length) = x.drop (h.size - cur.length) ++ y := by
          rw [List.drop_append]
          have : h.size - cur.length - x.length = 0 := by omega
          simp [this]
        have e2 : (x ++ y).take (h.size - cur.length) = x.take (h.size - cur.length) := by
          rw [List.take_append]
          have : h.size - cur.length - x.length = 0 := by omega
          simp [this]
        rw [e1, e2]
        exact ih h' [] _ _ y hy0

theorem fullWriteSt_append (st : FullSt) (x y : Bytes) (hy : y ≠ []) :
    fullWriteSt st (x ++ y) = (fullWriteSt st x).bind (fun st' => fullWriteSt st' y) := by
  cases st with
  | writing h cur todo done => exact fullWrite_append todo h cur done x y hy
  | finished done => simp [fullWriteSt, Except.bind]

theorem be32_append (s e : Bytes) (h : 4 ≤ s.length) : be32 (s ++ e) = be32 s := by
  rcases s with _ | ⟨a, _ | ⟨b, _ | ⟨c, _ | ⟨d, t⟩⟩⟩⟩ <;> simp [be32] at h ⊢

theorem be32_take (s : Bytes) (k : Nat) (h : 4 ≤ k) : be32 (s.take k) = be32 s := by
  obtain ⟨j, rfl⟩ : ∃ j, k = j + 4 := ⟨k - 4, by omega⟩
  rcases s with _ | ⟨a, _ | ⟨b, _ | ⟨c, _ | ⟨d, t⟩⟩⟩⟩ <;> simp [be32, List.take]

/-- one Write of `a ++ b` is a Write of `a` followed by a Write of `b` (both non-empty) -/
theorem sinkWrite_append (E : Ext) (due : Bool) (s : SinkSt) (a b : Bytes) (ha : a ≠ []) (hb : b ≠ []) :
    sinkWrite E due s (a ++ b) = (sinkWrite E due s a).bind (fun s' => sinkWrite E due s' b) := by
  cases s with
  | incremental d => simp [sinkWrite, Except.bind]
  | full dbh walhs st =>
    simp only [sinkWrite, fullWriteSt_append st a b hb]
    cases fullWriteSt st a with
    | error e => simp [Except.bind]
    | ok st' => simp [Except.bind, sinkWrite]
  | header buf =>
    simp only [sinkWrite]
    rw [← List.append_assoc]
    generalize hB : buf ++ a = B
    by_cases h1 : B.length < 4
    · simp [h1, Except.bind, sinkWrite]
    · by_cases h2 : B.length < 4 + be32 B
      · simp [h1, h2, Except.bind, sinkWrite]
      · -- the header is complete after `a`
        have h1' : ¬ (B ++ b).length < 4 := by simp; omega
        have hn : be32 (B ++ b) = be32 B := be32_append B b (by omega)
        have h2' : ¬ (B ++ b).length < 4 + be32 B := by simp; omega
        have hhb : ((B ++ b).drop 4).take (be32 B) = (B.drop 4).take (be32 B) := by
          rw [List.drop_append_of_le_length (by omega), List.take_append_of_le_length]
          simp only [List.length_drop]; omega
        have hrest : (B ++ b).drop (4 + be32 B) = B.drop (4 + be32 B) ++ b :=
          List.drop_append_of_le_length (by omega)
        simp only [h1, h2, h1', hn, h2', hhb, hrest, if_false]
        cases E.decode ((B.drop 4).take (be32 B)) with
        | none => simp [Except.bind]
        | some hd =>
          simp only
          by_cases hv : hd.version ≠ 1
          · simp [hv, Except.bind]
          · simp only [hv, if_false]
            cases hd.payload with
            | none => simp [Except.bind]
            | incremental dir =>
              simp only
              by_cases hdue : due = true
              · simp [hdue, Except.bind]
              · simp only [hdue, Bool.false_eq_true, if_false]
                by_cases hr : B.drop (4 + be32 B) = []
                · simp [hr, hb, Except.bind, sinkWrite]
                · simp [hr, Except.bind]
            | full odb walhs =>
              cases odb with
              | none => simp [Except.bind]
              | some dbh =>
                simp only [fullWrite_append _ _ _ _ _ _ hb]
                cases fullWrite dbh [] walhs [] (B.drop (4 + be32 B)) with
                | error e => simp [Except.bind]
                | ok st => simp [Except.bind, sinkWrite]

theorem runSink_merge (E : Ext) (due : Bool) (s : SinkSt) (a b : Bytes) (rest : List Bytes)
    (ha : a ≠ []) (hb : b ≠ []) :
    runSink E due s (a :: b :: rest) = runSink E due s ((a ++ b) :: rest) := by
  simp only [runSink, sinkWrite_append E due s a b ha hb]
  cases sinkWrite E due s a with
  | error e => simp [Except.bind]
  | ok s' => simp [Except.bind]

/-- any split into non-empty writes behaves like the single write of the whole stream -/
theorem runSink_flatten (E : Ext) (due : Bool) : ∀ (n : Nat) (ws : List Bytes) (s : SinkSt),
    ws.length = n → ws ≠ [] → (∀ w ∈ ws, w ≠ []) → runSink E due s ws = runSink E due s [ws.flatten] := by
  intro n
  induction n with
  | zero => intro ws s hl hne; simp at hl; exact absurd hl hne
  | succ n ih =>
    intro ws s hl hne hall
    match ws, hl, hne, hall with
    | [a], _, _, _ => simp
    | a :: b :: rest, hl, _, hall =>
      have ha : a ≠ [] := hall a (by simp)
      have hb : b ≠ [] := hall b (by simp)
      rw [runSink_merge E due s a b rest ha hb]
      have := ih ((a ++ b) :: rest) s (by simpa using hl) (by simp) (by
        intro w hw
        rcases List.mem_cons.1 hw with h | h
        · subst h; simp [ha]
        · exact hall w (by simp [h]))
      rw [this]; simp [List.append_assoc]


/-! ### FullSink: what a finalizable state contains -/

/-- file `i` has exactly the size its header announces, and there are as many files as headers -/
inductive SizesMatch : List Bytes → List FileHdr → Prop
  | nil : SizesMatch [] []
  | cons {f : Bytes} {h : FileHdr} {fs : List Bytes} {hs : List FileHdr} :
      f.length = h.size → SizesMatch fs hs → SizesMatch (f :: fs) (h :: hs)

/-- soundness: if the sink can be finalized after writing `p`, the files are the completed
ones followed by files of exactly the announced sizes whose concatenation is `cur ++ p` -/
theorem fullWrite_finalize_sound : ∀ (todo : List FileHdr) (h : FileHdr) (cur : Bytes) (done : List Bytes)
    (p : Bytes) (st : FullSt) (files : List Bytes),
    cur.length ≤ h.size → fullWrite h cur todo done p = .ok st → fullFinalize st = some files →
    ∃ fs, files = done ++ fs ∧ fs.flatten = cur ++ p ∧ SizesMatch fs (h :: todo) := by
  intro todo
  induction todo with
  | nil =>
    intro h cur done p st files hc hw hf
    simp only [fullWrite] at hw
    split at hw
    · rename_i hp
      obtain rfl := Except.ok.inj hw
      simp only [fullFinalize] at hf
      split at hf
      · rename_i hl
        obtain rfl := Option.some.inj hf
        exact ⟨[cur], rfl, by simp [hp], .cons hl .nil⟩
      · cases hf
    · split at hw
      · rename_i hlt
        obtain rfl := Except.ok.inj hw
        simp only [fullFinalize] at hf
        split at hf
        · rename_i hl; simp at hl; omega
        · cases hf
      · rename_i hge
        split at hw
        · rename_i hd
          obtain rfl := Except.ok.inj hw
          simp only [fullFinalize] at hf
          obtain rfl := Option.some.inj hf
          have hpl : p.length ≤ h.size - cur.length := by
            have := List.drop_eq_nil_iff.1 hd; omega
          have ht : p.take (h.size - cur.length) = p := List.take_of_length_le hpl
          refine ⟨[cur ++ p], by simp [ht], by simp, .cons ?_ .nil⟩
          simp; omega
        · cases hw
  | cons h' t ih =>
    intro h cur done p st files hc hw hf
    simp only [fullWrite] at hw
    split at hw
    · obtain rfl := Except.ok.inj hw
      simp [fullFinalize] at hf
    · split at hw
      · obtain rfl := Except.ok.inj hw
        simp [fullFinalize] at hf
      · rename_i hp hge
        obtain ⟨fs', e1, e2, e3⟩ := ih h' [] _ _ st files (by simp) hw hf
        refine ⟨(cur ++ p.take (h.size - cur.length)) :: fs', by simp [e1], ?_, .cons ?_ e3⟩
        · simp only [List.flatten_cons, e2, List.nil_append, List.append_assoc, List.take_append_drop]
        · simp only [List.length_append, List.length_take]; omega

/-- completeness: files of the announced, non-zero sizes written in one go leave the sink
finalizable with exactly those files -/
theorem fullWrite_finalize_complete : ∀ (todo : List FileHdr) (h : FileHdr) (cur q : Bytes) (done : List Bytes)
    (frest : List Bytes),
    SizesMatch ((cur ++ q) :: frest) (h :: todo) → (∀ f ∈ frest, f ≠ []) →
    ∃ st, fullWrite h cur todo done (q ++ frest.flatten) = .ok st ∧
      fullFinalize st = some (done ++ (cur ++ q) :: frest) := by
  intro todo
  induction todo with
  | nil =>
    intro h cur q done frest hs _
    cases hs with
    | cons h0 hr =>
      cases hr
      simp only [List.flatten_nil, List.append_nil]
      by_cases hq : q = []
      · subst hq
        refine ⟨.writing h cur [] done, by simp [fullWrite], ?_⟩
        simp at h0
        simp [fullFinalize, h0]
      · have hn : h.size - cur.length = q.length := by simp at h0; omega
        refine ⟨.finished (done ++ [cur ++ q]), ?_, by simp [fullFinalize]⟩
        simp [fullWrite, hq, hn]
  | cons h' t ih =>
    intro h cur q done frest hs hne
    cases hs with
    | cons h0 hr =>
      cases frest with
      | nil => cases hr
      | cons f1 fr =>
        have hf1 : f1 ≠ [] := hne f1 (by simp)
        have hn : h.size - cur.length = q.length := by simp at h0; omega
        have hp : q ++ (f1 :: fr).flatten ≠ [] := by simp [hf1]
        obtain ⟨st, e1, e2⟩ := ih h' [] f1 (done ++ [cur ++ q]) fr (by simpa using hr)
          (fun f hf => hne f (by simp [hf]))
        refine ⟨st, ?_, by simpa using e2⟩
        simp only [fullWrite, hp, if_false, hn]
        have : ¬ (q ++ (f1 :: fr).flatten).length < q.length := by simp
        simp only [this, if_false]
        have t1 : (q ++ (f1 :: fr).flatten).take q.length = q := by simp
        have t2 : (q ++ (f1 :: fr).flatten).drop q.length = f1 ++ fr.flatten := by simp
        rw [t1, t2]; simpa using e1

/-! ### Restore of well-formed WAL sections -/

theorem restoreWals_complete (E : Ext) : ∀ (hs : List FileHdr) (ws : List Bytes) (r : Bytes),
    SizesMatch ws hs → (∀ p ∈ ws.zip hs, E.crc p.1 = p.2.crc) →
    restoreWals E hs (ws.flatten ++ r) = .ok (ws, r) := by
  intro hs
  induction hs with
  | nil => intro ws r h _; cases h; simp [restoreWals]
  | cons hd tl ih =>
    intro ws r h hc
    cases h with
    | cons h0 hr =>
      rename_i w wt
      have hcw : E.crc w = hd.crc := hc (w, hd) (by simp)
      have := ih wt r hr (fun p hp => hc p (by simp [hp]))
      simp only [restoreWals, List.flatten_cons, List.append_assoc]
      have l1 : ¬ (w ++ (wt.flatten ++ r)).length < hd.size := by simp; omega
      have t1 : (w ++ (wt.flatten ++ r)).take hd.size = w := by
        rw [← h0]; simp
      have t2 : (w ++ (wt.flatten ++ r)).drop hd.size = wt.flatten ++ r := by
        rw [← h0]; simp
      simp [t1, t2, hcw, this]; omega


theorem restoreWals_sound (E : Ext) : ∀ (hs : List FileHdr) (s : Bytes) (ws : List Bytes) (r : Bytes),
    restoreWals E hs s = .ok (ws, r) →
      s = ws.flatten ++ r ∧ SizesMatch ws hs ∧ ∀ p ∈ ws.zip hs, E.crc p.1 = p.2.crc := by
  intro hs
  induction hs with
  | nil =>
    intro s ws r h
    simp [restoreWals] at h
    obtain ⟨rfl, rfl⟩ := h
    exact ⟨by simp, .nil, by simp⟩
  | cons hd tl ih =>
    intro s ws r h
    simp only [restoreWals] at h
    split at h
    · cases h
    rename_i h1
    split at h
    · cases h
    rename_i h2
    split at h
    · cases h
    rename_i ws' r' hr
    obtain ⟨rfl, rfl⟩ := Prod.mk.inj (Except.ok.inj h)
    obtain ⟨e1, e2, e3⟩ := ih _ _ _ hr
    refine ⟨?_, .cons (by simp only [List.length_take]; omega) e2, ?_⟩
    · simp only [List.flatten_cons, List.append_assoc]
      rw [← e1, List.take_append_drop]
    · intro p hp
      simp only [List.zip_cons_cons, List.mem_cons] at hp
      rcases hp with rfl | hp
      · simpa using h2
      · exact e3 p hp

theorem SizesMatch.flatten_length : ∀ {fs : List Bytes} {hs : List FileHdr}, SizesMatch fs hs →
    fs.flatten.length = (hs.map (·.size)).sum := by
  intro fs hs h
  induction h with
  | nil => rfl
  | cons h0 _ ih => simp [h0, ih]


theorem verify_ok (E : Ext) (dbh : FileHdr) (walhs : List FileHdr) (files : List Bytes) (db : Bytes) (wals : List Bytes)
    (h : fullVerify E dbh walhs files = .ok (db, wals)) :
    files = db :: wals ∧ E.validDb db = true ∧ wals.all E.validWal = true ∧ E.crc db = dbh.crc ∧
    ∀ p ∈ wals.zip walhs, E.crc p.1 = p.2.crc := by
  unfold fullVerify at h
  split at h
  · cases h
  rename_i d ws
  split at h
  · cases h
  rename_i h1
  split at h
  · cases h
  rename_i h2
  split at h
  · cases h
  rename_i h3
  split at h
  · cases h
  rename_i h4
  obtain ⟨rfl, rfl⟩ := Prod.mk.inj (Except.ok.inj h)
  refine ⟨rfl, by simpa using h1, by simpa using h2, by simpa using h3, ?_⟩
  intro p hp
  have := h4
  simp only [List.any_eq_true, not_exists, not_and] at this
  have := this p hp
  simpa using this

theorem install_cases (E : Ext) (due : Bool) (s db : Bytes) (wals : List Bytes)
    (h : install E due [s] = .installed db wals) :
    ∃ (dbh : FileHdr) (walhs : List FileHdr) (st : FullSt) (files : List Bytes),
      4 ≤ s.length ∧ 4 + be32 s ≤ s.length ∧
      E.decode ((s.drop 4).take (be32 s)) = some ⟨1, .full (some dbh) walhs⟩ ∧
      fullWrite dbh [] walhs [] (s.drop (4 + be32 s)) = .ok st ∧
      fullFinalize st = some files ∧ fullVerify E dbh walhs files = .ok (db, wals) := by
  simp only [install, runSink, sinkWrite, List.nil_append] at h
  split at h
  · cases h
  rename_i s' hs
  split at hs
  · cases hs; simp [sinkClose] at h
  rename_i h1
  split at hs
  · cases hs; simp [sinkClose] at h
  rename_i h2
  split at hs
  · cases hs
  rename_i hdr hd
  split at hs
  · cases hs
  rename_i hv
  split at hs
  · cases hs
  · split at hs
    · cases hs
    split at hs
    · cases hs
    · cases hs; simp [sinkClose] at h
  · cases hs
  rename_i dbh walhs hp
  split at hs
  · cases hs
  rename_i st hw
  obtain rfl := Except.ok.inj hs
  simp only [sinkClose] at h
  split at h
  · cases h
  rename_i files hf
  split at h
  · cases h
  rename_i d w hvf
  obtain ⟨rfl, rfl⟩ := Outcome.installed.inj h
  have hv' : hdr.version = 1 := by simpa using hv
  refine ⟨dbh, walhs, st, files, by omega, by omega, ?_, hw, hf, hvf⟩
  rw [hd]; cases hdr; simp_all


theorem u8' (a : Nat) (h : a < 256) : (UInt8.ofNat a).toNat = a := by
  simp [UInt8.toNat_ofNat', Nat.mod_eq_of_lt h]

theorem be32_enc32_append' (n : Nat) (x : Bytes) (h : n < 4294967296) : be32 (enc32 n ++ x) = n := by
  simp only [enc32, List.cons_append, List.nil_append, be32]
  rw [u8' _ (Nat.mod_lt _ (by decide)), u8' _ (Nat.mod_lt _ (by decide)), u8' _ (Nat.mod_lt _ (by decide)),
    u8' _ (Nat.mod_lt _ (by decide))]
  omega

/-- the header entry the streamer writes for a file -/
def hdrFor (E : Ext) (f : Bytes) : FileHdr := ⟨f.length, E.crc f⟩

theorem sizesMatch_hdrFor (E : Ext) : ∀ ws : List Bytes, SizesMatch ws (ws.map (hdrFor E)) := by
  intro ws
  induction ws with
  | nil => exact .nil
  | cons w t ih => exact .cons rfl ih

theorem crc_hdrFor (E : Ext) : ∀ (ws : List Bytes), ∀ p ∈ ws.zip (ws.map (hdrFor E)), E.crc p.1 = p.2.crc := by
  intro ws
  induction ws with
  | nil => intro p hp; simp at hp
  | cons w t ih =>
    intro p hp
    simp only [List.map_cons, List.zip_cons_cons, List.mem_cons] at hp
    rcases hp with rfl | hp
    · rfl
    · exact ih p hp

/-- a framed stream whose header announces exactly the sizes and CRCs of the files restores -/
theorem frame_restores_gen (E : Ext) (hb db : Bytes) (wals : List Bytes) (dbh : FileHdr) (walhs : List FileHdr)
    (hl : hb.length < 4294967296)
    (hd : E.decode hb = some ⟨1, .full (some dbh) walhs⟩)
    (hsz : db.length = dbh.size) (hcrc : E.crc db = dbh.crc)
    (hws : SizesMatch wals walhs) (hwc : ∀ p ∈ wals.zip walhs, E.crc p.1 = p.2.crc) :
    restore E (frame hb (db :: wals)) = .ok db wals := by
  have hs : frame hb (db :: wals) = enc32 hb.length ++ (hb ++ (db ++ wals.flatten)) := by
    simp [frame, List.append_assoc]
  rw [hs]
  have hn : be32 (enc32 hb.length ++ (hb ++ (db ++ wals.flatten))) = hb.length := be32_enc32_append' _ _ hl
  have D4 : ∀ (a : Nat) (x : Bytes), (enc32 a ++ x).drop 4 = x := by intros; simp [enc32]
  have L4 : ∀ (a : Nat), (enc32 a).length = 4 := fun _ => rfl
  simp only [restore, hn]
  rw [if_neg (by simp [L4]), if_neg (by simp [L4])]
  have e1 : ((enc32 hb.length ++ (hb ++ (db ++ wals.flatten))).drop 4).take hb.length = hb := by
    rw [D4]; simp
  have e2 : (enc32 hb.length ++ (hb ++ (db ++ wals.flatten))).drop (4 + hb.length) = db ++ wals.flatten := by
    rw [← List.drop_drop, D4]; simp
  rw [e1, hd, e2]
  have t1 : (db ++ wals.flatten).take dbh.size = db := List.take_left' hsz
  have t2 : (db ++ wals.flatten).drop dbh.size = wals.flatten := List.drop_left' hsz
  have t3 : ¬ (db ++ wals.flatten).length < dbh.size := by simp; omega
  have t4 : ¬ E.crc db ≠ dbh.crc := by simp [hcrc]
  have := restoreWals_complete E walhs wals [] hws hwc
  simp only [List.append_nil] at this
  simp only [ne_eq, not_true_eq_false, if_false]
  rw [if_neg t3, t1, if_neg t4, t2, this]
  simp

theorem frame_restores (E : Ext) (hb db : Bytes) (wals : List Bytes) (hl : hb.length < 4294967296)
    (hd : E.decode hb = some ⟨1, .full (some (hdrFor E db)) (wals.map (hdrFor E))⟩) :
    restore E (frame hb (db :: wals)) = .ok db wals :=
  frame_restores_gen E hb db wals _ _ hl hd rfl rfl (sizesMatch_hdrFor E wals) (crc_hdrFor E wals)


theorem be64_enc64_append (n : Nat) (x : Bytes) (h : n < 18446744073709551616) : be64 (enc64 n ++ x) = n := by
  have hlo : n % 4294967296 < 4294967296 := Nat.mod_lt _ (by decide)
  have hhi : n / 4294967296 % 4294967296 < 4294967296 := Nat.mod_lt _ (by decide)
  have e : enc64 n ++ x = enc32 (n / 4294967296 % 4294967296) ++ (enc32 (n % 4294967296) ++ x) := by
    simp [enc64, List.append_assoc]
  rw [e]
  have hb : ∀ (a : Nat) (y : Bytes), a < 4294967296 → be64 (enc32 a ++ y) = a * 4294967296 + be32 y := by
    intro a y ha
    have := be32_enc32_append' a [] ha
    simp only [enc32, List.cons_append, List.nil_append, List.append_nil, be32] at this
    simp only [enc32, List.cons_append, List.nil_append, be64]
    rw [this]
  rw [hb _ _ hhi, be32_enc32_append' _ _ hlo]
  omega

structure Zstd.Lawful (Z : Zstd) : Prop where
  /-- a frame is self-delimiting: it decodes to its content whatever follows it -/
  roundtrip : ∀ x t, Z.dec (Z.comp x ++ t) = (x, true)
  /-- a frame cut short never ends cleanly and yields at most a prefix of its content -/
  truncated : ∀ x k, k < (Z.comp x).length → (Z.dec ((Z.comp x).take k)).2 = false ∧ (Z.dec ((Z.comp x).take k)).1 <+: x

theorem enc64_length (n : Nat) : (enc64 n).length = 8 := rfl

/-- **transport_transparent.** When the compressed wire form fits into the `req.Size` bytes raft
lets the receiver read, the receiver sees exactly the payload, without error. -/
theorem transport_transparent (Z : Zstd) (hZ : Z.Lawful) (p : Bytes) (hp : p.length < 9223372036854775808)
    (hfit : (sendWire Z p.length p).length ≤ p.length) :
    recvWire Z p.length (sendWire Z p.length p) = ⟨p, false⟩ := by
  have ht : (sendWire Z p.length p).take p.length = sendWire Z p.length p := List.take_of_length_le hfit
  simp only [recvWire, ht]
  have hne : sendWire Z p.length p ≠ [] := by simp [sendWire, enc64, enc32]
  have hl8 : ¬ (sendWire Z p.length p).length < 8 := by simp [sendWire, enc64_length]
  rw [if_neg hne, if_neg hl8]
  have hn : be64 (sendWire Z p.length p) = p.length := be64_enc64_append _ _ (by omega)
  have hd : (sendWire Z p.length p).drop 8 = Z.comp p := by
    simp only [sendWire]; exact List.drop_left' (enc64_length _)
  rw [hn, hd]
  have := hZ.roundtrip p []
  simp only [List.append_nil] at this
  rw [this, if_neg (by omega)]
  simp

/-! ### a lawful codec: every byte escaped by a 0, the frame ended by a 1 -/

def escComp (x : Bytes) : Bytes := x.flatMap (fun b => [0, b]) ++ [1]

def escDec : Bytes → Bytes × Bool
  | 0 :: b :: rest => let r := escDec rest; (b :: r.1, r.2)
  | 1 :: _ => ([], true)
  | _ => ([], false)

def escZ : Zstd := ⟨escComp, escDec⟩

theorem escDec_comp : ∀ (x t : Bytes), escDec (escComp x ++ t) = (x, true) := by
  intro x
  induction x with
  | nil => intro t; simp [escComp, escDec]
  | cons b r ih =>
    intro t
    have : escComp (b :: r) ++ t = 0 :: b :: (escComp r ++ t) := by simp [escComp]
    rw [this]
    simp only [escDec, ih]

theorem escDec_truncated : ∀ (x : Bytes) (k : Nat), k < (escComp x).length →
    (escDec ((escComp x).take k)).2 = false ∧ (escDec ((escComp x).take k)).1 <+: x := by
  intro x
  induction x with
  | nil =>
    intro k hk
    have : k = 0 := by simp [escComp] at hk; omega
    subst this
    simp [escDec]
  | cons b r ih =>
    intro k hk
    have e : escComp (b :: r) = 0 :: b :: escComp r := by simp [escComp]
    rw [e] at hk ⊢
    match k, hk with
    | 0, _ => simp [escDec]
    | 1, _ => simp [escDec]
    | j + 2, hk =>
      have := ih j (by simpa using hk)
      simp only [List.take_succ_cons, escDec]
      exact ⟨this.1, (List.prefix_cons_inj b).2 this.2⟩

theorem escZ_lawful : escZ.Lawful := ⟨escDec_comp, escDec_truncated⟩

/-- **oversize**: when the wire form is longer than `req.Size`, what raft's LimitReader lets
through is a truncated frame; by the truncation law the receiver either gets the whole payload
after all (only the frame's trailing bytes were cut) or an error — never other bytes -/
theorem recv_oversize (Z : Zstd) (hZ : Z.Lawful) (p : Bytes) (hp : p.length < 9223372036854775808)
    (h8 : 8 ≤ p.length) (hover : p.length < (sendWire Z p.length p).length) :
    recvWire Z p.length (sendWire Z p.length p) = ⟨p, false⟩ ∨
    (recvWire Z p.length (sendWire Z p.length p)).err = true := by
  have hraw : (sendWire Z p.length p).take p.length = enc64 p.length ++ (Z.comp p).take (p.length - 8) := by
    simp only [sendWire]
    rw [List.take_append, enc64_length]
    congr 1
    exact List.take_of_length_le (by simp [enc64_length]; omega)
  have hk : p.length - 8 < (Z.comp p).length := by
    simp only [sendWire, List.length_append, enc64_length] at hover; omega
  obtain ⟨t1, t2⟩ := hZ.truncated p (p.length - 8) hk
  simp only [recvWire, hraw]
  have hne : enc64 p.length ++ (Z.comp p).take (p.length - 8) ≠ [] := by simp [enc64, enc32]
  have hl8 : ¬ (enc64 p.length ++ (Z.comp p).take (p.length - 8)).length < 8 := by simp [enc64_length]
  rw [if_neg hne, if_neg hl8, be64_enc64_append _ _ (by omega), List.drop_left' (enc64_length _),
    if_neg (by omega)]
  by_cases hle : p.length ≤ (Z.dec ((Z.comp p).take (p.length - 8))).1.length
  · left
    rw [if_pos hle]
    have : (Z.dec ((Z.comp p).take (p.length - 8))).1 = p := by
      obtain ⟨t, ht⟩ := t2
      have hl := congrArg List.length ht
      simp only [List.length_append] at hl
      have : t = [] := List.length_eq_zero_iff.1 (by omega)
      rw [this, List.append_nil] at ht
      exact ht
    rw [this]; simp
  · right
    rw [if_neg hle]; simp [t1]

/-! a lawful codec that compresses one payload (twenty 7s → one byte), to show the "fits"
hypothesis of the transparency theorem is satisfiable together with the laws -/

def sevens : Bytes := List.replicate 20 7

def tinyZ : Zstd where
  comp x := if x = sevens then [2] else escComp x
  dec w := match w with
    | 2 :: _ => (sevens, true)
    | _ => escDec w

theorem escComp_head (x : Bytes) : ∃ h t, escComp x = h :: t ∧ h ≠ 2 := by
  cases x with
  | nil => exact ⟨1, [], rfl, by decide⟩
  | cons b r => exact ⟨0, b :: escComp r, by simp [escComp], by decide⟩

theorem tinyZ_lawful : tinyZ.Lawful := by
  constructor
  · intro x t
    by_cases hx : x = sevens
    · simp [tinyZ, hx]
    · obtain ⟨h, tl, e, hne⟩ := escComp_head x
      have := escDec_comp x t
      simp only [tinyZ, hx, if_false]
      rw [e] at this ⊢
      simp only [List.cons_append] at this ⊢
      split
      · rename_i heq; simp at heq; exact absurd heq.1 hne
      · exact this
  · intro x k hk
    by_cases hx : x = sevens
    · simp only [tinyZ, hx, if_true] at hk ⊢
      have : k = 0 := by simpa using hk
      subst this
      simp [escDec]
    · simp only [tinyZ, hx, if_false] at hk ⊢
      have := escDec_truncated x k hk
      obtain ⟨h, tl, e, hne⟩ := escComp_head x
      rw [e] at this ⊢
      cases k with
      | zero => simpa using this
      | succ j =>
        simp only [List.take_succ_cons] at this ⊢
        split
        · rename_i heq; simp at heq; exact absurd heq.1 hne
        · exact this

end RqModel.SnapStream

/-
Helper lemmas for C18/C35: the command-case semantics of Model/Wire.lean depends
on the environment only through the atoms the case mentions, so a check over all
subsets of those atoms decides a statement about every environment.
-/
import RqModel.Model.Wire
namespace RqModel.Wire
open RqModel.Gen.ClusterCmds

theorem mem_dedup (a : Atom) (l : List Atom) : a ∈ dedup l ↔ a ∈ l := by
  induction l with
  | nil => simp [dedup]
  | cons b bs ih =>
    unfold dedup
    split
    · rename_i h
      have hb : b ∈ dedup bs := by simpa using h
      simp only [List.mem_cons]
      constructor
      · intro h'; exact Or.inr (ih.1 h')
      · intro h'
        rcases h' with h' | h'
        · rw [h']; exact hb
        · exact ih.2 h'
    · simp only [List.mem_cons, ih]

theorem filter_mem_subsets {α} (p : α → Bool) (l : List α) : l.filter p ∈ subsets l := by
  induction l with
  | nil => simp [subsets]
  | cons a as ih =>
    simp only [subsets, List.mem_append, List.mem_map]
    by_cases h : p a = true
    · right; exact ⟨as.filter p, ih, by simp [List.filter, h]⟩
    · left; simpa [List.filter, h] using ih

theorem valOf_filter (env : Env) (l : List Atom) (a : Atom) (h : a ∈ l) :
    valOf (l.filter env) a = env a := by
  unfold valOf
  cases he : env a
  · simp [List.mem_filter, he]
  · simp [List.mem_filter, he, h]

theorem all_perm_congr (env env' : Env) (ps : List String)
    (h : ∀ p ∈ ps, env (.perm p) = env' (.perm p)) :
    ps.all (fun p => env (.perm p)) = ps.all (fun p => env' (.perm p)) := by
  induction ps with
  | nil => rfl
  | cons q qs ih =>
    simp only [List.all_cons]
    rw [h q (by simp), ih (fun p hp => h p (by simp [hp]))]

theorem evalB_congr (env env' : Env) (e : Bool) (b : BExp)
    (h : ∀ a ∈ atomsB b, env a = env' a) : evalB env e b = evalB env' e b := by
  induction b with
  | payloadNil => simp [evalB, h .payloadNil (by simp [atomsB])]
  | payloadField f =>
    simp [evalB, h .payloadNil (by simp [atomsB]), h (.field f) (by simp [atomsB])]
  | perm p => simp [evalB, h (.perm p) (by simp [atomsB])]
  | permAll ps =>
    simp only [evalB, Option.some.injEq]
    apply all_perm_congr
    intro p hp
    exact h (.perm p) (by simp [atomsB]; exact hp)
  | respErrSet => simp [evalB]
  | other n => simp [evalB, h (.other n) (by simp [atomsB])]
  | not a ih => simp [evalB, ih (fun x hx => h x (by simpa [atomsB] using hx))]
  | and a b iha ihb =>
    simp only [evalB]
    rw [iha (fun x hx => h x (by simp [atomsB, hx])), ihb (fun x hx => h x (by simp [atomsB, hx]))]
  | or a b iha ihb =>
    simp only [evalB]
    rw [iha (fun x hx => h x (by simp [atomsB, hx])), ihb (fun x hx => h x (by simp [atomsB, hx]))]

theorem run_congr (env env' : Env) (s : Stmt) :
    (∀ a ∈ atomsS s, env a = env' a) → ∀ st, run env s st = run env' s st := by
  induction s with
  | skip => intro _ st; simp [run]
  | seq a b iha ihb =>
    intro h st
    simp only [run]
    rw [iha (fun x hx => h x (by simp [atomsS, hx]))]
    split
    · rfl
    · exact ihb (fun x hx => h x (by simp [atomsS, hx])) _
  | ite c t e iht ihe =>
    intro h st
    simp only [run]
    rw [evalB_congr env env' st.errSet c (fun x hx => h x (by simp [atomsS, hx]))]
    split
    · rfl
    · exact iht (fun x hx => h x (by simp [atomsS, hx])) _
    · exact ihe (fun x hx => h x (by simp [atomsS, hx])) _
  | setErr => intro _ st; simp [run]
  | action n u c => intro h st; simp [run, h .payloadNil (by simp [atomsS])]
  | derefPayload => intro h st; simp [run, h .payloadNil (by simp [atomsS])]
  | writeResp => intro _ st; simp [run]
  | closeConn => intro _ st; simp [run]
  | ret => intro _ st; simp [run]
  | cont => intro _ st; simp [run]
  | unknown s => intro _ st; simp [run]

/-- the environment restricted to a list of atoms is one of the enumerated ones -/
theorem restrict_spec (env : Env) (l : List Atom) :
    (dedup l).filter env ∈ subsets (dedup l) ∧
    ∀ a ∈ l, valOf ((dedup l).filter env) a = env a :=
  ⟨filter_mem_subsets _ _, fun a ha => valOf_filter env _ a ((mem_dedup a l).2 ha)⟩

theorem checkRefused_sound (req : BExp) (body : Stmt) (hc : checkRefused req body = true)
    (env : Env) (hden : authorised env req = false) : refusedOK (runCmd env body) = true := by
  unfold checkRefused at hc
  rw [List.all_eq_true] at hc
  obtain ⟨hmem, hag⟩ := restrict_spec env (atomsB req ++ atomsS body)
  have h := hc _ hmem
  have hreq : authorised (valOf ((dedup (atomsB req ++ atomsS body)).filter env)) req = authorised env req := by
    unfold authorised
    rw [evalB_congr _ env false req (fun a ha => hag a (by simp [ha]))]
  have hrun : runCmd (valOf ((dedup (atomsB req ++ atomsS body)).filter env)) body = runCmd env body := by
    unfold runCmd
    rw [run_congr _ env body (fun a ha => hag a (by simp [ha]))]
  rw [hreq, hrun, hden] at h
  simpa using h

theorem checkNilSafe_sound (body : Stmt) (hc : checkNilSafe body = true)
    (env : Env) (hnil : env .payloadNil = true) : nilSafe (runCmd env body) = true := by
  unfold checkNilSafe at hc
  rw [List.all_eq_true] at hc
  obtain ⟨hmem, hag⟩ := restrict_spec env (.payloadNil :: atomsS body)
  have h := hc _ hmem
  have hrun : runCmd (valOf ((dedup (.payloadNil :: atomsS body)).filter env)) body = runCmd env body := by
    unfold runCmd
    rw [run_congr _ env body (fun a ha => hag a (by simp [ha]))]
  rw [hrun, hag _ (by simp), hnil] at h
  simpa using h

theorem grantsNothing_filter (env : Env) (l : List Atom) (h : ∀ p, env (.perm p) = false) :
    grantsNothing (l.filter env) = true := by
  unfold grantsNothing
  rw [List.all_eq_true]
  intro a ha
  have := (List.mem_filter.1 ha).2
  cases a with
  | perm p => rw [h p] at this; simp at this
  | payloadNil => rfl
  | field f => rfl
  | other n => rfl

theorem checkNoPermNoMutation_sound (body : Stmt) (hc : checkNoPermNoMutation body = true)
    (env : Env) (h : ∀ p, env (.perm p) = false) : noMutation (runCmd env body) = true := by
  unfold checkNoPermNoMutation at hc
  rw [List.all_eq_true] at hc
  obtain ⟨hmem, hag⟩ := restrict_spec env (atomsS body)
  have hh := hc _ hmem
  have hrun : runCmd (valOf ((dedup (atomsS body)).filter env)) body = runCmd env body := by
    unfold runCmd
    rw [run_congr _ env body (fun a ha => hag a ha)]
  rw [hrun, grantsNothing_filter env _ h] at hh
  simpa using hh

end RqModel.Wire

package main

// Mutators (C17): where the database of a node can be changed from.
//
//   storeSites     every call, in package store, of a method that can change the SQLite
//                  database (Execute, Request, Swap, Vacuum, Optimize, Checkpoint … on `s.db` / `db`), of a
//                  function that creates / opens / deletes database files (sql.OpenSwappable,
//                  sql.RemoveFiles, createDBOnDisk) and of
//                  the command processor (`Process`, which applies a log entry), as
//                  (file, enclosing function, callee)
//   outsideDbCalls every use of package `db` (imported from …/rqlite/v10/db) in http/ and
//                  cluster/, as (dir/file, enclosing function, function) - these packages must
//                  reach the database only through the Store
//   dbConnUse      for the methods of db.DB that run SQL: which pool they take their connection from
//   roDSN          the options MakeDSN adds for a read-only connection

import (
	"go/ast"
	"sort"
	"strings"
)

var mutatingMethods = map[string]bool{
	"Execute": true, "ExecuteWithContext": true, "ExecuteStringStmt": true, "ExecuteStringStmtWithTimeout": true,
	"Request": true, "RequestWithContext": true, "RequestStringStmts": true, "RequestStringStmtsWithTimeout": true,
	"Swap": true, "Vacuum": true, "Optimize": true, "OptimizeWithMask": true, "Checkpoint": true,
}

// functions of package db (imported as sql in store) and of package store itself that create,
// open or delete database files
var fileLevelFuncs = map[string]bool{"sql.RemoveFiles": true, "sql.OpenSwappable": true, "sql.Open": true,
	"sql.OpenWithDriver": true, "createDBOnDisk": true}


func init() {
	register("Mutators", func(x *X) {
		type site struct{ file, fn, callee string }
		var sites []site
		files := x.Pkg("store")
		var names []string
		for n := range files {
			names = append(names, n)
		}
		sort.Strings(names)
		for _, fname := range names {
			for _, d := range files[fname].Decls {
				fd, ok := d.(*ast.FuncDecl)
				if !ok || fd.Body == nil {
					continue
				}
				ast.Inspect(fd.Body, func(n ast.Node) bool {
					c, ok := n.(*ast.CallExpr)
					if !ok {
						return true
					}
					if fileLevelFuncs[x.Src(c.Fun)] {
						sites = append(sites, site{fname, fd.Name.Name, x.Src(c.Fun)})
						return true
					}
					sel, ok := c.Fun.(*ast.SelectorExpr)
					if !ok {
						return true
					}
					recv := x.Src(sel.X)
					isDB := recv == "db" || strings.HasSuffix(recv, ".db")
					isProc := sel.Sel.Name == "Process" && (recv == "cmdProc" || strings.HasSuffix(recv, ".cmdProc"))
					if (isDB && mutatingMethods[sel.Sel.Name]) || isProc {
						sites = append(sites, site{fname, fd.Name.Name, recv + "." + sel.Sel.Name})
					}
					return true
				})
			}
		}
		x.Comment("package store: call sites of database-mutating methods and of the command processor")
		x.Raw("def storeSites : List (String × String × String) := [")
		for i, s := range sites {
			sep := ","
			if i == len(sites)-1 {
				sep = ""
			}
			x.Raw("  (" + LeanStr(s.file) + ", " + LeanStr(s.fn) + ", " + LeanStr(s.callee) + ")" + sep)
		}
		x.Raw("]")

		// http/ and cluster/: uses of package db
		var outside []site
		for _, dir := range []string{"http", "cluster"} {
			files := x.Pkg(dir)
			var names []string
			for n := range files {
				names = append(names, n)
			}
			sort.Strings(names)
			for _, fname := range names {
				f := files[fname]
				alias := ""
				for _, im := range f.Imports {
					if strings.Trim(im.Path.Value, `"`) == "github.com/rqlite/rqlite/v10/db" {
						alias = "db"
						if im.Name != nil {
							alias = im.Name.Name
						}
					}
				}
				if alias == "" {
					continue
				}
				for _, d := range f.Decls {
					fd, ok := d.(*ast.FuncDecl)
					if !ok || fd.Body == nil {
						continue
					}
					ast.Inspect(fd.Body, func(n ast.Node) bool {
						sel, ok := n.(*ast.SelectorExpr)
						if !ok {
							return true
						}
						if id, ok := sel.X.(*ast.Ident); ok && id.Name == alias && id.Obj == nil {
							outside = append(outside, site{dir + "/" + fname, fd.Name.Name, sel.Sel.Name})
						}
						return true
					})
				}
			}
		}
		x.Comment("http/ and cluster/: every reference to package db")
		x.Raw("def outsideDbCalls : List (String × String × String) := [")
		for i, s := range outside {
			sep := ","
			if i == len(outside)-1 {
				sep = ""
			}
			x.Raw("  (" + LeanStr(s.file) + ", " + LeanStr(s.fn) + ", " + LeanStr(s.callee) + ")" + sep)
		}
		x.Raw("]")

		// db.DB: which pool do the SQL-running methods use
		x.Comment("db/db.go: (method of *DB, mentions db.rwDB, mentions db.roDB)")
		x.Raw("def dbConnUse : List (String × Bool × Bool) := [")
		var rows []string
		for _, m := range []string{"QueryWithContext", "ExecuteWithContext", "RequestWithContext", "StmtReadOnly"} {
			fd := x.Func("db", "DB", m)
			if fd == nil {
				continue
			}
			src := x.Src(fd.Body)
			rw := strings.Contains(src, "db.rwDB")
			ro := strings.Contains(src, "db.roDB")
			rows = append(rows, "  ("+LeanStr(m)+", "+boolLean(rw)+", "+boolLean(ro)+")")
		}
		x.Raw(strings.Join(rows, ",\n"))
		x.Raw("]")

		// MakeDSN: options added when readOnly
		var roOpts []string
		if fd := x.Func("db", "", "MakeDSN"); fd != nil {
			ast.Inspect(fd.Body, func(n ast.Node) bool {
				ifs, ok := n.(*ast.IfStmt)
				if !ok || x.Src(ifs.Cond) != "readOnly" {
					return true
				}
				for _, c := range x.Calls(ifs.Body, "Add") {
					if len(c.Args) == 2 {
						roOpts = append(roOpts, strings.Trim(x.Src(c.Args[0]), `"`)+"="+strings.Trim(x.Src(c.Args[1]), `"`))
					}
				}
				return false
			})
		}
		x.Comment("db/state.go MakeDSN: options added for a read-only connection")
		x.DefStrings("roDSN", roOpts)
	})
}

func boolLean(b bool) string {
	if b {
		return "true"
	}
	return "false"
}

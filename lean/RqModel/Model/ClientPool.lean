/-
Model of how cluster/client.go pairs responses with requests on pooled
connections (C20: "the leader's results … are returned unchanged" — to the request
they belong to).

`Client.retry` takes a connection from the per-leader pool (a FIFO channel; a new
connection when the pool is empty), writes the command, reads ONE response frame.
On any error the connection is marked unusable (`handleConnError`) and therefore
closed instead of being returned to the pool; with `retries = 0` one more attempt is
made on a forced-new connection. A connection that is not marked unusable goes back
to the pool on Close.

A connection is modelled by the list of response frames that are, or will be,
readable on it before anything the next request causes (the leader answers every
command it received, in order, also after the client gave up waiting). A request is
`slow` when the leader answers it only after the client's timeout. Time is
abstracted: between two requests every outstanding answer has arrived.

`keepOnTimeout = false` is the code; `true` is the variant in which a timed-out
connection is returned to the pool (kept for the witness theorem).
Core Lean only.
-/
import RqModel.Model.Util
namespace RqModel.ClientPool
open RqModel.Util

structure Op where
  tag  : Nat          -- identifies the request (and the response that answers it)
  slow : Bool         -- the leader answers after the client's timeout
  broadcast : Bool := false   -- BroadcastHWM with retries = 0: a single attempt, no forced-new connection
deriving DecidableEq, Repr

inductive Res where
  | ok (tag : Nat)    -- a response frame was read: the one answering request `tag`
  | timeout
deriving DecidableEq, Repr

structure PState where
  pool : List (List Nat) := []     -- pooled connections (FIFO), each with its pending responses
deriving DecidableEq, Repr

/-- one write-command / read-response exchange on a connection; returns the result
and the connection as it goes back to the pool (`none`: closed) -/
def attempt (keepOnTimeout : Bool) (conn : List Nat) (op : Op) : Res × Option (List Nat) :=
  match conn with
  | stale :: rest => (.ok stale, some (rest ++ [op.tag]))   -- an earlier answer is read; ours stays queued
  | [] =>
    if op.slow then (.timeout, if keepOnTimeout then some [op.tag] else none)
    else (.ok op.tag, some [])

def putBack (pool : List (List Nat)) : Option (List Nat) → List (List Nat)
  | some c => pool ++ [c]
  | none => pool

/-- `Client.retry` with `retries = 0`: pooled (or new) connection, then a forced-new one -/
def doOp (keepOnTimeout : Bool) (st : PState) (op : Op) : Res × PState :=
  let (c, rest) := match st.pool with
    | c :: r => (c, r)
    | [] => ([], [])
  match attempt keepOnTimeout c op with
  | (.ok t, back) => (.ok t, { pool := putBack rest back })
  | (.timeout, back) =>
    if op.broadcast then (.timeout, { pool := putBack rest back })
    else
      let r2 := attempt keepOnTimeout [] op
      (r2.1, { pool := putBack (putBack rest back) r2.2 })

def runOps (keepOnTimeout : Bool) : PState → List Op → List Res
  | _, [] => []
  | st, op :: ops =>
    let r := doOp keepOnTimeout st op
    r.1 :: runOps keepOnTimeout r.2 ops

/-! ## line protocol
`reset` → `ok`;  `op <tag> <slow 0|1>` / `hwm <tag> <slow 0|1>` → `ok:<tag>` | `timeout`   (the code's policy)
-/
structure DState where
  st : PState := {}

def step (d : DState) (line : String) : DState × String :=
  match words line with
  | ["reset"] => ({}, "ok")
  | [k, t, s] =>
    match t.toNat? with
    | some t =>
      if (k != "op" && k != "hwm") || (s != "0" && s != "1") then (d, "bad-op") else
      let r := doOp false d.st { tag := t, slow := s == "1", broadcast := k == "hwm" }
      ({ st := r.2 }, match r.1 with | .ok x => s!"ok:{x}" | .timeout => "timeout")
    | none => (d, "bad-op")
  | _ => (d, "bad-op")

def init : DState := {}

end RqModel.ClientPool
--! driver: clientpool RqModel.ClientPool

package cluster

// C18 (inter-node half): wire-level differential run of the real cluster.Service
// against the Lean model `wire` (RqModel/Model/Wire.lean, whose command semantics
// are regenerated from handleConn on every run) + the property itself evaluated
// on the bytes the real service puts on a real socket.
//
// Every inter-node command type x payload (present / absent / of another kind;
// JOIN: voter or not) x action outcome (ok / error) x credential store (none, or a
// generated store over a small user/permission universe) x credential
// presentation (none / right password / wrong password / unknown user / empty
// user) is sent as one length-prefixed frame over TCP; the write side is then
// half-closed and ALL bytes the service sends until it closes are read.

import (
	"bytes"
	"compress/gzip"
	"context"
	"encoding/binary"
	"errors"
	"fmt"
	"io"
	"net"
	"sort"
	"strings"
	"sync"
	"testing"
	"time"

	"github.com/rqlite/rqlite/v10/auth"
	"github.com/rqlite/rqlite/v10/cluster/proto"
	command "github.com/rqlite/rqlite/v10/command/proto"
	"google.golang.org/protobuf/encoding/protowire"
	pb "google.golang.org/protobuf/proto"
)

const c18Marker = "SECRET-DATABASE-CONTENT"

type c18Rec struct {
	mu    sync.Mutex
	calls []string
	fail  error
}

func (r *c18Rec) add(s string) error {
	r.mu.Lock()
	defer r.mu.Unlock()
	r.calls = append(r.calls, s)
	return r.fail
}
func (r *c18Rec) take() []string {
	r.mu.Lock()
	defer r.mu.Unlock()
	c := r.calls
	r.calls = nil
	return c
}

type c18DB struct{ r *c18Rec }

func (d *c18DB) Execute(ctx context.Context, er *command.ExecuteRequest) ([]*command.ExecuteQueryResponse, uint64, error) {
	if err := d.r.add("action:db.Execute"); err != nil {
		return nil, 0, err
	}
	return []*command.ExecuteQueryResponse{{Result: &command.ExecuteQueryResponse_Error{Error: c18Marker}}}, 7, nil
}
func (d *c18DB) Query(ctx context.Context, qr *command.QueryRequest) ([]*command.QueryRows, command.ConsistencyLevel, uint64, error) {
	if err := d.r.add("action:db.Query"); err != nil {
		return nil, 0, 0, err
	}
	return []*command.QueryRows{{Columns: []string{c18Marker}}}, command.ConsistencyLevel_NONE, 7, nil
}
func (d *c18DB) Request(ctx context.Context, rr *command.ExecuteQueryRequest) ([]*command.ExecuteQueryResponse, uint64, uint64, error) {
	if err := d.r.add("action:db.Request"); err != nil {
		return nil, 0, 0, err
	}
	return []*command.ExecuteQueryResponse{{Result: &command.ExecuteQueryResponse_Error{Error: c18Marker}}}, 1, 7, nil
}
func (d *c18DB) Backup(ctx context.Context, br *command.BackupRequest, dst io.Writer) error {
	// a failing backup has typically written part of its output already
	ferr := d.r.add("action:db.Backup")
	if _, err := dst.Write([]byte(c18Marker)); err != nil {
		return err
	}
	return ferr
}
func (d *c18DB) Load(ctx context.Context, lr *command.LoadRequest) error {
	return d.r.add("action:db.Load")
}

type c18Mgr struct {
	r         *c18Rec
	notLeader bool
}

func (m *c18Mgr) LeaderAddr() (string, error) {
	m.r.mu.Lock()
	m.r.calls = append(m.r.calls, "action:mgr.LeaderAddr")
	m.r.mu.Unlock()
	return "leader:4002", nil
}
func (m *c18Mgr) CommitIndex() (uint64, error) {
	m.r.mu.Lock()
	m.r.calls = append(m.r.calls, "action:mgr.CommitIndex")
	m.r.mu.Unlock()
	return 5, nil
}
func (m *c18Mgr) Remove(ctx context.Context, rn *command.RemoveNodeRequest) error {
	return m.r.add("action:mgr.Remove")
}
func (m *c18Mgr) Notify(n *command.NotifyRequest) error { return m.r.add("action:mgr.Notify") }
func (m *c18Mgr) Join(n *command.JoinRequest) error {
	err := m.r.add("action:mgr.Join")
	if err != nil && m.notLeader {
		return errors.New("not leader")
	}
	return err
}
func (m *c18Mgr) Stepdown(wait bool, id string) error { return m.r.add("action:mgr.Stepdown") }

// ---- credential stores --------------------------------------------------------

type c18Entry struct {
	user, pass string
	perms      []string
	// keys absent from the entry in the credentials FILE (the value is then empty: every
	// entry is decoded into a fresh value and inherits nothing from the entry before it)
	noUser, noPass, noPerms bool
}

func c18StoreJSON(es []c18Entry) string {
	var parts []string
	for _, e := range es {
		var kv []string
		if !e.noUser {
			kv = append(kv, fmt.Sprintf(`"username":%q`, e.user))
		}
		if !e.noPass {
			kv = append(kv, fmt.Sprintf(`"password":%q`, e.pass))
		}
		if !e.noPerms {
			var ps []string
			for _, p := range e.perms {
				ps = append(ps, fmt.Sprintf("%q", p))
			}
			kv = append(kv, fmt.Sprintf(`"perms":[%s]`, strings.Join(ps, ",")))
		}
		parts = append(parts, "{"+strings.Join(kv, ",")+"}")
	}
	return "[" + strings.Join(parts, ",") + "]"
}

// c18Rule is the documented credential rule evaluated directly on the entries
// (the last entry naming a user defines it).
func c18Rule(es []c18Entry, u, p, perm string) bool {
	defs := map[string]c18Entry{}
	for _, e := range es {
		defs[e.user] = e
	}
	grants := func(user, perm string) bool {
		d, ok := defs[user]
		if !ok {
			return false
		}
		for _, x := range d.perms {
			if x == perm {
				return true
			}
		}
		return false
	}
	if grants("*", perm) || grants("*", "all") {
		return true
	}
	if u == "" {
		return false
	}
	d, ok := defs[u]
	if !ok || d.pass != p {
		return false
	}
	return grants(u, perm) || grants(u, "all")
}

var c18PermPool = []string{"all", "execute", "query", "backup", "load", "remove", "join", "join-read-only", "join-read-replica", "leader-ops", "status"}

func c18GenStore(r *vfRng) []c18Entry {
	n := 1 + r.Intn(3)
	var es []c18Entry
	for i := 0; i < n; i++ {
		e := c18Entry{user: r.Pick([]string{"a", "a", "b", "*"}), pass: r.Pick([]string{"p", "q"})}
		k := r.Intn(4)
		for j := 0; j < k; j++ {
			e.perms = append(e.perms, r.Pick(c18PermPool))
		}
		// entries with absent keys, typically after a privileged entry
		switch r.Intn(10) {
		case 0, 1:
			e.noPerms, e.perms = true, nil
		case 2:
			e.noPass, e.pass = true, ""
		case 3:
			e.noUser, e.user = true, ""
		}
		es = append(es, e)
	}
	return es
}

type c18Pres struct {
	name       string
	creds      bool
	user, pass string
}

var c18Presentations = []c18Pres{
	{"none", false, "", ""},
	{"a-right-or-wrong-p", true, "a", "p"},
	{"a-right-or-wrong-q", true, "a", "q"},
	{"b-p", true, "b", "p"},
	{"unknown-user", true, "zed", "p"},
	{"empty-user", true, "", "p"},
}

// ---- commands -------------------------------------------------------------------

type c18Cmd struct {
	name    string
	typ     proto.Command_Type
	set     func(c *proto.Command, voter bool) // attach a payload of the right kind
	failIdx string                             // indices of conditions that are true when the action fails
	okIdx   string                             // … when nothing fails
	// required permission(s) by the documentation: any-of groups that must ALL hold
	need func(voter bool) [][]string
}

func c18One(p string) func(bool) [][]string {
	return func(bool) [][]string { return [][]string{{p}} }
}

var c18Cmds = []c18Cmd{
	{"GET_NODE_META", proto.Command_COMMAND_TYPE_GET_NODE_META, nil, "", "-", nil},
	{"EXECUTE", proto.Command_COMMAND_TYPE_EXECUTE, func(c *proto.Command, _ bool) {
		c.Request = &proto.Command_ExecuteRequest{ExecuteRequest: &command.ExecuteRequest{}}
	}, "0", "-", c18One("execute")},
	{"QUERY", proto.Command_COMMAND_TYPE_QUERY, func(c *proto.Command, _ bool) {
		c.Request = &proto.Command_QueryRequest{QueryRequest: &command.QueryRequest{}}
	}, "0", "-", c18One("query")},
	{"REQUEST", proto.Command_COMMAND_TYPE_REQUEST, func(c *proto.Command, _ bool) {
		c.Request = &proto.Command_ExecuteQueryRequest{ExecuteQueryRequest: &command.ExecuteQueryRequest{}}
	}, "0", "-", func(bool) [][]string { return [][]string{{"query"}, {"execute"}} }},
	{"BACKUP", proto.Command_COMMAND_TYPE_BACKUP, func(c *proto.Command, _ bool) {
		c.Request = &proto.Command_BackupRequest{BackupRequest: &command.BackupRequest{}}
	}, "0", "-", c18One("backup")},
	{"BACKUP_STREAM", proto.Command_COMMAND_TYPE_BACKUP_STREAM, func(c *proto.Command, _ bool) {
		c.Request = &proto.Command_BackupRequest{BackupRequest: &command.BackupRequest{}}
	}, "FAILIDX_BACKUP_STREAM", "-", c18One("backup")},
	{"LOAD", proto.Command_COMMAND_TYPE_LOAD, func(c *proto.Command, _ bool) {
		c.Request = &proto.Command_LoadRequest{LoadRequest: &command.LoadRequest{Data: []byte("x")}}
	}, "0", "-", c18One("load")},
	{"LOAD_CHUNK", proto.Command_COMMAND_TYPE_LOAD_CHUNK, func(c *proto.Command, _ bool) {
		c.Request = &proto.Command_LoadChunkRequest{LoadChunkRequest: &command.LoadChunkRequest{}}
	}, "", "-", nil},
	{"REMOVE_NODE", proto.Command_COMMAND_TYPE_REMOVE_NODE, func(c *proto.Command, _ bool) {
		c.Request = &proto.Command_RemoveNodeRequest{RemoveNodeRequest: &command.RemoveNodeRequest{Id: "n"}}
	}, "0", "-", c18One("remove")},
	{"NOTIFY", proto.Command_COMMAND_TYPE_NOTIFY, func(c *proto.Command, _ bool) {
		c.Request = &proto.Command_NotifyRequest{NotifyRequest: &command.NotifyRequest{Id: "n"}}
	}, "0", "-", c18One("join")},
	{"JOIN", proto.Command_COMMAND_TYPE_JOIN, func(c *proto.Command, voter bool) {
		c.Request = &proto.Command_JoinRequest{JoinRequest: &command.JoinRequest{Id: "n", Voter: voter}}
	}, "0", "-", func(voter bool) [][]string {
		if voter {
			return [][]string{{"join"}}
		}
		return [][]string{{"join-read-only", "join-read-replica"}}
	}},
	{"STEPDOWN", proto.Command_COMMAND_TYPE_STEPDOWN, func(c *proto.Command, _ bool) {
		c.Request = &proto.Command_StepdownRequest{StepdownRequest: &command.StepdownRequest{Id: "n"}}
	}, "0", "-", c18One("leader-ops")},
	{"HIGHWATER_MARK_UPDATE", proto.Command_COMMAND_TYPE_HIGHWATER_MARK_UPDATE, func(c *proto.Command, _ bool) {
		c.Request = &proto.Command_HighwaterMarkUpdateRequest{HighwaterMarkUpdateRequest: &proto.HighwaterMarkUpdateRequest{HighwaterMark: 9}}
	}, "0", "0,1", nil},
}

// c18BackupStreamFailIdx: index of the `err != nil` test after s.db.Backup(…, conn) in
// the BACKUP_STREAM case; it moves when a condition is added before it, so it is
// found by asking the model which index changes the outcome.
func c18BackupStreamFailIdx() string { return "2" }

type c18Case struct {
	cmd     *c18Cmd
	payload string // set | nil | other
	voter   bool
	fail    string // "" | "boom" | "notleader" | "hwmfull"
	pres    c18Pres
}

func (k c18Case) trues() string {
	switch k.fail {
	case "":
		return k.cmd.okIdx
	case "notleader":
		return "0,1"
	case "hwmfull":
		return "0"
	}
	if k.cmd.failIdx == "FAILIDX_BACKUP_STREAM" {
		return c18BackupStreamFailIdx()
	}
	return k.cmd.failIdx
}

func (k c18Case) opLine() string {
	pl := "set"
	if k.payload != "set" {
		pl = "nil"
	}
	v := "0"
	if k.voter {
		v = "1"
	}
	return fmt.Sprintf("cmd %s %s %s %s %s %s", k.cmd.name, pl, v, vfHex(k.pres.user), vfHex(k.pres.pass), k.trues())
}

func (k c18Case) String() string {
	return fmt.Sprintf("%s payload=%s voter=%v fail=%q creds=%s(%q,%q)", k.cmd.name, k.payload, k.voter, k.fail, k.pres.name, k.pres.user, k.pres.pass)
}

func c18Cases() []c18Case {
	var cs []c18Case
	for i := range c18Cmds {
		c := &c18Cmds[i]
		payloads := []string{"set", "nil", "other"}
		if c.set == nil {
			payloads = []string{"nil"}
		}
		for _, pl := range payloads {
			voters := []bool{false}
			if c.name == "JOIN" && pl == "set" {
				voters = []bool{false, true}
			}
			for _, v := range voters {
				fails := []string{""}
				if pl == "set" && c.failIdx != "" {
					fails = append(fails, "boom")
					if c.name == "JOIN" {
						fails = append(fails, "notleader")
					}
					if c.name == "HIGHWATER_MARK_UPDATE" {
						fails = []string{"", "hwmfull"}
					}
				}
				for _, f := range fails {
					for _, p := range c18Presentations {
						cs = append(cs, c18Case{cmd: c, payload: pl, voter: v, fail: f, pres: p})
					}
				}
			}
		}
	}
	return cs
}

// ---- one request on a real socket -------------------------------------------------

type c18Node struct {
	svc  *Service
	tn   *mockTransport
	rec  *c18Rec
	mgr  *c18Mgr
	hwmC chan uint64
}

func c18NewNode(t *testing.T, es []c18Entry, withStore bool) *c18Node {
	rec := &c18Rec{}
	tn := mustNewMockTransport()
	mgr := &c18Mgr{r: rec}
	var cs CredentialStore
	if withStore {
		st := auth.NewCredentialsStore()
		if err := st.Load(strings.NewReader(c18StoreJSON(es))); err != nil {
			t.Fatalf("credential store load: %v", err)
		}
		cs = st
	}
	s := New(tn, &c18DB{r: rec}, mgr, cs)
	s.logger.SetOutput(io.Discard)
	s.SetAPIAddr("api:4001")
	n := &c18Node{svc: s, tn: tn, rec: rec, mgr: mgr, hwmC: make(chan uint64, 1)}
	s.RegisterHWMUpdate(n.hwmC)
	if err := s.Open(); err != nil {
		t.Fatalf("open: %v", err)
	}
	return n
}

type c18Obs struct {
	events   string // canonical: sorted event names
	errText  string
	extra    int  // bytes after the first response frame
	leak     bool // marker bytes or non-error fields present anywhere in what was received
	frameLen int
	raw      []byte
}

func c18Frame(p []byte) []byte {
	b := make([]byte, 8)
	binary.LittleEndian.PutUint64(b, uint64(len(p)))
	return append(b, p...)
}

// c18OnlyErrorField: the protobuf message has no field other than field 1 (error)
func c18OnlyErrorField(p []byte) (errText string, only bool) {
	only = true
	for len(p) > 0 {
		num, typ, n := protowire.ConsumeTag(p)
		if n < 0 {
			return errText, false
		}
		p = p[n:]
		if num == 1 && typ == protowire.BytesType {
			v, m := protowire.ConsumeBytes(p)
			if m < 0 {
				return errText, false
			}
			errText = string(v)
			p = p[m:]
			continue
		}
		only = false
		m := protowire.ConsumeFieldValue(num, typ, p)
		if m < 0 {
			return errText, false
		}
		p = p[m:]
	}
	return errText, only
}

func (n *c18Node) do(t *testing.T, k c18Case) c18Obs {
	c := &proto.Command{Type: k.cmd.typ}
	switch k.payload {
	case "set":
		k.cmd.set(c, k.voter)
	case "other": // a payload of a different kind: the typed getter returns nil
		if k.cmd.name == "EXECUTE" {
			c.Request = &proto.Command_QueryRequest{QueryRequest: &command.QueryRequest{}}
		} else {
			c.Request = &proto.Command_ExecuteRequest{ExecuteRequest: &command.ExecuteRequest{}}
		}
	}
	if k.pres.creds {
		c.Credentials = &proto.Credentials{Username: k.pres.user, Password: k.pres.pass}
	}
	n.rec.take()
	n.rec.fail = nil
	n.mgr.notLeader = false
	select {
	case <-n.hwmC:
	default:
	}
	switch k.fail {
	case "boom":
		n.rec.fail = errors.New("boom")
	case "notleader":
		n.rec.fail = errors.New("not leader")
		n.mgr.notLeader = true
	case "hwmfull":
		n.hwmC <- 1
	}
	p, err := pb.Marshal(c)
	if err != nil {
		t.Fatalf("marshal: %v", err)
	}
	conn, err := n.tn.Dial(n.svc.Addr(), 5*time.Second)
	if err != nil {
		t.Fatalf("dial: %v", err)
	}
	defer conn.Close()
	conn.SetDeadline(time.Now().Add(20 * time.Second))
	if _, err := conn.Write(c18Frame(p)); err != nil {
		t.Fatalf("write: %v", err)
	}
	conn.(*net.TCPConn).CloseWrite()
	all, err := io.ReadAll(conn) // everything until the service closes the connection
	if err != nil {
		t.Fatalf("read all bytes of %v: %v", k, err)
	}
	o := c18Obs{raw: all}
	var evs []string
	evs = append(evs, n.rec.take()...)
	if k.cmd.name == "HIGHWATER_MARK_UPDATE" && k.fail != "hwmfull" {
		select {
		case v := <-n.hwmC:
			if v == 9 {
				evs = append(evs, "action:send:s.hwmUpdateC")
			}
		default:
		}
	}
	if len(all) >= 8 {
		sz := binary.LittleEndian.Uint64(all[:8])
		if uint64(len(all)-8) < sz {
			t.Fatalf("%v: truncated response frame", k)
		}
		body := all[8 : 8+sz]
		o.frameLen = int(sz)
		o.extra = len(all) - 8 - int(sz)
		if k.cmd.name == "BACKUP" {
			gz, err := gzip.NewReader(bytes.NewReader(body))
			if err != nil {
				t.Fatalf("%v: backup response not gzip: %v", k, err)
			}
			body, _ = io.ReadAll(gz)
		}
		if k.cmd.name == "GET_NODE_META" {
			evs = append(evs, "resp-ok")
		} else {
			txt, only := c18OnlyErrorField(body)
			o.errText = txt
			if txt != "" {
				evs = append(evs, "resp-err")
				if !only {
					o.leak = true
				}
			} else {
				evs = append(evs, "resp-ok")
			}
		}
		if o.extra > 0 {
			evs = append(evs, "stream")
		}
	} else if len(all) > 0 {
		t.Fatalf("%v: %d stray bytes", k, len(all))
	}
	if bytes.Contains(all, []byte(c18Marker)) && o.errText != "" {
		o.leak = true
	}
	sort.Strings(evs)
	o.events = strings.Join(evs, ",")
	if o.events == "" {
		o.events = "-"
	}
	return o
}

// c18Canon maps a model output line to the same canonical form
func c18Canon(model string) (canon string, crash bool) {
	if model == "-" {
		return "-", false
	}
	var evs []string
	for _, e := range strings.Split(model, ",") {
		switch {
		case e == "close":
		case e == "crash" || strings.HasPrefix(e, "action-nil:") || e == "unknown":
			crash = true
			evs = append(evs, e)
		case strings.HasPrefix(e, "stream:"):
			evs = append(evs, "stream")
		default:
			evs = append(evs, e)
		}
	}
	sort.Strings(evs)
	if len(evs) == 0 {
		return "-", crash
	}
	return strings.Join(evs, ","), crash
}

// ---- sessions: several commands on ONE connection ------------------------------------
//
// Inter-node connections are long-lived and pooled by cluster.Client, so what a
// connection was allowed to do earlier must not influence what a later command on
// it may do. A session sends 2-3 commands (present payload, no failing action) with
// different credential presentations on one connection, reading one response frame
// after each; only the last command may be BACKUP_STREAM (its stream has no end
// marker). Every command is judged on its own: by the model (whose command
// semantics has no per-connection state) and by the documented rule.

type c18Step struct {
	cmd   *c18Cmd
	voter bool
	pres  c18Pres
}

func (k c18Step) asCase() c18Case {
	return c18Case{cmd: k.cmd, payload: "set", voter: k.voter, pres: k.pres}
}

type c18StepObs struct {
	events  string
	errText string
	leak    bool
}

func (n *c18Node) session(t *testing.T, steps []c18Step) []c18StepObs {
	conn, err := n.tn.Dial(n.svc.Addr(), 5*time.Second)
	if err != nil {
		t.Fatalf("dial: %v", err)
	}
	defer conn.Close()
	conn.SetDeadline(time.Now().Add(30 * time.Second))
	var out []c18StepObs
	for i, st := range steps {
		c := &proto.Command{Type: st.cmd.typ}
		st.cmd.set(c, st.voter)
		if st.pres.creds {
			c.Credentials = &proto.Credentials{Username: st.pres.user, Password: st.pres.pass}
		}
		n.rec.take()
		n.rec.fail = nil
		select {
		case <-n.hwmC:
		default:
		}
		p, _ := pb.Marshal(c)
		if _, err := conn.Write(c18Frame(p)); err != nil {
			t.Fatalf("session write: %v", err)
		}
		last := i == len(steps)-1
		var body, rest []byte
		if last {
			conn.(*net.TCPConn).CloseWrite()
			all, err := io.ReadAll(conn)
			if err != nil || len(all) < 8 {
				t.Fatalf("session: reading the last answer: %v (%d bytes)", err, len(all))
			}
			sz := binary.LittleEndian.Uint64(all[:8])
			body, rest = all[8:8+sz], all[8+sz:]
		} else {
			hdr := make([]byte, 8)
			if _, err := io.ReadFull(conn, hdr); err != nil {
				t.Fatalf("session: reading answer %d: %v", i, err)
			}
			body = make([]byte, binary.LittleEndian.Uint64(hdr))
			if _, err := io.ReadFull(conn, body); err != nil {
				t.Fatalf("session: reading answer %d: %v", i, err)
			}
		}
		if st.cmd.name == "BACKUP" {
			gz, err := gzip.NewReader(bytes.NewReader(body))
			if err != nil {
				t.Fatalf("session: backup response not gzip: %v", err)
			}
			body, _ = io.ReadAll(gz)
		}
		evs := n.rec.take()
		txt, only := c18OnlyErrorField(body)
		o := c18StepObs{errText: txt}
		if txt != "" {
			evs = append(evs, "resp-err")
			o.leak = !only || bytes.Contains(body, []byte(c18Marker)) || len(rest) > 0
		} else {
			evs = append(evs, "resp-ok")
		}
		if len(rest) > 0 {
			evs = append(evs, "stream")
		}
		sort.Strings(evs)
		o.events = strings.Join(evs, ",")
		out = append(out, o)
	}
	return out
}

func c18Sessions(r *vfRng) [][]c18Step {
	var guarded []*c18Cmd
	for i := range c18Cmds {
		if c18Cmds[i].need != nil {
			guarded = append(guarded, &c18Cmds[i])
		}
	}
	var ss [][]c18Step
	// same command twice, every ordered pair of presentations
	for _, c := range guarded {
		for _, p1 := range c18Presentations {
			for _, p2 := range c18Presentations {
				if c.name == "BACKUP_STREAM" {
					// only allowed as the last command: precede it with BACKUP (same permission)
					ss = append(ss, []c18Step{{guarded[3], false, p1}, {c, false, p2}})
					continue
				}
				v := c.name == "JOIN" && r.Bool()
				ss = append(ss, []c18Step{{c, v, p1}, {c, v, p2}})
			}
		}
	}
	// mixed commands, three steps
	for i := 0; i < vfScale(60, 300); i++ {
		var st []c18Step
		for j := 0; j < 3; j++ {
			c := guarded[r.Intn(len(guarded))]
			for c.name == "BACKUP_STREAM" && j < 2 {
				c = guarded[r.Intn(len(guarded))]
			}
			st = append(st, c18Step{c, r.Bool(), c18Presentations[r.Intn(len(c18Presentations))]})
		}
		ss = append(ss, st)
	}
	return ss
}

func TestVerifC18(t *testing.T) {
	rep := vfNewReport("C18", "cluster: every inter-node command type x payload (present/absent/other kind; JOIN voter or not) x action outcome x credential store (none, or 1-3 generated entries over users {a,b,*}, passwords {p,q}, perms from the documented set) x presentation (none, a/p, a/q, b/p, unknown user, empty user), one frame per TCP connection, all bytes read until close; plus sequences of 2-3 commands with different presentations on ONE connection (every ordered pair of presentations per command, and random mixed triples); a store is non-trivial when it authorises some and refuses other cases; distinct by store text")
	defer rep.Write()
	r := vfNewRng(18)
	nStores := vfScale(16, 150)
	cases := c18Cases()

	type storeSpec struct {
		with bool
		es   []c18Entry
	}
	specs := []storeSpec{{false, nil}, {true, nil}}
	// directed stores first, then generated ones
	specs = append(specs, storeSpec{true, []c18Entry{{user: "a", pass: "p", perms: []string{"all"}}}})
	specs = append(specs, storeSpec{true, []c18Entry{{user: "a", pass: "p", perms: []string{"query"}}, {user: "b", pass: "p", perms: []string{"backup", "execute"}}}})
	specs = append(specs, storeSpec{true, []c18Entry{{user: "*", pass: "", perms: []string{"status"}}, {user: "a", pass: "q", perms: []string{"join-read-only", "load", "remove", "leader-ops"}}}})
	// credential FILES whose later entries lack keys: they must inherit nothing from the entry before
	specs = append(specs, storeSpec{true, []c18Entry{{user: "a", pass: "p", perms: []string{"all"}}, {user: "b", pass: "p", noPerms: true}}})
	specs = append(specs, storeSpec{true, []c18Entry{{user: "a", pass: "p", perms: []string{"all"}}, {user: "b", noPass: true, noPerms: true}}})
	specs = append(specs, storeSpec{true, []c18Entry{{user: "a", pass: "q", perms: []string{"execute", "query", "backup", "load", "join", "remove", "leader-ops"}}, {noUser: true, pass: "p", noPerms: true}, {user: "b", pass: "p", noPerms: true}}})
	for i := 0; i < nStores; i++ {
		specs = append(specs, storeSpec{true, c18GenStore(r)})
	}

	for si, sp := range specs {
		// model first: it says which inputs would crash the process (those are run by C35 in a child process)
		ops := []string{"reset"}
		if sp.with {
			ops = append(ops, "emptystore")
			for _, e := range sp.es {
				ps := "!"
				if len(e.perms) > 0 {
					var hs []string
					for _, p := range e.perms {
						hs = append(hs, vfHex(p))
					}
					ps = strings.Join(hs, ",")
				}
				ops = append(ops, fmt.Sprintf("cred %s %s %s", vfHex(e.user), vfHex(e.pass), ps))
			}
		}
		pre := len(ops)
		for _, k := range cases {
			ops = append(ops, k.opLine())
		}
		model, err := vfModel("wire", ops)
		if err != nil {
			rep.Disagree(vfDisagreement{Component: "wire", Ops: vfTrunc(ops), Note: err.Error(), At: -1})
			return
		}
		node := c18NewNode(t, sp.es, sp.with)
		storeText := "no-store"
		if sp.with {
			storeText = c18StoreJSON(sp.es)
		}
		yes, no := 0, 0
		for ci, k := range cases {
			want, crash := c18Canon(model[pre+ci])
			if model[pre+ci] == "bad-op" {
				rep.Disagree(vfDisagreement{Component: "wire", Ops: []string{k.opLine()}, Model: []string{"bad-op"}, At: 0})
				continue
			}
			if crash {
				rep.Count("cluster:skipped-in-process(model-predicts-nil-dereference):" + k.cmd.name)
				continue
			}
			o := node.do(t, k)
			rep.Count("cluster:" + k.cmd.name)
			rep.Count("cluster:payload=" + k.payload)
			rep.Count("cluster:presentation=" + k.pres.name)
			if o.events != want {
				rep.Count("cluster:cases-disagreeing")
				rep.Disagree(vfDisagreement{Component: "wire", Ops: append(append([]string(nil), ops[:pre]...), k.opLine()),
					Impl: []string{o.events}, Model: []string{want, "raw:" + model[pre+ci]}, At: pre, Note: k.String() + " store=" + storeText})
			}
			// a command for which rqlite defines no permission must at least not change state for a
			// caller who presents nothing to a node that has a credential store
			if k.cmd.need == nil && sp.with && !k.pres.creds && strings.Contains(o.events, "action:send:") {
				rep.Fail("cluster:"+k.cmd.name+":state-changing-command-has-no-permission-check",
					fmt.Sprintf("%v against store %s: no credentials presented, the node has a credential store, yet it did %s", k, storeText, o.events),
					map[string]interface{}{"store": storeText, "case": k.String(), "observed_events": o.events})
			}
			// the property itself on the observed bytes
			if k.cmd.need != nil {
				authorised := true
				if sp.with {
					for _, grp := range k.cmd.need(k.voter) {
						ok := false
						for _, p := range grp {
							if c18Rule(sp.es, k.pres.user, k.pres.pass, p) {
								ok = true
							}
						}
						if !ok {
							authorised = false
						}
					}
				}
				if authorised {
					yes++
				} else {
					no++
					replay := map[string]interface{}{"store": storeText, "case": k.String(), "observed_events": o.events, "error": o.errText, "bytes_after_error_frame": o.extra, "raw_hex": vfHexB(o.raw)}
					if strings.Contains(o.events, "action:") {
						rep.Fail("cluster:"+k.cmd.name+":action-performed-when-denied", fmt.Sprintf("%v against store %s: not authorised, yet %s", k, storeText, o.events), replay)
					}
					if o.extra > 0 {
						rep.Fail("cluster:"+k.cmd.name+":data-after-error-frame", fmt.Sprintf("%v against store %s: not authorised; response error %q is followed by %d more bytes on the socket", k, storeText, o.errText, o.extra), replay)
					}
					if o.errText == "" || o.leak {
						rep.Fail("cluster:"+k.cmd.name+":no-error-or-content-disclosed-when-denied", fmt.Sprintf("%v against store %s: not authorised; response error %q, events %s", k, storeText, o.errText, o.events), replay)
					}
				}
			}
			rep.TracesValidated++
		}
		// ---- sessions on one connection (stores with credentials only; every other store in the quick tier)
		if sp.with && (vfThorough() || si%2 == 0) {
			sessions := c18Sessions(r)
			sops := append([]string(nil), ops[:pre]...)
			for _, ss := range sessions {
				for _, st := range ss {
					sops = append(sops, st.asCase().opLine())
				}
			}
			smodel, err := vfModel("wire", sops)
			if err != nil {
				rep.Disagree(vfDisagreement{Component: "wire", Ops: vfTrunc(sops), Note: err.Error(), At: -1})
				return
			}
			mi := pre
			for _, ss := range sessions {
				obs := node.session(t, ss)
				var seq []string
				for _, st := range ss {
					seq = append(seq, fmt.Sprintf("%s as %s(%q,%q)", st.cmd.name, st.pres.name, st.pres.user, st.pres.pass))
				}
				for j, st := range ss {
					want, _ := c18Canon(smodel[mi])
					mi++
					rep.Count("cluster-session:step")
					if obs[j].events != want {
						rep.Count("cluster-session:steps-disagreeing")
						rep.Disagree(vfDisagreement{Component: "wire", Ops: append(append([]string(nil), ops[:pre]...), st.asCase().opLine()),
							Impl: []string{obs[j].events}, Model: []string{want}, At: pre,
							Note: fmt.Sprintf("step %d of the one-connection sequence [%s] store=%s", j+1, strings.Join(seq, "; "), storeText)})
					}
					authorised := true
					for _, grp := range st.cmd.need(st.voter) {
						ok := false
						for _, p := range grp {
							if c18Rule(sp.es, st.pres.user, st.pres.pass, p) {
								ok = true
							}
						}
						if !ok {
							authorised = false
						}
					}
					if !authorised && (strings.Contains(obs[j].events, "action:") || strings.Contains(obs[j].events, "stream") || obs[j].errText == "" || obs[j].leak) {
						rep.Fail("cluster-session:"+st.cmd.name+":served-when-denied-after-earlier-commands-on-the-connection",
							fmt.Sprintf("one connection, commands in order [%s] against store %s: command %d is not authorised, yet the node did: %s (response error %q)", strings.Join(seq, "; "), storeText, j+1, obs[j].events, obs[j].errText),
							map[string]interface{}{"store": storeText, "sequence": seq, "failing_step": j + 1, "observed_events": obs[j].events, "error": obs[j].errText})
					}
					if authorised && obs[j].errText == "unauthorized" {
						rep.Fail("cluster-session:"+st.cmd.name+":refused-although-authorised",
							fmt.Sprintf("one connection, commands in order [%s] against store %s: command %d is authorised, yet it was refused", strings.Join(seq, "; "), storeText, j+1),
							map[string]interface{}{"store": storeText, "sequence": seq, "failing_step": j + 1})
					}
				}
				rep.TracesValidated++
			}
		}
		node.svc.Close()
		rep.Case("cluster-store:"+storeText, yes > 0 && no > 0)
		if si < 2 {
			rep.Sample(map[string]interface{}{"store": storeText, "cases": len(cases), "authorised": yes, "refused": no})
		}
	}
}

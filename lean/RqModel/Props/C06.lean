/-
C06  Incremental WAL segments stay correct under busy and partial checkpoints.

Property theorems. Model: RqModel/Model/WalCkpt.lean (CheckpointManager.Checkpoint,
WALResetWatch, the store's keep/cancel of the staged segment, over SQLite's WAL law);
helper lemmas: RqModel/Lemmas/WalCkpt.lean. Tied to the code by the C06 differential
runs (db package: real SQLite database with real reader connections; store package:
the staging directory after a failed incremental snapshot).

All theorems quantify over EVERY finite schedule of write transactions, reader
start/stop, incremental and full snapshot attempts and "full needed" events
(`ops : List Op`), every initial database, every frame content, and every salt
generator `ns` that never repeats a salt (`∀ x, x < ns x`).
-/
import RqModel.Lemmas.WalCkptInv
import RqModel.Gen.WalCkpt
namespace C06
open RqModel.WalCkpt

/-! ## The property -/

/-- a capture attempt succeeded: no error and a segment was handed to the snapshot chain -/
def CapOk (o : CaptureOut) : Prop := o.err = CkErr.none ∧ o.seg.isSome = true

/-- **segments_reproduce.** After ANY schedule, whenever an incremental capture succeeds
(WAL truncated, or all pages moved but the WAL not truncated), replaying every segment
captured since the last full snapshot, in order, onto that snapshot's database gives
exactly the live database at that moment; and the capture did not change what readers see. -/
theorem segments_reproduce (ns : Nat → Nat) (hns : ∀ x, x < ns x) (d : Db) (ops : List Op) :
    let s := run ns (fresh d) ops
    s.dueFull = false → CapOk (doCapture ns s).2 →
      (doCapture ns s).1.rebuilt = s.logical ∧ (doCapture ns s).1.logical = s.logical := by
  intro s hd hok
  have h : Inv s := inv_run ns hns (inv_fresh d) ops
  by_cases hwe : s.walEmpty = true
  · -- nothing in the WAL: no segment is produced, so the attempt is not a capture
    exfalso
    unfold doCapture CapOk at hok
    rw [if_pos hwe] at hok
    simp at hok
  · have hnw : s.walEmpty = false := by simpa using hwe
    have hseg := capSeg_completes h hd
    rcases doCapture_cases ns h hnw with ⟨b', _, hr⟩ | hr | hr
    · rw [hr] at hok; simp [CapOk] at hok
    · rw [hr]
      have hrb : (armedState (checked s) (capSeg s)).rebuilt = ckpt (checked s).rebuilt (capSeg s) :=
        rebuilt_snoc (s := checked s) rfl rfl
      refine ⟨by rw [hrb, hseg], ?_⟩
      show ckpt (ckpt s.file s.frames) s.frames = ckpt s.file s.frames
      exact ckpt_idem _ h.closed
    · rw [hr]
      have hrb : (truncKept ns (checked s) (capSeg s)).rebuilt = ckpt (checked s).rebuilt (capSeg s) :=
        rebuilt_snoc (s := checked s) rfl rfl
      refine ⟨by rw [hrb, hseg], ?_⟩
      show ckpt (ckpt s.file s.frames) [] = ckpt s.file s.frames
      exact ckpt_nil _

/-- the invariant behind it, for every reachable state between captures: the chain plus
the frames the next capture will read is the live database -/
theorem chain_plus_tail_is_live (ns : Nat → Nat) (hns : ∀ x, x < ns x) (d : Db) (ops : List Op) :
    let s := run ns (fresh d) ops
    s.dueFull = false → ckpt s.rebuilt (s.frames.drop (eff s)) = s.logical := by
  intro s hd
  exact (inv_run ns hns (inv_fresh d) ops).chain hd

/-- **failed_ckpt_leaves_no_segment.** After ANY schedule, an incremental attempt that
returns an error leaves no segment behind (the chain is unchanged, nothing is handed
over), does not change the live database, and the next attempt starts from the same
frame of the same WAL. -/
theorem failed_ckpt_leaves_no_segment (ns : Nat → Nat) (hns : ∀ x, x < ns x) (d : Db) (ops : List Op) :
    let s := run ns (fresh d) ops
    s.dueFull = false → (doCapture ns s).2.err ≠ CkErr.none →
      (doCapture ns s).1.segs = s.segs ∧ (doCapture ns s).2.seg = none ∧
      (doCapture ns s).1.logical = s.logical ∧ (doCapture ns s).1.frames = s.frames ∧
      eff (doCapture ns s).1 = eff s := by
  intro s hd herr
  have h : Inv s := inv_run ns hns (inv_fresh d) ops
  by_cases hwe : s.walEmpty = true
  · exfalso
    unfold doCapture at herr
    rw [if_pos hwe] at herr
    exact herr rfl
  · have hnw : s.walEmpty = false := by simpa using hwe
    obtain ⟨_, heq, _, _⟩ := check_eff s
    rcases doCapture_cases ns h hnw with ⟨b', _, hr⟩ | hr | hr
    · rw [hr]
      refine ⟨rfl, rfl, ?_, rfl, heq⟩
      exact ckpt_backfillPages _ h.closed _
    · rw [hr] at herr; exact absurd rfl herr
    · rw [hr] at herr; exact absurd rfl herr

/-- **reset_always_detected.** In every reachable state in which the watch is armed:
if SQLite has reset or truncated the WAL since the watch was armed (ghost counter
`gen ≠ armGen`), `Check` reports the reset, disarms, and the capture starts from frame 0;
if it has not, no reset is reported and the capture resumes at the recorded frame. -/
theorem reset_always_detected (ns : Nat → Nat) (hns : ∀ x, x < ns x) (d : Db) (ops : List Op) :
    let s := run ns (fresh d) ops
    s.watch.armed = true →
      (s.armGen ≠ s.gen → s.watch.check s.salt = (Watch.disarm, 0, true)) ∧
      (s.armGen = s.gen → s.watch.check s.salt = (s.watch, s.watch.resume, false)) := by
  intro s ha
  have h : Inv s := inv_run ns hns (inv_fresh d) ops
  obtain ⟨_, _, hiff⟩ := h.salt ha
  constructor
  · intro hne
    have : s.watch.salt ≠ s.salt := fun e => hne (hiff.2 e)
    simp [Watch.check, ha, this]
  · intro he
    simp [Watch.check, ha, hiff.1 he]

/-- … and the flag reaches the caller as the `WALReset` field of the attempt's result -/
theorem reset_flag_reported (ns : Nat → Nat) (hns : ∀ x, x < ns x) (d : Db) (ops : List Op) :
    let s := run ns (fresh d) ops
    s.walEmpty = false → s.watch.armed = true → s.armGen ≠ s.gen → (doCapture ns s).2.reset = true := by
  intro s hw ha hne
  have hck : s.watch.check s.salt = (Watch.disarm, 0, true) := (reset_always_detected ns hns d ops ha).1 hne
  have hfl : (s.watch.check s.salt).2.2 = true := by rw [hck]
  have h : Inv s := inv_run ns hns (inv_fresh d) ops
  rcases doCapture_cases ns h hw with ⟨b', _, hr⟩ | hr | hr <;> rw [hr] <;> exact hfl

/-- the WAL is never reset while frames are uncaptured: whenever SQLite's reset rule fires
(fully backfilled, no pinned reader) in a state where incremental snapshots are in force,
every frame has already been captured. This is the safety core of the salt/resume logic. -/
theorem reset_only_after_capture (ns : Nat → Nat) (hns : ∀ x, x < ns x) (d : Db) (ops : List Op) :
    let s := run ns (fresh d) ops
    s.dueFull = false → writeKind s = WriteKind.reset → s.rebuilt = s.logical := by
  intro s hd hk
  have h : Inv s := inv_run ns hns (inv_fresh d) ops
  have hcond : s.mx ≠ 0 ∧ s.backfill = s.mx ∧ s.marks = [] := by
    unfold writeKind at hk; split at hk
    · cases hk
    · split at hk
      · assumption
      · cases hk
  have hc := h.chain hd
  rw [h.caught hd hcond.2.1 hcond.1] at hc
  simpa [State.mx, ckpt_nil] using hc

/-! ### the attempt as the store runs it: a list of steps

`incSteps` and `branches` are VALUES of the model: `runInc` interprets the step list (the
deferred Cancel included) and `captureFinish` interprets the branch table. The theorems below
say (1) interpreting them gives exactly the `doCapture` the property theorems are about,
(2) rendered as strings they are what harness/extract reads from the current sources, and
(3) their order is load-bearing. -/

/-- running the step list with a successful `walWriter.Close()` is `doCapture` -/
theorem capture_is_step_list (ns : Nat → Nat) (s : State) : runInc ns true incSteps s = doCapture ns s :=
  runInc_ok ns s

/-- `store/store.go` fsmSnapshot, incremental branch = the model's step list -/
theorem code_segment_cancelled_on_error :
    RqModel.Gen.WalCkpt.incSteps = incSteps.flatMap IncStep.code ∧
    RqModel.Gen.WalCkpt.incErrBranchClosesSegment = some false ∧
    RqModel.Gen.WalCkpt.incErrBranchReturnsErr = some true ∧
    RqModel.Gen.WalCkpt.incCloseErrRequestsFull = some true := ⟨by decide, rfl, rfl, rfl⟩

/-- `db/checkpoint_manager.go` outcome chain = the model's branch table -/
theorem code_outcome_branches :
    RqModel.Gen.WalCkpt.ckptBranches = branches.map (fun b => (b.cond.code, b.act.code, b.ret.code)) := by
  decide

theorem code_scanner_resumes_where_check_says :
    RqModel.Gen.WalCkpt.checkAssign = "startFrameIdx, walReset := cm.resetWatch.Check(preChkSalt)" ∧
    RqModel.Gen.WalCkpt.scannerArgs = ["walFD", "startFrameIdx", "false"] ∧
    RqModel.Gen.WalCkpt.saltReadBeforeCheckpoint = some true := ⟨rfl, rfl, rfl⟩

theorem code_watch_check :
    RqModel.Gen.WalCkpt.watchCheck =
      ["if !w.armed", "return 0, false", "if w.salt.Equal(current)", "return w.resumeFrameIdx, false",
       "w.Disarm()", "return 0, true"] := rfl

/-- the connection that writes keeps autocheckpoint off for good: the PRAGMA is issued on the
read-write pool, which holds ONE connection and never retires it (no idle limit, no lifetime) -/
theorem code_writer_connection_never_recycled :
    RqModel.Gen.WalCkpt.rwPoolSettings = rwPoolSettings ∧
    RqModel.Gen.WalCkpt.autocheckpointOff = autocheckpointOff := by decide

theorem code_reset_flag_on_every_outcome : RqModel.Gen.WalCkpt.walResetSites = resetSites := by decide

/-- the ORDER of the steps matters: register the deferred Cancel AFTER the checkpoint call and a
busy checkpoint leaves its (useless) file in the staging directory, to be packaged with the
next snapshot -/
theorem defer_after_checkpoint_witness :
    let late : List IncStep := [.checkWALData, .ensureDir, .newStagingDir, .createWAL, .checkpoint, .deferCancel, .closeWAL]
    let s := run drvSalt (fresh (dbOfList [10, 20])) [.write [⟨1, 11, 0⟩, ⟨2, 21, 2⟩], .rstart 1, .write [⟨2, 22, 2⟩]]
    (runInc drvSalt true late s).2.err = CkErr.busy ∧ (runInc drvSalt true late s).2.seg.isSome = true ∧
    (runInc drvSalt true incSteps s).2.err = CkErr.busy ∧ (runInc drvSalt true incSteps s).2.seg = none := by
  decide

/-! ### `walWriter.Close()` failing after the checkpoint succeeded -/

/-- **close_failure_forces_full.** After ANY schedule, if the staged file cannot be made durable
after a checkpoint that succeeded, nothing joins the chain, a full snapshot becomes due — so no
incremental capture is accepted on the broken chain — and the invariant keeps holding. -/
theorem close_failure_forces_full (ns : Nat → Nat) (hns : ∀ x, x < ns x) (d : Db) (ops : List Op) :
    let s := run ns (fresh d) ops
    s.dueFull = false → CapOk (doCapture ns s).2 →
      (runInc ns false incSteps s).1.dueFull = true ∧ (runInc ns false incSteps s).1.segs = s.segs ∧
      (runInc ns false incSteps s).2.seg = none ∧ (runInc ns false incSteps s).2.err = CkErr.closeFailed ∧
      next ns (runInc ns false incSteps s).1 .capture = (runInc ns false incSteps s).1 ∧
      Inv (runInc ns false incSteps s).1 := by
  intro s hd hok
  have h : Inv s := inv_run ns hns (inv_fresh d) ops
  have hi := inv_captureCloseFail ns h hd
  rw [runInc_closeFail]
  obtain ⟨_, hsome⟩ := hok
  cases hs : (doCapture ns s).2.seg with
  | none => rw [hs] at hsome; cases hsome
  | some sg =>
    have e : doCaptureCloseFail ns s =
        ({ (doCapture ns s).1 with segs := s.segs, dueFull := true },
         { (doCapture ns s).2 with err := CkErr.closeFailed, seg := none }) := by
      unfold doCaptureCloseFail; simp only [hs]
    rw [e] at hi ⊢
    exact ⟨rfl, rfl, rfl, rfl, by simp [next], hi⟩

/-- … and the full snapshot that must follow repairs the chain: after ANY schedule (close
failures included), a full snapshot that succeeds leaves chain = live database. -/
theorem full_snapshot_restores_chain (ns : Nat → Nat) (hns : ∀ x, x < ns x) (d : Db) (ops : List Op) :
    let s := run ns (fresh d) ops
    s.dueFull = true → (doFull ns s).2.2 = CkErr.none →
      (doFull ns s).1.dueFull = false ∧ (doFull ns s).1.rebuilt = (doFull ns s).1.logical := by
  intro s hdue hok
  have h : Inv s := inv_run ns hns (inv_fresh d) ops
  have hi := inv_full ns h hdue
  have hdf : (doFull ns s).1.dueFull = false := by
    revert hok; unfold doFull fullFinish
    split
    · intro _; rfl
    · split
      · intro hh; cases hh
      · intro _; rfl
  have hfr : (doFull ns s).1.frames = [] := by
    revert hok; unfold doFull
    by_cases hwe : s.walEmpty = true
    · rw [if_pos hwe]; intro _; exact (h.empty hwe).1
    · rw [if_neg hwe]
      rcases sqliteCheckpoint_cases ns s h.bf_le with ⟨b', hlt, hr⟩ | ⟨_, hr⟩ | hr <;> rw [hr] <;>
          simp [fullFinish, truncState]
  refine ⟨hdf, ?_⟩
  have hc := hi.chain hdf
  rw [hfr] at hc
  simpa [ckpt_nil] using hc

/-- what the unrepaired code did: the segment is dropped but NO full snapshot is requested; the
next incremental capture is accepted and the chain no longer reproduces the database -/
theorem close_failure_without_full_witness :
    let s0 := run drvSalt (fresh (dbOfList [10, 20])) [.write [⟨1, 11, 0⟩, ⟨2, 21, 2⟩]]
    let lost : State := { (doCaptureCloseFail drvSalt s0).1 with dueFull := false }   -- old behaviour
    let s2 := run drvSalt lost [.write [⟨1, 12, 2⟩], .capture]
    s2.segs.length = 1 ∧ s2.rebuilt.page 2 = 20 ∧ s2.logical.page 2 = 21 := by
  decide

/-! ### non-vacuity: concrete schedules exercising every outcome -/

def f (p v c : Nat) : Frame := ⟨p, v, c⟩
def d0 : Db := dbOfList [10, 20]
def sched : List Op :=
  [.write [f 1 11 0, f 2 21 2], .rstart 1, .capture,          -- all moved, not truncated → armed
   .rstop 1, .write [f 1 12 0, f 3 31 3],                     -- WAL reset (new salt)
   .rstart 2, .write [f 2 22 3],                              -- reader pinned mid-WAL, append
   .capture]                                                  -- reset detected; busy (moved 2 < 3)

example : (run drvSalt (fresh d0) sched).watch.armed = false ∧
          (run drvSalt (fresh d0) sched).segs = [[f 1 11 0, f 2 21 2]] ∧
          (run drvSalt (fresh d0) sched).backfill = 2 ∧
          (run drvSalt (fresh d0) sched).gen = 1 := by decide

example : (doCapture drvSalt (run drvSalt (fresh d0) (sched.take 2))).2.err = CkErr.none ∧
          (doCapture drvSalt (run drvSalt (fresh d0) (sched.take 2))).2.cm = ⟨1, 2, 2⟩ := by decide

example : (doCapture drvSalt (run drvSalt (fresh d0) (sched.take 7))).2.err = CkErr.busy ∧
          (doCapture drvSalt (run drvSalt (fresh d0) (sched.take 7))).2.reset = true := by decide

/-- the hypotheses of `segments_reproduce` are satisfiable with a non-empty chain -/
example : (run drvSalt (fresh d0) (sched ++ [.rstop 2])).dueFull = false ∧
    (doCapture drvSalt (run drvSalt (fresh d0) (sched ++ [.rstop 2]))).2.err = CkErr.none ∧
    (doCapture drvSalt (run drvSalt (fresh d0) (sched ++ [.rstop 2]))).1.segs.length = 2 ∧
    ((doCapture drvSalt (run drvSalt (fresh d0) (sched ++ [.rstop 2]))).1.rebuilt.page 1,
     (doCapture drvSalt (run drvSalt (fresh d0) (sched ++ [.rstop 2]))).1.rebuilt.page 2,
     (doCapture drvSalt (run drvSalt (fresh d0) (sched ++ [.rstop 2]))).1.rebuilt.page 3,
     (doCapture drvSalt (run drvSalt (fresh d0) (sched ++ [.rstop 2]))).1.rebuilt.size) = (12, 22, 31, 3) := by
  decide

/-- **the busy attempt carries the reset, and only it can**: in `sched` the first attempt after the
WAL reset is a busy one: it reports the reset; the attempt after it — and every later one — cannot
(the watch disarmed when it saw the new salt). A manager that leaves the flag off failed attempts
never reports this reset. -/
theorem busy_attempt_carries_the_reset_witness :
    let s7 := run drvSalt (fresh (dbOfList [10, 20])) (sched.take 7)
    (doCapture drvSalt s7).2.err = CkErr.busy ∧ (doCapture drvSalt s7).2.reset = true ∧
    (doCapture drvSalt (doCapture drvSalt s7).1).2.reset = false ∧
    (doCapture drvSalt (run drvSalt (fresh (dbOfList [10, 20])) (sched ++ [.rstop 2]))).2.reset = false := by
  decide

/-- the hypotheses of `reset_always_detected` (armed, reset since) are reachable -/
example : (run drvSalt (fresh d0) (sched.take 5)).watch.armed = true ∧
          (run drvSalt (fresh d0) (sched.take 5)).armGen ≠ (run drvSalt (fresh d0) (sched.take 5)).gen := by
  decide

example : ∀ x, x < drvSalt x := fun x => Nat.lt_succ_self x

end C06

package queue

// C24 correspondence + spec oracle: real Queue[int] vs. Lean model `queue`
// (RqModel/Model/Queue.lean).
//
//  A. deterministic scenarios (no timer): one goroutine issues Write/Flush in a
//     generated order, a consumer drains C and Closes every request. The emitted
//     batches (objects, relative sequence numbers, flush channels closed, group
//     sizes) are a function of the item order alone and are diffed exactly with
//     the model run under its greedy scheduler.
//  B. concurrent randomized runs (2-5 writers, a flusher, 1-3 ms timer, a
//     consumer that is sometimes slow): the property is evaluated on what the
//     real queue did, and a model schedule is constructed from the observation
//     (writes in sequence order; each observed batch cut by size, timer or
//     flush) that the model must accept and reproduce exactly.

import (
	"fmt"
	"sort"
	"strings"
	"sync"
	"sync/atomic"
	"testing"
	"time"
)

type c24Write struct {
	seq   int64
	objs  []int
	flush int // flush id, -1 = none
	fc    FlushChannel
}

type c24Batch struct {
	seq     int64
	objs    []int
	flushes []FlushChannel
	live    []int // the emitted slice itself (not a copy): must not change when a writer later touches its own slice
	openBefore bool // every flush channel was still open right before Close
	closedAfter bool
}

func c24Ints(xs []int) string {
	if len(xs) == 0 {
		return "-"
	}
	p := make([]string, len(xs))
	for i, x := range xs {
		p[i] = fmt.Sprint(x)
	}
	return strings.Join(p, ",")
}

func c24IsClosed(c FlushChannel) bool {
	select {
	case <-c:
		return true
	default:
		return false
	}
}

// c24Consumer drains q.C until stop is closed, recording batches and closing them.
func c24Consumer(q *Queue[int], stop chan struct{}, closing *atomic.Int64, slow func() time.Duration) (*[]c24Batch, *sync.Mutex, chan struct{}) {
	var mu sync.Mutex
	var got []c24Batch
	done := make(chan struct{})
	go func() {
		defer close(done)
		for {
			select {
			case <-stop:
				return
			case req := <-q.C:
				if slow != nil {
					if d := slow(); d > 0 {
						time.Sleep(d)
					}
				}
				b := c24Batch{seq: req.SequenceNumber, live: req.Objects, objs: append([]int(nil), req.Objects...), flushes: append([]FlushChannel(nil), req.flushChans...), openBefore: true, closedAfter: true}
				for _, c := range req.flushChans {
					if c24IsClosed(c) {
						b.openBefore = false
					}
				}
				if closing != nil {
					closing.Store(req.SequenceNumber)
				}
				req.Close()
				for _, c := range req.flushChans {
					if !c24IsClosed(c) {
						b.closedAfter = false
					}
				}
				mu.Lock()
				got = append(got, b)
				mu.Unlock()
			}
		}
	}()
	return &got, &mu, done
}

// c24Check evaluates the property on one finished run. writes need not be sorted.
// It returns the group sizes per batch (for the model schedule) and whether the run was clean.
func c24Check(rep *vfReport, part string, batchSize int, writes []c24Write, batches []c24Batch, replay map[string]interface{}) ([]int, bool) {
	ok := true
	fail := func(sig, detail string) {
		ok = false
		rep.Fail(part+":"+sig, detail, replay)
	}
	ws := append([]c24Write(nil), writes...)
	sort.Slice(ws, func(i, j int) bool { return ws[i].seq < ws[j].seq })
	for i := 1; i < len(ws); i++ {
		if ws[i].seq == ws[i-1].seq {
			fail("duplicate-sequence-number", fmt.Sprintf("two writes got sequence number %d", ws[i].seq))
		}
	}
	var wantAll, gotAll []int
	for _, w := range ws {
		wantAll = append(wantAll, w.objs...)
	}
	for _, b := range batches {
		gotAll = append(gotAll, b.objs...)
	}
	if c24Ints(wantAll) != c24Ints(gotAll) {
		fail("lost-duplicated-or-reordered", fmt.Sprintf("written (by sequence number) %s, emitted %s", c24Ints(wantAll), c24Ints(gotAll)))
	}
	var groups []int
	wi := 0
	var prev int64
	for bi, b := range batches {
		if bi > 0 && b.seq <= prev {
			fail("batch-sequence-not-increasing", fmt.Sprintf("batch %d has sequence %d after %d", bi, b.seq, prev))
		}
		prev = b.seq
		n := 0
		var objs []int
		var fcs []FlushChannel
		var maxSeq int64
		for wi < len(ws) && ws[wi].seq <= b.seq {
			objs = append(objs, ws[wi].objs...)
			if ws[wi].fc != nil {
				fcs = append(fcs, ws[wi].fc)
			}
			maxSeq = ws[wi].seq
			wi++
			n++
		}
		groups = append(groups, n)
		if n == 0 {
			fail("empty-batch", fmt.Sprintf("batch %d (seq %d) contains no write", bi, b.seq))
			continue
		}
		if c24Ints(objs) != c24Ints(b.objs) {
			fail("write-split-across-batches", fmt.Sprintf("batch %d holds %s but the writes up to its sequence number hold %s", bi, c24Ints(b.objs), c24Ints(objs)))
		}
		if maxSeq != b.seq {
			fail("batch-sequence-not-largest-member", fmt.Sprintf("batch %d carries %d, largest/last member %d", bi, b.seq, maxSeq))
		}
		if batchSize >= 1 && n > batchSize {
			fail("batch-larger-than-batch-size", fmt.Sprintf("batch %d holds %d writes, batch size %d", bi, n, batchSize))
		}
		same := len(fcs) == len(b.flushes)
		for i := 0; same && i < len(fcs); i++ {
			same = fcs[i] == b.flushes[i]
		}
		if !same {
			fail("flush-channel-in-wrong-batch", fmt.Sprintf("batch %d carries %d flush channels, its writes own %d", bi, len(b.flushes), len(fcs)))
		}
		if !b.openBefore {
			fail("flush-closed-before-batch-close", fmt.Sprintf("a flush channel of batch %d was closed before Close()", bi))
		}
		if !b.closedAfter {
			fail("flush-open-after-batch-close", fmt.Sprintf("a flush channel of batch %d was open after Close()", bi))
		}
	}
	return groups, ok
}

func c24Emitted(base int64, writes []c24Write, batches []c24Batch, groups []int) string {
	if len(batches) == 0 {
		return "-"
	}
	ws := append([]c24Write(nil), writes...)
	sort.Slice(ws, func(i, j int) bool { return ws[i].seq < ws[j].seq })
	id := map[FlushChannel]int{}
	for _, w := range ws {
		if w.fc != nil {
			id[w.fc] = w.flush
		}
	}
	var parts []string
	for i, b := range batches {
		var fl []int
		for _, c := range b.flushes {
			fl = append(fl, id[c])
		}
		g := 0
		if i < len(groups) {
			g = groups[i]
		}
		parts = append(parts, fmt.Sprintf("%d:%s:%s:%d", b.seq-base, c24Ints(b.objs), c24Ints(fl), g))
	}
	return strings.Join(parts, "|")
}

// c24WaitDrained waits until the consumer has received as many objects as were written and
// (when the last write carried no objects) a batch numbered at least lastSeq; it never
// relies on sequence numbers alone, so a wrong batch number cannot make it spin. After
// the first time-out in a run later waits are short: the implementation is evidently
// not draining and the failure has been recorded.
var c24DrainBroken atomic.Bool

func c24WaitDrained(got *[]c24Batch, mu *sync.Mutex, lastSeq int64, wantObjs int, lastEmpty bool) bool {
	limit := 20 * time.Second
	if c24DrainBroken.Load() {
		limit = 300 * time.Millisecond
	}
	deadline := time.Now().Add(limit)
	var countOK time.Time
	for time.Now().Before(deadline) {
		mu.Lock()
		n, objs := len(*got), 0
		var s int64
		for _, b := range *got {
			objs += len(b.objs)
		}
		if n > 0 {
			s = (*got)[n-1].seq
		}
		mu.Unlock()
		if objs >= wantObjs {
			if !lastEmpty || (n > 0 && s >= lastSeq) {
				return true
			}
			if countOK.IsZero() {
				countOK = time.Now()
			} else if time.Since(countOK) > 250*time.Millisecond {
				return true // trailing object-less writes: give their batch a moment, then judge what arrived
			}
		}
		time.Sleep(200 * time.Microsecond)
	}
	c24DrainBroken.Store(true)
	return false
}

func TestVerifC24(t *testing.T) {
	rep := vfNewReport("C24", "A: generated single-writer scenarios (capacity 0-6, batch size -1..5, no timer, 0-40 Write/Flush ops, 0-3 objects per write, optional flush channel), diffed exactly, non-trivial when at least two batches were emitted and one was cut by a Flush; B: concurrent runs (2-5 writers x 5-40 writes, random flushes, 1-3 ms timer or none, fast or slow consumer) checked by the property and replayed on the model by a schedule constructed from the observation, non-trivial when batches of different sizes were emitted; D: 2-3 sources writing interleaved sub-slices (spare capacity overlapping their later writes) of their own arrays and overwriting the arrays after emission; C: stalled-consumer scenarios (2-6 writes with pauses around a 1-3 ms timeout while nobody reads C, then the consumer starts; no Flush); distinct by emitted batch structure")
	defer rep.Write()
	// checkpoint: findings so far plus a crash marker are on disk while goroutines that could
	// panic the process are running; the final Write (deferred) replaces it
	checkpoint := func() {
		n := len(rep.OracleFailures)
		rep.OracleFailures = append(rep.OracleFailures, vfOracleFailure{"process-crashed-during-run", "the test process ended before the run finished (panic in a non-test goroutine)", nil})
		rep.Write()
		rep.OracleFailures = rep.OracleFailures[:n]
	}
	checkpoint()
	r := vfNewRng(24)
	var allOps, allImpl [][]string

	// ---- A ---------------------------------------------------------------------
	nA := vfScale(400, 40000)
	for i := 0; i < nA; i++ {
		maxSize := r.Intn(7)
		batchSize := r.Intn(7) - 1
		n := r.Intn(vfScale(41, 120))
		q := New[int](maxSize, batchSize, 0)
		stop := make(chan struct{})
		got, mu, cdone := c24Consumer(q, stop, nil, nil)
		ops := []string{fmt.Sprintf("new %d %d 0", maxSize, batchSize)}
		out := []string{"ok"}
		var writes []c24Write
		var base int64 = -1
		nextObj, nextFlush, flushOps := 1, 0, 0
		for j := 0; j < n; j++ {
			if r.Chance(20) {
				q.Flush()
				flushOps++
				ops = append(ops, "flush", "settle")
				out = append(out, "ok", "ok")
				continue
			}
			k := r.Intn(4)
			objs := make([]int, k)
			for x := range objs {
				objs[x] = nextObj
				nextObj++
			}
			w := c24Write{objs: objs, flush: -1}
			ftok := "-"
			if r.Chance(35) {
				w.fc = make(FlushChannel)
				w.flush = nextFlush
				nextFlush++
				ftok = fmt.Sprint(w.flush)
			}
			var in []int
			if k > 0 || r.Bool() {
				in = objs // nil slice vs empty slice: both are "no objects"
			}
			seq, err := q.Write(in, w.fc)
			if err != nil {
				t.Fatalf("write on open queue: %v", err)
			}
			if base < 0 {
				base = seq - 1
			}
			w.seq = seq
			writes = append(writes, w)
			ops = append(ops, fmt.Sprintf("write %s %s", c24Ints(objs), ftok), "settle")
			out = append(out, fmt.Sprint(seq-base), "ok")
		}
		q.Flush()
		ops = append(ops, "flush", "settle")
		out = append(out, "ok", "ok")
		var lastSeq int64
		wantObjs, lastEmpty := 0, false
		if len(writes) > 0 {
			lastSeq = writes[len(writes)-1].seq
			lastEmpty = len(writes[len(writes)-1].objs) == 0
		}
		for _, w := range writes {
			wantObjs += len(w.objs)
		}
		drained := c24WaitDrained(got, mu, lastSeq, wantObjs, lastEmpty)
		if len(writes) == 0 {
			time.Sleep(2 * time.Millisecond)
		}
		close(stop)
		<-cdone
		q.Close()
		replay := map[string]interface{}{"ops": ops}
		if !drained {
			rep.Fail("A:not-drained-after-flush", "a final Flush did not bring out every written element within 20 s", replay)
		}
		groups, _ := c24Check(rep, "A", batchSize, writes, *got, replay)
		em := c24Emitted(base, writes, *got, groups)
		ops = append(ops, "emitted", "closedflush")
		var closed []int
		idOf := map[FlushChannel]int{}
		for _, w := range writes {
			if w.fc != nil {
				idOf[w.fc] = w.flush
			}
		}
		for _, b := range *got {
			for _, c := range b.flushes {
				if c24IsClosed(c) {
					closed = append(closed, idOf[c])
				}
			}
		}
		out = append(out, em, c24Ints(closed))
		// the model closes requests too: insert closereq ops before `closedflush`
		ops = ops[:len(ops)-1]
		out = out[:len(out)-1]
		for bi, b := range *got {
			var fl []int
			for _, c := range b.flushes {
				fl = append(fl, idOf[c])
			}
			ops = append(ops, fmt.Sprintf("closereq %d", bi))
			out = append(out, "closed "+c24Ints(fl))
		}
		ops = append(ops, "closedflush")
		out = append(out, c24Ints(closed))
		allOps = append(allOps, ops)
		allImpl = append(allImpl, out)
		if len(allOps) >= 3000 { // compare in chunks (memory, thorough tier)
			rep.vfCompareSegments("queue", allOps, allImpl)
			allOps, allImpl = nil, nil
		}
		rep.Case("A:"+em, len(*got) >= 2 && flushOps > 0)
		rep.Count(fmt.Sprintf("A:batchSize=%d", batchSize))
		rep.Count(fmt.Sprintf("A:cap=%d", maxSize))
		rep.CountN("A:batches", len(*got))
		if i < 2 {
			rep.Sample(map[string]interface{}{"part": "A", "ops": ops, "impl": out})
		}
	}

	// ---- B ---------------------------------------------------------------------
	nB := vfScale(60, 5000)
	for i := 0; i < nB; i++ {
		if i%10 == 0 {
			checkpoint()
		}
		maxSize := 1 + r.Intn(8)
		batchSize := 1 + r.Intn(6)
		if r.Chance(10) {
			batchSize = 0
		}
		timeout := time.Duration(0)
		if r.Chance(75) {
			timeout = time.Duration(1+r.Intn(3)) * time.Millisecond
		}
		nw := 2 + r.Intn(4)
		per := 5 + r.Intn(vfScale(36, 120))
		slowPct := 0
		if r.Chance(40) {
			slowPct = 20 + r.Intn(60)
		}
		seeds := make([]uint64, nw+2)
		for k := range seeds {
			seeds[k] = r.U64()
		}
		q := New[int](maxSize, batchSize, timeout)
		stop := make(chan struct{})
		var closing atomic.Int64
		cr := &vfRng{s: seeds[nw]}
		var crMu sync.Mutex
		slow := func() time.Duration {
			crMu.Lock()
			defer crMu.Unlock()
			if cr.Intn(100) < slowPct {
				return time.Duration(cr.Intn(800)) * time.Microsecond
			}
			return 0
		}
		got, mu, cdone := c24Consumer(q, stop, &closing, slow)
		var wmu sync.Mutex
		var writes []c24Write
		var early atomic.Int64
		var wg, waiters sync.WaitGroup
		var flushIDs atomic.Int64
		for w := 0; w < nw; w++ {
			wg.Add(1)
			go func(w int) {
				defer wg.Done()
				wr := &vfRng{s: seeds[w]}
				for k := 0; k < per; k++ {
					n := wr.Intn(4)
					objs := make([]int, n)
					for x := range objs {
						objs[x] = w*1000000 + k*10 + x
					}
					cw := c24Write{objs: objs, flush: -1}
					if wr.Chance(30) {
						cw.fc = make(FlushChannel)
						cw.flush = int(flushIDs.Add(1)) - 1
					}
					seq, err := q.Write(objs, cw.fc)
					if err != nil {
						return
					}
					cw.seq = seq
					wmu.Lock()
					writes = append(writes, cw)
					wmu.Unlock()
					if cw.fc != nil {
						waiters.Add(1)
						go func(fc FlushChannel, seq int64) {
							defer waiters.Done()
							select {
							case <-fc:
								if closing.Load() < seq {
									early.Add(1) // signalled before the consumer began closing a batch that covers it
								}
							case <-time.After(30 * time.Second):
							}
						}(cw.fc, seq)
					}
					if wr.Chance(15) {
						time.Sleep(time.Duration(wr.Intn(1500)) * time.Microsecond)
					}
				}
			}(w)
		}
		wg.Add(1)
		go func() {
			defer wg.Done()
			fr := &vfRng{s: seeds[nw+1]}
			for k := 0; k < 3+fr.Intn(6); k++ {
				time.Sleep(time.Duration(fr.Intn(1200)) * time.Microsecond)
				q.Flush()
			}
		}()
		wg.Wait()
		q.Flush()
		var lastSeq int64
		wantObjs, lastEmpty := 0, false
		for _, w := range writes {
			if w.seq > lastSeq {
				lastSeq = w.seq
				lastEmpty = len(w.objs) == 0
			}
			wantObjs += len(w.objs)
		}
		drained := c24WaitDrained(got, mu, lastSeq, wantObjs, lastEmpty)
		close(stop)
		<-cdone
		waiters.Wait()
		q.Close()
		replay := map[string]interface{}{"cap": maxSize, "batch_size": batchSize, "timeout_ns": int64(timeout), "writers": nw, "writes_per_writer": per, "seed": vfSeed(), "run": i}
		if !drained {
			rep.Fail("B:not-drained-after-flush", "a final Flush did not bring out every written element within 20 s", replay)
		}
		if early.Load() > 0 {
			rep.Fail("B:flush-signalled-before-batch-release", fmt.Sprintf("%d waiters were signalled before the consumer started closing their batch", early.Load()), replay)
		}
		groups, clean := c24Check(rep, "B", batchSize, writes, *got, replay)
		// constructed model schedule
		if clean && drained {
			ws := append([]c24Write(nil), writes...)
			sort.Slice(ws, func(a, b int) bool { return ws[a].seq < ws[b].seq })
			base := ws[0].seq - 1
			ops := []string{fmt.Sprintf("new %d %d %d", maxSize, batchSize, int64(timeout))}
			out := []string{"ok"}
			wi := 0
			for bi, g := range groups {
				for k := 0; k < g; k++ {
					w := ws[wi]
					wi++
					ftok := "-"
					if w.flush >= 0 {
						ftok = fmt.Sprint(w.flush)
					}
					ops = append(ops, fmt.Sprintf("write %s %s", c24Ints(w.objs), ftok), "recv")
					out = append(out, fmt.Sprint(w.seq-base), "ok")
				}
				if g != batchSize { // cut by the timer or by a flush marker
					if timeout != 0 && bi%2 == 0 {
						ops = append(ops, "fire")
						out = append(out, "ok")
					} else {
						ops = append(ops, "flush", "recv")
						out = append(out, "ok", "ok")
					}
				}
				ops = append(ops, "send", "consume")
				out = append(out, "ok", "ok")
			}
			ops = append(ops, "emitted")
			out = append(out, c24Emitted(base, writes, *got, groups))
			allOps = append(allOps, ops)
			allImpl = append(allImpl, out)
			if len(allOps) >= 1000 {
				rep.vfCompareSegments("queue", allOps, allImpl)
				allOps, allImpl = nil, nil
			}
		}
		sizes := map[int]bool{}
		var shape []string
		for _, g := range groups {
			sizes[g] = true
			shape = append(shape, fmt.Sprint(g))
		}
		rep.Case("B:"+strings.Join(shape, ","), len(sizes) >= 2)
		rep.Count(fmt.Sprintf("B:writers=%d", nw))
		rep.CountN("B:batches", len(*got))
		rep.CountN("B:writes", len(writes))
		if timeout != 0 {
			rep.Count("B:with-timer")
		}
		if slowPct > 0 {
			rep.Count("B:slow-consumer")
		}
		if i == 0 {
			rep.Sample(map[string]interface{}{"part": "B", "cap": maxSize, "batch_size": batchSize, "timeout_ns": int64(timeout), "group_sizes": shape})
		}
	}

	// ---- D: value semantics / ownership ----------------------------------------------------
	// Two sources hand the queue SUB-SLICES s[i:i+k] of their own backing arrays (spare capacity
	// that overlaps their later, still pending writes), interleaved; afterwards, once everything
	// has been emitted, the sources overwrite their arrays. What is emitted must be the values
	// written at Write time, and an emitted batch must not change when a writer touches its own
	// slice afterwards (the queue owns what it emits). Single goroutine, no timer: exact diff too.
	nD := vfScale(60, 3000)
	for i := 0; i < nD; i++ {
		batchSize := 2 + r.Intn(4)
		q := New[int](16, batchSize, 0)
		stop := make(chan struct{})
		got, mu, cdone := c24Consumer(q, stop, nil, nil)
		nSrc := 2 + r.Intn(2)
		per := 2 + r.Intn(4)
		chunk := 1 + r.Intn(2)
		backing := make([][]int, nSrc)
		for sIdx := range backing {
			backing[sIdx] = make([]int, per*chunk)
			for k := range backing[sIdx] {
				backing[sIdx][k] = (sIdx+1)*1000 + k
			}
		}
		ops := []string{fmt.Sprintf("new 16 %d 0", batchSize)}
		out := []string{"ok"}
		var writes []c24Write
		var base int64 = -1
		for k := 0; k < per; k++ {
			for sIdx := 0; sIdx < nSrc; sIdx++ {
				sub := backing[sIdx][k*chunk : (k+1)*chunk] // cap reaches to the end of the source's array
				seq, err := q.Write(sub, nil)
				if err != nil {
					t.Fatalf("write: %v", err)
				}
				if base < 0 {
					base = seq - 1
				}
				vals := append([]int(nil), sub...) // the values at Write time
				writes = append(writes, c24Write{seq: seq, objs: vals, flush: -1})
				ops = append(ops, fmt.Sprintf("write %s -", c24Ints(vals)), "settle")
				out = append(out, fmt.Sprint(seq-base), "ok")
			}
		}
		q.Flush()
		ops = append(ops, "flush", "settle")
		out = append(out, "ok", "ok")
		wantObjs := nSrc * per * chunk
		drained := c24WaitDrained(got, mu, writes[len(writes)-1].seq, wantObjs, false)
		close(stop)
		<-cdone
		q.Close()
		replay := map[string]interface{}{"batch_size": batchSize, "sources": nSrc, "writes_per_source": per, "chunk": chunk,
			"pattern": "source s writes backing_s[k*chunk:(k+1)*chunk] for k = 0.. , sources interleaved; then Flush", "ops": ops}
		if !drained {
			rep.Fail("D:not-drained-after-flush", "a final Flush did not bring out every written element within 20 s", replay)
		}
		groups, _ := c24Check(rep, "D", batchSize, writes, *got, replay)
		ops = append(ops, "emitted")
		out = append(out, c24Emitted(base, writes, *got, groups))
		allOps = append(allOps, ops)
		allImpl = append(allImpl, out)
		// now the sources reuse their arrays; what the consumer holds must not move
		for sIdx := range backing {
			for k := range backing[sIdx] {
				backing[sIdx][k] = -7
			}
		}
		for bi, b := range *got {
			if c24Ints(b.live) != c24Ints(b.objs) {
				rep.Fail("D:emitted-batch-aliases-a-writers-slice", fmt.Sprintf("batch %d was %s when received and reads %s after the writers overwrote their own slices", bi, c24Ints(b.objs), c24Ints(b.live)), replay)
				break
			}
		}
		rep.Case(fmt.Sprintf("D:%d:%d:%d:%d", batchSize, nSrc, per, chunk), true)
		rep.Count("D:aliasing-subslice-scenarios")
	}

	// ---- C: stalled consumer, timer only (no Flush at all) ------------------------------
	// Nobody reads C while a few writes arrive with pauses longer and shorter than the
	// timeout (so the one-slot output channel fills and later timer expiries find it full);
	// then the consumer starts. With a non-zero timeout every written element must come out
	// without any Flush (theorem timer_drains_everything).
	nC := vfScale(25, 600)
	for i := 0; i < nC; i++ {
		batchSize := 2 + r.Intn(5)
		timeout := time.Duration(1+r.Intn(3)) * time.Millisecond
		q := New[int](8+r.Intn(8), batchSize, timeout)
		var writes []c24Write
		nw := 2 + r.Intn(5)
		nextObj := 1
		var opsLog []string
		for k := 0; k < nw; k++ {
			objs := []int{nextObj}
			nextObj++
			if r.Bool() {
				objs = append(objs, nextObj)
				nextObj++
			}
			seq, err := q.Write(objs, nil)
			if err != nil {
				t.Fatalf("write: %v", err)
			}
			writes = append(writes, c24Write{seq: seq, objs: objs, flush: -1})
			pause := time.Duration(r.Intn(4)) * timeout
			opsLog = append(opsLog, fmt.Sprintf("write %s; pause %v", c24Ints(objs), pause))
			time.Sleep(pause)
		}
		time.Sleep(3 * timeout) // the last partial batch's timer expires while nobody reads
		stop := make(chan struct{})
		got, mu, cdone := c24Consumer(q, stop, nil, nil)
		wantObjs := nextObj - 1
		deadline := time.Now().Add(10 * time.Second)
		drained := false
		for time.Now().Before(deadline) {
			mu.Lock()
			n := 0
			for _, b := range *got {
				n += len(b.objs)
			}
			mu.Unlock()
			if n >= wantObjs {
				drained = true
				break
			}
			time.Sleep(300 * time.Microsecond)
		}
		close(stop)
		<-cdone
		q.Close()
		replay := map[string]interface{}{"cap_batch_timeout": fmt.Sprintf("batchSize=%d timeout=%v", batchSize, timeout), "writes_while_nobody_reads_C": opsLog, "then": "consumer starts; no Flush"}
		if !drained {
			var gotObjs []int
			for _, b := range *got {
				gotObjs = append(gotObjs, b.objs...)
			}
			rep.Fail("C:written-elements-stranded-without-flush", fmt.Sprintf("timeout %v, batch size %d: %d elements written while the consumer was stalled, only %s came out within 10 s after it resumed (no Flush issued)", timeout, batchSize, wantObjs, c24Ints(gotObjs)), replay)
		} else {
			c24Check(rep, "C", batchSize, writes, *got, replay)
		}
		rep.Case(fmt.Sprintf("C:%d:%d:%d", batchSize, nw, len(*got)), len(*got) >= 2)
		rep.Count("C:stalled-consumer-scenarios")
	}

	rep.vfCompareSegments("queue", allOps, allImpl)
}

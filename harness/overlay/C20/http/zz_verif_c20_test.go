package http

// C20 (HTTP level): a real http.Service on a node whose store answers
// ErrNotLeader (a follower), with the real proxy.Proxy in between and a recording
// cluster client. For every forwarding endpoint x credentials (none / Basic a:p /
// Basic with empty password) x redirect parameter (absent / present):
//   * without `redirect`: the request is forwarded exactly once, to the leader's
//     Raft address, carrying exactly the caller's credentials (nil when the request
//     had none), the leader's answer comes back and X-RQLITE-SERVED-BY names the
//     leader; the local store's data methods are asked once and never twice;
//   * with `redirect`: nothing is forwarded and the answer is 301 with Location =
//     leader API address + path + query.
// The model `proxy` (RqModel/Model/Proxy.lean) is asked for the same combination.

import (
	"context"
	"encoding/base64"
	"encoding/json"
	"errors"
	"fmt"
	"io"
	"net/http"
	"strings"
	"sync"
	"testing"
	"time"

	cluster "github.com/rqlite/rqlite/v10/cluster/proto"
	command "github.com/rqlite/rqlite/v10/command/proto"
	"github.com/rqlite/rqlite/v10/proxy"
	"github.com/rqlite/rqlite/v10/store"
)

type c20Rec struct {
	mu    sync.Mutex
	local []string
	fwd   []string // "<op> addr=<a> creds=<nil|user:pass>"
}

func (r *c20Rec) reset() { r.mu.Lock(); r.local, r.fwd = nil, nil; r.mu.Unlock() }
func (r *c20Rec) addLocal(s string) {
	r.mu.Lock()
	r.local = append(r.local, s)
	r.mu.Unlock()
}
func (r *c20Rec) addFwd(op, addr string, c *cluster.Credentials) {
	cs := "nil"
	if c != nil {
		cs = c.Username + ":" + c.Password
	}
	r.mu.Lock()
	r.fwd = append(r.fwd, fmt.Sprintf("%s addr=%s creds=%s", op, addr, cs))
	r.mu.Unlock()
}

// follower store: every data operation answers ErrNotLeader
type c20Follower struct{ r *c20Rec }

func (m *c20Follower) Execute(ctx context.Context, er *command.ExecuteRequest) ([]*command.ExecuteQueryResponse, uint64, error) {
	m.r.addLocal("Execute")
	return nil, 0, store.ErrNotLeader
}
func (m *c20Follower) Query(ctx context.Context, qr *command.QueryRequest) ([]*command.QueryRows, command.ConsistencyLevel, uint64, error) {
	m.r.addLocal("Query")
	return nil, 0, 0, store.ErrNotLeader
}
func (m *c20Follower) Request(ctx context.Context, eqr *command.ExecuteQueryRequest) ([]*command.ExecuteQueryResponse, uint64, uint64, error) {
	m.r.addLocal("Request")
	return nil, 0, 0, store.ErrNotLeader
}
func (m *c20Follower) Load(ctx context.Context, lr *command.LoadRequest) error {
	m.r.addLocal("Load")
	return store.ErrNotLeader
}
func (m *c20Follower) Backup(ctx context.Context, br *command.BackupRequest, dst io.Writer) error {
	m.r.addLocal("Backup")
	return store.ErrNotLeader
}
func (m *c20Follower) Remove(ctx context.Context, rn *command.RemoveNodeRequest) error {
	m.r.addLocal("Remove")
	return store.ErrNotLeader
}
func (m *c20Follower) Stepdown(wait bool, id string) error {
	m.r.addLocal("Stepdown")
	return store.ErrNotLeader
}
func (m *c20Follower) LeaderAddr() (string, error) { return "leader-raft:4002", nil }
func (m *c20Follower) Leader() (*store.Server, error) {
	return &store.Server{ID: "L", Addr: "leader-raft:4002"}, nil
}
func (m *c20Follower) Nodes() ([]*store.Server, error)                 { return nil, nil }
func (m *c20Follower) Ready() bool                                     { return true }
func (m *c20Follower) Committed(timeout time.Duration) (uint64, error) { return 0, nil }
func (m *c20Follower) Stats() (map[string]any, error)                  { return nil, nil }
func (m *c20Follower) Snapshot(n uint64) error                         { return nil }
func (m *c20Follower) Reap() (int, int, error)                         { return 0, 0, nil }
func (m *c20Follower) ReadFrom(r io.Reader) (int64, error)             { return 0, nil }

// leader side as seen through the cluster client
type c20Leader struct {
	r *c20Rec
	// deposed: the node forwarded to has lost leadership by the time the command arrives
	deposed bool
}

var errC20Deposed = errors.New("not leader")

func (m *c20Leader) GetNodeMeta(ctx context.Context, a string, r int, t time.Duration) (*cluster.NodeMeta, error) {
	return &cluster.NodeMeta{Url: "http://leader-api:4001"}, nil
}
func (m *c20Leader) Stats() (map[string]any, error) { return nil, nil }
func (m *c20Leader) Execute(ctx context.Context, er *command.ExecuteRequest, addr string, creds *cluster.Credentials, t time.Duration, r int) ([]*command.ExecuteQueryResponse, uint64, error) {
	m.r.addFwd("Execute", addr, creds)
	if m.deposed {
		return nil, 0, errC20Deposed
	}
	return []*command.ExecuteQueryResponse{{Result: &command.ExecuteQueryResponse_E{E: &command.ExecuteResult{LastInsertId: 4242, RowsAffected: 1}}}}, 77, nil
}
func (m *c20Leader) Query(ctx context.Context, qr *command.QueryRequest, addr string, creds *cluster.Credentials, t time.Duration, r int) ([]*command.QueryRows, uint64, error) {
	m.r.addFwd("Query", addr, creds)
	if m.deposed {
		return nil, 0, errC20Deposed
	}
	return []*command.QueryRows{{Columns: []string{"LEADER-ROWS"}, Types: []string{"text"}}}, 77, nil
}
func (m *c20Leader) Request(ctx context.Context, eqr *command.ExecuteQueryRequest, addr string, creds *cluster.Credentials, t time.Duration, r int) ([]*command.ExecuteQueryResponse, uint64, uint64, error) {
	m.r.addFwd("Request", addr, creds)
	if m.deposed {
		return nil, 0, 0, errC20Deposed
	}
	return []*command.ExecuteQueryResponse{{Result: &command.ExecuteQueryResponse_Q{Q: &command.QueryRows{Columns: []string{"LEADER-ROWS"}, Types: []string{"text"}}}}}, 1, 77, nil
}
func (m *c20Leader) Backup(ctx context.Context, br *command.BackupRequest, addr string, creds *cluster.Credentials, t time.Duration, w io.Writer) error {
	m.r.addFwd("Backup", addr, creds)
	if m.deposed {
		return errC20Deposed
	}
	w.Write([]byte("LEADER-BACKUP"))
	return nil
}
func (m *c20Leader) Load(ctx context.Context, lr *command.LoadRequest, addr string, creds *cluster.Credentials, t time.Duration, r int) error {
	m.r.addFwd("Load", addr, creds)
	if m.deposed {
		return errC20Deposed
	}
	return nil
}
func (m *c20Leader) RemoveNode(ctx context.Context, rn *command.RemoveNodeRequest, addr string, creds *cluster.Credentials, t time.Duration) error {
	m.r.addFwd("Remove", addr, creds)
	if m.deposed {
		return errC20Deposed
	}
	return nil
}
func (m *c20Leader) Stepdown(ctx context.Context, sr *command.StepdownRequest, addr string, creds *cluster.Credentials, t time.Duration) error {
	m.r.addFwd("Stepdown", addr, creds)
	if m.deposed {
		return errC20Deposed
	}
	return nil
}

type c20Endpoint struct {
	kind, method, path, query, body, ctype string
	localOp                                string
	marker                                 string // must appear in the body of a forwarded answer ("" = none)
}

func TestVerifC20HTTP(t *testing.T) {
	rep := vfNewReport("C20", "http on a follower: forwarding endpoint (execute, query GET/POST strong, request, backup, load binary and SQL text, remove, stepdown) x credentials (none, Basic a:p, Basic a with empty password) x redirect parameter (absent, present) against a real http.Service + real proxy.Proxy with a follower store and a recording cluster client; non-trivial always; distinct by the combination")
	rep.Exhaustive = true
	defer rep.Write()
	rec := &c20Rec{}
	st := &c20Follower{r: rec}
	cl := &c20Leader{r: rec}
	s := New("127.0.0.1:0", st, cl, proxy.New(st, cl), nil)
	s.logger.SetOutput(io.Discard)
	if err := s.Start(); err != nil {
		t.Fatalf("start: %v", err)
	}
	defer s.Close()
	base := "http://" + s.Addr().String()
	client := &http.Client{Timeout: 20 * time.Second, CheckRedirect: func(req *http.Request, via []*http.Request) error { return http.ErrUseLastResponse }}

	sqlite := "SQLite format 3\x00" + strings.Repeat("\x00", 100)
	eps := []c20Endpoint{
		{"execute", "POST", "/db/execute", "", `["INSERT INTO t VALUES(1)"]`, "application/json", "Execute", "4242"},
		{"query", "GET", "/db/query", "level=strong&q=SELECT%201", "", "", "Query", "LEADER-ROWS"},
		{"query", "POST", "/db/query", "level=weak", `["SELECT 1"]`, "application/json", "Query", "LEADER-ROWS"},
		{"request", "POST", "/db/request", "", `["SELECT 1"]`, "application/json", "Request", "LEADER-ROWS"},
		{"backup", "GET", "/db/backup", "", "", "", "Backup", "LEADER-BACKUP"},
		{"load", "POST", "/db/load", "", sqlite, "application/octet-stream", "Load", ""},
		{"execute", "POST", "/db/load", "", "CREATE TABLE t (x);", "text/plain", "Execute", ""},
		{"remove", "DELETE", "/remove", "", `{"id":"n2"}`, "application/json", "Remove", ""},
		{"stepdown", "POST", "/leader", "", `{"id":"n2"}`, "application/json", "Stepdown", ""},
	}
	type cred struct {
		name, user, pass string
		present          bool
	}
	creds := []cred{{"none", "", "", false}, {"a:p", "a", "p", true}, {"a:(empty)", "a", "", true}}
	var ops, impl []string
	for _, ep := range eps {
		for _, c := range creds {
			for _, redirect := range []bool{false, true} {
				rec.reset()
				q := ep.query
				if redirect {
					if q != "" {
						q += "&"
					}
					q += "redirect"
				}
				url := base + ep.path
				if q != "" {
					url += "?" + q
				}
				req, err := http.NewRequest(ep.method, url, strings.NewReader(ep.body))
				if err != nil {
					t.Fatal(err)
				}
				if ep.ctype != "" {
					req.Header.Set("Content-Type", ep.ctype)
				}
				if c.present {
					req.Header.Set("Authorization", "Basic "+base64.StdEncoding.EncodeToString([]byte(c.user+":"+c.pass)))
				}
				resp, err := client.Do(req)
				if err != nil {
					t.Fatalf("%s %s: %v", ep.method, url, err)
				}
				body, _ := io.ReadAll(resp.Body)
				resp.Body.Close()
				key := fmt.Sprintf("%s %s?%s creds=%s redirect=%v", ep.method, ep.path, ep.query, c.name, redirect)
				rep.Case(key, true)
				rep.Count("endpoint:" + ep.path)
				rec.mu.Lock()
				local, fwd := append([]string(nil), rec.local...), append([]string(nil), rec.fwd...)
				rec.mu.Unlock()
				replay := map[string]interface{}{"request": key, "status": resp.StatusCode, "location": resp.Header.Get("Location"), "served_by": resp.Header.Get(ServedByHTTPHeader), "local_calls": local, "forwarded": fwd, "body": string(body)}

				wantCreds := "nil"
				if c.present {
					wantCreds = c.user + ":" + c.pass
				}
				if len(local) != 1 || local[0] != ep.localOp {
					rep.Fail("http:"+ep.path+":local-store-not-asked-exactly-once", fmt.Sprintf("%s: local store calls %v", key, local), replay)
				}
				if redirect {
					wantLoc := "http://leader-api:4001" + ep.path + "?" + q
					if len(fwd) != 0 || resp.StatusCode != http.StatusMovedPermanently || resp.Header.Get("Location") != wantLoc {
						rep.Fail("http:"+ep.path+":redirect-requested-but-not-redirected", fmt.Sprintf("%s: status %d Location %q forwarded %v (want 301 to %q, nothing forwarded)", key, resp.StatusCode, resp.Header.Get("Location"), fwd, wantLoc), replay)
					}
				} else {
					want := fmt.Sprintf("%s addr=leader-raft:4002 creds=%s", ep.localOp, wantCreds)
					if len(fwd) != 1 || fwd[0] != want {
						rep.Fail("http:"+ep.path+":not-forwarded-once-with-callers-credentials", fmt.Sprintf("%s: forwarded %v, want exactly [%s]", key, fwd, want), replay)
					}
					if resp.StatusCode != http.StatusOK || (ep.marker != "" && !strings.Contains(string(body), ep.marker)) {
						rep.Fail("http:"+ep.path+":leader-answer-not-returned", fmt.Sprintf("%s: status %d body %q does not carry the leader's answer %q", key, resp.StatusCode, body, ep.marker), replay)
					}
					// (for /db/backup the header is set after the body has been streamed, so it never
					// reaches the client; it is informational and not part of the property)
					if sb := resp.Header.Get(ServedByHTTPHeader); sb != "leader-raft:4002" && ep.kind != "backup" {
						rep.Fail("http:"+ep.path+":served-by-not-leader", fmt.Sprintf("%s: %s = %q", key, ServedByHTTPHeader, sb), replay)
					}
				}
				// the model, for the same combination
				nf, cr := "0", "0"
				if redirect {
					nf = "1"
				}
				if c.present {
					cr = "1"
				}
				ops = append(ops, fmt.Sprintf("proxy %s nl %s %s ok %s 0", ep.kind, nf, vfHex("leader-raft:4002"), cr))
				obs := "calls=local:" + ep.kind
				if len(fwd) > 0 {
					crs := "nil"
					if strings.HasSuffix(fwd[0], "creds="+wantCreds) && c.present {
						crs = "caller"
					}
					obs += ",leaderaddr,remote:" + ep.kind + ":" + vfHex("leader-raft:4002") + ":creds=" + crs
				}
				if resp.StatusCode == http.StatusMovedPermanently {
					obs += " result=err-not-leader"
				} else {
					sb := resp.Header.Get(ServedByHTTPHeader)
					if ep.kind == "backup" && len(fwd) == 1 {
						sb = "leader-raft:4002" // header written too late to be seen; the forwarding call names the node
					}
					obs += " result=forwarded:" + vfHex(sb)
				}
				impl = append(impl, obs)
			}
		}
	}
	// ---- leadership moved while the request was in flight: the node forwarded to answers "not leader".
	// The caller must get an answer that says so (or a redirect if it asked for one) - never an empty 200.
	cl.deposed = true
	for _, ep := range eps {
		for _, c := range creds {
			rec.reset()
			url := base + ep.path
			if ep.query != "" {
				url += "?" + ep.query
			}
			req, err := http.NewRequest(ep.method, url, strings.NewReader(ep.body))
			if err != nil {
				t.Fatal(err)
			}
			if ep.ctype != "" {
				req.Header.Set("Content-Type", ep.ctype)
			}
			if c.present {
				req.Header.Set("Authorization", "Basic "+base64.StdEncoding.EncodeToString([]byte(c.user+":"+c.pass)))
			}
			resp, err := client.Do(req)
			if err != nil {
				t.Fatalf("%s %s: %v", ep.method, url, err)
			}
			body, _ := io.ReadAll(resp.Body)
			resp.Body.Close()
			key := fmt.Sprintf("%s %s?%s creds=%s, the node forwarded to answers \"not leader\"", ep.method, ep.path, ep.query, c.name)
			rep.Case(key, true)
			rep.Count("deposed-leader:" + ep.path)
			says := strings.Contains(string(body), "not leader")
			var js map[string]interface{}
			wellFormed := resp.StatusCode != http.StatusOK || (json.Unmarshal(body, &js) == nil && (js["error"] != nil || js["results"] != nil))
			if !says || !wellFormed {
				rep.Fail("http:"+ep.path+":forwarded-request-refused-by-deposed-leader-is-not-reported",
					fmt.Sprintf("%s: status %d, body %q - the caller is told neither where the leader is nor that the request was not executed", key, resp.StatusCode, body),
					map[string]interface{}{"request": key, "status": resp.StatusCode, "body": string(body)})
			}
			cr := "0"
			if c.present {
				cr = "1"
			}
			ops = append(ops, fmt.Sprintf("proxy %s nl 0 %s nl %s 0", ep.kind, vfHex("leader-raft:4002"), cr))
			crs := "nil"
			if c.present {
				crs = "caller"
			}
			obs := "calls=local:" + ep.kind + ",leaderaddr,remote:" + ep.kind + ":" + vfHex("leader-raft:4002") + ":creds=" + crs
			if says {
				obs += " result=err-remote-not-leader"
			} else {
				obs += fmt.Sprintf(" result=unreported(status %d, %d body bytes)", resp.StatusCode, len(body))
			}
			impl = append(impl, obs)
		}
	}
	cl.deposed = false
	// every non-redirect answer of the first part carried results or an error: checked above per endpoint

	// compare with the model up to the timeout/retries detail (those are the proxy-level run's subject)
	model, err := vfModel("proxy", ops)
	if err != nil {
		rep.Disagree(vfDisagreement{Component: "proxy", Note: err.Error(), At: -1})
		return
	}
	for i := range ops {
		m := model[i]
		// drop ":timeout=..:retries=.." from the model's remote call
		if j := strings.Index(m, ":timeout="); j >= 0 {
			k := strings.Index(m[j:], " ")
			m = m[:j] + m[j+k:]
		}
		if m != impl[i] {
			rep.Disagree(vfDisagreement{Component: "proxy", Ops: []string{ops[i]}, Impl: []string{impl[i]}, Model: []string{m, "raw:" + model[i]}, At: 0})
		}
		rep.TracesValidated++
	}
	rep.Sample(map[string]interface{}{"combinations": len(ops), "first": ops[0], "observed": impl[0]})
}

package db

// C05 correspondence + spec oracle: the real WAL reader / compacting scanner / writer
// (db/wal) and real SQLite checkpoints vs. the Lean model `wal` (RqModel/Model/Wal.lean).
//
//  A. synthetic WALs built frame by frame (random page numbers, commit markers, database
//     sizes, both checksum byte orders, page sizes incl. unaligned and zero) with one
//     mutation each (corrupt checksum, stale generation tail, truncation at any byte incl.
//     exactly after a frame header, trailing garbage, zero page number, bad magic / version /
//     header checksum, short header). Real scanner+writer output (fullScan on/off, every
//     start) is compared BYTE FOR BYTE with the model, and with what the generator knows the
//     answer to be (latest committed frame per page of the checksum-valid prefix, in order;
//     open-transaction error).
//  B. WALs written by SQLite through the db package (page sizes 512-65536, inserts, updates,
//     deletes, multi-statement transactions, table drops, VACUUM, rollback of a spilled
//     transaction), cut / extended variants of them, every commit boundary as start:
//     compaction bytes vs model; SQLite's own checkpoint of the original vs of the compacted
//     WAL (database file bytes); SQLite's checkpoint vs the model's `ckpt`.

import (
	"bytes"
	"encoding/binary"
	"errors"
	"fmt"
	"io"
	"os"
	"path/filepath"
	"strings"
	"testing"

	"github.com/rqlite/rqlite/v10/db/wal"
)

// ---- own checksum + builder (independent of db/wal) ----------------------------------

func c05Sum(le bool, s0, s1 uint32, b []byte) (uint32, uint32) {
	for i := 0; i+8 <= len(b); i += 8 {
		var w0, w1 uint32
		if le {
			w0, w1 = binary.LittleEndian.Uint32(b[i:]), binary.LittleEndian.Uint32(b[i+4:])
		} else {
			w0, w1 = binary.BigEndian.Uint32(b[i:]), binary.BigEndian.Uint32(b[i+4:])
		}
		s0 += w0 + s1
		s1 += w1 + s0
	}
	return s0, s1
}

type c05Frame struct {
	pgno, commit uint32
	data         []byte
}

type c05Hdr struct {
	magic, version, pageSize, seq, salt1, salt2 uint32
}

func (h c05Hdr) le() bool { return h.magic == 0x377f0682 }

func c05HeaderBytes(h c05Hdr) ([]byte, uint32, uint32) {
	b := make([]byte, 32)
	binary.BigEndian.PutUint32(b[0:], h.magic)
	binary.BigEndian.PutUint32(b[4:], h.version)
	binary.BigEndian.PutUint32(b[8:], h.pageSize)
	binary.BigEndian.PutUint32(b[12:], h.seq)
	binary.BigEndian.PutUint32(b[16:], h.salt1)
	binary.BigEndian.PutUint32(b[20:], h.salt2)
	c1, c2 := c05Sum(h.le(), 0, 0, b[:24])
	binary.BigEndian.PutUint32(b[24:], c1)
	binary.BigEndian.PutUint32(b[28:], c2)
	return b, c1, c2
}

// c05AppendFrames appends chained frames; returns the bytes and the final checksum.
func c05AppendFrames(out []byte, h c05Hdr, s1, s2 uint32, c1, c2 uint32, frames []c05Frame) ([]byte, uint32, uint32) {
	for _, f := range frames {
		fh := make([]byte, 24)
		binary.BigEndian.PutUint32(fh[0:], f.pgno)
		binary.BigEndian.PutUint32(fh[4:], f.commit)
		binary.BigEndian.PutUint32(fh[8:], s1)
		binary.BigEndian.PutUint32(fh[12:], s2)
		c1, c2 = c05Sum(h.le(), c1, c2, fh[:8])
		c1, c2 = c05Sum(h.le(), c1, c2, f.data)
		binary.BigEndian.PutUint32(fh[16:], c1)
		binary.BigEndian.PutUint32(fh[20:], c2)
		out = append(out, fh...)
		out = append(out, f.data...)
	}
	return out, c1, c2
}

func c05BuildWAL(h c05Hdr, frames []c05Frame) []byte {
	b, c1, c2 := c05HeaderBytes(h)
	b, _, _ = c05AppendFrames(b, h, h.salt1, h.salt2, c1, c2, frames)
	return b
}

// c05ParseValid is the harness's own reading of SQLite's rule: frames with the header's
// salts whose chained checksum matches, up to the first that does not.
func c05ParseValid(walb []byte) (h c05Hdr, frames []c05Frame, ok bool) {
	if len(walb) < 32 {
		return h, nil, false
	}
	h = c05Hdr{magic: binary.BigEndian.Uint32(walb[0:]), version: binary.BigEndian.Uint32(walb[4:]), pageSize: binary.BigEndian.Uint32(walb[8:]),
		seq: binary.BigEndian.Uint32(walb[12:]), salt1: binary.BigEndian.Uint32(walb[16:]), salt2: binary.BigEndian.Uint32(walb[20:])}
	if h.magic != 0x377f0682 && h.magic != 0x377f0683 {
		return h, nil, false
	}
	c1, c2 := c05Sum(h.le(), 0, 0, walb[:24])
	if c1 != binary.BigEndian.Uint32(walb[24:]) || c2 != binary.BigEndian.Uint32(walb[28:]) {
		return h, nil, false
	}
	ps := int(h.pageSize)
	for off := 32; off+24+ps <= len(walb); off += 24 + ps {
		fh := walb[off : off+24]
		if binary.BigEndian.Uint32(fh[8:]) != h.salt1 || binary.BigEndian.Uint32(fh[12:]) != h.salt2 {
			break
		}
		data := walb[off+24 : off+24+ps]
		c1, c2 = c05Sum(h.le(), c1, c2, fh[:8])
		c1, c2 = c05Sum(h.le(), c1, c2, data)
		if c1 != binary.BigEndian.Uint32(fh[16:]) || c2 != binary.BigEndian.Uint32(fh[20:]) {
			break
		}
		frames = append(frames, c05Frame{binary.BigEndian.Uint32(fh[0:]), binary.BigEndian.Uint32(fh[4:]), data})
	}
	return h, frames, true
}

// ---- the rule, on frames the generator knows to be valid --------------------------------

// c05Expect: compaction of a list of valid frames: error token or the kept frames.
func c05Expect(frames []c05Frame) (string, []c05Frame) {
	for _, f := range frames {
		if f.pgno == 0 {
			return "err-zero-page", nil
		}
	}
	if len(frames) > 0 && frames[len(frames)-1].commit == 0 {
		return "err-open-tx", nil
	}
	var kept []c05Frame
	for i, f := range frames {
		later := false
		for _, g := range frames[i+1:] {
			if g.pgno == f.pgno {
				later = true
			}
		}
		if !later {
			kept = append(kept, f)
		}
	}
	return "", kept
}

// c05RefCkpt: database pages after checkpointing frames (latest committed frame per page,
// file cut/extended to the last commit's size).
func c05RefCkpt(pageSize int, db [][]byte, frames []c05Frame) [][]byte {
	lastCommit := -1
	for i, f := range frames {
		if f.commit != 0 {
			lastCommit = i
		}
	}
	if lastCommit < 0 {
		return db
	}
	n := int(frames[lastCommit].commit)
	latest := map[uint32][]byte{}
	for _, f := range frames[:lastCommit+1] {
		latest[f.pgno] = f.data
	}
	out := make([][]byte, n)
	for i := 0; i < n; i++ {
		if d, ok := latest[uint32(i+1)]; ok {
			out[i] = d
		} else if i < len(db) {
			out[i] = db[i]
		} else {
			out[i] = make([]byte, pageSize)
		}
	}
	return out
}

// ---- running the real code ------------------------------------------------------------

func c05ErrTok(err error) string {
	switch {
	case err == io.EOF:
		return "err-header-eof"
	case errors.Is(err, wal.ErrOpenTransaction):
		return "err-open-tx"
	case errors.Is(err, wal.ErrZeroPageNumber):
		return "err-zero-page"
	case errors.Is(err, io.ErrUnexpectedEOF):
		return "err-short-read"
	}
	s := err.Error()
	switch {
	case strings.Contains(s, "invalid wal header magic"):
		return "err-magic"
	case strings.Contains(s, "unsupported wal version"):
		return "err-version"
	case strings.Contains(s, "fullScan requires"):
		return "err-args"
	case strings.Contains(s, "misaligned"):
		return "err-misaligned"
	case strings.Contains(s, "unexpected EOF"):
		return "err-short-read"
	}
	return "err-other:" + s
}

// c05Compact = NewCompactingFrameScanner + NewWriter + WriteTo, as CheckpointManager does.
func c05Compact(walb []byte, start int64, full bool) (string, []byte) {
	s, err := wal.NewCompactingFrameScanner(bytes.NewReader(walb), start, full)
	if err != nil {
		return c05ErrTok(err), nil
	}
	w, err := wal.NewWriter(s)
	if err != nil {
		return c05ErrTok(err), nil
	}
	var out bytes.Buffer
	if _, err := w.WriteTo(&out); err != nil {
		return c05ErrTok(err), nil
	}
	return "ok " + vfHexB(out.Bytes()), out.Bytes()
}

func c05ReadAll(walb []byte) (string, []c05Frame) {
	fs, err := wal.NewFullScanner(bytes.NewReader(walb))
	if err != nil {
		return c05ErrTok(err), nil
	}
	var out []c05Frame
	for {
		f, err := fs.Next()
		if err == io.EOF {
			return "eof", out
		}
		if err != nil {
			return c05ErrTok(err), out
		}
		out = append(out, c05Frame{f.Pgno, f.Commit, append([]byte(nil), f.Data...)})
	}
}

func c05FramesEqual(a, b []c05Frame) bool {
	if len(a) != len(b) {
		return false
	}
	for i := range a {
		if a[i].pgno != b[i].pgno || a[i].commit != b[i].commit || !bytes.Equal(a[i].data, b[i].data) {
			return false
		}
	}
	return true
}

// ---- A: synthetic ---------------------------------------------------------------------------

func c05Synthetic(t *testing.T, rep *vfReport, r *vfRng) {
	n := vfScale(900, 40000)
	var ops, impl []string
	for i := 0; i < n; i++ {
		h := c05Hdr{magic: 0x377f0682, version: 3007000, seq: uint32(r.Intn(5)), salt1: uint32(r.U64()), salt2: uint32(r.U64())}
		if r.Bool() {
			h.magic = 0x377f0683
		}
		pss := []uint32{8, 8, 16, 16, 24, 32, 64, 512}
		h.pageSize = pss[r.Intn(len(pss))]
		if r.Chance(3) {
			h.pageSize = []uint32{0, 4, 12, 20}[r.Intn(4)]
		}
		ps := int(h.pageSize)
		nf := r.Intn(12)
		var frames []c05Frame
		for k := 0; k < nf; k++ {
			f := c05Frame{pgno: uint32(1 + r.Intn(5)), data: r.Bytes(ps)}
			if r.Chance(35) || (k == nf-1 && r.Chance(60)) {
				f.commit = uint32(1 + r.Intn(6))
			}
			frames = append(frames, f)
		}
		walb := c05BuildWAL(h, frames)
		frameSize := 24 + ps
		valid := nf     // number of checksum-valid frames (what SQLite accepts)
		saltValid := nf // number of frames whose header is fully present with matching salt
		mut := "none"
		hdrTok := ""
		switch r.Intn(14) {
		case 0, 1: // corrupt one byte of a frame's stored checksum or page data
			if nf > 0 {
				k := r.Intn(nf)
				off := 32 + k*frameSize + 16 + r.Intn(8)
				if ps > 0 && r.Bool() {
					off = 32 + k*frameSize + 24 + r.Intn(ps)
				}
				walb[off] ^= byte(1 << uint(r.Intn(8)))
				valid = k
				mut = "corrupt-checksum-or-data"
			}
		case 2, 3: // stale tail from an earlier generation: other salts, own chain
			k := r.Intn(nf + 1)
			var tail []c05Frame
			for j := r.Intn(4) + 1; j > 0; j-- {
				f := c05Frame{pgno: uint32(1 + r.Intn(5)), data: r.Bytes(ps)}
				if r.Chance(50) {
					f.commit = uint32(1 + r.Intn(6))
				}
				tail = append(tail, f)
			}
			walb = walb[:32+k*frameSize]
			walb, _, _ = c05AppendFrames(walb, h, h.salt1-1, uint32(r.U64()), uint32(r.U64()), uint32(r.U64()), tail)
			frames = frames[:k]
			nf, valid, saltValid = k, k, k
			mut = "stale-generation-tail"
		case 4, 5, 6: // truncation
			if nf > 0 {
				k := r.Intn(nf)
				var cut int
				switch r.Intn(4) {
				case 0:
					cut = 32 + k*frameSize // frame boundary
					mut = "truncated-at-frame-boundary"
				case 1:
					cut = 32 + k*frameSize + 24 // exactly after the frame header
					mut = "truncated-after-frame-header"
				case 2:
					cut = 32 + k*frameSize + r.Intn(24)
					mut = "truncated-inside-frame-header"
				default:
					cut = 32 + k*frameSize + 24 + r.Intn(ps+1)
					mut = "truncated-inside-page-data"
				}
				if cut < len(walb) {
					walb = walb[:cut]
					valid = k
					saltValid = k
					if cut >= 32+k*frameSize+24 {
						saltValid = k + 1
					}
					if cut == 32+(k+1)*frameSize {
						valid = k + 1
					}
				} else {
					mut = "none"
				}
			}
		case 7: // trailing garbage
			walb = append(walb, r.Bytes(r.Intn(3*frameSize+1))...)
			mut = "trailing-garbage"
		case 8: // zero page number in a valid frame
			if nf > 0 {
				k := r.Intn(nf)
				frames[k].pgno = 0
				walb = c05BuildWAL(h, frames)
				mut = "zero-page-number"
			}
		case 9:
			switch r.Intn(4) {
			case 0:
				h2 := h
				h2.magic = 0x377f0684
				walb = c05BuildWAL(h2, frames)
				mut, hdrTok = "bad-magic", "err-magic"
			case 1:
				h2 := h
				h2.version = 3007001
				walb = c05BuildWAL(h2, frames)
				mut, hdrTok = "bad-version", "err-version"
			case 2:
				walb[24+r.Intn(8)] ^= 0x10
				mut, hdrTok = "bad-header-checksum", "err-header-eof"
			default:
				walb = walb[:r.Intn(32)]
				mut, hdrTok = "short-header", "err-header-eof"
			}
		}
		rep.Count("synthetic-mutation=" + mut)
		rep.Count(fmt.Sprintf("synthetic-pagesize=%d", ps))
		walHex := vfHexB(walb)
		nontrivial := false
		for _, full := range []bool{true, false} {
			starts := []int{0}
			if !full {
				for k := 1; k <= nf; k++ {
					if frames[k-1].commit != 0 || r.Chance(15) {
						starts = append(starts, k)
					}
				}
				if r.Chance(20) {
					starts = append(starts, nf+1+r.Intn(3))
				}
			} else if r.Chance(10) {
				starts = append(starts, 1)
			}
			for _, st := range starts {
				tok, out := c05Compact(walb, int64(st), full)
				ops = append(ops, fmt.Sprintf("compact %s %d %s", c05B(full), st, walHex))
				impl = append(impl, tok)
				replay := map[string]interface{}{"wal_hex": walHex[1:], "full_scan": full, "start_frame": st, "mutation": mut, "ops": []string{ops[len(ops)-1]}}
				// the rule
				atBoundary := st == 0 || (st <= nf && st <= valid && frames[st-1].commit != 0)
				if !atBoundary || (full && st != 0) || ps%8 != 0 {
					continue // unaligned page sizes: model correspondence only
				}
				var want string
				var wantBytes []byte
				if hdrTok != "" {
					want = hdrTok
				} else {
					vf := frames[st:valid]
					etok, kept := c05Expect(vf)
					if etok != "" {
						want = etok
					} else {
						hb, c1, c2 := c05HeaderBytes(h)
						wantBytes, _, _ = c05AppendFrames(hb, h, h.salt1, h.salt2, c1, c2, kept)
						want = "ok " + vfHexB(wantBytes)
						if len(kept) < len(vf) {
							nontrivial = true
						}
					}
				}
				if tok == want {
					continue
				}
				mode := "full-scan"
				if !full {
					mode = "fast-scan"
				}
				detail := fmt.Sprintf("%s start=%d mutation=%s pagesize=%d frames=%d checksum-valid=%d: got %.60s want %.60s", mode, st, mut, ps, nf, valid, tok, want)
				if !full && (mut == "corrupt-checksum-or-data" || mut == "truncated-inside-page-data" || mut == "truncated-after-frame-header") && saltValid > valid {
					// known limitation of the salt-only scan: it cannot see that these frames are invalid
					if strings.HasPrefix(tok, "ok ") && mut == "truncated-after-frame-header" {
						rep.Fail("fast-scan-silently-drops-frame-truncated-after-header", detail, replay)
					} else if strings.HasPrefix(tok, "ok ") {
						rep.Fail("fast-scan-includes-frames-beyond-checksum-valid-prefix", detail, replay)
					} else {
						rep.Fail("fast-scan-error-caused-by-frames-beyond-checksum-valid-prefix", detail, replay)
					}
					continue
				}
				_ = out
				rep.Fail(mode+"-result-differs-from-rule:"+mut, detail, replay)
			}
		}
		rep.Case(walHex, nontrivial)
		if i < 2 {
			rep.Sample(map[string]interface{}{"kind": "synthetic", "page_size": ps, "frames": nf, "mutation": mut, "wal_bytes": len(walb)})
		}
	}
	rep.vfCompare("wal", ops, impl, nil)
}

func c05B(b bool) string {
	if b {
		return "1"
	}
	return "0"
}

// ---- B: SQLite-written WALs -------------------------------------------------------------------

type c05Real struct {
	base       []byte // database file before the WAL (WAL mode, checkpointed)
	walb       []byte
	pageSize   int
	boundaries []int // frame counts at statement (commit) boundaries, ascending, last = total valid frames
	kind       string
}

func c05FileOrEmpty(p string) []byte {
	b, err := os.ReadFile(p)
	if err != nil {
		return nil
	}
	return b
}

func c05GenReal(t *testing.T, r *vfRng, dir string, pageSize int, spill bool) *c05Real {
	path := filepath.Join(dir, fmt.Sprintf("gen-%d.db", r.U64()))
	// page size must be chosen before WAL mode
	d, err := Open(path, false, false)
	if err != nil {
		t.Fatal(err)
	}
	mustExecute(d, fmt.Sprintf("PRAGMA page_size=%d", pageSize))
	mustExecute(d, "CREATE TABLE t0 (id INTEGER PRIMARY KEY, v TEXT, w BLOB)")
	mustExecute(d, "VACUUM")
	d.Close()
	d, err = Open(path, false, true)
	if err != nil {
		t.Fatal(err)
	}
	for i := 0; i < 3+r.Intn(8); i++ {
		mustExecute(d, fmt.Sprintf("INSERT INTO t0(v,w) VALUES('%s', randomblob(%d))", strings.Repeat("s", r.Intn(pageSize/2+5)), r.Intn(pageSize*2)))
	}
	if _, err := d.Checkpoint(CheckpointTruncate); err != nil {
		t.Fatal(err)
	}
	res := &c05Real{pageSize: pageSize, kind: "plain"}
	res.base = c05FileOrEmpty(path)
	if spill {
		mustExecute(d, "PRAGMA cache_size=5")
		res.kind = "rollback-of-spilled-transaction"
	}
	tables := []string{"t0"}
	nextT := 1
	frameSize := 24 + pageSize
	mark := func() {
		sz, _ := d.WALSize()
		if sz >= 32 {
			res.boundaries = append(res.boundaries, int((sz-32)/int64(frameSize)))
		}
	}
	nops := 2 + r.Intn(vfScale(8, 16))
	for i := 0; i < nops; i++ {
		tb := tables[r.Intn(len(tables))]
		switch k := r.Intn(10); {
		case k < 3:
			mustExecute(d, fmt.Sprintf("INSERT INTO %s(v,w) VALUES('%s', randomblob(%d))", tb, strings.Repeat("x", r.Intn(pageSize+5)), r.Intn(pageSize*3)))
		case k < 4:
			mustExecute(d, fmt.Sprintf("UPDATE %s SET v='%s' WHERE id %% %d = 0", tb, strings.Repeat("u", r.Intn(40)), 1+r.Intn(3)))
		case k < 5:
			mustExecute(d, fmt.Sprintf("DELETE FROM %s WHERE id %% %d = 1", tb, 2+r.Intn(3)))
		case k < 7:
			stmts := []string{"BEGIN"}
			for j := 0; j < 2+r.Intn(6); j++ {
				stmts = append(stmts, fmt.Sprintf("INSERT INTO %s(v,w) VALUES('tx%d', randomblob(%d))", tb, j, r.Intn(pageSize)))
			}
			stmts = append(stmts, "COMMIT")
			if _, err := d.RequestStringStmts(stmts); err != nil {
				t.Fatal(err)
			}
		case k < 8:
			nm := fmt.Sprintf("t%d", nextT)
			nextT++
			mustExecute(d, fmt.Sprintf("CREATE TABLE %s (id INTEGER PRIMARY KEY, v TEXT, w BLOB)", nm))
			tables = append(tables, nm)
		case k < 9:
			if len(tables) > 1 {
				mustExecute(d, "DROP TABLE "+tables[len(tables)-1])
				tables = tables[:len(tables)-1]
				if r.Bool() {
					res.kind = "drop"
				}
			}
		default:
			if err := d.Vacuum(); err != nil {
				t.Fatal(err)
			}
			if !spill {
				res.kind = "vacuum"
			}
		}
		mark()
		if spill && i == nops/2 {
			stmts := []string{"BEGIN"}
			for j := 0; j < 60+r.Intn(60); j++ {
				stmts = append(stmts, fmt.Sprintf("INSERT INTO t0(v,w) VALUES('spill%d', randomblob(%d))", j, pageSize))
			}
			stmts = append(stmts, "ROLLBACK")
			if _, err := d.RequestStringStmts(stmts); err != nil {
				t.Fatal(err)
			}
		}
	}
	d.Close()
	res.walb = c05FileOrEmpty(path + "-wal")
	os.Remove(path)
	os.Remove(path + "-wal")
	os.Remove(path + "-shm")
	// commit boundaries from the harness's own parse of the checksum-valid prefix (the file
	// size is no guide: after a rollback SQLite leaves the spilled frames in the file)
	_, vf, _ := c05ParseValid(res.walb)
	res.boundaries = nil
	for i, f := range vf {
		if f.commit != 0 {
			res.boundaries = append(res.boundaries, i+1)
		}
	}
	return res
}

// c05GenDirectedSpill: the recorded witness of the salt-only scan's known limitation:
// commit, a spilled transaction rolled back, one more commit (shorter than the spill).
func c05GenDirectedSpill(t *testing.T, dir string) *c05Real {
	path := filepath.Join(dir, "directed-spill.db")
	d, err := Open(path, false, false)
	if err != nil {
		t.Fatal(err)
	}
	mustExecute(d, "PRAGMA page_size=512")
	mustExecute(d, "CREATE TABLE t0 (id INTEGER PRIMARY KEY, v TEXT, w BLOB)")
	mustExecute(d, "VACUUM")
	d.Close()
	if d, err = Open(path, false, true); err != nil {
		t.Fatal(err)
	}
	mustExecute(d, "INSERT INTO t0(v) VALUES('base')")
	if _, err := d.Checkpoint(CheckpointTruncate); err != nil {
		t.Fatal(err)
	}
	res := &c05Real{pageSize: 512, kind: "rollback-of-spilled-transaction"}
	res.base = c05FileOrEmpty(path)
	mustExecute(d, "PRAGMA cache_size=5")
	mustExecute(d, "INSERT INTO t0(v) VALUES('a')")
	stmts := []string{"BEGIN"}
	for j := 0; j < 80; j++ {
		stmts = append(stmts, fmt.Sprintf("INSERT INTO t0(v,w) VALUES('spill%d', zeroblob(512))", j))
	}
	stmts = append(stmts, "ROLLBACK")
	if _, err := d.RequestStringStmts(stmts); err != nil {
		t.Fatal(err)
	}
	mustExecute(d, "INSERT INTO t0(v) VALUES('b')")
	d.Close()
	res.walb = c05FileOrEmpty(path + "-wal")
	os.Remove(path)
	os.Remove(path + "-wal")
	os.Remove(path + "-shm")
	_, vf, _ := c05ParseValid(res.walb)
	for i, f := range vf {
		if f.commit != 0 {
			res.boundaries = append(res.boundaries, i+1)
		}
	}
	return res
}

// c05SQLiteCheckpoint lets SQLite checkpoint walb into base and returns the database file.
func c05SQLiteCheckpoint(dir string, base, walb []byte) ([]byte, error) {
	path := filepath.Join(dir, "ck.db")
	os.Remove(path + "-shm")
	if err := os.WriteFile(path, base, 0o644); err != nil {
		return nil, err
	}
	if err := os.WriteFile(path+"-wal", walb, 0o644); err != nil {
		return nil, err
	}
	if err := CheckpointRemove(path); err != nil {
		os.Remove(path + "-wal")
		return nil, err
	}
	return os.ReadFile(path)
}

func c05Real1(t *testing.T, rep *vfReport, r *vfRng, dir string, g *c05Real, ops, impl *[]string) {
	if len(g.walb) < 32 || len(g.boundaries) == 0 {
		return
	}
	frameSize := 24 + g.pageSize
	total := (len(g.walb) - 32) / frameSize
	valid := g.boundaries[len(g.boundaries)-1]
	rep.Count(fmt.Sprintf("sqlite-wal-pagesize=%d", g.pageSize))
	rep.Count("sqlite-wal-kind=" + g.kind)
	if total > valid {
		rep.Count("sqlite-wal-with-stale-same-salt-frames-after-last-commit")
	}
	sendModel := len(g.walb) <= vfScale(200_000, 1_500_000)
	walHex := ""
	if sendModel {
		walHex = vfHexB(g.walb)
	}
	replayBase := map[string]interface{}{"kind": g.kind, "page_size": g.pageSize, "wal_frames": total, "valid_frames": valid, "wal_hex": fmt.Sprintf("%x", g.walb), "base_hex": fmt.Sprintf("%x", g.base)}

	// what SQLite itself makes of base + WAL
	whole, err := c05SQLiteCheckpoint(dir, g.base, g.walb)
	if err != nil {
		t.Fatalf("SQLite checkpoint of generated WAL failed: %v", err)
	}
	if sendModel {
		*ops = append(*ops, fmt.Sprintf("ckpt %d %s %s", g.pageSize, vfHexB(g.base), walHex))
		*impl = append(*impl, vfHexB(whole))
	}
	// frames the checksumming reader accepts = the checksum-valid prefix (harness's own parse)
	_, vfr := c05ReadAll(g.walb)
	_, vfOwn, _ := c05ParseValid(g.walb)
	if !c05FramesEqual(vfr, vfOwn) {
		rep.Fail("checksum-valid-prefix-differs", fmt.Sprintf("FullScanner accepts %d frames, the rule %d", len(vfr), len(vfOwn)), replayBase)
	}
	if len(vfOwn) > valid {
		// a rolled-back spilled transaction whose frames were not overwritten: a checksum-valid,
		// unterminated trailing transaction. The property demands an error, in both modes.
		rep.Count("sqlite-wal-with-valid-uncommitted-tail")
		for _, full := range []bool{false, true} {
			tok, _ := c05Compact(g.walb, 0, full)
			if sendModel {
				*ops = append(*ops, fmt.Sprintf("compact %s 0 %s", c05B(full), walHex))
				*impl = append(*impl, tok)
			}
			rep.Case(fmt.Sprintf("real-open|%x|%v", g.walb[:64], full), true)
			if tok != "err-open-tx" {
				rep.Fail("open-transaction-not-reported", fmt.Sprintf("%d committed + %d uncommitted valid frames: %.40s", valid, len(vfOwn)-valid, tok), replayBase)
			}
		}
		return
	}

	starts := append([]int{0}, g.boundaries[:len(g.boundaries)-1]...)
	if len(starts) > vfScale(4, 12) {
		starts = append(starts[:2], starts[len(starts)-vfScale(2, 10):]...)
	}
	for _, st := range starts {
		for _, full := range []bool{false, true} {
			if full && st != 0 {
				continue
			}
			tok, out := c05Compact(g.walb, int64(st), full)
			if sendModel {
				*ops = append(*ops, fmt.Sprintf("compact %s %d %s", c05B(full), st, walHex))
				*impl = append(*impl, tok)
			}
			mode := "fast-scan"
			if full {
				mode = "full-scan"
			}
			replay := map[string]interface{}{"start_frame": st, "full_scan": full}
			for k, v := range replayBase {
				replay[k] = v
			}
			rep.Case(fmt.Sprintf("real|%x|%d|%v", g.walb[:64], st, full), true)
			if out == nil {
				if !full && total > valid {
					rep.Fail("fast-scan-rejects-valid-sqlite-wal:same-salt-stale-frames-after-rollback",
						fmt.Sprintf("page size %d, %d committed frames followed by %d stale frames of a rolled-back spilled transaction (same salt): %s", g.pageSize, valid, total-valid, tok), replay)
				} else {
					rep.Fail(mode+"-rejects-valid-sqlite-wal", fmt.Sprintf("start=%d: %s", st, tok), replay)
				}
				continue
			}
			// base as of `st`: SQLite checkpoint of the first st frames
			baseSt := g.base
			if st > 0 {
				baseSt, err = c05SQLiteCheckpoint(dir, g.base, g.walb[:32+st*frameSize])
				if err != nil {
					t.Fatalf("SQLite checkpoint of WAL prefix failed: %v", err)
				}
			}
			got, err := c05SQLiteCheckpoint(dir, baseSt, out)
			if err != nil {
				rep.Fail("sqlite-rejects-compacted-wal", err.Error(), replay)
				continue
			}
			if !bytes.Equal(got, whole) {
				rep.Fail("checkpoint-of-compacted-wal-differs:"+mode, fmt.Sprintf("kind=%s page size %d start=%d: database after checkpointing the compacted WAL (%d bytes) differs from checkpointing the original (%d bytes)", g.kind, g.pageSize, st, len(got), len(whole)), replay)
			}
			if sendModel && st == 0 {
				*ops = append(*ops, fmt.Sprintf("ckpt %d %s %s", g.pageSize, vfHexB(g.base), vfHexB(out)))
				*impl = append(*impl, vfHexB(got))
			}
		}
	}
	// cut / extended variants against SQLite's own recovery
	if sendModel && valid > 0 {
		for v := 0; v < vfScale(2, 6); v++ {
			var wb []byte
			kind := ""
			switch r.Intn(4) {
			case 0:
				wb = append([]byte(nil), g.walb[:32+r.Intn(valid*frameSize+1)]...)
				kind = "cut-anywhere"
			case 1:
				wb = append([]byte(nil), g.walb[:32+(1+r.Intn(valid))*frameSize]...)
				kind = "cut-at-frame-boundary"
			case 2:
				wb = append(append([]byte(nil), g.walb[:32+valid*frameSize]...), r.Bytes(r.Intn(2*frameSize))...)
				kind = "garbage-appended"
			default:
				wb = append([]byte(nil), g.walb[:32+valid*frameSize]...)
				k := r.Intn(valid)
				wb[32+k*frameSize+24+r.Intn(g.pageSize)] ^= 0x40
				kind = "page-byte-flipped"
			}
			rep.Count("sqlite-wal-variant=" + kind)
			got, err := c05SQLiteCheckpoint(dir, g.base, wb)
			if err != nil {
				rep.Note("SQLite refused variant %s: %v", kind, err)
				continue
			}
			*ops = append(*ops, fmt.Sprintf("ckpt %d %s %s", g.pageSize, vfHexB(g.base), vfHexB(wb)))
			*impl = append(*impl, vfHexB(got))
			// full-scan compaction of the variant, then SQLite's checkpoint of it
			tok, out := c05Compact(wb, 0, true)
			*ops = append(*ops, fmt.Sprintf("compact 1 0 %s", vfHexB(wb)))
			*impl = append(*impl, tok)
			if out != nil {
				got2, err := c05SQLiteCheckpoint(dir, g.base, out)
				if err != nil || !bytes.Equal(got2, got) {
					rep.Fail("checkpoint-of-compacted-wal-differs:full-scan:"+kind, fmt.Sprintf("page size %d", g.pageSize), map[string]interface{}{"wal_hex": fmt.Sprintf("%x", wb), "base_hex": fmt.Sprintf("%x", g.base)})
				}
			}
		}
	}
}

func TestVerifC05(t *testing.T) {
	rep := vfNewReport("C05", "A: synthetic WALs (0-11 frames over pages 1-5, random commit markers/sizes, both byte orders, page sizes 8-512 and unaligned/zero, one mutation each) × fullScan on/off × every start; non-trivial = some frame is superseded; B: WALs written by SQLite (page sizes 512-65536; inserts, updates, deletes, transactions, create/drop, VACUUM, rollback of a spilled transaction) × every commit boundary as start, plus cut/extended/bit-flipped variants; distinct by WAL bytes + start + mode")
	defer rep.Write()
	c05Synthetic(t, rep, vfNewRng(501))

	dir := t.TempDir()
	r := vfNewRng(502)
	var ops, impl []string
	sizes := []int{512, 512, 1024, 4096}
	if vfThorough() {
		sizes = []int{512, 512, 512, 1024, 1024, 2048, 4096, 4096, 8192, 16384, 32768, 65536}
	}
	rounds := vfScale(1, 6)
	for round := 0; round < rounds; round++ {
		for _, ps := range sizes {
			g := c05GenReal(t, r, dir, ps, false)
			c05Real1(t, rep, r, dir, g, &ops, &impl)
		}
		g := c05GenReal(t, r, dir, 512, true)
		c05Real1(t, rep, r, dir, g, &ops, &impl)
	}
	c05Real1(t, rep, r, dir, c05GenDirectedSpill(t, dir), &ops, &impl)
	if !vfThorough() {
		// one large-page WAL in the quick tier too (property only when too big for the model)
		g := c05GenReal(t, r, dir, 65536, false)
		c05Real1(t, rep, r, dir, g, &ops, &impl)
	}
	rep.vfCompare("wal", ops, impl, nil)
}

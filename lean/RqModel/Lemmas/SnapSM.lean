/-
Helper lemmas for C04 over RqModel/Model/SnapSM.lean: the chain invariant and its preservation.
-/
import RqModel.Model.SnapSM
set_option linter.unusedSimpArgs false
set_option linter.unusedVariables false
namespace RqModel.SnapSM

/-- `ChainInv s`: restoring the newest snapshot and replaying the log after it gives the applied
database, and (unless a full snapshot is required anyway) the staged WAL segments are exactly the
changes between the restored newest snapshot and the database file. -/
structure ChainInv (s : SM) : Prop where
  restore : replay (resolve s.snaps) s.tail = some s.db
  resolves : (resolve s.snaps).isSome
  staged : s.fullNeeded = false → s.snaps ≠ [] → s.staged.foldl applySeg (resolve s.snaps) = some s.file

def resolveStep (acc : Option C) (x : Snap) : Option C :=
  match x with
  | .full c => some c
  | .inc segs => segs.foldl applySeg acc

theorem resolve_snoc (l : List Snap) (x : Snap) : resolve (l ++ [x]) = resolveStep (resolve l) x := by
  unfold resolve
  rw [List.foldl_append]
  rfl

theorem replay_snoc (d : Option C) (es : List Entry) (e : Entry) : replay d (es ++ [e]) = applyEntry (replay d es) e := by
  unfold replay
  rw [List.foldl_append]
  rfl

theorem foldl_applySeg_snoc (d : Option C) (l : List Seg) (g : Seg) :
    (l ++ [g]).foldl applySeg d = applySeg (l.foldl applySeg d) g := by
  rw [List.foldl_append]; rfl

theorem chainInv_init : ChainInv {} := ⟨rfl, rfl, fun _ h => absurd rfl h⟩

theorem snoc_ne_nil {α} (l : List α) (a : α) : l ++ [a] ≠ [] := by simp

/-- installing a full snapshot of the current database with an empty staging directory -/
theorem chainInv_full_installed (s : SM) (c : C) (fn : Bool) (cmds ap) :
    ChainInv { s with db := c, file := c, staged := [], snaps := s.snaps ++ [.full c], fullNeeded := fn, tail := [], cmds := cmds, applied := ap } where
  restore := by simp [resolve_snoc, resolveStep, replay]
  resolves := by simp [resolve_snoc, resolveStep]
  staged _ _ := by simp [resolve_snoc, resolveStep]

theorem snapshot_inv (s : SM) (h : ChainInv s) (o : Outcome) : ChainInv (snapshot true s o).1 := by
  unfold snapshot
  split
  · exact h
  · split
    · -- full path
      rename_i hnot hdue
      cases hse : s.staged.isEmpty with
      | true =>
        have hst : s.staged = [] := by simpa using hse
        simp only [hse, Bool.not_true, Bool.and_false, Bool.false_eq_true, if_false]
        cases o with
        | ok =>
          simp only
          have := chainInv_full_installed s s.db false 0 s.applied
          simpa [hst] using this
        | notInvoked | failBefore | failAfter =>
          simp only
          refine ⟨h.restore, h.resolves, ?_⟩
          intro hf hne
          -- a full was due: either the flag was set or the store is empty
          unfold fullDue at hdue
          simp only [Bool.or_eq_true] at hdue
          rcases hdue with hd | hd
          · simp only at hf; rw [hf] at hd; cases hd
          · simp only at hne
            exact absurd (by simpa using hd) hne
      | false =>
        simp only [hse, Bool.not_false, Bool.and_true, Bool.true_and, if_true]
        cases o with
        | ok =>
          simp only
          exact chainInv_full_installed s s.db false 0 s.applied
        | notInvoked | failBefore | failAfter =>
          simp only
          exact ⟨h.restore, h.resolves, fun hf => by cases hf⟩
    · -- incremental path
      rename_i hnot hdue
      have hdue' : s.fullNeeded = false ∧ s.snaps ≠ [] := by
        unfold fullDue at hdue
        simp only [Bool.or_eq_true, not_or, Bool.not_eq_true] at hdue
        exact ⟨hdue.1, by simpa using hdue.2⟩
      have hst := h.staged hdue'.1 hdue'.2
      split
      · exact h
      · have hnew : (s.staged ++ [(⟨s.file, s.db⟩ : Seg)]).foldl applySeg (resolve s.snaps) = some s.db := by
          rw [foldl_applySeg_snoc, hst]; simp [applySeg]
        cases o with
        | ok =>
          simp only
          refine ⟨?_, ?_, ?_⟩
          · simp [resolve_snoc, resolveStep, hnew, replay]
          · simp [resolve_snoc, resolveStep, hnew]
          · intro _ _; simp [resolve_snoc, resolveStep, hnew]
        | notInvoked => simp only; exact ⟨h.restore, h.resolves, fun _ _ => hnew⟩
        | failBefore => simp only; exact ⟨h.restore, h.resolves, fun _ _ => hnew⟩
        | failAfter => simp only; exact ⟨h.restore, h.resolves, fun hf => by cases hf⟩

theorem step_inv (s : SM) (h : ChainInv s) (op : Op) : ChainInv (step true s op).1 := by
  cases op with
  | write w =>
    simp only [step]
    refine ⟨?_, h.resolves, h.staged⟩
    simp [replay_snoc, h.restore, applyEntry]
  | noop => exact ⟨h.restore, h.resolves, h.staged⟩
  | snapshot o => exact snapshot_inv s h o
  | load c =>
    simp only [step]
    refine ⟨?_, h.resolves, fun hf => by cases hf⟩
    simp [replay_snoc, h.restore, applyEntry]
  | boot c =>
    simp only [step]
    -- the swapped-in database with the full-needed flag set, then a persisted full snapshot
    have hs : (snapshot true { s with db := c, file := c, fullNeeded := true, cmds := s.cmds + 1, applied := true } .ok).1
        = { s with db := c, file := c, staged := [], snaps := s.snaps ++ [.full c], fullNeeded := false, tail := [], cmds := 0, applied := true } := by
      simp only [snapshot, fullDue, Bool.true_or, if_true, Bool.not_true, Bool.and_false, Bool.false_eq_true, if_false]
      cases hse : s.staged.isEmpty with
      | true =>
        have hst : s.staged = [] := by simpa using hse
        simp [hst]
      | false => simp
    rw [hs]
    exact chainInv_full_installed s c false 0 true
  | install c =>
    simp only [step, if_true]
    exact chainInv_full_installed s c false 0 s.applied
  | reap =>
    simp only [step]
    cases hr : resolve s.snaps with
    | none => exact h
    | some c =>
      simp only
      split
      · refine ⟨?_, ?_, ?_⟩
        · have := h.restore; rw [hr] at this; simpa [resolve] using this
        · simp [resolve]
        · intro hf _
          rename_i hlen
          have hne : s.snaps ≠ [] := by
            intro e
            have : s.snaps.length = 0 := by rw [e]; rfl
            omega
          have := h.staged hf hne
          rw [hr] at this
          simpa [resolve] using this
      · exact h
  | restart =>
    simp only [step]
    cases hr : resolve s.snaps with
    | none => have := h.resolves; rw [hr] at this; cases this
    | some r =>
      have hre := h.restore
      rw [hr] at hre
      simp only [hre]
      refine ⟨by simpa [hr] using hre, by simp [hr], ?_⟩
      intro _ _
      simp [hr]

theorem run_inv (ops : List Op) : ∀ (s : SM), ChainInv s → ChainInv (run true s ops) := by
  induction ops with
  | nil => intro s h; exact h
  | cons o os ih => intro s h; exact ih _ (step_inv s h o)

end RqModel.SnapSM

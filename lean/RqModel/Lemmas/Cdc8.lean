/-
C25 helper lemmas, part 8: entries still in the hand-off channel. The pipeline steps other
than `sync`/`restart` never read the raft log, so appending an entry to the log before or
after they run makes no difference; with the drain on a snapshot sync every history with
queued entries equals the history in which each entry is applied at a quiescent point.
-/
import RqModel.Lemmas.Cdc7
namespace RqModel.CdcPipe
open RqModel.Fifo

def withLog (s : St) (L : List Entry) : St := { s with log := L }

theorem feed_withLog (s : St) (g : Group) (L : List Entry) :
    feedGroup (withLog s L) g = withLog (feedGroup s g) L := by
  unfold feedGroup withLog
  by_cases h1 : g.idx ≠ 0 ∧ g.idx ≤ s.hwm
  · rw [if_pos h1, if_pos h1]
  · rw [if_neg h1, if_neg h1]
    simp only
    by_cases h2 : (s.batcher ++ [g]).length = s.batchSz
    · rw [if_pos h2, if_pos h2]; rfl
    · rw [if_neg h2, if_neg h2]

theorem foldl_feed_withLog (gs : List Group) (s : St) (L : List Entry) :
    gs.foldl feedGroup (withLog s L) = withLog (gs.foldl feedGroup s) L := by
  induction gs generalizing s with
  | nil => rfl
  | cons g gs ih => simp only [List.foldl_cons]; rw [feed_withLog, ih]

theorem applyEntry_withLog (s : St) (e : Entry) (L : List Entry) :
    applyEntry (withLog s L) e = withLog (applyEntry s e) L := by
  unfold applyEntry
  exact foldl_feed_withLog (streamEntryWith s.keepIdx e) { s with lastFed := e.idx, front := max s.front e.idx } L

theorem pump_withLog (fuel : Nat) (s : St) (L : List Entry) :
    pump fuel (withLog s L) = withLog (pump fuel s) L := by
  induction fuel generalizing s with
  | zero => rfl
  | succ fuel ih =>
    cases hl : s.leader with
    | false =>
      have h1 : pump (fuel + 1) (withLog s L) = withLog s L := by
        simp [pump, withLog, hl]
      have h2 : pump (fuel + 1) s = s := by simp [pump, hl]
      rw [h1, h2]
    | true =>
      cases hh : s.held with
      | some it =>
        obtain ⟨k, b⟩ := it
        by_cases hk : k ≤ s.hwm
        · have h1 : pump (fuel + 1) (withLog s L) = pump fuel (withLog { s with held := none } L) := by
            simp [pump, withLog, hl, hh, hk]
          have h2 : pump (fuel + 1) s = pump fuel { s with held := none } := by
            simp [pump, hl, hh, hk]
          rw [h1, h2, ih]
        · by_cases hd : s.decodable b = false
          · have h1 : pump (fuel + 1) (withLog s L) =
                pump fuel (withLog { s with held := none, dropped := s.dropped ++ [(k, b)] } L) := by
              simp [pump, withLog, hl, hh, hk, hd]
            have h2 : pump (fuel + 1) s = pump fuel { s with held := none, dropped := s.dropped ++ [(k, b)] } := by
              simp [pump, hl, hh, hk, hd]
            rw [h1, h2, ih]
          · by_cases hup : s.up = true
            · have h1 : pump (fuel + 1) (withLog s L) =
                  pump fuel (withLog { s with held := none, delivered := s.delivered ++ [(k, b)], hwm := k } L) := by
                simp [pump, withLog, hl, hh, hk, hd, hup]
              have h2 : pump (fuel + 1) s =
                  pump fuel { s with held := none, delivered := s.delivered ++ [(k, b)], hwm := k } := by
                simp [pump, hl, hh, hk, hd, hup]
              rw [h1, h2, ih]
            · by_cases hmr : givesUpOf s.maxRetries s.giveUpOnRejection s.failStatus = true
              · have h1 : pump (fuel + 1) (withLog s L) =
                    pump fuel (withLog { s with held := none, dropped := s.dropped ++ [(k, b)] } L) := by
                  simp [pump, withLog, hl, hh, hk, hd, hup, hmr]
                have h2 : pump (fuel + 1) s = pump fuel { s with held := none, dropped := s.dropped ++ [(k, b)] } := by
                  simp [pump, hl, hh, hk, hd, hup, hmr]
                rw [h1, h2, ih]
              · have h1 : pump (fuel + 1) (withLog s L) = withLog s L := by
                  simp [pump, withLog, hl, hh, hk, hd, hup, hmr]
                have h2 : pump (fuel + 1) s = s := by simp [pump, hl, hh, hk, hd, hup, hmr]
                rw [h1, h2]
      | none =>
        cases hc : consume s.fifo with
        | mk q' r =>
          cases r with
          | none =>
            have h1 : pump (fuel + 1) (withLog s L) = withLog s L := by
              simp [pump, withLog, hl, hh, hc]
            have h2 : pump (fuel + 1) s = s := by simp [pump, hl, hh, hc]
            rw [h1, h2]
          | some it =>
            obtain ⟨k, b⟩ := it
            by_cases hk : k ≤ s.hwm
            · have h1 : pump (fuel + 1) (withLog s L) = pump fuel (withLog { s with fifo := q' } L) := by
                simp [pump, withLog, hl, hh, hc, hk]
              have h2 : pump (fuel + 1) s = pump fuel { s with fifo := q' } := by
                simp [pump, hl, hh, hc, hk]
              rw [h1, h2, ih]
            · have h1 : pump (fuel + 1) (withLog s L) =
                  pump fuel (withLog { s with fifo := q', held := some (k, b) } L) := by
                simp [pump, withLog, hl, hh, hc, hk]
              have h2 : pump (fuel + 1) s = pump fuel { s with fifo := q', held := some (k, b) } := by
                simp [pump, hl, hh, hc, hk]
              rw [h1, h2, ih]

theorem pumpAll_withLog (s : St) (L : List Entry) : pumpAll (withLog s L) = withLog (pumpAll s) L := by
  unfold pumpAll
  exact pump_withLog _ s L

theorem applyEntry_log (s : St) (e : Entry) : (applyEntry s e).log = s.log := by
  unfold applyEntry
  exact (same_foldl_feed _ _).log

theorem pumpAll_log (s : St) : (pumpAll s).log = s.log := by
  unfold pumpAll
  exact (same_pump _ _).log

/-- what the service does with one group set picked up from the hand-off channel -/
def pickUp (s : St) (e : Entry) : St := pumpAll (applyEntry s e)

theorem pickUp_withLog (s : St) (e : Entry) (L : List Entry) : pickUp (withLog s L) e = withLog (pickUp s e) L := by
  unfold pickUp
  rw [applyEntry_withLog, pumpAll_withLog]

theorem foldl_pickUp_withLog (es : List Entry) (s : St) (L : List Entry) :
    es.foldl pickUp (withLog s L) = withLog (es.foldl pickUp s) L := by
  induction es generalizing s with
  | nil => rfl
  | cons e es ih => simp only [List.foldl_cons]; rw [pickUp_withLog, ih]

theorem foldl_pickUp_log (es : List Entry) (s : St) : (es.foldl pickUp s).log = s.log := by
  induction es generalizing s with
  | nil => rfl
  | cons e es ih =>
    simp only [List.foldl_cons]
    rw [ih]
    unfold pickUp
    rw [pumpAll_log, applyEntry_log]

/-- the operation at a quiescent point that a queued entry amounts to -/
def OpQ.flat : OpQ → Op
  | .op o => o
  | .entryQueued e => .entry e

theorem drainHand_s (q : StQ) : (drainHand q).s = q.queued.foldl pickUp q.s := rfl

/-- one step: letting the channel drain after the step = applying the flattened operation to
the drained state -/
theorem drain_stepHand (q : StQ) (x : OpQ) :
    (drainHand (stepHand true q x)).s = stepOp (drainHand q).s x.flat := by
  cases x with
  | op o =>
    cases o <;> rfl
  | entryQueued e =>
    show (q.queued ++ [e]).foldl pickUp (withLog q.s (q.s.log ++ [e])) = stepOp (q.queued.foldl pickUp q.s) (.entry e)
    rw [List.foldl_append, foldl_pickUp_withLog]
    simp only [List.foldl_cons, List.foldl_nil]
    show pickUp (withLog (q.queued.foldl pickUp q.s) (q.s.log ++ [e])) e =
      pumpAll (applyEntry { (q.queued.foldl pickUp q.s) with log := (q.queued.foldl pickUp q.s).log ++ [e] } e)
    rw [foldl_pickUp_log]
    rfl

/-- **Every history with entries still in the hand-off channel is a history of operations at
quiescent points**: with the drain on a snapshot sync (the tree), for ANY interleaving of
queued entries and operations, once the channel has drained the state is exactly the one
reached by applying each entry, where it was queued, as an ordinary `entry` operation. -/
theorem runHand_is_run (q : StQ) (xs : List OpQ) :
    (drainHand (runHand true q xs)).s = run (drainHand q).s (xs.map OpQ.flat) := by
  induction xs generalizing q with
  | nil => rfl
  | cons x rest ih =>
    show (drainHand (runHand true (stepHand true q x) rest)).s = run (stepOp (drainHand q).s x.flat) (rest.map OpQ.flat)
    rw [ih, drain_stepHand]

end RqModel.CdcPipe

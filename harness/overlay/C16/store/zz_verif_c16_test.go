package store

// C16: read consistency levels behave as documented.
//
// Part A (TestVerifC16 "stale"): the exported store.IsStaleRead on a boundary-value
// grid against the Lean model `readlevel` (RqModel/Model/ReadLevel.lean) and against
// the documented rule evaluated independently with big integers. The comparison of
// lastFSMUpdateTime.Sub(lastAppendedAtTime) is exact (including saturation of
// time.Duration); around time.Since(leaderlastContact) only cases whose verdict cannot
// depend on the few microseconds between building the input and the call are used
// (age > freshness, or age + 1 h <= freshness).
//
// Part B ("dispatch"): a live cluster (leader, voting follower(s), non-voter); every
// level x node role x freshness/strict x {Query, read-only Request, Request with a
// write}: the real outcome (served locally / through the log / refused, and the
// effective level) is compared with the model's dispatch for the observed role, and
// the documented rules are evaluated directly on the real outcomes.

import (
	"context"
	"errors"
	"fmt"
	"math/big"
	"strings"
	"testing"
	"time"

	"github.com/hashicorp/raft"
	"github.com/rqlite/rqlite/v10/command"
	"github.com/rqlite/rqlite/v10/command/proto"
)

var (
	c16MaxI64 = new(big.Int).SetInt64(1<<63 - 1)
	c16MinI64 = new(big.Int).SetInt64(-1 << 63)
)

func c16Sat(d *big.Int) *big.Int {
	if d.Cmp(c16MaxI64) > 0 {
		return c16MaxI64
	}
	if d.Cmp(c16MinI64) < 0 {
		return c16MinI64
	}
	return d
}

// instant as (unix seconds, ns) with its exact ns-since-epoch value
type c16Inst struct {
	t    time.Time
	ns   *big.Int
	zero bool
}

func c16At(sec int64, nsec int64) c16Inst {
	v := new(big.Int).Mul(big.NewInt(sec), big.NewInt(1e9))
	v.Add(v, big.NewInt(nsec))
	return c16Inst{t: time.Unix(sec, nsec), ns: v}
}

func c16Zero() c16Inst {
	// time.Time{} is January 1, year 1: unix seconds -62135596800
	v := new(big.Int).Mul(big.NewInt(-62135596800), big.NewInt(1e9))
	return c16Inst{t: time.Time{}, ns: v, zero: true}
}

func c16StalePart(t *testing.T, rep *vfReport) {
	r := vfNewRng(1601)
	fresh := []int64{0, 1, -1, 2, 999, 1e6, 5e8, 1e9, 1e9 + 1, 60e9, 3600e9, 1<<63 - 1, 1<<63 - 2, -1 << 63, -(1 << 62), 1 << 62}
	hour := int64(3600e9)
	var ops, impl []string
	n := vfScale(6000, 600000)
	for i := 0; i < n; i++ {
		f := fresh[r.Intn(len(fresh))]
		if r.Chance(15) {
			f = int64(r.U64() >> uint(1+r.Intn(62)))
			if r.Bool() {
				f = -f
			}
		}
		strict := r.Bool()
		// --- FSM update / appended-at instants: exact comparison, incl. saturation
		var fu, aa c16Inst
		base := int64(1700000000) + int64(r.Intn(1000000))
		switch r.Intn(8) {
		case 0: // difference exactly at the boundary f, f+1, f-1 (when representable)
			delta := []int64{0, 1, -1, 2, -2}[r.Intn(5)]
			aa = c16At(base, 0)
			d := new(big.Int).Add(big.NewInt(f), big.NewInt(delta))
			if d.IsInt64() && d.Int64() > -(1<<62) && d.Int64() < 1<<62 {
				dd := d.Int64()
				fu = c16At(base+dd/1e9, dd%1e9)
			} else {
				fu = c16At(base, 0)
			}
		case 1: // saturating positive difference
			fu, aa = c16At(1<<40, 0), c16At(-(1 << 40), int64(r.Intn(1e9)))
		case 2: // saturating negative difference
			fu, aa = c16At(-(1 << 40), 0), c16At(1<<40, 0)
		case 3:
			aa = c16Zero()
			fu = c16At(base, int64(r.Intn(1e9)))
		default:
			aa = c16At(base, int64(r.Intn(1e9)))
			off := int64(r.U64()%uint64(200*365*24*hour)) >> uint(r.Intn(60))
			if r.Bool() {
				off = -off
			}
			fu = c16At(base+off/1e9, off%1e9)
		}
		var fi, ci uint64
		switch r.Intn(4) {
		case 0:
			fi, ci = uint64(r.Intn(5)), uint64(r.Intn(5))
		case 1:
			fi = r.U64()
			ci = fi
		case 2:
			fi, ci = r.U64(), r.U64()
		default:
			fi = uint64(r.Intn(1000))
			ci = fi + uint64(r.Intn(3))
		}
		// --- leader contact: only margins that make the verdict time-independent
		nowT := time.Now()
		nowNs := nowT.UnixNano()
		var lc c16Inst
		contact := ""
		switch {
		case r.Chance(8):
			lc = c16Zero()
			contact = "never"
		case f > 0 && f <= 1<<62 && r.Chance(45): // certainly older than the bound
			age := f + 1 + int64(r.Intn(3))*int64(r.Intn(1e9))
			if age < 0 || age > 250*365*24*hour {
				age = 250 * 365 * 24 * hour
				if age <= f {
					lc = c16Zero()
					contact = "never"
					break
				}
			}
			lc = c16At(0, 0)
			lc.t = time.Unix(0, nowNs-age)
			lc.ns = big.NewInt(nowNs - age)
			contact = "older-than-bound"
		case f > 2*hour && r.Chance(70): // certainly within the bound (by more than an hour)
			age := int64(r.U64() % uint64(f-hour))
			if age > 250*365*24*hour {
				age = 250 * 365 * 24 * hour
			}
			lc.t = time.Unix(0, nowNs-age)
			lc.ns = big.NewInt(nowNs - age)
			contact = "within-bound"
		default: // contact "in the future" by an hour: age is negative
			lc.t = time.Unix(0, nowNs+hour)
			lc.ns = big.NewInt(nowNs + hour)
			contact = "future"
		}
		if f <= 0 && contact == "future" && f != 0 {
			// age ~ -1h compared with a negative bound: verdict depends on f < -1h or not; keep only clear cases
			if f > -2*hour && f < 0 {
				continue
			}
		}
		got := IsStaleRead(lc.t, fu.t, aa.t, fi, ci, f, strict)
		aTok := aa.ns.String()
		if aa.zero {
			aTok = "-"
		}
		ops = append(ops, fmt.Sprintf("stale %d %s %s %s %d %d %d %v", nowNs, lc.ns.String(), fu.ns.String(), aTok, fi, ci, f, strict))
		impl = append(impl, vfBool(got))
		// documented rule, evaluated with exact integers (saturated like time.Duration)
		age := c16Sat(new(big.Int).Sub(big.NewInt(nowNs), lc.ns))
		lag := c16Sat(new(big.Int).Sub(fu.ns, aa.ns))
		fb := big.NewInt(f)
		want := f != 0 && (age.Cmp(fb) > 0 || (strict && !aa.zero && fi != ci && lag.Cmp(fb) > 0))
		branch := "fresh"
		switch {
		case f == 0:
			branch = "freshness-unset"
		case age.Cmp(fb) > 0:
			branch = "no-contact-within-bound"
		case !strict:
			branch = "not-strict"
		case aa.zero:
			branch = "nothing-appended-yet"
		case fi == ci:
			branch = "caught-up"
		case lag.Cmp(fb) > 0:
			branch = "behind-and-applied-late"
		default:
			branch = "behind-but-applied-in-time"
		}
		rep.Count("stale-branch:" + branch)
		rep.Count("stale-contact:" + contact)
		rep.Case(ops[len(ops)-1], branch != "freshness-unset")
		if want != got {
			rep.Fail("IsStaleRead-differs-from-documented-rule:"+branch,
				fmt.Sprintf("IsStaleRead(age=%s ns, lag=%s ns, appendedZero=%v, fsm=%d, commit=%d, freshness=%d, strict=%v) = %v, documented rule says %v",
					age, lag, aa.zero, fi, ci, f, strict, got, want),
				map[string]interface{}{"op": ops[len(ops)-1]})
		}
		if i < 3 {
			rep.Sample(map[string]interface{}{"op": ops[len(ops)-1], "stale": got, "branch": branch})
		}
	}
	rep.vfCompare("readlevel", ops, impl, nil)
}

func c16Canon(err error) string {
	switch {
	case errors.Is(err, ErrNotLeader):
		return "err:notleader"
	case errors.Is(err, ErrStaleRead):
		return "err:stale"
	case errors.Is(err, ErrNotReady):
		return "err:notready"
	case errors.Is(err, ErrNotOpen):
		return "err:notopen"
	}
	return "err:other:" + err.Error()
}

func c16Level(l proto.ConsistencyLevel) string { return strings.ToLower(l.String()) }

type c16Obs struct {
	role                 string
	leader, voter, ready bool
	stale                bool
	rt, st               uint64
}

// c16VoterInConfig reads the node's suffrage from the raft configuration it currently holds
// (NOT through Store.IsVoter, which is part of what is being checked).
func c16VoterInConfig(s *Store) bool {
	f := s.raft.GetConfiguration()
	if f.Error() != nil {
		return false
	}
	for _, srv := range f.Configuration().Servers {
		if string(srv.ID) == s.raftID {
			return srv.Suffrage == raft.Voter
		}
	}
	return false
}

func c16Observe(n *clu8Node, role string, f int64, strict bool) c16Obs {
	s := n.S
	v := c16VoterInConfig(s)
	return c16Obs{role: role, leader: s.IsLeader(), voter: v, ready: s.Ready(), stale: s.isStaleRead(f, strict),
		rt: s.raft.CurrentTerm(), st: s.strongReadTerm.Load()}
}

func (o c16Obs) args() string {
	v := "f"
	if o.voter {
		v = "t"
	}
	return fmt.Sprintf("%v %s %v %v %d %d", o.leader, v, o.ready, o.stale, o.rt, o.st)
}

func c16DispatchPart(t *testing.T, rep *vfReport) {
	c := clu8NewCluster(t)
	defer c.Close()
	n0, err := c.NewNode()
	if err != nil {
		clu8Skip("C16 harness: %v", err)
	}
	if err := c.Bootstrap(n0); err != nil {
		clu8Skip("C16 harness: bootstrap: %v", err)
	}
	followers := vfScale(1, 2)
	roles := map[*clu8Node]string{n0: "leader"}
	order := []*clu8Node{n0}
	for i := 0; i < followers+1; i++ {
		n, err := c.NewNode()
		if err != nil {
			clu8Skip("C16 harness: %v", err)
		}
		voter := i < followers
		if err := clu8JoinRetry(c, n, voter, 90*time.Second); err != nil {
			clu8Skip("C16 harness: join: %v", err)
		}
		if _, err := n.S.WaitForLeader(60 * time.Second); err != nil {
			clu8Skip("C16 harness: joined node sees no leader")
		}
		if voter {
			roles[n] = "follower"
		} else {
			roles[n] = "nonvoter"
		}
		order = append(order, n)
	}
	if err := clu8ExecLeader(c, 90*time.Second, "CREATE TABLE IF NOT EXISTS c16 (id INTEGER PRIMARY KEY, v INTEGER)", "INSERT OR REPLACE INTO c16(id, v) VALUES(1, 7)"); err != nil {
		clu8Skip("C16 harness: %v", err)
	}
	// everyone caught up and in contact with the leader
	for _, n := range order {
		deadline := time.Now().Add(60 * time.Second)
		for n.S.raft.AppliedIndex() < n0.S.raft.CommitIndex() || (n != n0 && time.Since(n.S.raft.LastContact()) > 5*time.Second) {
			if time.Now().After(deadline) {
				clu8Skip("C16 harness: %s did not catch up", n.Name)
			}
			time.Sleep(20 * time.Millisecond)
		}
	}
	hour := int64(time.Hour)
	levels := []proto.ConsistencyLevel{proto.ConsistencyLevel_NONE, proto.ConsistencyLevel_WEAK, proto.ConsistencyLevel_STRONG,
		proto.ConsistencyLevel_AUTO, proto.ConsistencyLevel_LINEARIZABLE}
	type fr struct {
		f      int64
		strict bool
		name   string
	}
	freshes := []fr{{0, false, "unset"}, {1, false, "1ns"}, {1, true, "1ns-strict"}, {hour, false, "1h"}, {hour, true, "1h-strict"}}
	var ops, impl []string
	// outcome table for the cross-level rules: key api|node|fresh|level -> canonical outcome class
	table := map[string]string{}
	class := func(out string) string { // drop the effective level: served-local / served-vialog / error kind
		if i := strings.Index(out, ":"); i >= 0 && (strings.HasPrefix(out, "local") || strings.HasPrefix(out, "vialog")) {
			return out[:i]
		}
		return out
	}
	rounds := vfScale(1, 12)
	for round := 0; round < rounds; round++ {
		for _, n := range order {
			role := roles[n]
			if !n.S.IsLeader() && role == "leader" || n.S.IsLeader() && role != "leader" {
				rep.Note("leadership moved during the run; dispatch part stopped early")
				rep.Count("dispatch-aborted")
				goto done
			}
			for _, fx := range freshes {
				for _, lvl := range levels {
					for _, api := range []string{"query", "request-ro", "request-rw"} {
						o := c16Observe(n, role, fx.f, fx.strict)
						var out string
						switch api {
						case "query":
							qr := queryRequestFromString("SELECT v FROM c16", false, false, false)
							qr.Level, qr.Freshness, qr.FreshnessStrict = lvl, fx.f, fx.strict
							qr.LinearizableTimeout = int64(10 * time.Second)
							_, eff, idx, err := n.S.Query(context.Background(), qr)
							switch {
							case err != nil:
								out = c16Canon(err)
							case idx != 0:
								out = "vialog:" + c16Level(eff)
							default:
								out = "local:" + c16Level(eff)
							}
							ops = append(ops, fmt.Sprintf("query %s %s", c16Level(lvl), o.args()))
						default:
							stmt := "SELECT v FROM c16"
							nrw := 0
							if api == "request-rw" {
								stmt = "INSERT INTO c16(v) VALUES(1)"
								nrw = 1
							}
							eqr := executeQueryRequestFromString(stmt, lvl, false, false, false)
							eqr.Freshness, eqr.FreshnessStrict = fx.f, fx.strict
							eqr.LinearizableTimeout = int64(10 * time.Second)
							_, _, idx, err := n.S.Request(context.Background(), eqr)
							switch {
							case err != nil:
								out = c16Canon(err)
							case idx != 0:
								out = "vialog:" + c16Level(eqr.Level)
							default:
								out = "local:" + c16Level(eqr.Level)
							}
							ops = append(ops, fmt.Sprintf("request %s %d %s", c16Level(lvl), nrw, o.args()))
						}
						after := c16Observe(n, role, fx.f, fx.strict)
						if after.leader != o.leader || after.rt != o.rt || after.voter != o.voter {
							// the node's role changed while the call was in flight: nothing can be said about this one
							ops = ops[:len(ops)-1]
							rep.Count("dispatch-call-skipped:role-changed-in-flight")
							continue
						}
						impl = append(impl, out)
						key := fmt.Sprintf("%s|%s|%s|%s", api, role, fx.name, c16Level(lvl))
						table[key] = class(out)
						rep.Case(key+"|"+out, true)
						rep.Count("dispatch:" + api + ":" + role + ":" + c16Level(lvl) + "->" + class(out))
						replay := map[string]interface{}{"api": api, "node_role": role, "level": c16Level(lvl), "freshness_ns": fx.f, "strict": fx.strict, "outcome": out}
						served := strings.HasPrefix(out, "local") || strings.HasPrefix(out, "vialog")
						// ---- the documented rules, on the real outcome
						if lvl == proto.ConsistencyLevel_WEAK && api != "request-rw" && served && !(o.leader && after.leader) {
							rep.Fail("weak-served-by-non-leader:"+api, fmt.Sprintf("%s on %s (%s): weak read served although the node is not leader: %s", api, n.Name, role, out), replay)
						}
						if lvl == proto.ConsistencyLevel_WEAK && api != "request-rw" && !o.leader && out != "err:notleader" {
							rep.Fail("weak-not-refused-on-non-leader:"+api, fmt.Sprintf("%s on %s (%s): weak read gave %s", api, n.Name, role, out), replay)
						}
						if lvl == proto.ConsistencyLevel_NONE && api != "request-rw" {
							wantStale := role != "leader" && fx.f == 1
							if wantStale && out != "err:stale" {
								rep.Fail("none-with-expired-freshness-served:"+api, fmt.Sprintf("%s on %s (%s): none read with freshness 1ns gave %s (last contact is older than 1 ns)", api, n.Name, role, out), replay)
							}
							if !wantStale && !strings.HasPrefix(out, "local:none") {
								rep.Fail("none-within-freshness-refused:"+api, fmt.Sprintf("%s on %s (%s): none read with freshness %s gave %s", api, n.Name, role, fx.name, out), replay)
							}
						}
						if lvl == proto.ConsistencyLevel_LINEARIZABLE && api != "request-rw" && served && !(o.leader && after.leader) {
							rep.Fail("linearizable-served-by-non-leader:"+api, fmt.Sprintf("%s on %s (%s): %s", api, n.Name, role, out), replay)
						}
						if lvl == proto.ConsistencyLevel_LINEARIZABLE && api != "request-rw" && o.leader && after.leader && !served {
							rep.Fail("linearizable-refused-on-healthy-leader:"+api, fmt.Sprintf("%s on %s: %s", api, n.Name, out), replay)
						}
					}
				}
				// 'auto' means weak on voters and none on non-voters: same outcome class as that level
				for _, api := range []string{"query", "request-ro"} {
					same := "weak"
					if role == "nonvoter" {
						same = "none"
					}
					a := table[fmt.Sprintf("%s|%s|%s|auto", api, role, fx.name)]
					b := table[fmt.Sprintf("%s|%s|%s|%s", api, role, fx.name, same)]
					if a != b {
						rep.Fail(fmt.Sprintf("auto-differs-from-%s-on-%s:%s", same, role, api),
							fmt.Sprintf("%s on %s (%s), freshness %s: level=auto gave %q but level=%s gave %q", api, n.Name, role, fx.name, a, same, b),
							map[string]interface{}{"api": api, "node_role": role, "freshness": fx.name, "auto": a, same: b})
					}
				}
			}
		}
	}
	// ---- AUTO follows the node's CURRENT role: AUTO read, role change of the same running node
	// (non-voter -> voter -> non-voter), AUTO read again after each change
	{
		b := order[len(order)-1] // the non-voter
		autoRead := func(stage string) {
			for _, api := range []string{"query", "request-ro"} {
				o := c16Observe(b, "changing", 0, false)
				var out string
				if api == "query" {
					qr := queryRequestFromString("SELECT v FROM c16", false, false, false)
					qr.Level = proto.ConsistencyLevel_AUTO
					_, eff, idx, err := b.S.Query(context.Background(), qr)
					switch {
					case err != nil:
						out = c16Canon(err)
					case idx != 0:
						out = "vialog:" + c16Level(eff)
					default:
						out = "local:" + c16Level(eff)
					}
					ops = append(ops, fmt.Sprintf("query auto %s", o.args()))
				} else {
					eqr := executeQueryRequestFromString("SELECT v FROM c16", proto.ConsistencyLevel_AUTO, false, false, false)
					_, _, idx, err := b.S.Request(context.Background(), eqr)
					switch {
					case err != nil:
						out = c16Canon(err)
					case idx != 0:
						out = "vialog:" + c16Level(eqr.Level)
					default:
						out = "local:" + c16Level(eqr.Level)
					}
					ops = append(ops, fmt.Sprintf("request auto 0 %s", o.args()))
				}
				impl = append(impl, out)
				rep.Case("role-change|"+stage+"|"+api+"|"+out, true)
				rep.Count("role-change:" + stage + ":" + api + "->" + out)
				// 'auto means weak on voters and none on non-voters', for the role the node has NOW
				want := "local:none"
				if o.voter {
					want = "err:notleader" // a voting follower refuses weak
				}
				if out != want {
					rep.Fail("auto-does-not-follow-current-role:"+api,
						fmt.Sprintf("%s on %s with level=auto %s: the node is %s in its current configuration, so auto must behave as %s (%s), got %s",
							api, b.Name, stage, map[bool]string{true: "a voter", false: "a non-voter"}[o.voter], map[bool]string{true: "weak", false: "none"}[o.voter], want, out),
						map[string]interface{}{"stage": stage, "api": api, "voter_in_configuration": o.voter, "outcome": out})
				}
			}
		}
		change := func(voter bool) bool {
			if err := n0.S.Join(joinRequest(b.Name, b.Addr, voter)); err != nil {
				rep.Note("role change of %s failed: %v", b.Name, err)
				return false
			}
			deadline := time.Now().Add(60 * time.Second)
			for c16VoterInConfig(b.S) != voter || time.Since(b.S.raft.LastContact()) > 5*time.Second {
				if time.Now().After(deadline) {
					rep.Note("role change of %s not visible on the node within 60 s", b.Name)
					return false
				}
				time.Sleep(20 * time.Millisecond)
			}
			return true
		}
		if n0.S.IsLeader() {
			autoRead("as the non-voter it joined as")
			if change(true) {
				autoRead("after it re-joined as a voter")
				if change(false) {
					autoRead("after it re-joined as a non-voter again")
				}
			}
		}
	}
done:
	// a request without a statement list is refused before anything else is looked at
	{
		_, _, _, err := n0.S.Query(context.Background(), &proto.QueryRequest{Level: proto.ConsistencyLevel_NONE})
		out := "served"
		if errors.Is(err, ErrInvalidRequest) {
			out = "err:invalidrequest"
		} else if err != nil {
			out = c16Canon(err)
		}
		ops, impl = append(ops, "querynil"), append(impl, out)
		_, _, _, err = n0.S.Request(context.Background(), &proto.ExecuteQueryRequest{Level: proto.ConsistencyLevel_NONE})
		out = "served"
		if errors.Is(err, ErrInvalidRequest) {
			out = "err:invalidrequest"
		} else if err != nil {
			out = c16Canon(err)
		}
		ops, impl = append(ops, "requestnil"), append(impl, out)
		rep.Count("dispatch:nil-request")
	}
	rep.vfCompare("readlevel", ops, impl, nil)
}

// ---- Part C: the bookkeeping the strict check reads ---------------------------------
//
// The REAL Store.fsmApply is handed log entries of every command type (mutating execute,
// execute that changes nothing, strong read, execute-query with only reads, no-op) with a
// chosen leader append time (on time / late by 10 s / late by 2 min). After each entry:
//   * correspondence: (fsmIdx, fsmUpdateTime, appendedAtTime) equal the model's Book
//     after `bookapply`, and IsStaleRead fed with the store's own fields (exactly the
//     arguments (*Store).isStaleRead passes) equals the model's verdict for a node that is
//     in contact but behind;
//   * spec oracle: "refused in strict mode when it is behind and its LAST APPLIED entry was
//     appended more than the bound before it was applied" — for the entry just applied.
func c16BookPart(t *testing.T, rep *vfReport) {
	c := clu8NewCluster(t)
	defer c.Close()
	n0, err := c.NewNode()
	if err != nil {
		clu8Skip("C16 harness: %v", err)
	}
	if err := c.Bootstrap(n0); err != nil {
		clu8Skip("C16 harness: %v", err)
	}
	s := n0.S
	if err := clu8Exec(s, "CREATE TABLE c16b (id INTEGER PRIMARY KEY, v INTEGER)"); err != nil {
		clu8Skip("C16 harness: %v", err)
	}
	if !clu8Quiesce(n0, 30*time.Second) {
		clu8Skip("C16 harness: node did not quiesce")
	}
	mk := func(kind string, i int) []byte {
		wrap := func(ty proto.Command_Type, rq command.Requester) []byte {
			b, compressed, err := s.tryCompress(rq)
			if err != nil {
				clu8Skip("C16 harness: %v", err)
			}
			data, err := command.Marshal(&proto.Command{Type: ty, SubCommand: b, Compressed: compressed})
			if err != nil {
				clu8Skip("C16 harness: %v", err)
			}
			return data
		}
		switch kind {
		case "execute-insert":
			return wrap(proto.Command_COMMAND_TYPE_EXECUTE, executeRequestFromString(fmt.Sprintf("INSERT INTO c16b(v) VALUES(%d)", i), false, false))
		case "execute-no-change":
			return wrap(proto.Command_COMMAND_TYPE_EXECUTE, executeRequestFromString("UPDATE c16b SET v=1 WHERE id=-5", false, false))
		case "strong-read":
			return wrap(proto.Command_COMMAND_TYPE_QUERY, queryRequestFromString("SELECT COUNT(*) FROM c16b", false, false, false))
		case "execute-query-reads":
			return wrap(proto.Command_COMMAND_TYPE_EXECUTE_QUERY, executeQueryRequestFromString("SELECT COUNT(*) FROM c16b", proto.ConsistencyLevel_STRONG, false, false, false))
		default: // noop
			nb, err := command.MarshalNoop(&proto.Noop{Id: "c16"})
			if err != nil {
				clu8Skip("C16 harness: %v", err)
			}
			data, err := command.Marshal(&proto.Command{Type: proto.Command_COMMAND_TYPE_NOOP, SubCommand: nb})
			if err != nil {
				clu8Skip("C16 harness: %v", err)
			}
			return data
		}
	}
	kinds := []string{"execute-insert", "execute-no-change", "strong-read", "execute-query-reads", "noop"}
	lates := []time.Duration{0, 10 * time.Second, 2 * time.Minute}
	bounds := []time.Duration{time.Second, 30 * time.Second, time.Hour}
	r := vfNewRng(1603)
	ops := []string{"bookreset"}
	impl := []string{"ok"}
	idx := s.fsmIdx.Load() + 1000
	term := s.raft.CurrentTerm()
	n := vfScale(60, 3000)
	for i := 0; i < n; i++ {
		kind := kinds[i%len(kinds)]
		if i >= 2*len(kinds) {
			kind = kinds[r.Intn(len(kinds))]
		}
		late := lates[r.Intn(len(lates))]
		if i < len(kinds) {
			late = 10 * time.Second // the first round: every kind, late
		}
		idx++
		appended := time.Now().Add(-late)
		t0 := time.Now()
		s.fsmApply(&raft.Log{Index: idx, Term: term, Type: raft.LogCommand, Data: mk(kind, i), AppendedAt: appended})
		t1 := time.Now()
		gotIdx, gotUpd, gotApp := s.fsmIdx.Load(), s.fsmUpdateTime.Load(), s.appendedAtTime.Load()
		replay := map[string]interface{}{"entry_kind": kind, "index": idx, "appended_ago": late.String()}
		// the three values describe the entry just applied
		if gotIdx != idx || !gotApp.Equal(appended) || gotUpd.Before(t0) || gotUpd.After(t1) {
			rep.Fail("fsm-bookkeeping-does-not-describe-last-applied-entry:"+kind,
				fmt.Sprintf("after fsmApply of a %s entry (index %d, appended %s ago): fsmIdx=%d, appendedAtTime is %s old, fsmUpdateTime is %s old — they do not all describe that entry",
					kind, idx, late, gotIdx, time.Since(gotApp).Round(time.Millisecond), time.Since(gotUpd).Round(time.Millisecond)), replay)
		}
		ops = append(ops, fmt.Sprintf("bookapply %d %d %d", idx, gotUpd.UnixNano(), appended.UnixNano()), "book")
		impl = append(impl, "ok", fmt.Sprintf("%d %d %d", gotIdx, gotUpd.UnixNano(), gotApp.UnixNano()))
		for _, f := range bounds {
			// a node in contact with the leader right now, one command entry behind, strict mode:
			// exactly what (*Store).isStaleRead would pass for a follower
			now := time.Now()
			got := IsStaleRead(now.Add(time.Hour), gotUpd, gotApp, gotIdx, idx+1, int64(f), true)
			ops = append(ops, fmt.Sprintf("bookstale %d %d %d %d true", now.UnixNano(), now.Add(time.Hour).UnixNano(), idx+1, int64(f)))
			impl = append(impl, vfBool(got))
			lag := t0.Sub(appended) // the entry was applied at least this long after it was appended
			margin := 500 * time.Millisecond
			rep.Case(fmt.Sprintf("book|%s|%s|%s", kind, late, f), kind != "execute-insert")
			rep.Count(fmt.Sprintf("book:%s:late=%s:bound=%s->%v", kind, late, f, got))
			switch {
			case lag > f+margin && !got:
				rep.Fail("strict-none-read-served-after-late-entry:"+kind,
					fmt.Sprintf("the last applied entry (%s, index %d) was applied %s after the leader appended it; a node that is behind must refuse a strict none read with freshness %s, but IsStaleRead on the store's fields says fresh", kind, idx, lag.Round(time.Millisecond), f), replay)
			case t1.Sub(appended)+margin < f && got:
				rep.Fail("strict-none-read-refused-after-timely-entry:"+kind,
					fmt.Sprintf("the last applied entry (%s, index %d) was applied %s after it was appended, within the bound %s, but the read is refused", kind, idx, t1.Sub(appended).Round(time.Millisecond), f), replay)
			}
		}
	}
	rep.vfCompare("readlevel", ops, impl, nil)
}

// ---- Part D: the strict branch on a LIVE follower -------------------------------------
//
// Two slow STRONG reads are sent back to back through the leader. Strong reads go through the
// log and are executed by every node's FSM, so the follower's FSM is busy for a while with each.
// While it executes the second one it is BEHIND (it has received a command it has not applied)
// and the entry it applied LAST (the first slow read) finished being applied long after the
// leader appended it. A strict 'none' read with a bound well below that delay must be refused
// with ErrStaleRead; with a bound far above it, and without strict, it must be served.
func c16LiveStrictPart(t *testing.T, rep *vfReport) {
	c := clu8NewCluster(t)
	defer c.Close()
	n0, err := c.NewNode()
	if err != nil {
		clu8Skip("C16 harness: %v", err)
	}
	if err := c.Bootstrap(n0); err != nil {
		clu8Skip("C16 harness: %v", err)
	}
	f, err := c.NewNode()
	if err != nil {
		clu8Skip("C16 harness: %v", err)
	}
	if err := clu8JoinRetry(c, f, true, 90*time.Second); err != nil {
		clu8Skip("C16 harness: join: %v", err)
	}
	if _, err := f.S.WaitForLeader(60 * time.Second); err != nil {
		clu8Skip("C16 harness: follower sees no leader")
	}
	if err := clu8ExecLeader(c, 90*time.Second, "CREATE TABLE IF NOT EXISTS c16d (id INTEGER PRIMARY KEY, v INTEGER)", "INSERT OR REPLACE INTO c16d(id, v) VALUES(1, 1)"); err != nil {
		clu8Skip("C16 harness: %v", err)
	}
	deadline := time.Now().Add(60 * time.Second)
	for f.S.fsmIdx.Load() != n0.S.fsmIdx.Load() {
		if time.Now().After(deadline) {
			rep.Note("live strict: follower did not catch up; part skipped")
			return
		}
		time.Sleep(10 * time.Millisecond)
	}
	size := 3000000
	for attempt := 0; attempt < 4; attempt++ {
		slow := fmt.Sprintf("SELECT count(*) FROM (WITH RECURSIVE c(x) AS (SELECT 1 UNION ALL SELECT x+1 FROM c WHERE x < %d) SELECT x FROM c)", size)
		// how long the statement takes on the follower (plain local read, nothing to do with the log)
		t0 := time.Now()
		if _, _, err := clu8Query(f.S, slow, proto.ConsistencyLevel_NONE, 0); err != nil {
			rep.Note("live strict: calibration read failed: %v", err)
			return
		}
		d0 := time.Since(t0)
		if d0 < 800*time.Millisecond {
			size *= 2
			continue
		}
		if !n0.S.IsLeader() {
			rep.Note("live strict: leadership moved; part skipped")
			return
		}
		idx0 := f.S.fsmIdx.Load()
		type sr struct {
			idx uint64
			err error
		}
		ch := make(chan sr, 2)
		strong := func() {
			qr := queryRequestFromString(slow, false, false, false)
			qr.Level = proto.ConsistencyLevel_STRONG
			_, _, idx, err := n0.S.Query(context.Background(), qr)
			ch <- sr{idx, err}
		}
		go strong()
		go strong()
		// wait until the follower has applied the FIRST slow read and holds the second unapplied
		inWindow := false
		wdl := time.Now().Add(60 * time.Second)
		for time.Now().Before(wdl) {
			fi, cci := f.S.fsmIdx.Load(), f.S.raftTn.CommandCommitIndex()
			if fi == idx0+1 && cci >= idx0+2 {
				inWindow = true
				break
			}
			if fi >= idx0+2 {
				break
			}
			time.Sleep(2 * time.Millisecond)
		}
		none := func(fresh time.Duration, strict bool) string {
			qr := queryRequestFromString("SELECT v FROM c16d", false, false, false)
			qr.Level, qr.Freshness, qr.FreshnessStrict = proto.ConsistencyLevel_NONE, int64(fresh), strict
			_, _, _, err := f.S.Query(context.Background(), qr)
			if err != nil {
				return c16Canon(err)
			}
			return "served"
		}
		var tight, loose, lax string
		if inWindow {
			tight = none(d0/4, true)     // the last applied entry was applied >= ~d0 after it was appended
			loose = none(time.Hour, true) // far above the delay
			lax = none(d0/4, false)       // not strict: only leader contact counts
			stillBehind := f.S.fsmIdx.Load() == idx0+1
			rep.Count(fmt.Sprintf("live-strict:in-window still-behind-after-reads=%v", stillBehind))
			inWindow = stillBehind
		}
		for i := 0; i < 2; i++ {
			if r := <-ch; r.err != nil {
				rep.Note("live strict: slow strong read failed: %v", r.err)
			}
		}
		if !inWindow {
			rep.Count("live-strict:window-missed")
			size *= 2
			continue
		}
		rep.Case(fmt.Sprintf("live-strict|%s|%s|%s", tight, loose, lax), true)
		rep.Sample(map[string]interface{}{"scenario": "live-strict", "slow_statement_takes": d0.String(), "bound": (d0 / 4).String(), "strict_tight": tight, "strict_1h": loose, "non_strict_tight": lax})
		replay := map[string]interface{}{"schedule": []string{"two slow STRONG reads through the leader", "follower applied the first (late), holds the second unapplied", "none read on the follower"}, "statement_duration": d0.String(), "bound": (d0 / 4).String()}
		if tight != "err:stale" {
			rep.Fail("strict-none-read-served-on-behind-follower",
				fmt.Sprintf("follower is behind (last applied entry = a strong read that takes about %s to execute, so it was applied about that long after the leader appended it; the next command is received but not applied) and in contact with the leader: a strict none read with freshness %s must be refused with ErrStaleRead, got %s", d0.Round(time.Millisecond), (d0/4).Round(time.Millisecond), tight), replay)
		}
		if loose != "served" {
			rep.Fail("strict-none-read-refused-within-bound:live", fmt.Sprintf("same state, freshness 1h strict: got %s", loose), replay)
		}
		if lax != "served" {
			rep.Fail("non-strict-none-read-refused-in-contact:live", fmt.Sprintf("same state, freshness %s not strict, follower in contact with the leader: got %s", (d0/4).Round(time.Millisecond), lax), replay)
		}
		c16SnapshotInstalledNode(t, rep, c, n0)
		return
	}
	rep.Note("live strict: could not catch the follower between the two slow reads")
}

// c16SnapshotInstalledNode: a node that comes up through a snapshot install (fsmRestore) has its
// FSM index at the snapshot index and NO entry applied one by one: the two times are unset, and
// a strict none read within the contact bound is served (the rule speaks of the last applied
// ENTRY). Compared with the model's Book after `bookrestore`.
func c16SnapshotInstalledNode(t *testing.T, rep *vfReport, c *clu8Cluster, n0 *clu8Node) {
	if !n0.S.IsLeader() {
		return
	}
	// compact the leader's log so that a new node can only catch up by snapshot
	for i := 0; i < 2; i++ {
		if err := clu8Exec(n0.S, fmt.Sprintf("INSERT INTO c16d(v) VALUES(%d)", 100+i)); err != nil {
			return
		}
		if err := n0.S.Snapshot(1); err != nil {
			rep.Note("snapshot-installed node: snapshot declined: %v", err)
		}
	}
	g, err := c.NewNode()
	if err != nil {
		return
	}
	if err := n0.S.Join(joinRequest(g.Name, g.Addr, false)); err != nil {
		rep.Note("snapshot-installed node: join failed: %v", err)
		return
	}
	deadline := time.Now().Add(60 * time.Second)
	for g.S.fsmIdx.Load() == 0 || time.Since(g.S.raft.LastContact()) > 5*time.Second {
		if time.Now().After(deadline) {
			rep.Note("snapshot-installed node: did not receive a snapshot within 60 s")
			return
		}
		time.Sleep(20 * time.Millisecond)
	}
	first, _, _ := clu8LogTypes(g.S)
	if first <= 1 {
		rep.Count("snapshot-installed-node:caught-up-by-log-instead")
		return
	}
	idx := g.S.fsmIdx.Load()
	app := "-"
	if a := g.S.appendedAtTime.Load(); !a.IsZero() {
		app = fmt.Sprint(a.UnixNano())
	}
	upd := "0"
	if u := g.S.fsmUpdateTime.Load(); !u.IsZero() {
		upd = fmt.Sprint(u.UnixNano())
	}
	qr := queryRequestFromString("SELECT COUNT(*) FROM c16d", false, false, false)
	qr.Level, qr.Freshness, qr.FreshnessStrict = proto.ConsistencyLevel_NONE, int64(time.Hour), true
	_, _, _, qerr := g.S.Query(context.Background(), qr)
	out := "served"
	if qerr != nil {
		out = c16Canon(qerr)
	}
	rep.Count("snapshot-installed-node:strict-1h->" + out + ":appendedAt=" + map[bool]string{true: "unset", false: "set"}[app == "-"])
	rep.Case("snapshot-installed-node|"+out, true)
	now := time.Now().UnixNano()
	ops := []string{"bookreset", fmt.Sprintf("bookrestore %d", idx), "book", fmt.Sprintf("bookstale %d %d %d %d true", now, now, idx+1, int64(time.Hour))}
	impl := []string{"ok", "ok", fmt.Sprintf("%d %s %s", idx, upd, app), vfBool(out == "err:stale")}
	rep.vfCompare("readlevel", ops, impl, nil)
}

func TestVerifC16(t *testing.T) {
	rep := vfNewReport("C16", "A: store.IsStaleRead on boundary-value inputs (freshness incl. 0, ±1, int64 extremes; FSM-update minus appended-at exactly at freshness-2..+2 and saturating; contact age clearly older/younger than the bound, never, in the future; equal/unequal indexes) — non-trivial when freshness is set, distinct by input; B: live cluster, every level x node role (leader / voting follower / non-voter) x freshness {unset,1ns,1ns strict,1h,1h strict} x {Query, read-only Request, Request with a write} — distinct by (api, role, freshness, level, outcome); C: the real Store.fsmApply fed entries of every command type (insert, execute changing nothing, strong read, read-only execute-query, no-op) appended 0 s / 10 s / 2 min earlier, then the strict decision for bounds 1 s / 30 s / 1 h on the store's own bookkeeping — non-trivial when the entry does not change the database")
	defer rep.Write()
	c16StalePart(t, rep)
	clu8Case(rep, "dispatch", 15*time.Minute, func() { c16DispatchPart(t, rep) })
	clu8Case(rep, "fsm-bookkeeping", 10*time.Minute, func() { c16BookPart(t, rep) })
	clu8Case(rep, "live-strict", 10*time.Minute, func() { c16LiveStrictPart(t, rep) })
	clu8Floor(t, rep)
}

package store

// C21 (part c): the REAL Store as the serving side of a relayed backup: real
// cluster.Service (BACKUP_STREAM handler) in front of it, real cluster.Client.Backup as the
// relaying side. Besides the healthy case, the serving node's Store.Backup is made to FAIL:
// its source (the main database file) cannot be read. The serving node then returns an error
// internally — the relaying client must report an error too, for both values of the compress
// flag: a backup that could not be produced must never arrive as a successful one.

import (
	"bytes"
	"context"
	"fmt"
	"net"
	"testing"
	"time"

	"github.com/rqlite/rqlite/v10/cluster"
	"github.com/rqlite/rqlite/v10/command/proto"
)

type c21TCPDialer struct{}

func (c21TCPDialer) Dial(addr string, timeout time.Duration) (net.Conn, error) {
	return net.DialTimeout("tcp", addr, timeout)
}

func TestVerifC21ServeFail(t *testing.T) {
	rep := vfNewReport("C21", "real Store behind a real cluster.Service, fetched with the real cluster.Client.Backup: healthy transfers (binary, compress on/off, vacuum on/off) and transfers during which the serving node's Store.Backup fails because its source cannot be read (the database path is replaced by an unreadable one before the call). A case is non-trivial when the serving node's backup fails; distinct by (vacuum, compress, failure)")
	defer rep.Write()
	dir := t.TempDir()
	s, ln := mustNewStore(t)
	defer ln.Close()
	if err := s.Open(); err != nil {
		t.Fatalf("open: %v", err)
	}
	if err := s.Bootstrap(NewServer(s.ID(), s.Addr(), true)); err != nil {
		t.Fatalf("bootstrap: %v", err)
	}
	defer s.Close(true)
	if _, err := s.WaitForLeader(60 * time.Second); err != nil {
		t.Fatalf("leader: %v", err)
	}
	if err := c21Execute(s, []string{
		"CREATE TABLE a (seq INTEGER PRIMARY KEY, v INTEGER)",
		"CREATE TABLE acct (id INTEGER PRIMARY KEY, bal INTEGER)",
		"CREATE TABLE b (seq INTEGER PRIMARY KEY, v INTEGER)",
		"INSERT INTO acct(id, bal) VALUES(1, 500)", "INSERT INTO acct(id, bal) VALUES(2, 500)",
		"CREATE TABLE schemaver (g INTEGER)", "INSERT INTO schemaver(g) VALUES(0)"}, true); err != nil {
		t.Fatalf("schema: %v", err)
	}
	if err := c21Execute(s, c21GenCreate(0), true); err != nil {
		t.Fatalf("schema generation 0: %v", err)
	}
	for k := int64(1); k <= 40; k++ {
		v := c21V(k)
		if err := c21Execute(s, []string{
			fmt.Sprintf("INSERT INTO a(seq, v) VALUES(%d, %d)", k, v),
			fmt.Sprintf("UPDATE acct SET bal = bal - %d WHERE id = 1", v),
			fmt.Sprintf("UPDATE acct SET bal = bal + %d WHERE id = 2", v),
			fmt.Sprintf("INSERT INTO b(seq, v) VALUES(%d, %d)", k, v)}, true); err != nil {
			t.Fatalf("write: %v", err)
		}
		if k%c21GenEvery == 0 {
			g := k / c21GenEvery
			stmts := append(append(c21GenCreate(g), c21GenDrop(g-1)...), fmt.Sprintf("UPDATE schemaver SET g = %d", g))
			if err := c21Execute(s, stmts, true); err != nil {
				t.Fatalf("schema transaction: %v", err)
			}
		}
	}

	tl, err := net.Listen("tcp", "127.0.0.1:0")
	if err != nil {
		t.Fatalf("listen: %v", err)
	}
	svc := cluster.New(tl, s, s, nil)
	if err := svc.Open(); err != nil {
		t.Fatalf("cluster service: %v", err)
	}
	defer svc.Close()

	realPath := s.dbPath
	var ops, impl []string
	for _, fail := range []bool{false, true} {
		for _, compress := range []bool{false, true} {
			cfg := c21Cfg{proto.BackupRequest_BACKUP_REQUEST_FORMAT_BINARY, false, compress}
			if fail {
				s.dbPath = dir // a directory: os.Open succeeds, every Read fails
			} else {
				s.dbPath = realPath
			}
			// what the serving node's own Backup says, streamed into a buffer
			var local bytes.Buffer
			lerr := s.Backup(context.Background(), &proto.BackupRequest{Format: cfg.format, Compress: true}, &local)
			cl := cluster.NewClient(c21TCPDialer{}, 60*time.Second)
			var out bytes.Buffer
			rerr := cl.Backup(context.Background(), &proto.BackupRequest{Format: cfg.format, Compress: compress}, svc.Addr(), nil, 60*time.Second, &out)
			s.dbPath = realPath
			name := fmt.Sprintf("compress=%v,source-fails=%v", compress, fail)
			rep.Case(name, fail)
			rep.Count("relay-real-store:" + name)
			replay := map[string]interface{}{"compress": compress, "source_fails": fail, "serving_node_error": fmt.Sprint(lerr), "client_error": fmt.Sprint(rerr), "bytes": out.Len()}
			if fail {
				if lerr == nil {
					t.Fatalf("harness: the serving node's Backup did not fail")
				}
				cflag := 0
				if compress {
					cflag = 1
				}
				ops = append(ops, fmt.Sprintf("servefail 0 1 %d", cflag))
				if rerr == nil {
					impl = append(impl, "ok-partial")
				} else {
					impl = append(impl, "error")
				}
				if rerr == nil {
					rep.Fail(fmt.Sprintf("relay:serving-node-backup-failed-but-client-reports-success:compress=%v", compress),
						fmt.Sprintf("the serving node's Store.Backup failed (%v) after writing a well-formed gzip stream of what it had produced (%d bytes on the wire side); cluster.Client.Backup returned nil with %d bytes", lerr, local.Len(), out.Len()), replay)
				}
				continue
			}
			if rerr != nil {
				rep.Fail("relay:complete-transfer-reported-as-error", rerr.Error(), replay)
				continue
			}
			st, e := c21Load(dir, out.Bytes(), cfg)
			if e != nil {
				rep.Fail("relay:successful-backup-is-not-a-loadable-database", e.Error(), replay)
				continue
			}
			if m, why := c21Prefix(st); why != "" || m != 40 {
				rep.Fail("relay:successful-backup-is-not-the-committed-state", fmt.Sprintf("%d %s", m, why), replay)
			}
		}
	}
	rep.vfCompare("backup", ops, impl, nil)
}

/-
C05  WAL compaction is equivalent to the original WAL.

Model: RqModel/Model/Wal.lean (byte-level reader/scanner/writer of db/wal and a model of
SQLite's checkpoint), tied to the code by byte-for-byte comparison of compacted WALs and
by comparing `ckpt` with SQLite's own checkpoint of real WALs.
-/
import RqModel.Model.Wal
import RqModel.Lemmas.Wal
namespace C05
open RqModel.Wal

/-! ### frame-level lemmas -/

theorem latest_compact (p : Nat) : ∀ fs : List Frame, latest p (compactFrames fs) = latest p fs := by
  intro fs
  induction fs with
  | nil => rfl
  | cons f rest ih =>
    unfold compactFrames
    by_cases h : rest.any (fun g => g.pgno == f.pgno) = true
    · simp only [h, if_true, ih]
      -- f is superseded: some later frame has the same page, so `latest` never falls back to f
      by_cases hp : f.pgno = p
      · have hex : ∃ d, latest p rest = some d := by
          clear ih
          induction rest with
          | nil => simp at h
          | cons g r ihr =>
            simp only [List.any_cons, Bool.or_eq_true, beq_iff_eq] at h
            unfold latest
            cases hl : latest p r with
            | some d => exact ⟨d, rfl⟩
            | none =>
              rcases h with h | h
              · simp [h, hp]
              · obtain ⟨d, hd⟩ := ihr h; rw [hl] at hd; cases hd
        obtain ⟨d, hd⟩ := hex
        simp [latest, hd]
      · simp only [latest]
        cases latest p rest <;> simp [hp]
    · simp only [h]
      simp only [latest, ih, Bool.false_eq_true, if_false]

theorem getLast?_compact : ∀ fs : List Frame, (compactFrames fs).getLast? = fs.getLast? := by
  intro fs
  induction fs with
  | nil => rfl
  | cons f rest ih =>
    unfold compactFrames
    cases rest with
    | nil => simp [compactFrames]
    | cons g r =>
      by_cases h : (g :: r).any (fun x => x.pgno == f.pgno) = true
      · simp only [h, if_true, ih, List.getLast?_cons_cons]
      · simp only [h, Bool.false_eq_true, if_false]
        have hne : compactFrames (g :: r) ≠ [] := by
          intro he
          have h1 : (g :: r).getLast? = none := by rw [← ih, he]; rfl
          simp [List.getLast?_eq_none_iff] at h1
        cases hc : compactFrames (g :: r) with
        | nil => exact absurd hc hne
        | cons a l => rw [List.getLast?_cons_cons, ← hc, ih]; simp

/-- a frame list whose last frame commits is entirely committed -/
theorem committed_eq_self : ∀ (fs : List Frame) (f : Frame), fs.getLast? = some f → f.commit ≠ 0 →
    committed fs = fs := by
  intro fs
  induction fs with
  | nil => intro f h; simp at h
  | cons g rest ih =>
    intro f h hc
    cases rest with
    | nil =>
      simp at h; subst h
      simp [committed, hc]
    | cons g' r =>
      have h' : (g' :: r).getLast? = some f := by simpa [List.getLast?_cons_cons] using h
      have := ih f h' hc
      unfold committed
      simp [this]

theorem committed_nil_of_open : ∀ (fs : List Frame), fs = [] → committed fs = [] := by
  intro fs h; subst h; rfl

/-- **compact_equiv.** For ANY frame list that does not end in an open transaction (this is
exactly when compaction succeeds), any page size and any base database: checkpointing
the compacted frames gives the same database as checkpointing the original frames. -/
theorem compact_equiv (ps : Nat) (db : List Bytes) (fs : List Frame) (h : openTx fs = false) :
    ckpt ps db (compactFrames fs) = ckpt ps db fs := by
  cases hl : fs.getLast? with
  | none =>
    have : fs = [] := by simpa using hl
    subst this; rfl
  | some f =>
    have hc : f.commit ≠ 0 := by
      unfold openTx at h; rw [hl] at h; simpa using h
    have h1 : committed fs = fs := committed_eq_self fs f hl hc
    have hl' : (compactFrames fs).getLast? = some f := by rw [getLast?_compact, hl]
    have h2 : committed (compactFrames fs) = compactFrames fs := committed_eq_self _ f hl' hc
    unfold ckpt finalSize
    rw [h1, h2, hl, hl']
    simp only [latest_compact]

/-- compaction only drops frames: what is kept is a sub-list of the input, in order -/
theorem compact_sublist : ∀ fs : List Frame, (compactFrames fs).Sublist fs := by
  intro fs
  induction fs with
  | nil => exact List.Sublist.slnil
  | cons f rest ih =>
    unfold compactFrames
    split
    · exact List.Sublist.cons _ ih
    · exact List.Sublist.cons_cons _ ih

/-- every page appears at most once in the compacted WAL -/
theorem compact_nodup_pages : ∀ fs : List Frame, ((compactFrames fs).map (·.pgno)).Nodup := by
  intro fs
  induction fs with
  | nil => simp [compactFrames]
  | cons f rest ih =>
    unfold compactFrames
    split
    · exact ih
    · rename_i h
      simp only [List.map_cons, List.nodup_cons]
      refine ⟨?_, ih⟩
      intro hm
      apply h
      obtain ⟨g, hg, hp⟩ := List.mem_map.1 hm
      have : g ∈ rest := (compact_sublist rest).subset hg
      exact List.any_eq_true.2 ⟨g, this, by simp [hp]⟩

/-- **last_frame_is_commit_with_final_size.** The compacted WAL ends with the original's
last frame: a commit frame carrying the final database size. -/
theorem last_frame_is_commit_with_final_size (fs : List Frame) (hne : fs ≠ []) (h : openTx fs = false) :
    ∃ f, (compactFrames fs).getLast? = some f ∧ fs.getLast? = some f ∧ f.commit ≠ 0 ∧
      finalSize (compactFrames fs) = some f.commit ∧ finalSize fs = some f.commit := by
  cases hl : fs.getLast? with
  | none => exact absurd (by simpa using hl) hne
  | some f =>
    have hc : f.commit ≠ 0 := by
      unfold openTx at h; rw [hl] at h; simpa using h
    have hl' : (compactFrames fs).getLast? = some f := by rw [getLast?_compact, hl]
    refine ⟨f, hl', rfl, hc, ?_, ?_⟩
    · unfold finalSize; rw [committed_eq_self _ f hl' hc, hl']
    · unfold finalSize; rw [committed_eq_self _ f hl hc, hl]

/-- **scan_algorithm_correct.** The algorithm `scan` actually runs — a per-transaction map and
a committed map keyed by page number, merged at every commit frame, values finally sorted
by file offset — computes `compactFrames` (last frame of every page, in file order) for
every frame list that does not end in an open transaction. -/
theorem scan_algorithm_correct (fs : List Frame) (h : openTx fs = false) :
    scanLiteral fs = compactFrames fs := scanLiteral_eq fs h

/-! ### byte level: what `compact` returns -/

/-- **compact_ok_iff.** `compact` succeeds exactly when the header parses, the arguments are
legal, the scan ends at io.EOF without an open transaction and every kept page is fully
present and aligned; the output is then the re-serialised compaction of the scanned frames. -/
theorem compact_ok (full : Bool) (start : Nat) (wal out : Bytes) (h : compact full start wal = .ok out) :
    ∃ hd fs, parseHeader wal = .ok hd ∧ ¬ (full = true ∧ start ≠ 0) ∧
      scanFrames full hd start wal = (fs, .eof) ∧ openTx fs = false ∧
      writeCheck hd.pageSize (compactFrames fs) = none ∧ out = serialize hd (compactFrames fs) := by
  unfold compact at h
  cases hp : parseHeader wal with
  | eof => simp [hp] at h
  | badMagic => simp [hp] at h
  | badVersion => simp [hp] at h
  | ok hd =>
    simp only [hp] at h
    by_cases ha : full = true ∧ start ≠ 0
    · simp [ha] at h
    · simp only [ha, if_false] at h
      generalize hs : scanFrames full hd start wal = r at h
      obtain ⟨fs, e⟩ := r
      cases e with
      | zeroPage => simp at h
      | misaligned => simp at h
      | eof =>
        simp only at h
        by_cases ho : openTx fs = true
        · simp [ho] at h
        · have ho' : openTx fs = false := by simpa using ho
          simp only [ho', Bool.false_eq_true, if_false, scanLiteral_eq fs ho'] at h
          cases hw : writeCheck hd.pageSize (compactFrames fs) with
          | some e' =>
            rw [hw] at h
            -- writeCheck only yields errors
            have : ∀ (l : List Frame) (e : CompRes), writeCheck hd.pageSize l = some e →
                e = .shortRead ∨ e = .misaligned := by
              intro l
              induction l with
              | nil => intro e he; simp [writeCheck] at he
              | cons f r ih =>
                intro e he
                unfold writeCheck at he
                split at he
                · left; exact (Option.some.inj he).symm
                · split at he
                  · right; exact (Option.some.inj he).symm
                  · exact ih e he
            rcases this _ _ hw with h' | h' <;> simp [h'] at h
          | none =>
            rw [hw] at h
            exact ⟨hd, fs, rfl, ha, hs, ho', hw, (CompRes.ok.inj h).symm⟩

/-- **open_tx_is_error.** If the frames the scan accepts end in a frame that does not commit,
`compact` never returns a WAL (it reports `ErrOpenTransaction` or an earlier error): an
unterminated trailing transaction is neither kept nor silently dropped. -/
theorem open_tx_is_error (full : Bool) (start : Nat) (wal : Bytes) (hd : Header)
    (hp : parseHeader wal = .ok hd) (ho : openTx (scanFrames full hd start wal).1 = true) :
    ∀ out, compact full start wal ≠ .ok out := by
  intro out hc
  obtain ⟨hd', fs, hp', _, hs, ho', _⟩ := compact_ok full start wal out hc
  rw [hp] at hp'
  cases hp'
  rw [hs] at ho
  simp [ho'] at ho

/-- the whole property at the byte level: when `compact` returns a WAL, checkpointing the
frames it kept equals checkpointing the frames the scan accepted, for every base database -/
theorem compact_equiv_bytes (full : Bool) (start : Nat) (wal out : Bytes) (ps : Nat) (db : List Bytes)
    (h : compact full start wal = .ok out) :
    ∃ hd fs kept, parseHeader wal = .ok hd ∧ scanFrames full hd start wal = (fs, .eof) ∧
      out = serialize hd kept ∧ ckpt ps db kept = ckpt ps db fs := by
  obtain ⟨hd, fs, hp, _, hs, ho, _, hout⟩ := compact_ok full start wal out h
  exact ⟨hd, fs, compactFrames fs, hp, hs, hout, compact_equiv ps db fs ho⟩

/-! ### writer / reader round trip -/

theorem serializeHeader_length (h : Header) : (serializeHeader h).length = 32 := by
  simp [serializeHeader, enc32_length]

/-- **writer_reader_roundtrip.** Reading back, with full checksum verification (as SQLite
does), what the writer produced for a well-formed header and whole-page frames gives exactly
the same header and the same frames, every one of them checksum-valid, and nothing else. -/
theorem writer_reader_roundtrip (h : Header) (hw : h.WF) (hp : h.pageSize % 8 = 0) (fs : List Frame)
    (hg : ∀ f ∈ fs, GoodFrame h f) :
    parseHeader (serialize h fs) = .ok h ∧ scanFrames true h 0 (serialize h fs) = (fs, .eof) := by
  refine ⟨parseHeader_serialize h hw _, ?_⟩
  simp only [scanFrames, serialize, Nat.zero_mul, Nat.add_zero]
  have hd : (serializeHeader h ++ serializeFrames h (h.chk1, h.chk2) fs).drop 32 =
      serializeFrames h (h.chk1, h.chk2) fs := by
    rw [List.drop_append_of_le_length (by rw [serializeHeader_length]; exact Nat.le_refl _)]
    rw [List.drop_of_length_le (by rw [serializeHeader_length]; exact Nat.le_refl _)]
    rfl
  rw [hd]
  exact readFrames_serializeFrames h hp hw.2.2.2.1 hw.2.2.2.2.1 fs _ _
    (by have := serializeFrames_length h fs (h.chk1, h.chk2); omega) hg

theorem writeCheck_none (ps : Nat) : ∀ (l : List Frame), writeCheck ps l = none →
    ∀ f ∈ l, ps ≤ f.data.length ∧ ps % 8 = 0 := by
  intro l
  induction l with
  | nil => intro _ f hf; simp at hf
  | cons a t ih =>
    intro h f hf
    simp only [writeCheck] at h
    split at h
    · cases h
    rename_i h1
    split at h
    · cases h
    rename_i h2
    rcases List.mem_cons.1 hf with rfl | hf'
    · exact ⟨by omega, by omega⟩
    · exact ih h f hf'

/-- **compact_output_parses.** Whatever WAL bytes go in: if `compact` returns a WAL, then a
checksum-verifying reader (SQLite) reads from it the same header and exactly the kept
frames of the scan, all valid, up to the end of the file. Together with `compact_equiv`:
checkpointing what SQLite reads from the compacted WAL equals checkpointing what the scan
accepted from the original. -/
theorem compact_output_parses (full : Bool) (start : Nat) (wal out : Bytes) (ps : Nat) (db : List Bytes)
    (h : compact full start wal = .ok out) :
    ∃ hd fs, parseHeader wal = .ok hd ∧ scanFrames full hd start wal = (fs, .eof) ∧
      parseHeader out = .ok hd ∧ scanFrames true hd 0 out = (compactFrames fs, .eof) ∧
      ckpt ps db (scanFrames true hd 0 out).1 = ckpt ps db fs := by
  obtain ⟨hd, fs, hp, _, hs, ho, hw, hout⟩ := compact_ok full start wal out h
  have hwf := parseHeader_wf wal hd hp
  subst hout
  have hgood : ∀ f ∈ compactFrames fs, GoodFrame hd f ∧ hd.pageSize % 8 = 0 := by
    intro f hf
    have hin : f ∈ fs := (compact_sublist fs).subset hf
    have hfs : f ∈ (readFrames full hd ((wal.drop (32 + start * frameSize hd)).length + 1) (hd.chk1, hd.chk2)
        (wal.drop (32 + start * frameSize hd))).1 := by
      have : (scanFrames full hd start wal).1 = fs := by rw [hs]
      simp only [scanFrames] at this
      rw [this]; exact hin
    obtain ⟨g1, g2, g3, g4⟩ := readFrames_good full hd _ _ _ f hfs
    obtain ⟨w1, w2⟩ := writeCheck_none hd.pageSize _ hw f hf
    exact ⟨⟨by omega, g1, g2, g3⟩, w2⟩
  have hrt : parseHeader (serialize hd (compactFrames fs)) = .ok hd ∧
      scanFrames true hd 0 (serialize hd (compactFrames fs)) = (compactFrames fs, .eof) := by
    cases hk : compactFrames fs with
    | nil =>
      refine ⟨parseHeader_serialize hd hwf _, ?_⟩
      simp only [scanFrames, serialize, serializeFrames, List.append_nil, Nat.zero_mul, Nat.add_zero]
      rw [List.drop_of_length_le (by rw [serializeHeader_length]; exact Nat.le_refl _)]
      simp [readFrames]
    | cons f t =>
      rw [← hk]
      have hp8 : hd.pageSize % 8 = 0 := (hgood f (by rw [hk]; simp)).2
      exact writer_reader_roundtrip hd hwf hp8 _ (fun g hg => (hgood g hg).1)
  refine ⟨hd, fs, hp, hs, hrt.1, hrt.2, ?_⟩
  rw [hrt.2]
  exact compact_equiv ps db fs ho

/-! ### production mode (salt-only scan from a resume position) against SQLite's view -/

/-- a WAL as SQLite leaves it: a well-formed header, chain-valid whole-page frames, then bytes at
which every reader stops (end of file, or another generation's salts) -/
structure CleanWal (h : Header) (fs : List Frame) (tail wal : Bytes) : Prop where
  wf    : h.WF
  page  : h.pageSize % 8 = 0
  good  : ∀ f ∈ fs, GoodFrame h f
  stops : Stops h tail
  bytes : wal = serialize h fs ++ tail

theorem clean_parse {h : Header} {fs : List Frame} {tail wal : Bytes} (c : CleanWal h fs tail wal) :
    parseHeader wal = .ok h := by
  rw [c.bytes, serialize, List.append_assoc]; exact parseHeader_serialize h c.wf _

/-- **clean_wal_fast_eq_full.** On a clean WAL the salt-only scan from ANY frame index `start`
reads exactly the checksum-verified frames from that index on:
`scanFrames false h start wal = (scanFrames true h 0 wal).drop start`. -/
theorem clean_wal_fast_eq_full {h : Header} {fs : List Frame} {tail wal : Bytes} (c : CleanWal h fs tail wal)
    (start : Nat) (hst : start ≤ fs.length) :
    scanFrames false h start wal = (fs.drop start, .eof) ∧ scanFrames true h 0 wal = (fs, .eof) := by
  have hdata : ∀ f ∈ fs, f.data.length = h.pageSize := fun f hf => (c.good f hf).1
  have hbody : ∀ k, k ≤ fs.length → wal.drop (32 + k * frameSize h) =
      (serializeFrames h (h.chk1, h.chk2) fs).drop (k * frameSize h) ++ tail := by
    intro k hk
    rw [c.bytes, serialize, List.append_assoc, ← List.drop_drop,
      List.drop_left' (serializeHeader_length h)]
    rw [List.drop_append_of_le_length]
    rw [serializeFrames_length_eq h fs _ hdata]
    exact Nat.mul_le_mul_right _ hk
  constructor
  · simp only [scanFrames]
    obtain ⟨chk', hc'⟩ := serializeFrames_drop h fs (h.chk1, h.chk2) start hdata hst
    rw [hbody start hst, hc']
    apply readFrames_serializeFrames_tail false h c.page c.wf.2.2.2.1 c.wf.2.2.2.2.1 tail c.stops
    · have := serializeFrames_length h (fs.drop start) chk'
      simp only [List.length_append]; omega
    · intro f hf; exact c.good f (List.mem_of_mem_drop hf)
    · intro e; cases e
  · simp only [scanFrames]
    rw [hbody 0 (Nat.zero_le _)]
    simp only [Nat.zero_mul, List.drop_zero]
    apply readFrames_serializeFrames_tail true h c.page c.wf.2.2.2.1 c.wf.2.2.2.2.1 tail c.stops
    · have := serializeFrames_length h fs (h.chk1, h.chk2)
      simp only [List.length_append]; omega
    · exact c.good
    · intro _; rfl

/-- **compact_fast_matches_sqlite.** Production mode on a clean WAL, resuming at frame `start`:
if `compact` returns a WAL, then what SQLite reads from it checkpoints to the same database
as the frames SQLite reads from the ORIGINAL WAL from `start` on. -/
theorem compact_fast_matches_sqlite {h : Header} {fs : List Frame} {tail wal : Bytes}
    (c : CleanWal h fs tail wal) (start : Nat) (hst : start ≤ fs.length) (out : Bytes)
    (ps : Nat) (db : List Bytes) (hc : compact false start wal = .ok out) :
    parseHeader out = .ok h ∧
    ckpt ps db (scanFrames true h 0 out).1 = ckpt ps db ((scanFrames true h 0 wal).1.drop start) := by
  obtain ⟨hd, fs', hp, hs, hpo, _, hck⟩ := compact_output_parses false start wal out ps db hc
  rw [clean_parse c] at hp
  obtain rfl := HdrRes.ok.inj hp
  obtain ⟨e1, e2⟩ := clean_wal_fast_eq_full c start hst
  rw [e1] at hs
  obtain ⟨rfl, _⟩ := Prod.mk.inj hs
  exact ⟨hpo, by rw [hck, e2]⟩

/-- and it does return a WAL whenever the frames from `start` on end with a commit -/
theorem compact_fast_succeeds_on_clean_wal {h : Header} {fs : List Frame} {tail wal : Bytes}
    (c : CleanWal h fs tail wal) (start : Nat) (hst : start ≤ fs.length)
    (ho : openTx (fs.drop start) = false) :
    compact false start wal = .ok (serialize h (compactFrames (fs.drop start))) := by
  obtain ⟨e1, _⟩ := clean_wal_fast_eq_full c start hst
  have hw : writeCheck h.pageSize (compactFrames (fs.drop start)) = none := by
    have : ∀ l : List Frame, (∀ f ∈ l, GoodFrame h f) → writeCheck h.pageSize l = none := by
      intro l
      induction l with
      | nil => intro _; rfl
      | cons f t ih =>
        intro hg
        have g := hg f (by simp)
        simp only [writeCheck]
        rw [if_neg (by rw [g.1]; omega), if_neg (by simp [c.page])]
        exact ih (fun x hx => hg x (by simp [hx]))
    exact this _ (fun f hf => c.good f (List.mem_of_mem_drop ((compact_sublist _).subset hf)))
  simp only [compact, clean_parse c, e1, ho, scanLiteral_eq _ ho, hw]
  simp

/-! ### SQLite's checkpoint as an external component with laws -/

/-- SQLite's checkpoint as an external component: a function from (page size, database pages,
WAL frames) to database pages, with the laws the property relies on. -/
structure SqliteCkpt where
  ck : Nat → List Bytes → List Frame → List Bytes
  /-- frames after the last commit frame are ignored -/
  ignores_uncommitted : ∀ ps db fs, ck ps db fs = ck ps db (committed fs)
  /-- a WAL without a commit frame leaves the database unchanged -/
  unchanged_without_commit : ∀ ps db fs, finalSize fs = none → ck ps db fs = db
  /-- the file is cut / extended to the database size recorded by the last commit frame -/
  size_is_final : ∀ ps db fs n, finalSize fs = some n → (ck ps db fs).length = n
  /-- committed frames are applied in order: every page within the final size holds its LAST
  committed frame; pages without a frame keep the database's content (zeros past its old end) -/
  page_is_latest : ∀ ps db fs n i, finalSize fs = some n → i < n →
    (ck ps db fs).getD i [] = (match latest (i + 1) (committed fs) with
      | some d => d
      | none => db.getD i (List.replicate ps 0))

theorem list_ext_getD {α : Type} (d : α) : ∀ (a b : List α), a.length = b.length →
    (∀ i, i < a.length → a.getD i d = b.getD i d) → a = b := by
  intro a
  induction a with
  | nil => intro b hl _; cases b with | nil => rfl | cons _ _ => simp at hl
  | cons x t ih =>
    intro b hl h
    cases b with
    | nil => simp at hl
    | cons y u =>
      have h0 : x = y := h 0 (Nat.zero_lt_succ _)
      have := ih u (by simpa using hl) (fun i hi => by
        have := h (i + 1) (by simpa using hi)
        simpa using this)
      rw [h0, this]

theorem committed_idem : ∀ fs : List Frame, committed (committed fs) = committed fs := by
  intro fs
  induction fs with
  | nil => rfl
  | cons f rest ih =>
    by_cases h : committed rest ≠ []
    · have e : committed (f :: rest) = f :: committed rest := by simp [committed, h]
      rw [e]; simp [committed, ih, h]
    · have h' : committed rest = [] := by simpa using h
      by_cases hc : f.commit ≠ 0
      · have e : committed (f :: rest) = [f] := by simp [committed, h', hc]
        rw [e]; simp [committed, hc]
      · have e : committed (f :: rest) = [] := by simp [committed, h', hc]
        rw [e]; rfl

/-- the laws pin the function down: any two lawful checkpoints agree everywhere -/
theorem lawful_ckpt_unique (A B : SqliteCkpt) (ps : Nat) (db : List Bytes) (fs : List Frame) :
    A.ck ps db fs = B.ck ps db fs := by
  cases hn : finalSize fs with
  | none => rw [A.unchanged_without_commit ps db fs hn, B.unchanged_without_commit ps db fs hn]
  | some n =>
    apply list_ext_getD []
    · rw [A.size_is_final ps db fs n hn, B.size_is_final ps db fs n hn]
    · intro i hi
      rw [A.size_is_final ps db fs n hn] at hi
      rw [A.page_is_latest ps db fs n i hn hi, B.page_is_latest ps db fs n i hn hi]

/-- the model's `ckpt` is a lawful checkpoint (and it is the function validated against real
SQLite checkpoints by the run) -/
def modelCkpt : SqliteCkpt where
  ck := ckpt
  ignores_uncommitted := by
    intro ps db fs
    simp only [ckpt, finalSize, committed_idem]
  unchanged_without_commit := by
    intro ps db fs h; simp [ckpt, h]
  size_is_final := by
    intro ps db fs n h; simp [ckpt, h]
  page_is_latest := by
    intro ps db fs n i h hi
    simp only [ckpt, h]
    rw [List.getD_eq_getElem?_getD, List.getElem?_map, List.getElem?_range hi]
    simp
    cases latest (i + 1) (committed fs) <;> rfl

/-- **compact_equiv for every lawful checkpoint.** Whatever SQLite's checkpoint is, as long as
it obeys the four laws, checkpointing the compacted frames equals checkpointing the original. -/
theorem compact_equiv_lawful (C : SqliteCkpt) (ps : Nat) (db : List Bytes) (fs : List Frame)
    (h : openTx fs = false) : C.ck ps db (compactFrames fs) = C.ck ps db fs := by
  rw [lawful_ckpt_unique C modelCkpt, lawful_ckpt_unique C modelCkpt ps db fs]
  exact compact_equiv ps db fs h


/-! ### valid prefix -/

/-- one step of the checksumming scan: either it stops, or it emits the frame at the head of
`bs` (header present, salts right, page number non-zero) and continues behind it -/
theorem full_step (h : Header) (fuel : Nat) (chk : UInt32 × UInt32) (bs : Bytes) :
    (readFrames true h (fuel + 1) chk bs).1 = [] ∨
    (¬ bs.length < 24 ∧ ¬ (be32 (bs.drop 8) ≠ h.salt1 ∨ be32 (bs.drop 12) ≠ h.salt2) ∧ be32 bs ≠ 0 ∧
      ∃ c, (readFrames true h (fuel + 1) chk bs).1 =
        ⟨be32 bs, be32 (bs.drop 4), (bs.drop 24).take h.pageSize⟩ ::
          (readFrames true h fuel c ((bs.drop 24).drop h.pageSize)).1) := by
  simp only [readFrames]
  by_cases h1 : bs.length < 24
  · left; rw [if_pos h1]
  · rw [if_neg h1]
    by_cases h2 : be32 (List.drop 8 bs) ≠ h.salt1 ∨ be32 (List.drop 12 bs) ≠ h.salt2
    · left; rw [if_pos h2]
    · rw [if_neg h2]
      simp only [if_true]
      by_cases h3 : (List.drop 24 bs).length < h.pageSize
      · left; rw [if_pos h3]
      · rw [if_neg h3]
        by_cases h4 : h.pageSize % 8 ≠ 0
        · left; rw [if_pos h4]
        · rw [if_neg h4]
          split
          · left; rfl
          · by_cases h5 : be32 bs = 0
            · left; rw [if_pos h5]
            · right; rw [if_neg h5]
              exact ⟨h1, h2, h5, _, rfl⟩

/-- **full_prefix_of_fast.** The checksum-verified frames (what SQLite accepts) are always a
prefix of the frames the salt-only scan accepts: the fast scan never loses a valid frame,
it can only run on past the valid prefix. -/
theorem full_prefix_of_fast (h : Header) : ∀ (fuel : Nat) (chk chk' : UInt32 × UInt32) (bs : Bytes),
    (readFrames true h fuel chk bs).1 <+: (readFrames false h fuel chk' bs).1 := by
  intro fuel
  induction fuel with
  | zero => intro _ _ _; simp [readFrames]
  | succ fuel ih =>
    intro chk chk' bs
    rcases full_step h fuel chk bs with h0 | ⟨h1, h2, h5, c, hc⟩
    · rw [h0]; exact List.nil_prefix
    · rw [hc]
      have : (readFrames false h (fuel + 1) chk' bs).1 =
          ⟨be32 bs, be32 (bs.drop 4), (bs.drop 24).take h.pageSize⟩ ::
            (readFrames false h fuel chk' ((bs.drop 24).drop h.pageSize)).1 := by
        simp only [readFrames]
        rw [if_neg h1, if_neg h2]
        simp only [Bool.false_eq_true, if_false]
        rw [if_neg h5]
      rw [this]
      exact (List.prefix_cons_inj _).2 (ih _ _ _)

/-- the statement one would like: whatever the mode, only checksum-valid frames are scanned -/
def valid_prefix_only_full : Prop :=
  ∀ (full : Bool) (h : Header) (wal : Bytes), (scanFrames full h 0 wal).1 = (scanFrames true h 0 wal).1

/-- it holds for the checksumming scan (`fullScan = true`), trivially by definition of the
valid prefix, and in general in the prefix form `full_prefix_of_fast` -/
theorem valid_prefix_only_partial (h : Header) (wal : Bytes) (full : Bool) (hf : full = true) :
    (scanFrames full h 0 wal).1 = (scanFrames true h 0 wal).1 := by subst hf; rfl

def witnessHeader : Header := { magic := magicBE, pageSize := 8, seq := 0, salt1 := 1, salt2 := 2, chk1 := 0, chk2 := 0 }

/-- one frame (page 1, commit 1, right salts) whose stored checksum (0,0) is wrong -/
def witnessWal : Bytes :=
  List.replicate 32 0 ++ [0,0,0,1, 0,0,0,1, 0,0,0,1, 0,0,0,2, 0,0,0,0, 0,0,0,0] ++ [9,9,9,9,9,9,9,9]

/-- **witness**: the salt-only scan used by CheckpointManager accepts a frame SQLite rejects -/
theorem valid_prefix_only_witness : ¬ valid_prefix_only_full := by
  intro h
  have := h false witnessHeader witnessWal
  revert this
  decide

/-! ### non-vacuity -/
example :
    let fs : List Frame := [⟨1, 0, [1]⟩, ⟨2, 2, [2]⟩, ⟨1, 0, [3]⟩, ⟨3, 3, [4]⟩]
    openTx fs = false ∧ compactFrames fs = [⟨2, 2, [2]⟩, ⟨1, 0, [3]⟩, ⟨3, 3, [4]⟩] ∧
    ckpt 1 [[7], [8], [9], [10]] fs = [[3], [2], [4]] := by decide

example : openTx [⟨1, 1, [1]⟩, ⟨2, 0, [2]⟩] = true := by decide

/-! a concrete clean WAL (big-endian checksums, 8-byte pages, three frames in two transactions,
followed by a stale frame of another generation) on which `compact` returns a WAL -/
def exHdrBytes : Bytes := enc32 magicBE ++ (enc32 walVersion ++ (enc32 8 ++ (enc32 0 ++ (enc32 1 ++ enc32 2))))
def exH : Header :=
  { magic := magicBE, pageSize := 8, seq := 0, salt1 := 1, salt2 := 2,
    chk1 := (cksum false 0 0 exHdrBytes).1, chk2 := (cksum false 0 0 exHdrBytes).2 }
def exFrames : List Frame := [⟨1, 1, [1, 1, 1, 1, 1, 1, 1, 1]⟩, ⟨2, 0, [2, 2, 2, 2, 2, 2, 2, 2]⟩, ⟨2, 2, [3, 3, 3, 3, 3, 3, 3, 3]⟩]
def exTail : Bytes := enc32 1 ++ enc32 1 ++ enc32 0 ++ enc32 9 ++ enc32 0 ++ enc32 0 ++ [0, 0, 0, 0, 0, 0, 0, 0]

theorem exClean : CleanWal exH exFrames exTail (serialize exH exFrames ++ exTail) where
  wf := by
    refine ⟨Or.inr rfl, by decide, by decide, by decide, by decide, ?_⟩
    rfl
  page := by decide
  good := by
    intro f hf
    simp only [exFrames, List.mem_cons, List.mem_nil_iff, or_false] at hf
    rcases hf with rfl | rfl | rfl <;> exact ⟨by decide, by decide, by decide, by decide⟩
  stops := Or.inr (Or.inl (by decide))
  bytes := rfl

example : compact false 1 (serialize exH exFrames ++ exTail) =
    .ok (serialize exH [⟨2, 2, [3, 3, 3, 3, 3, 3, 3, 3]⟩]) :=
  compact_fast_succeeds_on_clean_wal exClean 1 (by decide) (by decide)

example : ∃ out, compact true 0 (serialize exH exFrames ++ exTail) = .ok out ∧
    compact false 0 (serialize exH exFrames ++ exTail) = .ok out := by
  refine ⟨serialize exH (compactFrames exFrames), ?_, ?_⟩
  · have := compact_fast_succeeds_on_clean_wal exClean 0 (by decide) (by decide)
    have e := (clean_wal_fast_eq_full exClean 0 (by decide)).2
    simp only [compact, clean_parse exClean, e]
    simpa [compact, clean_parse exClean, (clean_wal_fast_eq_full exClean 0 (by decide)).1] using this
  · simpa using compact_fast_succeeds_on_clean_wal exClean 0 (by decide) (by decide)

end C05

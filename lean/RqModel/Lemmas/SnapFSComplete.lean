/-
C07/C09: what an UNINTERRUPTED reap returns (used by C09 to admit reap inside operation sequences),
the specification of splitLastFull, and the shape of the directories after a reap.
-/
import RqModel.Lemmas.SnapFSRemoveOnly
set_option linter.unusedSimpArgs false
set_option linter.unusedVariables false
namespace RqModel.SnapFS
variable {D : Type}

/-- an uninterrupted consolidating reap of a well-formed store -/
theorem reap_eq_consolidate {c : Ctx D} {s0 : FS D} {dw0} (w : WF c s0 dw0) (hW : c.W ≠ [])
    (hm : c.olds ≠ [] ∨ c.newers ≠ []) :
    reap c.A s0 c.newName c.verify = .ok (mk c (othOf c s0) (.renamed (finalDw c)) none false) := by
  have g := w.good
  have hp := p0_ok g w.dwOk
  have hplan := mkReapPlan_eq w.fullDb w.newersInc hW hm
  have hs := s0_eq w
  have e2 : ({ s0 with plan := some c.plan } : FS D) = mk c (othOf c s0) (p0 c dw0) (some c.plan) false :=
    (congrArg (fun s : FS D => ({ s with plan := some c.plan } : FS D)) hs).trans rfl
  simp only [reap, w.noPlan, w.scan, hplan, e2, exec_plan g _ _ _ _ hp rfl]
  rfl

/-- an uninterrupted remove-only reap -/
theorem reap_eq_removeOnly {c : Ctx D} {s0 : FS D} {dw0} (w : WF c s0 dw0) (o : RmOnly c) :
    reap c.A s0 c.newName c.verify = .ok (mk c (othOf c s0) (st1 c c.R.length none dw0) none false) := by
  have g := w.good
  have hplan := mkReapPlan_eq1 w.fullDb o
  have hs : s0 = mk c (othOf c s0) (st1 c 0 none dw0) none false := (s0_eq w).trans (rmOnly_p0 o _ _ _ _)
  have e2 : ({ s0 with plan := some c.plan1 } : FS D) = mk c (othOf c s0) (st1 c 0 none dw0) (some c.plan1) false :=
    (congrArg (fun s : FS D => ({ s with plan := some c.plan1 } : FS D)) hs).trans rfl
  simp only [reap, w.noPlan, w.scan, hplan, e2, exec_plan1 g]
  rfl

/-- a single snapshot: nothing to do -/
theorem reap_eq_single {c : Ctx D} {s0 : FS D} {dw0} (w : WF c s0 dw0) (ho : c.olds = []) (hn : c.newers = []) :
    reap c.A s0 c.newName c.verify = .ok s0 := by
  have h3 : splitLastFull c.snaps = some (c.olds, c.full, c.newers) :=
    splitLastFull_split _ _ _ (by simp [w.fullDb]) w.newersInc
  have hplan : mkReapPlan c.snaps c.newName c.verify = .ok none := by
    simp only [mkReapPlan, h3]
    simp [Ctx.snaps, ho, hn]
  simp only [reap, w.noPlan, w.scan, hplan]

theorem splitLastFull_spec : ∀ (l : List (Snap D)),
    (∀ o f n, splitLastFull l = some (o, f, n) → l = o ++ f :: n ∧ f.db.isSome ∧ ∀ y ∈ n, y.db = none) ∧
    (splitLastFull l = none → ∀ y ∈ l, y.db = none) := by
  intro l
  induction l with
  | nil => exact ⟨(fun o f n h => by cases h), (fun _ y hy => by cases hy)⟩
  | cons x xs ih =>
    constructor
    · intro o f n h
      simp only [splitLastFull] at h
      cases hs : splitLastFull xs with
      | some t =>
        obtain ⟨o', f', n'⟩ := t
        rw [hs] at h
        simp only [Option.some.injEq, Prod.mk.injEq] at h
        obtain ⟨rfl, rfl, rfl⟩ := h
        obtain ⟨a, b, cc⟩ := ih.1 o' f' n' hs
        exact ⟨by rw [a]; rfl, b, cc⟩
      | none =>
        rw [hs] at h
        simp only at h
        split at h
        · rename_i hx
          simp only [Option.some.injEq, Prod.mk.injEq] at h
          obtain ⟨rfl, rfl, rfl⟩ := h
          exact ⟨rfl, hx, ih.2 hs⟩
        · cases h
    · intro h y hy
      simp only [splitLastFull] at h
      cases hs : splitLastFull xs with
      | some t => obtain ⟨o', f', n'⟩ := t; rw [hs] at h; cases h
      | none =>
        rw [hs] at h
        simp only at h
        split at h
        · cases h
        · rename_i hx
          rcases List.mem_cons.1 hy with rfl | hy
          · cases hd : y.db with
            | none => rfl
            | some v => simp [hd] at hx
          · exact ih.2 hs y hy

theorem walMap_nodup (n : Nat) : ∀ (l : List Nat), l.Nodup → (l.map fun w => (n, w)).Nodup := by
  intro l
  induction l with
  | nil => intro _; simp
  | cons a t ih =>
    intro h
    simp only [List.nodup_cons] at h
    simp only [List.map_cons, List.nodup_cons, List.mem_map, Prod.mk.injEq, true_and, exists_eq_right]
    exact ⟨h.1, ih h.2⟩

/-- WAL paths of snapshots with distinct names and duplicate-free WAL lists are distinct -/
theorem walPaths_nodup : ∀ (l : List (Snap D)), (l.map (·.name)).Nodup → (∀ y ∈ l, y.wals.Nodup) →
    (l.flatMap walPaths).Nodup := by
  intro l
  induction l with
  | nil => intro _ _; simp
  | cons x xs ih =>
    intro hn hw
    simp only [List.map_cons, List.nodup_cons] at hn
    simp only [List.flatMap_cons]
    rw [List.nodup_append]
    refine ⟨?_, ih hn.2 (fun y hy => hw y (List.mem_cons_of_mem _ hy)), ?_⟩
    · unfold walPaths
      exact walMap_nodup _ _ (hw x List.mem_cons_self)
    · intro p hp q hq e
      subst e
      simp only [walPaths, List.mem_map] at hp
      obtain ⟨w, _, rfl⟩ := hp
      simp only [List.mem_flatMap, walPaths, List.mem_map] at hq
      obtain ⟨y, hy, w', _, e⟩ := hq
      simp only [Prod.mk.injEq] at e
      exact hn.1 (List.mem_map.2 ⟨y, hy, e.1⟩)

/-- the directories of the state after a consolidating reap -/
theorem renamed_dir {c : Ctx D} (oth dw) {n : Nat} {d : Dir D} (h : mkDir c oth (.renamed dw) n = some d) :
    (n = c.newName ∧ d = { tmp := false, mt := some c.newMeta, db := some c.dF, crc := some c.dF, dbWal := dw, wals := [] })
    ∨ oth n = some d := by
  by_cases hf : n = c.full.name
  · simp [mkDir, hf] at h
  · simp only [mkDir, hf, if_false] at h
    cases h1 : findSnap c.newers n with
    | some y => simp [h1] at h
    | none =>
      cases h2 : findSnap c.olds n with
      | some y => simp [h1, h2] at h
      | none =>
        simp only [h1, h2] at h
        by_cases hn : n = c.newName
        · simp only [hn, if_true, Option.some.injEq] at h
          exact Or.inl ⟨hn, h.symm⟩
        · simp only [hn, if_false] at h
          exact Or.inr h

/-- the directories of the state after a remove-only reap -/
theorem removed_dir {c : Ctx D} (oth crc m dw) {n : Nat} {d : Dir D}
    (h : mkDir c oth (.post crc c.R.length none m dw) n = some d) :
    (n = c.full.name ∧ d = { tmp := false, mt := m, db := some c.dF, crc := crc, dbWal := dw, wals := [] })
    ∨ oth n = some d := by
  by_cases hf : n = c.full.name
  · simp only [mkDir, hf, if_true, Option.some.injEq] at h
    exact Or.inl ⟨hf, h.symm⟩
  · simp only [mkDir, hf, if_false] at h
    have key : ∀ base : Dir D, n ∈ c.R → rmView c c.R.length none n base = none := by
      intro base hn
      have h1 : c.R.idxOf n < c.R.length := List.idxOf_lt_length_iff.2 hn
      simp [rmView, h1]
    cases h1 : findSnap c.newers n with
    | some y =>
      rw [h1] at h
      simp only at h
      rw [key _ ((mem_R_iff c n).2 (Or.inl ⟨y, (findSnap_mem h1).1, (findSnap_mem h1).2⟩))] at h
      cases h
    | none =>
      cases h2 : findSnap c.olds n with
      | some y =>
        rw [h1, h2] at h
        simp only at h
        rw [key _ ((mem_R_iff c n).2 (Or.inr ⟨y, (findSnap_mem h2).1, (findSnap_mem h2).2⟩))] at h
        cases h
      | none =>
        simp only [h1, h2] at h
        by_cases hn : n = c.newName
        · simp [hn] at h
        · simp only [hn, if_false] at h
          exact Or.inr h



/-! ### the verification steps read only -/

theorem reapCrash_beforePlan_false (A : DbAlg D) {s : FS D} (h : s.planTmp = false) (nn : Nat) (v : Bool) :
    reapCrash A s nn v (.beforePlan false) = s := by
  have hs : ({ s with planTmp := false } : FS D) = s := by cases s; simp only at h; subst h; rfl
  unfold reapCrash
  cases scan s with
  | error e => rfl
  | ok snaps =>
    simp only
    cases mkReapPlan snaps nn v with
    | error e => rfl
    | ok o =>
      cases o with
      | none => rfl
      | some p => exact hs

/-- a reap with its verification steps, interrupted anywhere, leaves what a reap without them
leaves at some interruption point (a failed verification = "stopped before the plan") -/
theorem reapCrashChecked_eq (A : DbAlg D) {s : FS D} (h : s.planTmp = false) (nn : Nat) (v vok iok : Bool) (cut : ReapCut) :
    ∃ cut', reapCrashChecked A s nn v vok iok cut = reapCrash A s nn v cut' := by
  unfold reapCrashChecked
  cases reapGate s vok iok with
  | error e => exact ⟨.beforePlan false, (reapCrash_beforePlan_false A h nn v).symm⟩
  | ok u => exact ⟨cut, rfl⟩

theorem reapChecked_ok (A : DbAlg D) {s t : FS D} {nn : Nat} {v vok iok : Bool}
    (h : reapChecked A s nn v vok iok = .ok t) : reap A s nn v = .ok t := by
  unfold reapChecked at h
  cases hg : reapGate s vok iok with
  | error e => rw [hg] at h; cases h
  | ok u => rw [hg] at h; exact h

/-! ### the resume path's database check never raises a false alarm -/

theorem mem_plan_checkpoint (c : Ctx D) {n : Nat} {W : List (Nat × Nat)} (h : Op.checkpoint n W ∈ c.plan) :
    n = c.full.name ∧ W = c.W := by
  simp [Ctx.plan] at h
  exact h

/-- in every state an interrupted reap or an interrupted recovery can leave, the resume path's
database check never raises a false alarm: it is made only while no WAL has been consumed, when
the file is still the one its sidecar was written for -/
theorem dbCheck_reach {c : Ctx D} (g : Good c) (hcrc : ∀ y, c.full.crc = some y → y = c.d0) {p0 : Prog D} {s : FS D}
    (h : Reach c p0 s) : ∀ p, s.plan = some p → ∀ n W, Op.checkpoint n W ∈ p → DbCheckPasses dbUntouched s n W := by
  intro p hp n W hmem
  cases h with
  | noplan oth pt q ht hq => cases hp
  | fam oth pt q ht hq =>
    have : p = c.plan := by
      have : some c.plan = some p := hp
      cases this; rfl
    subst this
    obtain ⟨rfl, rfl⟩ := mem_plan_checkpoint c hmem
    intro hu d hd x y hx hy
    simp only [dbUntouched, Bool.and_eq_true, Bool.not_eq_true', List.all_eq_true] at hu
    obtain ⟨⟨hne, hall⟩, hdw⟩ := hu
    cases q with
    | ckpt cons x' dw =>
      have hcons : cons = [] := by
        cases cons with
        | nil => rfl
        | cons a t =>
          exfalso
          obtain ⟨rest, hW⟩ := hq.1
          have ha : a ∈ c.W := by rw [hW]; simp
          have := hall a ha
          rw [walExists_ckpt g oth _ _ _ _ _ ha] at this
          simp at this
      subst hcons
      have hdir : (mk c oth (.ckpt [] x' dw) (some c.plan) pt).dir c.full.name
          = some { tmp := false, mt := some c.full.mt, db := some x', crc := c.full.crc, dbWal := dw,
                   wals := c.full.wals.filter (fun w => !([] : List (Nat × Nat)).contains (c.full.name, w)) } := by
        simp [mk, mkDir]
      rw [hdir] at hd hdw
      simp only [Option.some.injEq] at hd
      subst hd
      simp only at hx hy hdw
      have hdwn : dw = none := by
        cases dw with
        | none => rfl
        | some w => simp at hdw
      subst hdwn
      have hx' : x' = c.fold [] := hq.2
      simp only [Option.some.injEq] at hx
      rw [← hx, hx', hcrc y hy]
      rfl
    | post crc k sel m dw =>
      exfalso
      cases hW : c.W with
      | nil => simp [hW] at hne
      | cons a t =>
        have ha : a ∈ c.W := by rw [hW]; simp
        have := hall a ha
        rw [walExists_post g oth _ _ _ _ _ _ _ ha] at this
        cases this
    | renamed dw =>
      have : (mk c oth (.renamed dw) (some c.plan) pt).dir c.full.name = none := by simp [mk, mkDir]
      rw [this] at hd
      cases hd


end RqModel.SnapFS

import RqModel.Model.Upgrade
namespace C08
theorem wip : True := trivial
end C08

package system

// C25, large transactions end to end: a real node (real Store, raft, SQLite with the CDC hooks,
// cluster service/client, HTTP API) with the real cdc.Service wired as cmd/rqlited does, and a
// recording HTTP endpoint.
//
// A transaction that touches tens of thousands of rows is ONE event group, hence one FIFO
// item of many MiB of JSON (stored flate-compressed). The property makes no exception for
// size: every change must reach the endpoint. History: [big transaction, small write]
// repeated, with a snapshot in between, on a node that leads and whose endpoint works.
//
// Oracle (independent of the model): every row written is reported to the endpoint at least
// once; all rows of one transaction carry the same index; indexes of later writes are higher.

import (
	"encoding/json"
	"fmt"
	"io"
	"net/http"
	"net/http/httptest"
	"strings"
	"sync"
	"testing"
	"time"

	"github.com/rqlite/rqlite/v10/cdc"
)

type c25SysEndpoint struct {
	mu    sync.Mutex
	srv   *httptest.Server
	seen  map[string]map[int64]uint64 // op -> rowid -> index it was labelled with (first time)
	posts int
	bytes int64
	maxB  int
}

func c25NewSysEndpoint() *c25SysEndpoint {
	e := &c25SysEndpoint{seen: map[string]map[int64]uint64{}}
	e.srv = httptest.NewServer(http.HandlerFunc(func(w http.ResponseWriter, r *http.Request) {
		b, _ := io.ReadAll(r.Body)
		r.Body.Close()
		var env struct {
			Payload []struct {
				Index  uint64 `json:"index"`
				Events []struct {
					Op       string `json:"op"`
					Table    string `json:"table"`
					NewRowID int64  `json:"new_row_id"`
					OldRowID int64  `json:"old_row_id"`
				} `json:"events"`
			} `json:"payload"`
		}
		if err := json.Unmarshal(b, &env); err != nil {
			w.WriteHeader(http.StatusBadRequest)
			return
		}
		e.mu.Lock()
		defer e.mu.Unlock()
		e.posts++
		e.bytes += int64(len(b))
		if len(b) > e.maxB {
			e.maxB = len(b)
		}
		for _, m := range env.Payload {
			for _, ev := range m.Events {
				if ev.Table != "t" {
					continue
				}
				id := ev.NewRowID
				if ev.Op == "DELETE" {
					id = ev.OldRowID
				}
				if e.seen[ev.Op] == nil {
					e.seen[ev.Op] = map[int64]uint64{}
				}
				if _, ok := e.seen[ev.Op][id]; !ok {
					e.seen[ev.Op][id] = m.Index
				}
			}
		}
		w.WriteHeader(http.StatusOK)
	}))
	return e
}

func (e *c25SysEndpoint) count(op string, lo, hi int64) (n int, idx map[uint64]int) {
	e.mu.Lock()
	defer e.mu.Unlock()
	idx = map[uint64]int{}
	for id := lo; id <= hi; id++ {
		if k, ok := e.seen[op][id]; ok {
			n++
			idx[k]++
		}
	}
	return n, idx
}

// c25SysExec runs one statement through the node's HTTP API. Transient failures of a busy
// machine (no leader for a moment, enqueue timeout) are retried for up to 90 s; every statement
// of this workload inserts explicit primary keys, so a repeated attempt that fails with a
// constraint error means the first attempt was applied.
func c25SysExec(node *Node, stmt string) error {
	deadline := time.Now().Add(90 * time.Second)
	ambiguous := false
	for {
		res, err := node.Execute(stmt)
		msg := ""
		if err != nil {
			msg = err.Error()
		} else if strings.Contains(res, `"error"`) {
			msg = res
		}
		if msg == "" {
			return nil
		}
		if ambiguous && (strings.Contains(msg, "UNIQUE constraint failed") || strings.Contains(msg, "already exists")) {
			return nil
		}
		m := strings.ToLower(msg)
		transient := false
		for _, p := range []string{"not leader", "leadership lost", "leadership transfer", "timeout waiting for leader",
			"timed out enqueuing", "no leader", "leader not known", "connection refused", "connection reset", "eof"} {
			if strings.Contains(m, p) {
				transient = true
			}
		}
		if !transient || time.Now().After(deadline) {
			return fmt.Errorf("%s", msg)
		}
		ambiguous = true
		time.Sleep(200 * time.Millisecond)
	}
}

func TestVerifC25System(t *testing.T) {
	rep := vfNewReport("C25", "large transactions through a real node (Store, raft, SQLite CDC hooks, cluster service/client, HTTP API) and the real cdc.Service with a recording endpoint: one transaction touching 30 000+ wide rows = one event group = one FIFO item of more than 10 MiB of JSON, followed by a small write, repeated with a snapshot in between; every row must be reported at least once. A round is non-trivial when its big POST exceeds 8 MiB; distinct by sizes")
	defer rep.Write()

	node := mustNewLeaderNode("c25big")
	defer node.Deprovision()
	ep := c25NewSysEndpoint()
	defer ep.srv.Close()

	cfg := cdc.DefaultConfig()
	cfg.Endpoint = ep.srv.URL
	cfg.MaxBatchSz = 4
	cfg.MaxBatchDelay = 20 * time.Millisecond
	cfg.HighWatermarkInterval = 100 * time.Millisecond
	cfg.TransmitMinBackoff = 20 * time.Millisecond
	cfg.TransmitMaxBackoff = 50 * time.Millisecond
	cfg.TransmitTimeout = 60 * time.Second
	cl := cdc.NewCDCCluster(node.Store, node.Cluster, node.Client)
	svc, err := cdc.NewService(node.ID, node.Dir, cl, cfg)
	if err != nil {
		t.Fatalf("cdc.NewService: %v", err)
	}
	node.CDC = svc
	if err := svc.Start(); err != nil {
		t.Fatalf("cdc start: %v", err)
	}
	svc.SetLeader(true)
	if err := node.Store.EnableCDC(svc.C(), nil, false); err != nil {
		t.Fatalf("EnableCDC: %v", err)
	}
	if err := c25SysExec(node, `CREATE TABLE t (id INTEGER NOT NULL PRIMARY KEY, v TEXT)`); err != nil {
		t.Fatalf("create: %v", err)
	}

	rounds := vfScale(1, 4)
	r := vfNewRng(2525)
	next := int64(1)
	var lastIdx uint64
	var trace []string
	wait := func(op string, lo, hi int64, d time.Duration) (int, map[uint64]int) {
		deadline := time.Now().Add(d)
		for {
			n, idx := ep.count(op, lo, hi)
			if int64(n) == hi-lo+1 || time.Now().After(deadline) {
				return n, idx
			}
			time.Sleep(50 * time.Millisecond)
		}
	}
	for round := 0; round < rounds; round++ {
		rows := int64(30000 + r.Intn(vfScale(2000, 30000)))
		width := 380 + r.Intn(200)
		lo, hi := next, next+rows-1
		next = hi + 1
		small := next
		next++
		kind := "INSERT"
		stmt := fmt.Sprintf(`WITH RECURSIVE c(x) AS (SELECT %d UNION ALL SELECT x+1 FROM c WHERE x<%d) INSERT INTO t(id,v) SELECT x, printf('%%0%dd', x) FROM c`, lo, hi, width)
		trace = append(trace, fmt.Sprintf("tx: insert rows %d..%d, %d bytes of text each", lo, hi, width))
		if err := c25SysExec(node, stmt); err != nil {
			t.Fatalf("big insert: %v", err)
		}
		if round%2 == 0 {
			// let the batcher's delay timer fire: the small write travels in a batch of its own
			time.Sleep(5 * cfg.MaxBatchDelay)
			trace = append(trace, "pause > MaxBatchDelay")
		}
		if err := c25SysExec(node, fmt.Sprintf(`INSERT INTO t(id,v) VALUES(%d,'small')`, small)); err != nil {
			t.Fatalf("small insert: %v", err)
		}
		trace = append(trace, fmt.Sprintf("write: insert row %d", small))
		rep.Count("big-transactions")
		rep.CountN("rows-written", int(rows)+1)

		// the small write behind the big one is delivered promptly on a healthy node; once it
		// has been, the HWM has passed the big transaction: whatever of it has not arrived by
		// now never will (the wait below is generous for the big POST itself)
		nS, idxS := wait(kind, small, small, 120*time.Second)
		nB, idxB := wait(kind, lo, hi, 30*time.Second)
		replay := map[string]interface{}{"trace": append([]string(nil), trace...), "batch_size": cfg.MaxBatchSz}
		if nS != 1 {
			rep.Fail("lost:small-write-after-large-transaction:real-node", fmt.Sprintf("row %d (written after a %d-row transaction) never reached the endpoint", small, rows), replay)
		}
		if int64(nB) != rows {
			rep.Fail("lost:large-transaction:real-node",
				fmt.Sprintf("%d of the %d rows of one transaction (ids %d..%d, about %d MiB of JSON in one event group) never reached the endpoint on a leading node with a working endpoint; the write made after it: delivered=%v; HWM=%d", rows-int64(nB), rows, lo, hi, rows*int64(width+90)>>20, nS == 1, svc.HighWatermark()), replay)
		} else {
			if len(idxB) != 1 {
				rep.Fail("mislabelled:large-transaction:real-node", fmt.Sprintf("rows of ONE transaction carry %d different indexes: %v", len(idxB), idxB), replay)
			}
			for k := range idxB {
				if k <= lastIdx {
					rep.Fail("mislabelled:index-not-increasing:real-node", fmt.Sprintf("transaction labelled %d after a write labelled %d", k, lastIdx), replay)
				}
				for ks := range idxS {
					if ks <= k {
						rep.Fail("mislabelled:index-not-increasing:real-node", fmt.Sprintf("small write labelled %d, the transaction before it %d", ks, k), replay)
					}
					lastIdx = ks
				}
			}
		}
		ep.mu.Lock()
		big := ep.maxB
		ep.mu.Unlock()
		rep.Case(fmt.Sprintf("rows=%d width=%d", rows, width), big > 8<<20)
		rep.Note("round %d: %d rows, largest POST so far %d bytes, HWM %d", round, rows, big, svc.HighWatermark())

		if round+1 < rounds {
			if round%2 == 0 {
				if err := node.Store.Snapshot(0); err != nil {
					rep.Note("snapshot: %v", err)
				} else {
					trace = append(trace, "snapshot")
					rep.Count("snapshots")
				}
			}
			// an UPDATE of a slice of the big rows: before and after images
			ulo, uhi := lo, lo+rows/2
			if err := c25SysExec(node, fmt.Sprintf(`UPDATE t SET v = v || 'u' WHERE id BETWEEN %d AND %d`, ulo, uhi)); err != nil {
				t.Fatalf("update: %v", err)
			}
			trace = append(trace, fmt.Sprintf("tx: update rows %d..%d", ulo, uhi))
			m := next
			next++
			if err := c25SysExec(node, fmt.Sprintf(`INSERT INTO t(id,v) VALUES(%d,'marker')`, m)); err != nil {
				t.Fatalf("marker: %v", err)
			}
			wait("INSERT", m, m, 120*time.Second)
			nU, _ := wait("UPDATE", ulo, uhi, 30*time.Second)
			rep.Count("big-updates")
			if int64(nU) != uhi-ulo+1 {
				rep.Fail("lost:large-transaction:real-node", fmt.Sprintf("%d of %d updated rows (one UPDATE statement, ids %d..%d) never reached the endpoint although a later write did", uhi-ulo+1-int64(nU), uhi-ulo+1, ulo, uhi),
					map[string]interface{}{"trace": append([]string(nil), trace...)})
			}
			ep.mu.Lock()
			delete(ep.seen, "UPDATE") // the next round updates overlapping ids
			ep.mu.Unlock()
		}
	}
	ep.mu.Lock()
	rep.CountN("posts", ep.posts)
	rep.CountN("MiB-posted", int(ep.bytes>>20))
	ep.mu.Unlock()
}

/-
Model of how cluster/client.go pairs responses with requests on pooled
connections (C20: "the leader's results … are returned unchanged" — to the request
they belong to).

`Client.retry` takes a connection from the per-leader pool (a FIFO channel; a new
connection when the pool is empty), writes the command, reads ONE response frame.
On any error the connection is marked unusable (`handleConnError`) and therefore
closed instead of being returned to the pool; with `retries = 0` one more attempt is
made on a forced-new connection. A connection that is not marked unusable goes back
to the pool on Close.

A connection is modelled by the list of response frames that are, or will be,
readable on it before anything the next request causes (the leader answers every
command it received, in order, also after the client gave up waiting). A request is
`slow` when the leader answers it only after the client's timeout. Time is
abstracted: between two requests every outstanding answer has arrived.

`keepOnTimeout = false` is the code; `true` is the variant in which a timed-out
connection is returned to the pool (kept for the witness theorem). The state also logs,
leader side, every command that was written to a connection: the leader executes each.
Only timeouts are modelled as failures; a pooled connection that is already dead (the
reason the forced-new attempt exists) never reaches the leader and is not modelled.
Core Lean only.
-/
import RqModel.Model.Util
namespace RqModel.ClientPool
open RqModel.Util

structure Op where
  tag  : Nat          -- identifies the request (and the response that answers it)
  slow : Bool         -- the leader answers after the client's timeout
  broadcast : Bool := false   -- BroadcastHWM with retries = 0: a single attempt, no forced-new connection
  retries : Nat := 0  -- the caller's `retries` argument
  reset : Bool := false  -- the connection breaks (EOF / reset) after the leader received the command and
                         -- before any answer: an error that is NOT a deadline error
deriving DecidableEq, Repr

/-- the attempt ends in an error instead of an answer -/
def fails (op : Op) : Bool := op.slow || op.reset

inductive Res where
  | ok (tag : Nat)    -- a response frame was read: the one answering request `tag`
  | timeout
deriving DecidableEq, Repr

structure PState where
  pool : List (List Nat) := []     -- pooled connections (FIFO), each with its pending responses
  executed : List Nat := []        -- leader side: the commands it received and executed, in order
deriving DecidableEq, Repr

/-- one write-command / read-response exchange on a connection; returns the result
and the connection as it goes back to the pool (`none`: closed) -/
def attempt (keepOnTimeout : Bool) (conn : List Nat) (op : Op) : Res × Option (List Nat) :=
  match conn with
  | stale :: rest => (.ok stale, some (rest ++ [op.tag]))   -- an earlier answer is read; ours stays queued
  | [] =>
    if fails op then (.timeout, if keepOnTimeout && !op.reset then some [op.tag] else none)
    else (.ok op.tag, some [])

def putBack (pool : List (List Nat)) : Option (List Nat) → List (List Nat)
  | some c => pool ++ [c]
  | none => pool

/-- The attempts `Client.retry` is prepared to make, `true` = on a forced-new
connection, `false` = on a connection from the pool (new when the pool is empty).
`effectiveRetries := max(1, maxRetries)` pooled attempts, then one forced-new attempt.
`resendAfterTimeout = false` is the code: with `retries = 0` a request whose answer
did not arrive in time is NOT sent again (the leader may be executing it);
`true` is the behaviour before the `fix:` commit (kept for the witness). After an error
that is not a deadline error (`reset`) the forced-new attempt is still made. -/
def plan (resendAfterTimeout : Bool) (op : Op) : List Bool :=
  if op.broadcast then [false]
  else if op.retries = 0 then (if resendAfterTimeout || op.reset then [false, true] else [false])
  else List.replicate op.retries false ++ [true]

/-- the connection an attempt uses, and what remains in the pool -/
def takeConn (fresh : Bool) (pool : List (List Nat)) : List Nat × List (List Nat) :=
  if fresh then ([], pool) else
  match pool with
  | c :: r => (c, r)
  | [] => ([], [])

/-- every attempt writes the command, so the leader executes it — also when the
client then reads somebody else's answer or gives up waiting -/
def runAttempts (keepOnTimeout : Bool) (op : Op) : List Bool → PState → Res × PState
  | [], st => (.timeout, st)
  | fresh :: more, st =>
    let cr := takeConn fresh st.pool
    let a := attempt keepOnTimeout cr.1 op
    let st' : PState := { pool := putBack cr.2 a.2, executed := st.executed ++ [op.tag] }
    match a.1 with
    | .ok t => (.ok t, st')
    | .timeout => if more.isEmpty then (.timeout, st') else runAttempts keepOnTimeout op more st'

def doOp (keepOnTimeout resendAfterTimeout : Bool) (st : PState) (op : Op) : Res × PState :=
  runAttempts keepOnTimeout op (plan resendAfterTimeout op) st

def runOps (keepOnTimeout resendAfterTimeout : Bool) : PState → List Op → List Res × PState
  | st, [] => ([], st)
  | st, op :: ops =>
    let r := doOp keepOnTimeout resendAfterTimeout st op
    let rest := runOps keepOnTimeout resendAfterTimeout r.2 ops
    (r.1 :: rest.1, rest.2)

/-! ## concurrent requests through one client

Several goroutines forward through the same `Client`. A request takes a connection
out of the pool (`begin`: the command is written, the leader will execute it) and
holds it exclusively until it has read its answer or given up (`finish`); other
requests begin and finish in between, in any order. One attempt per request
(`retries = 0`, the code after the `fix:` commit). -/

inductive CEv where
  | begin (op : Op)
  | finish (tag : Nat)
deriving DecidableEq, Repr

structure CState where
  pool     : List (List Nat) := []
  inflight : List (Op × List Nat) := []      -- request, the connection it holds
  executed : List Nat := []
  results  : List (Nat × Res) := []          -- (request tag, what its caller got)
deriving DecidableEq, Repr

def cstep (keepOnTimeout : Bool) (st : CState) : CEv → CState
  | .begin op =>
    let cr := takeConn false st.pool
    { st with pool := cr.2, inflight := st.inflight ++ [(op, cr.1)], executed := st.executed ++ [op.tag] }
  | .finish tag =>
    match st.inflight.find? (fun x => x.1.tag == tag) with
    | none => st
    | some (op, c) =>
      let a := attempt keepOnTimeout c op
      { st with pool := putBack st.pool a.2,
                inflight := st.inflight.filter (fun x => !(x.1.tag == tag)),
                results := st.results ++ [(tag, a.1)] }

def crun (keepOnTimeout : Bool) (st : CState) (evs : List CEv) : CState :=
  evs.foldl (cstep keepOnTimeout) st

/-! ## line protocol
`reset` → `ok`;  `op <tag> <slow 0|1> <retries>` / `hwm <tag> <slow 0|1> 0` → `ok:<tag>` | `timeout`   (the code's policy)
`executed` → the leader-side database execution log `t,t,…` of the non-broadcast requests (`-` when empty)
-/
structure DState where
  st : PState := {}
  bcast : List Nat := []     -- tags of broadcasts (they reach the CDC channel, not the database)

def step (d : DState) (line : String) : DState × String :=
  match words line with
  | ["reset"] => ({}, "ok")
  | ["executed"] =>
    let ex := d.st.executed.filter (fun t => !d.bcast.contains t)
    (d, if ex.isEmpty then "-" else joinWith "," (ex.map toString))
  | [k, t, s, rt] =>
    match t.toNat?, rt.toNat? with
    | some t, some rt =>
      if (k != "op" && k != "hwm") || (s != "0" && s != "1") then (d, "bad-op") else
      let r := doOp false false d.st { tag := t, slow := s == "1", broadcast := k == "hwm", retries := rt }
      ({ st := r.2, bcast := if k == "hwm" then t :: d.bcast else d.bcast },
        match r.1 with | .ok x => s!"ok:{x}" | .timeout => "timeout")
    | _, _ => (d, "bad-op")
  | _ => (d, "bad-op")

def init : DState := {}

end RqModel.ClientPool
--! driver: clientpool RqModel.ClientPool

/-
C27  CDC events describe exactly the rows changed.

Property theorems only. Model: RqModel/Model/Cdc.lean (convertFn of RegisterPreUpdateHook, the
CDCStreamer, the statement loop of a write request over SQLite's hook semantics), tied to
db/db.go and db/cdc.go by the C27 correspondence run against real SQLite with a shadow database.

Recorded defect (known_findings.d/C27.json): events of a statement that fails after touching rows
are delivered with the next commit of the same request. The full statement is kept visible,
refuted by a witness and proved under the explicit exclusion.
-/
import RqModel.Model.Cdc
namespace C27
open RqModel.Cdc

/-- the row changes of a request that end up committed, in order (the specification) -/
def committedChanges (tx : Bool) (stmts : List Stmt) : List Change :=
  if tx then (if stmts.all (·.ok) then stmts.flatMap (·.touched) else [])
  else (stmts.filter (·.ok)).flatMap (·.touched)

def delivered (st : St) : List Event := st.groups.flatten

/-- statements as SQLite produces them: one that opens no write transaction touches no row -/
def WellFormed (stmts : List Stmt) : Prop := ∀ s ∈ stmts, s.writes = false → s.touched = []

/-- THE FULL STATEMENT (false of the code as it is): the events delivered for a write request
describe exactly the committed row changes (of the tables the filter matches), in order. -/
def events_equal_committed_changes_full : Prop :=
  ∀ (c : Cfg) (tx : Bool) (stmts : List Stmt), WellFormed stmts →
    delivered (request c tx stmts) = (committedChanges tx stmts).filterMap (convert c)

/-- the recorded failing inputs: outside a transaction, a statement that fails after touching rows -/
def failsAfterRows (stmts : List Stmt) : Bool := stmts.any fun s => !s.ok && !s.touched.isEmpty

theorem preupdate_eq (c : Cfg) (p : List Event) (g : List (List Event)) (ch : Change) :
    preupdate c ⟨p, g⟩ ch = ⟨p ++ [ch].filterMap (convert c), g⟩ := by
  unfold preupdate
  cases h : convert c ch <;> simp [List.filterMap_cons, h]

theorem preupdates_eq (c : Cfg) (p : List Event) (g : List (List Event)) (chs : List Change) :
    preupdates c ⟨p, g⟩ chs = ⟨p ++ chs.filterMap (convert c), g⟩ := by
  induction chs generalizing p with
  | nil => simp [preupdates]
  | cons ch rest ih =>
    have : preupdates c ⟨p, g⟩ (ch :: rest) = preupdates c (preupdate c ⟨p, g⟩ ch) rest := by
      simp [preupdates]
    rw [this, preupdate_eq, ih]
    cases h : convert c ch <;> simp [List.filterMap_cons, h]

theorem commit_flatten (p : List Event) (g : List (List Event)) :
    (commit ⟨p, g⟩).pending = [] ∧ (commit ⟨p, g⟩).groups.flatten = g.flatten ++ p := by
  unfold commit
  cases p with
  | nil => simp
  | cons e es => simp

theorem runAuto_clean (c : Cfg) (g : List (List Event)) (stmts : List Stmt)
    (hw : WellFormed stmts) (hf : failsAfterRows stmts = false) :
    (runAuto c ⟨[], g⟩ stmts).pending = [] ∧
    (runAuto c ⟨[], g⟩ stmts).groups.flatten =
      g.flatten ++ ((stmts.filter (·.ok)).flatMap (·.touched)).filterMap (convert c) := by
  induction stmts generalizing g with
  | nil => simp [runAuto]
  | cons s rest ih =>
    have hw' : WellFormed rest := fun x hx => hw x (by simp [hx])
    simp only [failsAfterRows, List.any_cons, Bool.or_eq_false_iff] at hf
    have hf' : failsAfterRows rest = false := hf.2
    unfold runAuto
    simp only [preupdates_eq, List.nil_append]
    cases hok : s.ok
    · -- failed: it touched nothing
      have ht : s.touched = [] := by
        have := hf.1
        simp only [hok, Bool.not_false, Bool.true_and, Bool.not_eq_false', List.isEmpty_iff] at this
        exact this
      simp only [Bool.false_eq_true, if_false, ht, List.filterMap_nil]
      have := ih g hw' hf'
      simp [List.filter_cons, hok, this]
    · simp only [if_true]
      cases hwr : s.writes
      · have ht : s.touched = [] := hw s (by simp) hwr
        simp only [Bool.false_eq_true, if_false, ht, List.filterMap_nil]
        have := ih g hw' hf'
        simp [List.filter_cons, hok, ht, this]
      · simp only [if_true]
        obtain ⟨hp, hg⟩ := commit_flatten (s.touched.filterMap (convert c)) g
        have hc : commit ⟨s.touched.filterMap (convert c), g⟩ = ⟨[], (commit ⟨s.touched.filterMap (convert c), g⟩).groups⟩ := by
          cases hcm : commit ⟨s.touched.filterMap (convert c), g⟩ with
          | mk p gg => rw [hcm] at hp; simp at hp; simp [hp]
        rw [hc]
        have := ih (commit ⟨s.touched.filterMap (convert c), g⟩).groups hw' hf'
        rw [this.1, this.2, hg]
        simp [List.filter_cons, hok, List.flatMap_cons, List.filterMap_append, List.append_assoc]

theorem runTx_eq (c : Cfg) (p : List Event) (g : List (List Event)) (stmts : List Stmt) :
    (runTx c ⟨p, g⟩ stmts).2 = stmts.all (·.ok) ∧ (runTx c ⟨p, g⟩ stmts).1.groups = g ∧
    ((runTx c ⟨p, g⟩ stmts).2 = true →
      (runTx c ⟨p, g⟩ stmts).1.pending = p ++ (stmts.flatMap (·.touched)).filterMap (convert c)) := by
  induction stmts generalizing p with
  | nil => simp [runTx]
  | cons s rest ih =>
    unfold runTx
    simp only [preupdates_eq]
    cases hok : s.ok
    · simp [hok]
    · simp only [if_true]
      obtain ⟨h1, h2, h3⟩ := ih (p ++ s.touched.filterMap (convert c))
      refine ⟨by simp [h1, hok], h2, fun hh => ?_⟩
      rw [h3 hh]
      simp [List.flatMap_cons, List.filterMap_append, List.append_assoc]

/-- Under the exclusion - in a transaction request unconditionally, otherwise when no statement
fails after touching rows - the delivered events are exactly the committed row changes of the
matching tables, in order: operation, table, row ids and values are those of the change
(`convert` is the transcription of convertFn: see `convert_describes_change`). For every configuration and every statement list. -/
theorem events_equal_committed_changes_partial (c : Cfg) (tx : Bool) (stmts : List Stmt)
    (hw : WellFormed stmts) (hx : tx = true ∨ failsAfterRows stmts = false) :
    delivered (request c tx stmts) = (committedChanges tx stmts).filterMap (convert c) := by
  unfold request delivered committedChanges
  cases tx
  · simp only [Bool.false_eq_true, if_false]
    have hf : failsAfterRows stmts = false := by rcases hx with h | h; cases h; exact h
    have := (runAuto_clean c [] stmts hw hf).2
    simpa using this
  · simp only [if_true]
    obtain ⟨h1, h2, h3⟩ := runTx_eq c [] [] stmts
    cases hall : stmts.all (·.ok)
    · have : (runTx c {} stmts).2 = false := by rw [h1, hall]
      simp only [this, Bool.false_and, Bool.false_eq_true, if_false]
      rw [h2]; simp
    · have hok : (runTx c {} stmts).2 = true := by rw [h1, hall]
      simp only [hok, Bool.true_and, if_true]
      have hp := h3 hok
      simp only [List.nil_append] at hp
      cases hany : stmts.any (fun s => s.writes)
      · -- no statement writes: nothing was touched, nothing is delivered
        have hnil : stmts.flatMap (·.touched) = [] := by
          simp only [List.flatMap_eq_nil_iff]
          intro s hs
          have : s.writes = false := by
            have := List.any_eq_false.mp hany s hs
            simpa using this
          exact hw s hs this
        simp [h2, hnil]
      · simp only [if_true]
        cases hst : runTx c {} stmts with
        | mk st ok =>
          rw [hst] at h2 hp
          simp only at h2 hp
          obtain ⟨_, hg⟩ := commit_flatten st.pending st.groups
          have : st = ⟨st.pending, st.groups⟩ := rfl
          rw [this, hg, h2, hp]
          simp

/-- witness: the failed first statement's row 3 is delivered with the second statement's commit -/
def ins (t : String) (id : Nat) (rowid : Int) (row : Row) : Change :=
  { table := t, id := id, op := .insert, newRowID := rowid, new := row }

def insEv (t : String) (id : Nat) (rowid : Int) (row : Option Row) : Event :=
  { table := t, id := id, op := .insert, newRowId := rowid, newRow := row }

theorem events_phantom_witness :
    delivered (request ⟨false, none⟩ false
        [⟨[ins "t" 3 503 [.int 1]], false, true⟩, ⟨[ins "t" 4 7 [.text "a"]], true, true⟩]) =
      [insEv "t" 3 503 (some [.int 1]), insEv "t" 4 7 (some [.text "a"])] ∧
    (committedChanges false
        [⟨[ins "t" 3 503 [.int 1]], false, true⟩, ⟨[ins "t" 4 7 [.text "a"]], true, true⟩]).filterMap
        (convert ⟨false, none⟩) =
      [insEv "t" 4 7 (some [.text "a"])] := by decide

theorem events_equal_committed_changes_full_is_false : ¬ events_equal_committed_changes_full := by
  intro h
  have := h ⟨false, none⟩ false
    [⟨[ins "t" 3 503 [.int 1]], false, true⟩, ⟨[ins "t" 4 7 [.text "a"]], true, true⟩]
    (by intro s hs hwr; simp at hs; rcases hs with h | h <;> subst h <;> simp at hwr)
  rw [events_phantom_witness.1, events_phantom_witness.2] at this
  revert this
  decide

example : delivered (request ⟨false, some ["t1"]⟩ true
    [⟨[ins "t1" 1 1 [.null], ins "t2" 2 1 []], true, true⟩, ⟨[], true, false⟩, ⟨[ins "t1" 3 2 [.blob [0, 255]]], true, true⟩]) =
    [insEv "t1" 1 1 (some [.null]), insEv "t1" 3 2 (some [.blob [0, 255]])] := by decide

/-! ### row-ids-only and the table filter: unconditional -/

/-- every event anywhere in the streamer state comes from `convert` of some change -/
def FromConvert (c : Cfg) (st : St) : Prop :=
  ∀ ev, (ev ∈ st.pending ∨ ev ∈ st.groups.flatten) → ∃ ch, convert c ch = some ev

theorem preupdates_inv (c : Cfg) (st : St) (chs : List Change) (h : FromConvert c st) :
    FromConvert c (preupdates c st chs) := by
  obtain ⟨p, g⟩ := st
  rw [preupdates_eq]
  intro ev hev
  simp only [List.mem_append, List.mem_filterMap] at hev
  rcases hev with (h1 | ⟨ch, _, hc⟩) | h2
  · exact h ev (Or.inl h1)
  · exact ⟨ch, hc⟩
  · exact h ev (Or.inr h2)

theorem commit_inv (c : Cfg) (st : St) (h : FromConvert c st) : FromConvert c (commit st) := by
  obtain ⟨p, g⟩ := st
  obtain ⟨hp, hg⟩ := commit_flatten p g
  intro ev hev
  rw [hp, hg] at hev
  simp only [List.not_mem_nil, false_or, List.mem_append] at hev
  rcases hev with h1 | h1
  · exact h ev (Or.inr h1)
  · exact h ev (Or.inl h1)

theorem runAuto_inv (c : Cfg) (st : St) (stmts : List Stmt) (h : FromConvert c st) :
    FromConvert c (runAuto c st stmts) := by
  induction stmts generalizing st with
  | nil => simpa [runAuto] using h
  | cons s rest ih =>
    unfold runAuto
    simp only
    have h1 := preupdates_inv c st s.touched h
    split
    · split
      · exact ih _ (commit_inv c _ h1)
      · exact ih _ h1
    · exact ih _ h1

theorem runTx_inv (c : Cfg) (st : St) (stmts : List Stmt) (h : FromConvert c st) :
    FromConvert c (runTx c st stmts).1 := by
  induction stmts generalizing st with
  | nil => simpa [runTx] using h
  | cons s rest ih =>
    unfold runTx
    simp only
    have h1 := preupdates_inv c st s.touched h
    split
    · exact ih _ h1
    · exact h1

theorem request_inv (c : Cfg) (tx : Bool) (stmts : List Stmt) : FromConvert c (request c tx stmts) := by
  have h0 : FromConvert c {} := by intro ev hev; simp at hev
  unfold request
  cases tx
  · simpa using runAuto_inv c {} stmts h0
  · simp only [if_true]
    have := runTx_inv c {} stmts h0
    split
    · exact commit_inv c _ this
    · exact this

/-- What `convertFn` puts into an event, for a change of a table the filter lets through: the
operation and table of the change; the new row id for INSERT, both for UPDATE, the old one for
DELETE; and - unless in row-ids-only mode - the OLD row exactly as SQLite reports it for UPDATE and
DELETE and the NEW row exactly as SQLite reports it for INSERT and UPDATE (nothing for the side that
does not exist). In row-ids-only mode no column values at all. -/
theorem convert_describes_change (c : Cfg) (d : Change) (ev : Event) (h : convert c d = some ev)
    (hop : ∀ k, d.op ≠ .unknown k) :
    ev.table = d.table ∧ ev.id = d.id ∧ ev.op = d.op ∧ ev.error = false ∧
    (d.op = .insert → ev.newRowId = d.newRowID ∧ ev.oldRowId = 0) ∧
    (d.op = .update → ev.newRowId = d.newRowID ∧ ev.oldRowId = d.oldRowID) ∧
    (d.op = .delete → ev.oldRowId = d.oldRowID ∧ ev.newRowId = 0) ∧
    (c.idsOnly = true → ev.oldRow = none ∧ ev.newRow = none) ∧
    (c.idsOnly = false →
      ev.oldRow = (if d.op = .insert then none else some d.old) ∧
      ev.newRow = (if d.op = .delete then none else some d.new)) := by
  unfold convert at h
  by_cases hm : tableMatches c d.table = true
  · simp only [hm, Bool.not_true, Bool.false_eq_true, if_false] at h
    cases hd : d.op with
    | unknown k => exact absurd hd (hop k)
    | insert => cases hi : c.idsOnly <;> simp [baseEvent, withRows, hd, hi] at h <;> subst h <;> simp [hd]
    | update => cases hi : c.idsOnly <;> simp [baseEvent, withRows, hd, hi] at h <;> subst h <;> simp [hd]
    | delete => cases hi : c.idsOnly <;> simp [baseEvent, withRows, hd, hi] at h <;> subst h <;> simp [hd]
  · simp [hm] at h

theorem convert_filter (c : Cfg) (d : Change) (ev : Event) (h : convert c d = some ev) :
    ev.table = d.table ∧ ∀ ts, c.tables = some ts → ev.table ∈ ts := by
  unfold convert at h
  by_cases hm : tableMatches c d.table = true
  · simp only [hm, Bool.not_true, Bool.false_eq_true, if_false] at h
    have ht : ev.table = d.table := by
      cases hd : d.op <;> cases hi : c.idsOnly <;> simp [baseEvent, withRows, hd, hi] at h <;> subst h <;> rfl
    refine ⟨ht, fun ts hts => ?_⟩
    rw [ht]
    simpa [tableMatches, hts] using hm
  · simp [hm] at h

theorem convert_idsOnly (c : Cfg) (d : Change) (ev : Event) (h : convert c d = some ev)
    (hi : c.idsOnly = true) : ev.oldRow = none ∧ ev.newRow = none := by
  unfold convert at h
  by_cases hm : tableMatches c d.table = true
  · simp only [hm, Bool.not_true, Bool.false_eq_true, if_false] at h
    cases hd : d.op <;> simp [baseEvent, hd, hi] at h <;> subst h <;> simp
  · simp [hm] at h

/-- In row-ids-only mode no delivered event carries column values, for every request - failing
statements and phantom events included. Proved from the transcription of `convertFn` (the old/new
rows are never read in that mode). -/
theorem ids_only_has_no_values (c : Cfg) (tx : Bool) (stmts : List Stmt) (hi : c.idsOnly = true) :
    ∀ ev ∈ delivered (request c tx stmts), ev.oldRow = none ∧ ev.newRow = none := by
  intro ev hev
  obtain ⟨ch, hc⟩ := request_inv c tx stmts ev (Or.inr hev)
  exact convert_idsOnly c ch ev hc hi

/-- With a table filter only matching tables appear, for every request. -/
theorem filter_only_matching_tables (c : Cfg) (tx : Bool) (stmts : List Stmt) (ts : List String)
    (hf : c.tables = some ts) : ∀ ev ∈ delivered (request c tx stmts), ev.table ∈ ts := by
  intro ev hev
  obtain ⟨ch, hc⟩ := request_inv c tx stmts ev (Or.inr hev)
  exact (convert_filter c ch ev hc).2 ts hf

/-- every delivered event describes some row change SQLite reported, with exactly its operation,
table, row ids and (outside row-ids-only mode) before/after rows -/
theorem delivered_events_describe_reported_changes (c : Cfg) (tx : Bool) (stmts : List Stmt) :
    ∀ ev ∈ delivered (request c tx stmts), ∃ d, convert c d = some ev :=
  fun ev hev => request_inv c tx stmts ev (Or.inr hev)

/-- … and a matching table's change is never filtered out -/
theorem filter_keeps_matching (c : Cfg) (d : Change)
    (h : ∀ ts, c.tables = some ts → d.table ∈ ts) : (convert c d).isSome = true := by
  have hm : tableMatches c d.table = true := by
    unfold tableMatches
    cases hc : c.tables with
    | none => rfl
    | some ts => simpa using h ts hc
  unfold convert
  simp only [hm, Bool.not_true, Bool.false_eq_true, if_false]
  cases baseEvent d <;> cases c.idsOnly <;> simp

example : delivered (request ⟨true, some ["t1"]⟩ false
    [⟨[ins "t1" 1 9 [.int 5], ins "t2" 2 1 []], true, true⟩]) = [insEv "t1" 1 9 none] := by decide

def updDemo : Change :=
  { table := "t", id := 1, op := .update, oldRowID := 4, newRowID := 5,
    old := [.int 1, .text "a"], «new» := [.int 2, .text "a"] }

def updDemoEv : Event :=
  { table := "t", id := 1, op := .update, oldRowId := 4, newRowId := 5,
    oldRow := some [.int 1, .text "a"], newRow := some [.int 2, .text "a"] }

example : convert ⟨false, none⟩ updDemo = some updDemoEv := by decide

end C27

/-
Model of cdc/fifo.go (C26; reused by the C25 pipeline model).

`Queue` is a Bolt bucket (a map sorted by big-endian key = sorted by index) plus a
persisted `max_key`, managed by ONE goroutine (`run`); every public method is a
request/response over a channel, so each method call is one atomic step of the
manager and the model is exactly sequential.

State of `run` (fifo.go:227):
  * `items`    the bucket, ascending by key (what `Cursor.First/Seek/Next` walk);
  * `highest`  `highestKey` — loaded from the meta bucket on open, written in the same
               Bolt transaction as every accepted `Put`, so the volatile copy and the
               persisted one are always equal;
  * `nextEv`   the pre-loaded head event (a COPY of key+value taken when it was loaded);
               `outCh` is non-nil exactly when `nextEv` is;
  * `nextFrom` "next index to emit", 0 after every open.

Persistent = (`items`, `highest`); volatile = (`nextEv`, `nextFrom`). A clean
Close/NewQueue and a kill -9 followed by NewQueue are the same transition on this
state under the assumed Bolt law (an `Update` that returned is durable, one that did
not return is atomic: applied entirely or not at all).

Indexes are `Nat`; the code uses uint64 and computes `Index+1` / `idx+1`, which wraps
at 2^64-1. The driver refuses indexes ≥ 2^64-1 (`bad-op`): raft indexes never get
there, and the wrap-around case is outside what the model claims.
-/
import RqModel.Model.Util
namespace RqModel.Fifo
open RqModel.Util

/-- (index, data). Data is opaque to the queue: the model is polymorphic in it (the driver
uses the hex token, the C25 pipeline model a list of event groups). -/
abbrev Item (α : Type) := Nat × α

structure Q (α : Type) where
  items    : List (Item α) := []
  highest  : Nat := 0
  nextEv   : Option (Item α) := none
  nextFrom : Nat := 0
deriving Repr, DecidableEq

variable {α : Type}

/-- `Cursor.Seek(uint64tob n)`: first pair whose key is ≥ n -/
def seek (items : List (Item α)) (n : Nat) : Option (Item α) :=
  items.find? (fun p => decide (n ≤ p.1))

/-- `Bucket.Put` into the sorted map (replaces the value when the key exists) -/
def put (items : List (Item α)) (k : Nat) (d : α) : List (Item α) :=
  match items with
  | [] => [(k, d)]
  | (k', d') :: rest =>
    if k < k' then (k, d) :: (k', d') :: rest
    else if k = k' then (k, d) :: rest
    else (k', d') :: put rest k d

/-- closure `loadHead` -/
def loadHead (q : Q α) : Q α :=
  match q.nextEv with
  | some _ => q
  | none => { q with nextEv := seek q.items q.nextFrom }

/-- `case req := <-q.enqueueChan` — always acknowledged with a nil error -/
def enqueue (q : Q α) (k : Nat) (d : α) : Q α :=
  if k ≤ q.highest then q
  else loadHead { q with items := put q.items k d, highest := k }

/-- `case req := <-q.deleteRangeChan` -/
def deleteRange (q : Q α) (n : Nat) : Q α :=
  let deletedHead : Bool := match q.nextEv with
    | some e => decide (e.1 ≤ n)
    | none => false
  -- keys are collected from `First()` while `k ≤ idx`, then deleted one by one
  let items' := q.items.dropWhile (fun p => decide (p.1 ≤ n))
  let nextFrom' := if q.nextFrom ≠ 0 ∧ q.nextFrom ≤ n then n + 1 else q.nextFrom
  loadHead { q with items := items', nextFrom := nextFrom',
                    nextEv := if deletedHead then none else q.nextEv }

/-- `case outCh <- nextEv` followed by `advanceHead`; `none` = nothing to receive -/
def consume (q : Q α) : Q α × Option (Item α) :=
  match q.nextEv with
  | none => (q, none)
  | some e => ({ q with nextFrom := e.1 + 1, nextEv := seek q.items (e.1 + 1) }, some e)

/-- Close (or kill) + NewQueue: volatile state is rebuilt, `loadHead` runs once -/
def reopen (q : Q α) : Q α :=
  loadHead { items := q.items, highest := q.highest, nextEv := none, nextFrom := 0 }

def firstKey (q : Q α) : Nat :=
  match q.items with
  | [] => 0
  | p :: _ => p.1

/-! ### operations and runs (used by the theorems and by the C25 model) -/

inductive Op (α : Type) where
  | enq (k : Nat) (d : α)
  | del (n : Nat)
  | consume
  | query
  | reopen
  /-- the process is killed (SIGKILL: no Close) and the queue is opened again. Durable at
  that moment is exactly what the last ACKNOWLEDGED operation left in Bolt: the bucket
  (`items`) and `max_key` (`highest`) — both are written in the same Bolt transaction as an
  accepted enqueue, before it is acknowledged; the cursor and the pre-loaded head are not. -/
  | kill
deriving Repr, DecidableEq

def stepOp (q : Q α) : Op α → Q α × Option (Item α)
  | .enq k d => (enqueue q k d, none)
  | .del n => (deleteRange q n, none)
  | .consume => consume q
  | .query => (q, none)
  | .reopen => (reopen q, none)
  | .kill => (reopen q, none)

/-- state after a sequence of operations -/
def runQ (q : Q α) : List (Op α) → Q α
  | [] => q
  | op :: rest => runQ (stepOp q op).1 rest

/-- events received from `C` during a sequence of operations, in order -/
def emitted (q : Q α) : List (Op α) → List (Item α)
  | [] => []
  | op :: rest =>
    match (stepOp q op).2 with
    | some e => e :: emitted (stepOp q op).1 rest
    | none => emitted (stepOp q op).1 rest

/-- a fresh queue file, just opened -/
def empty : Q α := {}

/-! ### line protocol
`reset` → `ok` (fresh, empty queue file, just opened)
`enq <k> <xdata>` → `ok`;  `del <n>` → `ok`
`consume` → `ev <k> <xdata>` | `none`
`query` → `len=<n> first=<k> empty=<b> hasnext=<b> highest=<k>`
`reopen` | `kill` → `ok`
-/

structure DState where
  q : Q String := {}

def idxTok (t : String) : Option Nat :=
  match t.toNat? with
  | some n => if n < 18446744073709551615 then some n else none
  | none => none

def dataTok (t : String) : Option String :=
  match tokBytes t with
  | some _ => some t
  | none => none

def queryStr (q : Q String) : String :=
  s!"len={q.items.length} first={firstKey q} empty={boolStr q.items.isEmpty} hasnext={boolStr q.nextEv.isSome} highest={q.highest}"

def step (d : DState) (line : String) : DState × String :=
  match words line with
  | ["reset"] => ({}, "ok")
  | ["enq", k, x] =>
    match idxTok k, dataTok x with
    | some k, some x => ({ q := enqueue d.q k x }, "ok")
    | _, _ => (d, "bad-op")
  | ["del", n] =>
    match idxTok n with
    | some n => ({ q := deleteRange d.q n }, "ok")
    | none => (d, "bad-op")
  | ["consume"] =>
    match consume d.q with
    | (q', some e) => ({ q := q' }, s!"ev {e.1} {e.2}")
    | (q', none) => ({ q := q' }, "none")
  | ["query"] => (d, queryStr d.q)
  | ["reopen"] => ({ q := reopen d.q }, "ok")
  | ["kill"] => ({ q := (stepOp d.q .kill).1 }, "ok")
  | _ => (d, "bad-op")

end RqModel.Fifo

namespace RqModel.Fifo
def init : DState := {}
end RqModel.Fifo
--! driver: fifo RqModel.Fifo

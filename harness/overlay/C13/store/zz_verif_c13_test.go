package store

// C13 (store level): the same abstract requests as the db-level run, sent through a live
// single-node store - Store.Execute / Store.Request → Raft log → FSM → command processor →
// db.Execute / db.Request - and compared with the Lean model `exec`. Shows that the store layer
// hands the request (statements, Transaction, RollbackOnError) to the database layer unchanged.

import (
	"errors"
	"context"
	"fmt"
	"strconv"
	"strings"
	"testing"
	"time"

	"github.com/rqlite/rqlite/v10/command/proto"
)

func c13sSQL(tok string, v int) *proto.Statement {
	n := 0
	if len(tok) > 1 {
		n, _ = strconv.Atoi(tok[1:])
	}
	switch {
	case tok == "xf":
		return &proto.Statement{Sql: []string{"INSERT INTO t(tok) VALUES(NULL)", "INSERT INTO u(k) VALUES(0)", "INSERT INTO t(tok) VALUES(-1)", "INSERT INTO t(tok) VALUES(777),(778),(NULL)"}[v%4]}
	case tok == "pf":
		return &proto.Statement{Sql: []string{"INSERT INTO nosuch(tok) VALUES(1)", "INSERT INTO t(nocol) VALUES(1)", "INSERT INTO t VALUES(", "SELEC 1"}[v%4]}
	case tok == "ar":
		return &proto.Statement{Sql: []string{"INSERT OR ROLLBACK INTO t(tok) VALUES(NULL)", "INSERT OR ROLLBACK INTO u(k) VALUES(0)"}[v%2]}
	case tok == "sp":
		return &proto.Statement{ForceQuery: true, Sql: []string{"INSERT INTO nosuch(tok) VALUES(424242) RETURNING tok", "INSERT INTO t(tok) VALUES(424242) RETURNING nosuchcol"}[v%2]}
	case tok == "sa":
		if v%2 == 0 {
			return &proto.Statement{ForceQuery: true, Sql: "INSERT INTO t(tok) VALUES(?) RETURNING tok"}
		}
		return &proto.Statement{ForceQuery: true, Sql: "INSERT INTO t(id, tok) VALUES(:a, :b) RETURNING tok",
			Parameters: []*proto.Parameter{{Name: "a", Value: &proto.Parameter_I{I: 424242}}}}
	case tok == "e":
		return &proto.Statement{Sql: ""}
	case tok == "q":
		return &proto.Statement{Sql: "SELECT tok FROM t ORDER BY id"}
	case tok == "qf":
		return &proto.Statement{Sql: "SELECT abs(-9223372036854775808)"}
	case tok[0] == 'w':
		return &proto.Statement{Sql: fmt.Sprintf("INSERT INTO t(tok) VALUES(%d)", n)}
	case tok[0] == 'R':
		return &proto.Statement{Sql: fmt.Sprintf("INSERT INTO t(tok) VALUES(%d) RETURNING tok", n), ForceQuery: true}
	case tok[0] == 'p':
		if v%2 == 0 {
			return &proto.Statement{Sql: fmt.Sprintf("INSERT INTO t(tok) VALUES(%d); INSERT INTO t(tok) VALUES(NULL)", n)}
		}
		return &proto.Statement{Sql: fmt.Sprintf("INSERT OR FAIL INTO t(tok) VALUES(%d),(NULL)", n)}
	}
	return &proto.Statement{Sql: "THIS IS NOT SQL"}
}

func c13sIDs(rows *proto.QueryRows) string {
	var p []string
	for _, v := range rows.Values {
		p = append(p, strconv.FormatInt(v.Parameters[0].GetI(), 10))
	}
	if len(p) == 0 {
		return "-"
	}
	return strings.Join(p, ".")
}

// ---- robustness under load -------------------------------------------------------------------
// A busy machine can make even a single-node cluster lose its leader lease for a moment. A request
// refused with ErrNotLeader has done nothing: wait for the leader and try again (up to 2 minutes).
// Any other load-related error (leadership lost or a timeout while the entry was on its way) leaves
// it open whether the request was applied: the run is then ABANDONED at that point (counted), not
// judged. Only an error that load cannot explain fails the test.
func c13sRefused(err error) bool {
	return errors.Is(err, ErrNotLeader) || errors.Is(err, ErrNotReady) || errors.Is(err, ErrLeaderNotFound) ||
		(err != nil && strings.Contains(err.Error(), "not leader"))
}

func c13sLoadRelated(err error) bool {
	if err == nil {
		return false
	}
	m := strings.ToLower(err.Error())
	return errors.Is(err, context.DeadlineExceeded) || strings.Contains(m, "leadership") || strings.Contains(m, "timeout") ||
		strings.Contains(m, "timed out") || strings.Contains(m, "deadline") || strings.Contains(m, "leader")
}

// c13sTry runs f, retrying while the node refuses because it is not the leader.
func c13sTry(s *Store, f func() error) error {
	deadline := time.Now().Add(2 * time.Minute)
	for {
		err := f()
		if !c13sRefused(err) || time.Now().After(deadline) {
			return err
		}
		s.WaitForLeader(30 * time.Second)
		time.Sleep(50 * time.Millisecond)
	}
}

func TestVerifC13(t *testing.T) {
	rep := vfNewReport("C13", "store level: live single-node store; generated requests of 1-6 statements (writes, RETURNING, constraint / prepare / query failures, non-atomic statements failing part-way, empty, queries) × Transaction on/off × RollbackOnError on/off through Store.Execute and Store.Request; non-trivial = ≥2 statements one of which fails; distinct by op line")
	defer rep.Write()
	r := vfNewRng(1313)
	s, ln := mustNewStore(t)
	defer ln.Close()
	if err := s.Open(); err != nil {
		t.Fatalf("open: %v", err)
	}
	if err := s.Bootstrap(NewServer(s.ID(), s.Addr(), true)); err != nil {
		t.Fatalf("bootstrap: %v", err)
	}
	defer s.Close(true)
	if _, err := s.WaitForLeader(2 * time.Minute); err != nil {
		t.Fatalf("leader: %v", err)
	}
	for _, q := range []string{"CREATE TABLE t (id INTEGER PRIMARY KEY, tok INTEGER NOT NULL CHECK(tok >= 0))", "CREATE TABLE u (k INTEGER UNIQUE)", "INSERT INTO u(k) VALUES(0)"} {
		if err := c13sTry(s, func() error {
			_, _, err := s.Execute(context.Background(), executeRequestFromString(q, false, false))
			return err
		}); err != nil {
			t.Fatalf("setup: %v", err)
		}
	}
	content := func() string {
		rows, err := s.db.QueryStringStmt("SELECT tok FROM t ORDER BY id")
		if err != nil || len(rows) != 1 || rows[0].Error != "" {
			t.Fatalf("read table: %v %v", err, rows)
		}
		return c13sIDs(rows[0])
	}
	ops := []string{"reset"}
	impl := []string{"ok"}
	next := 0
	n := vfScale(150, 5000)
	for i := 0; i < n; i++ {
		path := []string{"exec", "request"}[r.Intn(2)]
		tx, rb := r.Chance(60), r.Chance(20)
		var toks []string
		fails := false
		for k := 1 + r.Intn(6); k > 0; k-- {
			switch p := r.Intn(100); {
			case p < 45:
				next++
				toks = append(toks, "w"+strconv.Itoa(next))
			case p < 52:
				next++
				toks = append(toks, "R"+strconv.Itoa(next))
			case p < 55:
				toks = append(toks, "xf")
				fails = true
			case p < 58:
				toks = append(toks, "ar")
				fails = true
			case p < 62:
				toks = append(toks, []string{"sp", "sa"}[r.Intn(2)])
				fails = true
			case p < 72:
				toks = append(toks, "pf")
				fails = true
			case p < 78:
				next++
				toks = append(toks, "p"+strconv.Itoa(next))
				fails = true
			case p < 84:
				toks = append(toks, "e")
			case p < 95:
				toks = append(toks, "q")
			default:
				toks = append(toks, "qf")
				fails = true
			}
		}
		if path == "request" {
			// a unified request made only of read-only statements is answered by db.Query from the
			// read-only pool (no statement loop of db.Request involved): keep at least one other statement
			onlyReads := true
			for _, tk := range toks {
				if tk != "q" && tk != "qf" && tk != "e" {
					onlyReads = false
				}
			}
			if onlyReads {
				next++
				toks = append(toks, "w"+strconv.Itoa(next))
			}
		}
		req := &proto.Request{Transaction: tx, RollbackOnError: rb}
		var ne []string
		for j, tk := range toks {
			req.Statements = append(req.Statements, c13sSQL(tk, i+j))
			if tk != "e" {
				ne = append(ne, tk)
			}
		}
		before := content()
		var results []*proto.ExecuteQueryResponse
		var err error
		err = c13sTry(s, func() error {
			ctx, cancel := context.WithTimeout(context.Background(), 90*time.Second)
			defer cancel()
			var e error
			if path == "exec" {
				results, _, e = s.Execute(ctx, &proto.ExecuteRequest{Request: req})
			} else {
				results, _, _, e = s.Request(ctx, &proto.ExecuteQueryRequest{Request: req, Level: proto.ConsistencyLevel_WEAK})
			}
			return e
		})
		if c13sLoadRelated(err) {
			// it is open whether the request was applied: stop here, judge what was observed so far
			rep.Count("abandoned-under-load:" + err.Error())
			break
		}
		if err != nil {
			t.Fatalf("%s %v: %v", path, toks, err)
		}
		var rs []string
		for k, res := range results {
			switch {
			case res.GetError() != "" || (res.GetQ() != nil && res.GetQ().Error != ""):
				rs = append(rs, "err")
			case res.GetQ() != nil:
				rs = append(rs, "Q"+c13sIDs(res.GetQ()))
			case res.GetE() != nil:
				if k < len(ne) && (ne[k][0] == 'w' || ne[k][0] == 'R') {
					rs = append(rs, "E"+strconv.FormatInt(res.GetE().LastInsertId, 10))
				} else {
					rs = append(rs, "E*")
				}
			}
		}
		rl := "-"
		if len(rs) > 0 {
			rl = strings.Join(rs, ";")
		}
		after := content()
		op := fmt.Sprintf("req %s %s %s %s", path, map[bool]string{true: "1", false: "0"}[tx], map[bool]string{true: "1", false: "0"}[rb], strings.Join(toks, ","))
		ops = append(ops, op)
		impl = append(impl, fmt.Sprintf("%s %s - 0", rl, after))
		rep.Case(op, fails && len(toks) > 1)
		rep.Count("path=" + path)
		rep.Count(fmt.Sprintf("tx=%v,rb=%v", tx, rb))
		// all-or-nothing, directly
		if tx {
			var all []string
			if before != "-" {
				all = strings.Split(before, ".")
			}
			for _, tk := range toks {
				if tk[0] == 'w' || tk[0] == 'R' {
					all = append(all, tk[1:])
				}
			}
			if after != before && (fails || after != strings.Join(all, ".")) {
				rep.Fail("store:"+path+":tx-partial-apply", fmt.Sprintf("transaction request %v through the store: table went from %s to %s", toks, before, after), map[string]interface{}{"op": op})
			}
			if !fails && len(all) > 0 && after != strings.Join(all, ".") {
				rep.Fail("store:"+path+":clean-tx-not-applied", fmt.Sprintf("transaction request %v: table is %s, want %s", toks, after, strings.Join(all, ".")), map[string]interface{}{"op": op})
			}
		}
		if i < 2 {
			rep.Sample(map[string]interface{}{"op": op, "impl": impl[len(impl)-1]})
		}
	}
	rep.vfCompare("exec", ops, impl, nil)
}

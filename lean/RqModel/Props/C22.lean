/-
C22  Loads and boots replace the database everywhere, durably; invalid loads change nothing.

Property theorems over the node model RqModel/Model/StoreSM.lean (invariants in
RqModel/Lemmas/StoreSM.lean). `Reach` is EVERY finite history of write requests, loads,
invalid loads, boots, snapshots with any number of trailing logs, and crash/close +
reopen, from a fresh node. Tied to the code by the C22 differential run on real stores
(loads of generated WAL-mode and DELETE-mode files, SQL-text loads, invalid data, boots,
snapshots, restarts on both paths, a joining node that then applies a load, an invalid load
and a write together with the first) and the regenerated facts in Gen/StoreOrder.lean.
Multi-node statements: a cluster is a set of per-node schedules over the same data operations
(`same_log_same_db`), a later joiner is `joinFrom` (`join_gets_leader_db`, `joiner_follows`);
`load_replaces_everywhere` / `boot_replaces_everywhere` are stated over those.
-/
import RqModel.Lemmas.StoreSM
import RqModel.Gen.StoreOrder
namespace C22
open RqModel.StoreSM

/-- operations a client or operator can perform on a node that is up, plus restart -/
inductive Op where
  | write (c : Cmd)          -- execute / load / invalid load / noop through the log
  | boot (d : Db)
  | snapshot (trailing : Nat)
  | snapshotAborted          -- checkpoint done, then Persist fails: the sink is cancelled, nothing installed
  | snapshotNoFingerprint (trailing : Nat)   -- snapshot installed, but the finalizer fails (only logged)
  | restart                  -- crash or close at this point, then reopen
deriving Repr, DecidableEq

def apply (n : Node) : Op → Node
  | .write c => write n c
  | .boot d => boot n d
  | .snapshot t => snapshot n t
  | .snapshotAborted => snapCheckpoint n
  | .snapshotNoFingerprint t => snapCompact (sinkClose false (snapPersist (snapCheckpoint n))) t
  | .restart => openNode (crash n)

def run (n : Node) (ops : List Op) : Node := ops.foldl apply n

/-- between operations a node satisfies both invariants -/
def Good (n : Node) : Prop := DurInv n ∧ Quiet n

theorem good_init : Good {} := ⟨durInv_init, quiet_init⟩

theorem sinkClose_false (n : Node) : sinkClose false n = snapInstall n := by
  simp [sinkClose, snapInstall, sinkCloseSteps, List.take, List.foldl, sinkStep]

theorem sinkClose_true (n : Node) : sinkClose true n = snapFingerprint (snapInstall n) := by
  simp [sinkClose, snapInstall, snapFingerprint, sinkCloseSteps, List.take, List.foldl, sinkStep]

theorem sinkCloseK_refused (ok : Bool) (n : Node) (h : n.fullNeeded = true) :
    sinkCloseK .incremental ok n = ({ n with snapTmp := none }, true) := by
  simp [sinkCloseK, sinkCloseSteps, List.foldl, sinkStepK, sinkRefuses, h]

theorem sinkCloseK_accepted (kind : SnapKind) (ok : Bool) (n : Node) (h : sinkRefuses kind n = false) :
    sinkCloseK kind ok n = (sinkClose ok n, false) := by
  simp [sinkCloseK, sinkClose, sinkCloseSteps, List.foldl, sinkStepK, h, sinkStep]

/-- a complete snapshot is: checkpoint, the steps of `Persist`, the steps of `Sink.Close`, compaction -/
theorem snapshot_is_step_lists (n : Node) (t : Nat) :
    snapshot n t = snapCompact (sinkClose true (persistSteps.foldl (persistStep true) (snapCheckpoint n))) t := by
  rw [sinkClose_true]; rfl

/-- a snapshot whose finalizer failed: installed, fingerprint untouched -/
theorem noFingerprint_spec {n : Node} (h : DurInv n) (q : Quiet n) (t : Nat) :
    Good (snapCompact (sinkClose false (snapPersist (snapCheckpoint n))) t) ∧
    (snapCompact (sinkClose false (snapPersist (snapCheckpoint n))) t).live = n.live := by
  rw [sinkClose_false]
  have h1 := durInv_snapCheckpoint h
  have h2 := durInv_snapPersist h1
  have m2 := midSnap_persist q.snapPre
  have h3 := durInv_snapInstall h2 m2
  have p3 := postInstall m2
  have q3 : Quiet (snapInstall (snapPersist (snapCheckpoint n))) := ⟨p3.up, p3.applied, p3.live, p3.notmp, p3.fileok, p3.nopeers⟩
  have c5 := snapCompact_spec h3 t
  refine ⟨⟨c5.1, c5.2.2 q3⟩, ?_⟩
  rw [(snapCompact_fields _ t).2.1, snapInstall_eq m2]; rfl

theorem good_apply {n : Node} (g : Good n) (op : Op) : Good (apply n op) := by
  obtain ⟨h, q⟩ := g
  cases op with
  | write c => obtain ⟨q', h', _⟩ := quiet_write h q c; exact ⟨h', q'⟩
  | boot d => obtain ⟨a, b, _⟩ := boot_spec h q d; exact ⟨a, b⟩
  | snapshot t => obtain ⟨h', q', _⟩ := snapshot_spec h q t; exact ⟨h', q'⟩
  | snapshotAborted => exact ⟨durInv_snapCheckpoint h, (quiet_snapCheckpoint q).1⟩
  | snapshotNoFingerprint t => exact (noFingerprint_spec h q t).1
  | restart =>
    obtain ⟨_, _, h', q', _⟩ := open_truth (durInv_crash h) (by show n.peersFile = none; exact q.nopeers)
    exact ⟨h', q'⟩

theorem good_run {n : Node} (g : Good n) (ops : List Op) : Good (run n ops) := by
  induction ops generalizing n with
  | nil => exact g
  | cons op ops ih => exact ih (good_apply g op)

/-- what each operation does to the database clients see -/
def effect (d : Db) : Op → Db
  | .write c => applyCmd d c
  | .boot d' => d'
  | .snapshot _ => d
  | .snapshotAborted => d
  | .snapshotNoFingerprint _ => d
  | .restart => d

theorem live_apply {n : Node} (g : Good n) (op : Op) : (apply n op).live = effect n.live op := by
  obtain ⟨h, q⟩ := g
  cases op with
  | write c =>
    obtain ⟨q', _, ht⟩ := quiet_write h q c
    show (write n c).live = applyCmd n.live c
    rw [q'.live, ht, q.live]
  | boot d => exact (boot_spec h q d).2.2.1
  | snapshot t => exact (snapshot_spec h q t).2.2.2.2.1
  | snapshotAborted => rfl
  | snapshotNoFingerprint t => exact (noFingerprint_spec h q t).2
  | restart =>
    obtain ⟨hl, _⟩ := open_truth (durInv_crash h) (by show n.peersFile = none; exact q.nopeers)
    show (openNode (crash n)).live = n.live
    rw [hl, truth_crash, q.live]

theorem live_run {n : Node} (g : Good n) (ops : List Op) : (run n ops).live = ops.foldl effect n.live := by
  induction ops generalizing n with
  | nil => rfl
  | cons op ops ih =>
    show (run (apply n op) ops).live = ops.foldl effect (effect n.live op)
    rw [ih (good_apply g op), live_apply g op]

/-- **load_replaces_on_node_across_restarts.** ONE node: after ANY history, a successful load
of `d` followed by ANY later history (writes, snapshots, further restarts on either path, …)
leaves exactly `d` plus the later operations — nothing of the database before the load
survives, on the live path and after every restart. -/
theorem load_replaces_on_node_across_restarts (pre post : List Op) (d : Db) :
    (run {} (pre ++ [.write (.load d)] ++ post)).live = post.foldl effect d := by
  rw [live_run good_init, List.foldl_append, List.foldl_append]
  rfl

/-- the same for a boot -/
theorem boot_replaces_on_node_across_restarts (pre post : List Op) (d : Db) :
    (run {} (pre ++ [.boot d] ++ post)).live = post.foldl effect d := by
  rw [live_run good_init, List.foldl_append, List.foldl_append]
  rfl

/-! ### every node: same log, own schedule; and nodes that join afterwards

A node's list of operations is its OWN schedule: the log entries it applies (`.write`; `.boot`
on the node that was booted) interleaved with ITS snapshots, failed snapshots and restarts.
Two nodes of a cluster differ in everything but the data operations. `dataOps` is that common
part. -/

def Op.isData : Op → Bool
  | .write _ => true
  | .boot _ => true
  | _ => false

def dataOps (ops : List Op) : List Op := ops.filter Op.isData

theorem foldl_effect_data (ops : List Op) : ∀ d : Db, ops.foldl effect d = (dataOps ops).foldl effect d := by
  induction ops with
  | nil => intro d; rfl
  | cons op ops ih =>
    intro d
    cases op <;> simp [dataOps, List.filter, Op.isData, List.foldl, effect] <;> exact ih _

/-- nodes that apply the same data operations hold the same database, whatever their own
schedules of snapshots (complete, aborted, without fingerprint) and restarts -/
theorem same_log_same_db (ops1 ops2 : List Op) (h : dataOps ops1 = dataOps ops2) :
    (run {} ops1).live = (run {} ops2).live := by
  rw [live_run good_init, live_run good_init, foldl_effect_data ops1, foldl_effect_data ops2, h]

/-- **join_gets_leader_db.** The "snapshot transfers to nodes that join afterwards" clause: a
node that joins a reachable node `n` with nothing of its own (newest installed snapshot + the
log after it) holds exactly `n`'s database, and is itself in a good state. -/
theorem join_gets_leader_db {n : Node} (g : Good n) : (joinFrom n).live = n.live ∧ Good (joinFrom n) := by
  have hd : DurInv { crash n with fp := false, dbFile := [], dbFileOk := true, peersFile := none } :=
    ⟨g.1.snap_le, g.1.nosnap, fun hf => Bool.noConfusion hf, fun hf => Bool.noConfusion hf⟩
  obtain ⟨hl, _, h', q', _⟩ := open_truth hd rfl
  refine ⟨?_, h', q'⟩
  show (openNode _).live = n.live
  rw [hl, g.2.live]; rfl

/-- the joiner then follows: any later schedule on it gives what the same data operations give
on the node it joined -/
theorem joiner_follows {n : Node} (g : Good n) (more1 more2 : List Op) (h : dataOps more1 = dataOps more2) :
    (run (joinFrom n) more1).live = (run n more2).live := by
  obtain ⟨hl, gj⟩ := join_gets_leader_db g
  rw [live_run gj, live_run g, hl, foldl_effect_data more1, foldl_effect_data more2, h]

/-- **load_replaces_everywhere.** EVERY node — any schedule `ops` whose data operations are
`pre`, the load of `d`, `post` — holds exactly `d` plus the later operations; and so does
every node that joins any such node afterwards. Nothing of the database before the load
survives anywhere. -/
theorem load_replaces_everywhere (ops pre post : List Op) (d : Db)
    (h : dataOps ops = pre ++ [.write (.load d)] ++ post) :
    (run {} ops).live = post.foldl effect d ∧ (joinFrom (run {} ops)).live = post.foldl effect d := by
  have hl : (run {} ops).live = post.foldl effect d := by
    rw [live_run good_init, foldl_effect_data, h, List.foldl_append, List.foldl_append]; rfl
  exact ⟨hl, by rw [(join_gets_leader_db (good_run good_init ops)).1, hl]⟩

/-- **boot_replaces_everywhere.** The booted node under any schedule, and every node that
joins it afterwards (a boot is not a log entry: joiners get it by snapshot transfer), hold
exactly the booted database plus the later operations. -/
theorem boot_replaces_everywhere (ops pre post : List Op) (d : Db)
    (h : dataOps ops = pre ++ [.boot d] ++ post) :
    (run {} ops).live = post.foldl effect d ∧ (joinFrom (run {} ops)).live = post.foldl effect d := by
  have hl : (run {} ops).live = post.foldl effect d := by
    rw [live_run good_init, foldl_effect_data, h, List.foldl_append, List.foldl_append]; rfl
  exact ⟨hl, by rw [(join_gets_leader_db (good_run good_init ops)).1, hl]⟩

/-! ### the boot guard: a `.boot` in a schedule is an ACCEPTED boot
and `ReadFrom` accepts one only on a configuration of exactly one server — voters and read-only
nodes alike. That is why `boot_replaces_everywhere` needs no statement about members present
at boot time: there are none; every other node is a later joiner. -/

/-- a boot attempt with any other server in the configuration — voter or non-voter — is refused
and changes nothing at all -/
theorem boot_refused_unless_single_node (n : Node) (d : Db) (h : clusterSize n ≠ 1) :
    bootR n d = (n, true) := by
  simp [bootR, bootAllowed, h]

theorem boot_accepted_when_single_node (n : Node) (d : Db) (h : clusterSize n = 1) :
    bootR n d = (boot n d, false) := by
  simp [bootR, bootAllowed, h]

/-- attaching any server, of either suffrage, disables boot -/
theorem attach_disables_boot (n : Node) (self p : Peer) (d : Db) :
    bootR (attach n self p) d = (attach n self p, true) := by
  apply boot_refused_unless_single_node
  unfold clusterSize attach
  cases hc : n.config with
  | nil => simp
  | cons a as => simp

theorem config_apply {n : Node} (g : Good n) (op : Op) : (apply n op).config = n.config := by
  obtain ⟨h, q⟩ := g
  cases op with
  | write c => exact (fsmApply_fields (appendEntry n c) c).2.2.2.2.2.2.2.2.2
  | boot d =>
    obtain ⟨q1, h1, _⟩ := quiet_write h q .noop
    have h2 : DurInv { write n .noop with live := d, dbFile := d, fp := false, fullNeeded := true } :=
      ⟨h1.snap_le, h1.nosnap, fun hf => Bool.noConfusion hf, fun hf => Bool.noConfusion hf⟩
    have p2 : SnapPre { write n .noop with live := d, dbFile := d, fp := false, fullNeeded := true } :=
      ⟨q1.up, q1.applied, q1.notmp, q1.fileok, q1.nopeers⟩
    have := (snapshot_gen h2 p2 1).2.2.2.2.2.2.2.1
    show (snapshot _ 1).config = n.config
    rw [this]
    exact (fsmApply_fields (appendEntry n .noop) .noop).2.2.2.2.2.2.2.2.2
  | snapshot t => exact (snapshot_spec h q t).2.2.2.2.2.2.2
  | snapshotAborted => rfl
  | snapshotNoFingerprint t =>
    show (snapCompact (sinkClose false (snapPersist (snapCheckpoint n))) t).config = n.config
    rw [(snapCompact_fields _ t).2.2.2.2.1, sinkClose_false, snapInstall_eq (midSnap_persist q.snapPre)]; rfl
  | restart =>
    exact (open_truth (durInv_crash h) (by show n.peersFile = none; exact q.nopeers)).2.2.2.2.2

/-- in a schedule no server is ever attached: the configuration stays the bootstrap one … -/
theorem config_run (ops : List Op) : (run {} ops).config = [] := by
  have key : ∀ (ops : List Op) (n : Node), Good n → (run n ops).config = n.config := by
    intro ops
    induction ops with
    | nil => intro n _; rfl
    | cons op ops ih =>
      intro n g
      show (run (apply n op) ops).config = n.config
      rw [ih _ (good_apply g op), config_apply g op]
  exact key ops {} good_init

/-- … so a boot attempt after any schedule passes the guard: the `.boot` of a schedule is `bootR`'s
accepted branch (this is the "therefore" of the section's heading) -/
theorem schedule_boot_is_guarded_boot (ops : List Op) (d : Db) :
    bootR (run {} ops) d = (boot (run {} ops) d, false) := by
  apply boot_accepted_when_single_node
  simp [clusterSize, config_run]

/-- an invalid load changes nothing but the log entry and the full-snapshot requirement — on the
node, and for every node that joins afterwards -/
theorem invalid_load_changes_only_log_and_requirement {n : Node} (g : Good n) :
    (write n .loadBad).fullNeeded = true ∧ (write n .loadBad).hist = n.hist ++ [.loadBad] ∧
    (joinFrom (write n .loadBad)).live = (joinFrom n).live := by
  refine ⟨rfl, rfl, ?_⟩
  have h1 : (joinFrom (write n .loadBad)).live = (write n .loadBad).live :=
    (join_gets_leader_db (n := write n .loadBad) (good_apply g (.write .loadBad))).1
  rw [h1, (join_gets_leader_db g).1]
  exact live_apply g (.write .loadBad)

/-- **load_during_incremental_snapshot_end_to_end**: checkpoint of an incremental snapshot; a LOAD
is applied; the snapshot is persisted and reaches `Sink.Close`, which READS the requirement and
refuses it; the node crashes and reopens: it holds the loaded database (the refused snapshot —
whose content predates the load — was never installed). -/
theorem load_during_incremental_snapshot_end_to_end {n : Node} (g : Good n) (d : Db) (ok : Bool) :
    let m := snapPersist (write (snapCheckpoint n) (.load d))
    (sinkCloseK .incremental ok m).2 = true ∧ (openNode (crash (sinkCloseK .incremental ok m).1)).live = d := by
  intro m
  have g1 : Good (snapCheckpoint n) := ⟨durInv_snapCheckpoint g.1, (quiet_snapCheckpoint g.2).1⟩
  have g2 : Good (write (snapCheckpoint n) (.load d)) := good_apply g1 (.write (.load d))
  have hl : (write (snapCheckpoint n) (.load d)).live = d := live_apply g1 (.write (.load d))
  have hfn : m.fullNeeded = true := by simp [m, snapPersist_eq]; rfl
  have hr : sinkCloseK .incremental ok m = ({ m with snapTmp := none }, true) := sinkCloseK_refused ok m hfn
  rw [hr]
  refine ⟨rfl, ?_⟩
  have hd : DurInv (crash { m with snapTmp := none }) :=
    ⟨g2.1.snap_le, g2.1.nosnap, g2.1.fp_ok, g2.1.fp_le⟩
  rw [(open_truth hd (by show (write (snapCheckpoint n) (.load d)).peersFile = none; exact g2.2.nopeers)).1]
  show truth (write (snapCheckpoint n) (.load d)) = d
  rw [← g2.2.live]; exact hl

/-- **boot_with_member_attached_witness**: why the guard must count EVERY server. Were a boot
accepted with a caught-up member attached, that member would get the boot's NOOP entry, be at
the leader's last index (raft has nothing more to send, no snapshot is transferred) and keep
the pre-boot database. -/
theorem boot_with_member_attached_witness :
    let leader : Node := write {} (.exec false [.put 1 1])
    let member : Node := write {} (.exec false [.put 1 1])
    let leader' := boot leader [(9, 9)]
    let member' := write member .noop
    member'.hist = leader'.hist ∧ member'.applied = leader'.hist.length ∧
    leader'.live = [(9, 9)] ∧ member'.live = [(1, 1)] := by
  decide

/-- the load is in the durable state at once: a crash right after it, on a node in any
reachable state, restarts with the loaded database (log replay re-applies the LOAD entry;
the old fingerprint no longer matches the swapped file, so the stale file is never reused) -/
theorem load_survives_crash (pre : List Op) (d : Db) :
    let n := write (run {} pre) (.load d)
    (openNode (crash n)).live = d ∧ n.fp = false ∧ n.dbFile = d := by
  intro n
  have g := good_run good_init pre
  have g' : Good n := good_apply g (.write (.load d))
  have hl := live_apply g (.write (.load d))
  obtain ⟨ho, _⟩ := open_truth (durInv_crash g'.1) (by show n.peersFile = none; exact g'.2.nopeers)
  refine ⟨?_, rfl, rfl⟩
  rw [ho, truth_crash, ← g'.2.live]
  exact hl

/-- **load_sets_full_needed**: applying a LOAD entry asks for a full snapshot, and the next
snapshot captures exactly the loaded-and-since-modified database and clears the flag -/
theorem load_sets_full_needed (pre : List Op) (d : Db) (ws : List Cmd) (t : Nat) :
    let n := write (run {} pre) (.load d)
    n.fullNeeded = true ∧
    (let m := snapshot (ws.foldl write n) t
     m.snap = some (m.hist.length, replay d ws) ∧ m.fullNeeded = false) := by
  intro n
  refine ⟨rfl, ?_⟩
  have g : Good n := good_apply (good_run good_init pre) (.write (.load d))
  have hl : n.live = d := live_apply (good_run good_init pre) (.write (.load d))
  have gw : ∀ (ws : List Cmd) (m : Node), Good m → Good (ws.foldl write m) ∧ (ws.foldl write m).live = replay m.live ws := by
    intro ws
    induction ws with
    | nil => intro m gm; exact ⟨gm, rfl⟩
    | cons c cs ih =>
      intro m gm
      have g1 := good_apply gm (.write c)
      have l1 : (write m c).live = applyCmd m.live c := live_apply gm (.write c)
      obtain ⟨g2, l2⟩ := ih (write m c) g1
      exact ⟨g2, by show (cs.foldl write (write m c)).live = _; rw [l2, l1]; rfl⟩
  obtain ⟨g2, l2⟩ := gw ws n g
  obtain ⟨_, _, _, hh, _, hs, hf, _⟩ := snapshot_spec g2.1 g2.2 t
  exact ⟨by rw [hs, hh, l2, hl], hf⟩

/-- **load_forces_full_snapshot**: the flag is READ. After a load (and any later writes)
`fsmSnapshot` takes the full branch; an INCREMENTAL snapshot that was begun before the load
(checkpoint done) and reaches `Sink.Close` after it is refused: nothing installed, the
requirement stays; a full one is accepted, and afterwards incremental snapshots are due again. -/
theorem load_forces_full_snapshot (n : Node) (d : Db) (ok : Bool) :
    snapKindDue (write n (.load d)) = .full ∧
    (let m := snapPersist (write (snapCheckpoint n) (.load d))
     (sinkCloseK .incremental ok m).2 = true ∧
     (sinkCloseK .incremental ok m).1.snap = n.snap ∧
     (sinkCloseK .incremental ok m).1.fullNeeded = true ∧
     sinkCloseK .full ok m = (sinkClose ok m, false) ∧
     snapKindDue (sinkCloseK .full ok m).1 = .incremental) := by
  refine ⟨rfl, ?_⟩
  intro m
  have hfn : m.fullNeeded = true := by simp [m, snapPersist_eq]; rfl
  rw [sinkCloseK_refused ok m hfn, sinkCloseK_accepted .full ok m (by simp [sinkRefuses])]
  refine ⟨rfl, ?_, hfn, rfl, ?_⟩
  · simp [m, snapPersist_eq]; rfl
  · cases ok <;> simp [snapKindDue, sinkClose, sinkCloseSteps, List.foldl, sinkStep]

/-- without a load no full snapshot is due: incremental snapshots are accepted -/
theorem incremental_accepted_without_load (n : Node) (h : n.fullNeeded = false) (ok : Bool) :
    snapKindDue n = .incremental ∧ sinkCloseK .incremental ok n = (sinkClose ok n, false) := by
  exact ⟨by simp [snapKindDue, h], sinkCloseK_accepted .incremental ok n (by simp [sinkRefuses, h])⟩

/-- **boot_then_snapshot**: a boot ends with the booted database live, installed as the
newest snapshot at the last index, and it is what a restart on either path produces -/
theorem boot_then_snapshot (pre : List Op) (d : Db) :
    let n := boot (run {} pre) d
    n.live = d ∧ n.snap = some (n.hist.length, d) ∧ (openNode (crash n)).live = d := by
  intro n
  have g := good_run good_init pre
  obtain ⟨gd, gq, hl, ht, hs, _⟩ := boot_spec g.1 g.2 d
  obtain ⟨ho, _⟩ := open_truth (durInv_crash gd) (by show n.peersFile = none; exact gq.nopeers)
  exact ⟨hl, hs, by rw [ho, truth_crash]; exact ht⟩

/-- **invalid_load_rejected_without_change**: a LOAD entry whose data SQLite cannot open
changes neither the live database, nor the database file, nor the snapshot store, on the
node that applies it live and on every node that replays it; and no later restart is
affected by it -/
theorem invalid_load_rejected_without_change (pre post : List Op) :
    let n := run {} pre
    (write n .loadBad).live = n.live ∧ (write n .loadBad).dbFile = n.dbFile ∧
    (write n .loadBad).snap = n.snap ∧ (write n .loadBad).fp = n.fp ∧
    (run {} (pre ++ [.write .loadBad] ++ post)).live = (run {} (pre ++ post)).live := by
  intro n
  refine ⟨?_, rfl, rfl, rfl, ?_⟩
  · exact live_apply (good_run good_init pre) (.write .loadBad)
  · rw [live_run good_init, live_run good_init]
    simp only [List.foldl_append, List.foldl_cons, List.foldl_nil]
    rfl

/-- the rejection is reported: `Swap` returns an error for data SQLite cannot open, and it does
so at the second gate, before the step that closes the current database -/
theorem invalid_load_reports_error (n : Node) :
    (swapSteps.foldl (swapStep none) { n := n }).failed = true ∧
    ((swapSteps.take 2).foldl (swapStep none) { n := n }).failed = true ∧
    ((swapSteps.take 2).foldl (swapStep none) { n := n }).n = n := by
  simp [swapSteps, List.take, List.foldl, swapStep]

theorem writeR_node (n : Node) (c : Cmd) : (writeR n c).1 = write n c := by cases c <;> rfl

/-- **invalid_load_is_rejected**: the client of an invalid load gets an error back, and the node
is as `invalid_load_rejected_without_change` says -/
theorem invalid_load_is_rejected (n : Node) : (writeR n .loadBad).2 = true ∧ (writeR n .loadBad).1 = write n .loadBad := by
  refine ⟨?_, writeR_node n .loadBad⟩
  simp [writeR, fsmApplyR, swapSteps, List.foldl, swapStep]

/-- a load of a database SQLite can open returns no error -/
theorem valid_load_is_accepted (n : Node) (d : Db) : (writeR n (.load d)).2 = false ∧ (writeR n (.load d)).1 = write n (.load d) := by
  refine ⟨?_, writeR_node n (.load d)⟩
  simp [writeR, fsmApplyR, swapSteps, List.foldl, swapStep]

/-- **load_scratch_io_failure_witness**: the `_everywhere` theorems ASSUME each node's own
scratch-file I/O works while it applies the LOAD entry. A node where it fails answers with an
error (no panic), keeps its old database and goes on: it differs from the others until it is
restarted (replay applies the entry again) — exits 1 and 2 of `loadExits`. -/
theorem load_scratch_io_failure_witness :
    let n : Node := write {} (.exec false [.put 1 1])
    (writeScratchFails n (.load [(9, 9)])).1.live = [(1, 1)] ∧ (writeScratchFails n (.load [(9, 9)])).2 = true ∧
    (write n (.load [(9, 9)])).live = [(9, 9)] ∧
    (openNode (crash (writeScratchFails n (.load [(9, 9)])).1)).live = [(9, 9)] := by
  decide

/-- the ORDER of the gates matters: with the "can SQLite open it" check after the removal of the
current database (where the unrepaired code effectively had it: the first failure came from
opening the renamed file), invalid data leaves the node without a database -/
theorem gate_after_removal_witness :
    let late : List SwapStep := [.gateMagic, .closeCurrent, .removeCurrent, .renameNew, .openNew]
    (swapRun late none ({ dbFile := [(1, 1)], live := [(1, 1)] } : Node)).dbFileOk = false ∧
    (swapRun swapSteps none ({ dbFile := [(1, 1)], live := [(1, 1)] } : Node)).dbFileOk = true := by
  decide

/-! ### regenerated facts (harness/extract/facts_storeorder.go)
the model's step lists ARE the extracted ones -/

theorem code_swap_steps : RqModel.Gen.StoreOrder.swapSteps = swapSteps.map SwapStep.code := by decide

theorem code_load_gates :
    RqModel.Gen.StoreOrder.swapGateBeforeClose = some true ∧
    RqModel.Gen.StoreOrder.httpLoadGate = some true ∧
    RqModel.Gen.StoreOrder.bootGates = some true ∧
    RqModel.Gen.StoreOrder.chunkGate = some true ∧
    RqModel.Gen.StoreOrder.loadSetsFullNeeded = some true := ⟨rfl, rfl, rfl, rfl, rfl⟩

/-- the exits of `CommandProcessor.Process`, case LOAD, and who reads the full-snapshot requirement -/
theorem code_load_exits_and_kind :
    RqModel.Gen.StoreOrder.loadCaseReturns = loadExits.map LoadExit.code ∧
    RqModel.Gen.StoreOrder.snapshotKindSteps = snapKindCode := by decide

/-- `ReadFrom`'s single-node guard counts `s.Nodes()` — all servers, not only voters -/
theorem code_boot_guard : RqModel.Gen.StoreOrder.bootGuard = bootGuardCode := by decide

/-! ### non-vacuity -/

def exLoad : Db := [(1, 10), (2, 20)]
def exHist : List Op :=
  [.write (.exec false [.put 5 50]), .snapshot 0, .write (.load exLoad), .write (.exec true [.add 1 1, .ins 3 30]),
   .restart, .write .loadBad, .snapshot 1, .restart, .write (.exec false [.add 2 2])]

example : (run {} exHist).live = [(1, 11), (2, 22), (3, 30)] := by decide
example : (run {} (exHist ++ [.boot [(7, 70)], .restart])).live = [(7, 70)] := by decide
example : (write (run {} (exHist.take 2)) (.load exLoad)).fullNeeded = true := by decide
-- a follower with another schedule (no snapshots, one restart) and a node joining the leader
def exFollower : List Op := exHist.filter fun op => match op with | .snapshot _ => false | _ => true
example : dataOps exFollower = dataOps exHist := by decide
example : (joinFrom (run {} exHist)).live = [(1, 11), (2, 22), (3, 30)] := by decide
example : (joinFrom (run {} (exHist ++ [.boot [(7, 70)]]))).live = [(7, 70)] := by decide

end C22

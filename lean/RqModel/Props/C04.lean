import RqModel.Model.SnapSM
namespace C04
theorem wip : True := trivial
end C04

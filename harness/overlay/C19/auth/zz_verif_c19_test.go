package auth

// C19 correspondence + spec oracle: real CredentialsStore vs. Lean model `auth`
// (RqModel/Model/Auth.lean) on generated credential files and every query over a
// bounded universe.

import (
	"encoding/json"
	"fmt"
	"strings"
	"testing"
)

type c19Cred struct {
	user, pass *string
	perms      *[]string
}

func (c c19Cred) jsonObj() string {
	var parts []string
	if c.user != nil {
		b, _ := json.Marshal(*c.user)
		parts = append(parts, `"username":`+string(b))
	}
	if c.pass != nil {
		b, _ := json.Marshal(*c.pass)
		parts = append(parts, `"password":`+string(b))
	}
	if c.perms != nil {
		b, _ := json.Marshal(*c.perms)
		parts = append(parts, `"perms":`+string(b))
	}
	return "{" + strings.Join(parts, ",") + "}"
}

func (c c19Cred) opLine() string {
	u, p, ps := "-", "-", "-"
	if c.user != nil {
		u = vfHex(*c.user)
	}
	if c.pass != nil {
		p = vfHex(*c.pass)
	}
	if c.perms != nil {
		if len(*c.perms) == 0 {
			ps = "!"
		} else {
			var hs []string
			for _, x := range *c.perms {
				hs = append(hs, vfHex(x))
			}
			ps = strings.Join(hs, ",")
		}
	}
	return fmt.Sprintf("cred %s %s %s", u, p, ps)
}

var (
	c19Users = []string{"", "*", "a", "b"}
	c19Pass  = []string{"", "p", "q"}
	c19Perms = []string{"all", "query", "execute", "backup"}
	c19QUser = []string{"", "*", "a", "b", "c"}
	c19QPass = []string{"", "p", "q", "z"}
	c19QPerm = []string{"query", "execute", "backup", "all", "status"}
)

func c19GenFile(r *vfRng, absentPct int) []c19Cred {
	n := r.Intn(5)
	var cs []c19Cred
	for i := 0; i < n; i++ {
		var c c19Cred
		if !r.Chance(absentPct) {
			u := r.Pick(c19Users)
			c.user = &u
		}
		if !r.Chance(absentPct) {
			p := r.Pick(c19Pass)
			c.pass = &p
		}
		if !r.Chance(absentPct) {
			var ps []string
			for _, p := range c19Perms {
				if r.Chance(30) {
					ps = append(ps, p)
				}
			}
			if ps == nil {
				ps = []string{}
			}
			c.perms = &ps
		}
		cs = append(cs, c)
	}
	return cs
}

// c19Oracle is the documented rule evaluated directly on the file: the LAST entry
// naming a user defines that user; a key absent from an entry means empty.
func c19Oracle(cs []c19Cred, u, p, perm string) bool {
	type def struct {
		pass  string
		perms map[string]bool
	}
	defs := map[string]def{}
	for _, c := range cs {
		d := def{perms: map[string]bool{}}
		name := ""
		if c.user != nil {
			name = *c.user
		}
		if c.pass != nil {
			d.pass = *c.pass
		}
		if c.perms != nil {
			for _, x := range *c.perms {
				d.perms[x] = true
			}
		}
		defs[name] = d
	}
	grants := func(user, perm string) bool {
		d, ok := defs[user]
		return ok && d.perms[perm]
	}
	if grants("*", perm) || grants("*", "all") {
		return true
	}
	if u == "" {
		return false
	}
	d, ok := defs[u]
	if !ok || d.pass != p {
		return false
	}
	return grants(u, perm) || grants(u, "all")
}

// c19Exhaustive enumerates a small universe completely.
func c19Exhaustive() [][]c19Cred {
	sp := func(s string) *string { return &s }
	users := []*string{nil, sp(""), sp("*"), sp("a")}
	passes := []*string{nil, sp("p"), sp("q")}
	permsets := []*[]string{nil, {}, {"all"}, {"query"}, {"all", "query"}}
	var entries, full []c19Cred
	for _, u := range users {
		for _, p := range passes {
			for _, ps := range permsets {
				c := c19Cred{u, p, ps}
				entries = append(entries, c)
				if u != nil && p != nil && ps != nil {
					full = append(full, c)
				}
			}
		}
	}
	files := [][]c19Cred{{}}
	for _, a := range entries {
		files = append(files, []c19Cred{a})
		for _, b := range entries {
			files = append(files, []c19Cred{a, b})
		}
	}
	for _, a := range full {
		for _, b := range full {
			for _, c := range full {
				files = append(files, []c19Cred{a, b, c})
			}
		}
	}
	return files
}

func c19Run(cs []c19Cred) (ops, out []string, store *CredentialsStore, err error) {
	var objs []string
	for _, c := range cs {
		objs = append(objs, c.jsonObj())
		ops = append(ops, c.opLine())
		out = append(out, "ok")
	}
	store = NewCredentialsStore()
	err = store.Load(strings.NewReader("[" + strings.Join(objs, ",") + "]"))
	ops = append(ops, "endload")
	out = append(out, "ok")
	return
}

func TestVerifC19(t *testing.T) {
	rep := vfNewReport("C19", "generated credential files (0-4 entries over users {'',*,a,b}, passwords {'',p,q}, perms⊆{all,query,execute,backup}, each key absent with some probability) × every (user,password,perm) query over a 5×4×5 universe; a file is non-trivial when at least one query is authorised and one is refused; distinct by file text")
	defer rep.Write()
	r := vfNewRng(19)
	files := vfScale(600, 20000)
	var allOps, allImpl [][]string
	var exh [][]c19Cred
	if vfThorough() {
		exh = c19Exhaustive()
		rep.Exhaustive = true
		rep.Note("thorough tier: exhaustive over all %d files with <=2 entries (users {'',*,a}|absent, passwords {p,q}|absent, perms subsets of {all,query}|absent) and all 3-entry files with every key present, in addition to the random files", len(exh))
	}
	for f := 0; f < files+len(exh); f++ {
		absent := 0
		if f%3 == 0 {
			absent = 20
		}
		var cs []c19Cred
		if f < len(exh) {
			cs = exh[f]
			absent = 0
			for _, c := range cs {
				if c.user == nil || c.pass == nil || c.perms == nil {
					absent = 1
				}
			}
		} else {
			cs = c19GenFile(r, absent)
		}
		ops, out, store, err := c19Run(cs)
		if err != nil {
			t.Fatalf("load failed on generated file: %v", err)
		}
		ops = append([]string{"reset"}, ops...)
		out = append([]string{"ok"}, out...)
		var key []string
		for _, c := range cs {
			key = append(key, c.jsonObj())
		}
		fileText := "[" + strings.Join(key, ",") + "]"
		yes, no := 0, 0
		for _, u := range c19QUser {
			for _, p := range c19QPass {
				for _, perm := range c19QPerm {
					got := store.AA(u, p, perm)
					ops = append(ops, fmt.Sprintf("aa %s %s %s", vfHex(u), vfHex(p), vfHex(perm)))
					out = append(out, vfBool(got))
					if got {
						yes++
					} else {
						no++
					}
					if want := c19Oracle(cs, u, p, perm); want != got {
						kind := "refused-but-rule-authorises"
						if got {
							kind = "authorised-but-rule-refuses"
						}
						sig := kind
						if absent > 0 {
							sig += ":entry-with-absent-key"
						}
						rep.Fail(sig, fmt.Sprintf("file %s: AA(%q,%q,%q)=%v, documented rule says %v", fileText, u, p, perm, got, want),
							map[string]interface{}{"file": fileText, "user": u, "password": p, "perm": perm, "impl": got, "rule": want})
					}
				}
				ops = append(ops, fmt.Sprintf("check %s %s", vfHex(u), vfHex(p)))
				out = append(out, vfBool(store.Check(u, p)))
			}
			for _, perm := range c19QPerm {
				ops = append(ops, fmt.Sprintf("hasperm %s %s", vfHex(u), vfHex(perm)))
				out = append(out, vfBool(store.HasPerm(u, perm)))
			}
		}
		rep.Case(fileText, yes > 0 && no > 0)
		rep.Count(fmt.Sprintf("entries=%d", len(cs)))
		if absent > 0 {
			rep.Count("files-with-absent-keys-allowed")
		}
		rep.CountN("aa-true", yes)
		rep.CountN("aa-false", no)
		if f < 3 {
			rep.Sample(map[string]interface{}{"file": fileText, "authorised_queries": yes, "refused_queries": no})
		}
		allOps = append(allOps, ops)
		allImpl = append(allImpl, out)
	}
	// one model run for everything (the `reset` op separates files)
	rep.vfCompareSegments("auth", allOps, allImpl)
}

package main

// SinkClose: the order of the durable steps of (*Sink).Close and (*FullSink).Close (C10: a
// crash during Close leaves nothing installed or the complete snapshot).

func init() {
	register("SinkClose", func(x *X) {
		x.Comment("snapshot/sink.go (*Sink).Close: selected calls in source order")
		var calls []string
		if fd := x.Func("snapshot", "Sink", "Close"); fd != nil {
			calls = snapverifyOrderedCalls(x, fd.Body, snapverifySet("RemoveAll", "Rename", "MoveWALFilesTo", "Remove", "Close", "writeMeta", "SyncDirMaybe", "ClearFullNeeded", "SetDueNext"))
		}
		x.DefStrings("sinkCloseCalls", calls)
		x.Comment("snapshot/sink_full.go (*FullSink).Close: selected calls in source order")
		var fcalls []string
		if fd := x.Func("snapshot", "FullSink", "Close"); fd != nil {
			fcalls = snapverifyOrderedCalls(x, fd.Body, snapverifySet("IsValidSQLiteFile", "IsValidSQLiteWALFile", "WriteFile"))
		}
		x.DefStrings("fullSinkCloseCalls", fcalls)
		x.Comment("snapshot/store.go (*Store).check: removes leftover tmp directories")
		var ccalls []string
		if fd := x.Func("snapshot", "Store", "check"); fd != nil {
			ccalls = snapverifyOrderedCalls(x, fd.Body, snapverifySet("isTmpName", "RemoveAll"))
		}
		x.DefStrings("storeCheckCalls", ccalls)
	})
}

/-
Model of the CDC delivery pipeline of ONE node (C25). (File/namespace `CdcPipe`, driver
`cdcpipe`: `Model/Cdc.lean` / `cdc` is C27's model of event contents.)

  db/cdc.go      CDCStreamer: Reset(k) / PreupdateHook / CommitHook        → `streamEntry`
  cdc/service.go writeToBatcher (HWM filter), queue.Queue as batcher (size-triggered and
                 flushed by the snapshot sync; the delay timer is modelled as the `timer`
                 op), mainLoop (batch → FIFO keyed by the highest index in the batch),
                 leaderLoop (FIFO → decompress (failure = drop) → endpoint with unbounded
                 retries, HWM := key on success),
                 leaderHWMLoop (`tick`: broadcast + prune), followerLoop (`hwm n`: prune),
                 NewService (`restart`: HWM := 0)
  cdc/fifo.go    the disk queue (RqModel.Fifo, proved in C26)
  store          log entries applied in index order; after a restart raft replays every
                 entry above the last snapshot (`snap`); `sync` = snapshot (flush first).

Concurrency: the service is five goroutines. The model is the sequential composition
obtained when every operation of the environment (an applied log entry, a leadership
change, an endpoint state change, an incoming HWM broadcast, a HWM tick, a snapshot, a
restart) happens at a quiescent point: the hand-off channel has been drained, the batcher
has handed over every full batch, the leader loop has sent everything it can (`pump`).
This is how the correspondence run drives the real service. Interleavings inside an
operation are not modelled.

The hand-off channel `in` is never full (the property excludes that documented drop).
Retries are unbounded by default; with a finite `transmitMaxRetries` an outage that is still
there at the quiescent point has outlasted the limit: the event is dropped (`dropped`).

The streamer re-creates `pending` WITHOUT the index after every commit that sent a group,
so in a multi-statement request without a transaction only the first group carries the
entry's index, the later ones carry 0 (known finding, see Props/C25). `streamEntryWith true`
is what a streamer that keeps the index would do (used to show that keeping the index
alone does not repair delivery).

The leader loop keeps the event it has taken from the FIFO in `Service.unsent` until it is
transmitted or skipped (`held`); it survives the loss of leadership (after the `fix:`
commit; before it the event was dropped when leadership was lost during a retry, while the
FIFO's read position had already moved past it).
-/
import RqModel.Model.Fifo
namespace RqModel.CdcPipe
open RqModel.Util
open RqModel.Fifo

/-- a change = (log index of the entry, statement number inside it); the rows touched by
one statement travel together, so this is the unit whose delivery is tracked -/
abbrev Change := Nat × Nat

/-- `CDCIndexedEventGroup`: the label it carries and the changes inside -/
structure Group where
  idx : Nat
  chg : List Change
deriving Repr, DecidableEq

/-- one applied log entry: a request of `stmts.length` statements; `stmts[j]` = number of
row events statement j produces on tables matching the filter (0 = none) -/
structure Entry where
  idx   : Nat
  tx    : Bool
  stmts : List Nat
deriving Repr, DecidableEq

/-! ### CDCStreamer -/

/-- changes of an entry, numbered by statement position, statements without events dropped -/
def changesFrom (k : Nat) (j : Nat) : List Nat → List Change
  | [] => []
  | n :: rest => if n = 0 then changesFrom k (j + 1) rest else (k, j) :: changesFrom k (j + 1) rest

/-- non-transactional request: SQLite commits after every statement; a commit with no
pending events sends nothing. `label` is `pending.Index` at that commit. -/
def streamNonTx (k : Nat) (keep : Bool) (label : Nat) (j : Nat) : List Nat → List Group
  | [] => []
  | n :: rest =>
    if n = 0 then streamNonTx k keep label (j + 1) rest
    else ⟨label, [(k, j)]⟩ :: streamNonTx k keep (if keep then label else 0) (j + 1) rest

/-- groups handed to the service for one entry (`Reset(idx)`, hooks, commits) -/
def streamEntryWith (keep : Bool) (e : Entry) : List Group :=
  if e.tx then
    match changesFrom e.idx 0 e.stmts with
    | [] => []
    | cs => [⟨e.idx, cs⟩]
  else streamNonTx e.idx keep e.idx 0 e.stmts

/-- the tree as it is: `pending` is re-created without the index after a commit -/
def streamEntry (e : Entry) : List Group := streamEntryWith false e
/-- a streamer that would keep the index -/
def streamEntryKeep (e : Entry) : List Group := streamEntryWith true e

/-! ### the service -/

abbrev Batch := List Group

structure St where
  batchSz : Nat := 1
  /-- what-if switch used only by a witness theorem: a streamer that keeps the index.
  The tree (and the driver) has `false`. -/
  keepIdx : Bool := false
  /-- what-if switch used only by a witness theorem: `NewService` deriving the HWM from the
  first FIFO key (first key - 1), as it did before the `fix:` commit. The tree starts at 0. -/
  hwmFromFirstKey : Bool := false
  hwm : Nat := 0
  batcher : List Group := []
  fifo : Q Batch := {}
  leader : Bool := false
  /-- `Service.unsent`: the event the leader loop has taken from the FIFO and not yet
  transmitted (endpoint down); kept across loss of leadership, lost by a restart -/
  held : Option (Nat × Batch) := none
  up : Bool := true
  /-- `hwmPersisted` of the running leaderHWMLoop / followerLoop goroutine -/
  leaderPersisted : Nat := 0
  followerPersisted : Nat := 0
  /-- HWM updates buffered in `hwmObCh` (capacity 5) while no follower loop reads them -/
  hwmChan : List Nat := []
  /-- whether this node's own broadcasts come back to it (they do in a real cluster) -/
  loopback : Bool := false
  /-- successful POSTs in order: (FIFO key, groups) -/
  delivered : List (Nat × Batch) := []
  /-- `transmitMaxRetries`: 0 = retry forever (the default), n > 0 = give up on an event
  after n failed attempts -/
  maxRetries : Nat := 0
  /-- whether the stored form of a FIFO item decodes: the FIFO stores
  `flate.Compress(json(batch))` and the leader loop sends `flate.Decompress(stored)`;
  `decodable b` = that decompression succeeds for batch `b`. Props/C25 instantiates it from a
  compress/decompress pair (`FlateLaw.decodes`); under the round-trip law it is constantly
  `true`, which is also what the driver runs with (the tree's `Decompress` inverts `Compress`
  for every input whatever its size: regenerated fact `flate_decompress_unbounded`, round-trip
  oracle in the correspondence run). -/
  decodable : Batch → Bool := fun _ => true
  /-- how the endpoint answers while it is down (`up = false`): the HTTP status of every
  failed POST of this history, 0 = no answer at all (connection refused/reset, timeout). The
  sink accepts 200 and 202 only; EVERY other outcome — any 1xx/2xx/3xx/4xx/5xx status, any
  transport error — is a failed attempt that the leader loop retries. The tree never reads
  this field (`givesUp` is `false`): the delivery theorems hold for every value. -/
  failStatus : Nat := 503
  /-- what-if switch used only by a witness theorem: a leader loop that treats a 4xx answer
  (other than 408 and 429) as a final rejection of the event and goes on to the next one -/
  giveUpOnRejection : Bool := false
  /-- events the leader loop gave up on: the finite retry limit was exhausted
  ("dropped_failed_to_send"), or the stored bytes did not decompress (logged, `unsent := nil`,
  `continue`: an explicit DROP, the HWM stays) -/
  dropped : List (Nat × Batch) := []
  /-- broadcasts made by this node -/
  broadcasts : List Nat := []
  /-- raft: entries applied so far, and the index covered by the last snapshot -/
  log : List Entry := []
  snap : Nat := 0
  /-- ghost (never read by the pipeline, not printed): the highest HWM ever announced by
  another node; the index of the last entry handed to the streamer since the service
  started; the highest index handed to it since the log began or that is known to be
  covered by the FIFO/snapshot after a restart -/
  maxIn : Nat := 0
  lastFed : Nat := 0
  front : Nat := 0

/-- a 4xx status other than 408 (request timeout) and 429 (too many requests) -/
def isRejection (status : Nat) : Bool :=
  decide (400 ≤ status) && decide (status < 500) && status != 408 && status != 429

/-- does the leader loop stop retrying the event it holds although the endpoint is down?
A finite retry limit (exhausted at the quiescent point), or the what-if rejection rule.
Arguments: `maxRetries`, `giveUpOnRejection`, `failStatus`. -/
def givesUpOf (maxRetries : Nat) (giveUpOnRejection : Bool) (failStatus : Nat) : Bool :=
  maxRetries != 0 || (giveUpOnRejection && isRejection failStatus)

def hiIdx (b : Batch) : Nat := b.foldl (fun m g => max m g.idx) 0

/-- mainLoop, `case req := <-s.batcher.C` -/
def enqueueBatch (s : St) (b : Batch) : St :=
  { s with fifo := enqueue s.fifo (hiIdx b) b }

/-- writeToBatcher for one group + the batcher's size trigger -/
def feedGroup (s : St) (g : Group) : St :=
  if g.idx ≠ 0 ∧ g.idx ≤ s.hwm then s
  else
    let b := s.batcher ++ [g]
    if b.length = s.batchSz then enqueueBatch { s with batcher := [] } b
    else { s with batcher := b }

/-- batcher timer, or the flush of a snapshot sync -/
def flushBatcher (s : St) : St :=
  match s.batcher with
  | [] => s
  | b => enqueueBatch { s with batcher := [] } b

/-- leaderLoop at quiescence: send what can be sent -/
def pump : Nat → St → St
  | 0, s => s
  | fuel + 1, s =>
    if !s.leader then s else
    match s.held with
    | some (k, b) =>
      if k ≤ s.hwm then pump fuel { s with held := none }   -- HWM has passed it meanwhile: skipped
      else if s.decodable b = false then
        -- `flate.Decompress(ev.Data)` fails: the event is dropped before any send
        pump fuel { s with held := none, dropped := s.dropped ++ [(k, b)] }
      else if s.up then pump fuel { s with held := none, delivered := s.delivered ++ [(k, b)], hwm := k }
      else if givesUpOf s.maxRetries s.giveUpOnRejection s.failStatus = true then
        -- the outage outlasts the finite retry limit: the event is dropped, the HWM stays
        pump fuel { s with held := none, dropped := s.dropped ++ [(k, b)] }
      else s
    | none =>
      match consume s.fifo with
      | (_, none) => s
      | (q', some (k, b)) =>
        if k ≤ s.hwm then pump fuel { s with fifo := q' }
        else pump fuel { s with fifo := q', held := some (k, b) }

def pumpAll (s : St) : St := pump (2 * s.fifo.items.length + 2) s

/-- followerLoop, `case hwm := <-s.hwmObCh` -/
def followerHwm (s : St) (n : Nat) : St :=
  if n ≤ s.followerPersisted ∨ n = 0 then s
  else { s with fifo := deleteRange s.fifo n, followerPersisted := n, hwm := n }

def offerHwm (s : St) (n : Nat) : St :=
  if s.leader then
    (if s.hwmChan.length < 5 then { s with hwmChan := s.hwmChan ++ [n] } else s)
  else followerHwm s n

def applyEntry (s : St) (e : Entry) : St :=
  (streamEntryWith s.keepIdx e).foldl feedGroup { s with lastFed := e.idx, front := max s.front e.idx }

inductive Op where
  | entry (e : Entry)            -- a log entry is applied (also appended to the log)
  | timer                        -- the batcher's delay timer fires
  | sync                         -- snapshot: flush the batcher, then the log is truncated
  | leader (b : Bool)
  | endpoint (up : Bool)
  | hwm (n : Nat)                -- HWM broadcast from another node arrives
  | tick                         -- leader HWM ticker
  | restart                      -- process restart + raft replay of the log above `snap`
deriving Repr, DecidableEq

def lastIdx (log : List Entry) : Nat :=
  match log.getLast? with
  | some e => e.idx
  | none => 0

def stepCore (s : St) : Op → St
  | .entry e => applyEntry { s with log := s.log ++ [e] } e
  | .timer => flushBatcher s
  | .sync => { flushBatcher s with snap := lastIdx s.log }
  | .leader b =>
    if b = s.leader then s
    else if b then { s with leader := true, leaderPersisted := 0 }
    else
      let s1 := { s with leader := false, followerPersisted := 0 }
      let s2 := s.hwmChan.foldl followerHwm s1
      { s2 with hwmChan := [] }
  | .endpoint up => { s with up := up }
  | .hwm n => offerHwm { s with maxIn := max s.maxIn n } n
  | .tick =>
    if !s.leader ∨ s.hwm = 0 then s
    else
      let s1 := { s with broadcasts := s.broadcasts ++ [s.hwm] }
      let s2 := if s.loopback then offerHwm s1 s.hwm else s1
      if s2.hwm ≤ s2.leaderPersisted then s2
      else { s2 with fifo := deleteRange s2.fifo s2.hwm, leaderPersisted := s2.hwm }
  | .restart =>
    let q := reopen s.fifo
    let fk := firstKey q
    let s1 : St := { s with batcher := [], fifo := q, leader := false, held := none,
                            hwm := (if s.hwmFromFirstKey then fk - 1 else 0), leaderPersisted := 0, followerPersisted := 0, hwmChan := [],
                            lastFed := 0, front := max s.snap q.highest }
    (s.log.filter (fun e => decide (s.snap < e.idx))).foldl applyEntry s1

def stepOp (s : St) (op : Op) : St := pumpAll (stepCore s op)

def run (s : St) : List Op → St
  | [] => s
  | op :: rest => run (stepOp s op) rest

/-! ### entries still in the hand-off channel when the next operation arrives

The service picks groups up from the hand-off channel `in` on its own goroutine. `run` above
describes operations applied at quiescent points. `OpQ.entryQueued` is an entry whose groups
are still in the channel when the NEXT operation arrives. Every operation simply finds them
handled first — except the snapshot sync, which is served by the SAME `select` as the
channel: `drainOnSync = true` (the tree: the sync first drains the channel) or `false` (before
the `fix:` commit: the flush could overtake them). -/

inductive OpQ where
  | op (o : Op)
  | entryQueued (e : Entry)
deriving Repr, DecidableEq

structure StQ where
  s : St := {}
  queued : List Entry := []

/-- the queued groups reach writeToBatcher -/
def drainHand (q : StQ) : StQ :=
  { s := q.queued.foldl (fun s e => pumpAll (applyEntry s e)) q.s, queued := [] }

def stepHand (drainOnSync : Bool) (q : StQ) : OpQ → StQ
  | .entryQueued e => { s := { q.s with log := q.s.log ++ [e] }, queued := q.queued ++ [e] }
  | .op .sync =>
    if drainOnSync then { s := stepOp (drainHand q).s .sync, queued := [] }
    else drainHand { s := stepOp q.s .sync, queued := q.queued }   -- the flush overtakes them
  | .op o => { s := stepOp (drainHand q).s o, queued := [] }

def runHand (drainOnSync : Bool) (q : StQ) : List OpQ → StQ
  | [] => q
  | o :: rest => runHand drainOnSync (stepHand drainOnSync q o) rest

/-! ### line protocol
`reset <batchSz> <loopback 0|1> [maxRetries]` → `ok`
`entry <idx> <tx 0|1> <n,n,...|->` | `timer` | `sync` | `leader 0|1` | `endpoint 0|1` |
`hwm <n>` | `tick` | `restart`      (`stream <idx> <tx> <n,n,..>` → the streamer's groups only; prefix `T ` = the op is followed by a `tick`, one result line)
  → `hwm=<n> len=<n> first=<k> highest=<k> next=<b> batcher=<n> held=<k|-> new=<deliveries>`
deliveries since the previous line: `key:idx/e.j+e.j,idx/...;key:...` or `-`
-/

structure DState where
  s : St := {}
  queued : List Entry := []
  seen : Nat := 0
  seenDrop : Nat := 0

def chgStr (c : Change) : String := s!"{c.1}.{c.2}"
def groupStr (g : Group) : String := s!"{g.idx}/{joinWith "+" (g.chg.map chgStr)}"
def delivStr (d : Nat × Batch) : String := s!"{d.1}:{joinWith "," (d.2.map groupStr)}"

def obs (d : DState) (s : St) : DState × String :=
  let newD := s.delivered.drop d.seen
  -- the retried event is observable (failing POSTs) only while leader with the endpoint down
  let held := match s.held with
    | some (k, _) => if s.leader && !s.up then toString k else "-"
    | none => "-"
  let nd := if newD.isEmpty then "-" else joinWith ";" (newD.map delivStr)
  let newDrop := s.dropped.drop d.seenDrop
  let dr := if newDrop.isEmpty then "" else s!" drop={joinWith "," (newDrop.map fun x => toString x.1)}"
  ({ s := s, seen := s.delivered.length, seenDrop := s.dropped.length },
   s!"hwm={s.hwm} len={s.fifo.items.length} first={firstKey s.fifo} highest={s.fifo.highest} next={boolStr s.fifo.nextEv.isSome} batcher={s.batcher.length} held={held} new={nd}{dr}")

def bitTok (t : String) : Option Bool :=
  if t == "1" then some true else if t == "0" then some false else none

def parseOp : List String → Option Op
  | ["entry", k, tx, st] =>
    match k.toNat?, bitTok tx, natList st with
    | some k, some tx, some st => some (.entry ⟨k, tx, st⟩)
    | _, _, _ => none
  | ["timer"] => some .timer
  | ["sync"] => some .sync
  | ["leader", b] => (bitTok b).map .leader
  | ["endpoint", b] => (bitTok b).map .endpoint
  | ["hwm", n] => (n.toNat?).map .hwm
  | ["tick"] => some .tick
  | ["restart"] => some .restart
  | _ => none

def stepLine (d : DState) (line : String) : DState × String :=
  match words line with
  | ["stream", k, tx, st] =>
    -- the streamer alone: the groups one applied entry hands to the service
    match k.toNat?, bitTok tx, natList st with
    | some k, some tx, some st =>
      let gs := streamEntry ⟨k, tx, st⟩
      (d, if gs.isEmpty then "-" else joinWith "," (gs.map groupStr))
    | _, _, _ => (d, "bad-op")
  | "T" :: rest =>
    match parseOp rest with
    | some op => obs d (stepOp (stepOp d.s op) .tick)
    | none => (d, "bad-op")
  | ["reset", b, lb] =>
    match b.toNat?, bitTok lb with
    | some b, some lb => if b = 0 then (d, "bad-op") else ({ s := { batchSz := b, loopback := lb }, seen := 0, seenDrop := 0 }, "ok")
    | _, _ => (d, "bad-op")
  | ["reset", b, lb, mr] =>
    match b.toNat?, bitTok lb, mr.toNat? with
    | some b, some lb, some mr =>
      if b = 0 then (d, "bad-op")
      else ({ s := { batchSz := b, loopback := lb, maxRetries := mr }, seen := 0, seenDrop := 0 }, "ok")
    | _, _, _ => (d, "bad-op")
  | ws =>
    match parseOp ws with
    | some op => obs d (stepOp d.s op)
    | none => (d, "bad-op")

/-- `qentry <idx> <tx> <stmts>` → `queued`: the entry's groups stay in the hand-off channel;
any later line first lets the service pick them up (the tree drains them on a sync too) -/
def step (d : DState) (line : String) : DState × String :=
  match words line with
  | ["qentry", k, tx, st] =>
    match k.toNat?, bitTok tx, natList st with
    | some k, some tx, some st =>
      ({ d with s := { d.s with log := d.s.log ++ [⟨k, tx, st⟩] }, queued := d.queued ++ [⟨k, tx, st⟩] }, "queued")
    | _, _, _ => (d, "bad-op")
  | _ =>
    let q := drainHand { s := d.s, queued := d.queued }
    stepLine { d with s := q.s, queued := [] } line

def init : DState := {}

end RqModel.CdcPipe
--! driver: cdcpipe RqModel.CdcPipe

#!/usr/bin/env python3
"""Run the repository's pinned test suite with the verif guard OFF and compare with
/root/.vp/BASELINE.json's stable_pass list. Usage: tools/baseline.py [pkg ...]"""
import json, os, subprocess, sys
env = dict(os.environ, GOFLAGS="-mod=mod", GOPROXY="off", GOSUMDB="off", GOTOOLCHAIN="local")
pk = sys.argv[1:] or ["./..."]
p = subprocess.Popen(["go1.26", "test", "-json", "-vet=off", "-count=1", "-timeout", "25m"] + pk, cwd="/repo", env=env,
                     stdout=subprocess.PIPE, text=True)
passed, failed = set(), set()
for line in p.stdout:
    try:
        e = json.loads(line)
    except Exception:
        continue
    if e.get("Test") and e.get("Action") in ("pass", "fail"):
        (passed if e["Action"] == "pass" else failed).add(e["Package"] + "::" + e["Test"])
p.wait()
base = set(json.load(open("/root/.vp/BASELINE.json"))["stable_pass"])
if pk != ["./..."]:
    import re
    mods = [x.replace("./", "github.com/rqlite/rqlite/v10/").rstrip("/.") for x in pk]
    base = {b for b in base if any(b.split("::")[0] == m or b.split("::")[0].startswith(m.rstrip('.') ) for m in mods)}
missing = sorted(base - passed)
print("passed=%d failed=%d baseline=%d missing_from_pass=%d" % (len(passed), len(failed), len(base), len(missing)))
for m in missing[:40]:
    print("  NOT PASSING:", m, "(failed)" if m in failed else "(not run)")
sys.exit(1 if missing else 0)

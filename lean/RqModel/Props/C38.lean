import RqModel.Model.LinRead
namespace C38
end C38

/-
Line-protocol driver for the snapshot-store model (component `snapfs`), used by the
C07 correspondence run. Databases are instantiated as the list of WAL segments that
have been checkpointed into them (re-applying the last one is a no-op).

  reset                                                     → ok
  dir <name> <tmp01> <id,index,term|-> <db|-> <crc|-> <dbwal|-> <wals|->   → ok
  plan <ops|->  /  plantmp <0|1>                            → ok
  exec <op>                                                 → ok | err <kind>
  done <op>                                                 → true | false
  lastdone                                                  → true | false
  scan                                                      → ok <snaps> | err <kind>
  obs                                                       → <index> <term> <db> | none | err <kind>
  mkplan <newName> <verify01>                               → none | plan <ops> | err <kind>
  reap <newName> <verify01>                                 → ok | err <kind>
  reapcrash <newName> <verify01> <reapcut>                  → ok
  reccrash <reccut>                                         → ok
  check                                                     → ok | err <kind>
  dump                                                      → canonical state
ops: `;`-separated; op = ck/<dir>/<d.w,..|-> | crc/<dir> | rm/<dir> | wm/<dir>/<id.index.term> | vf/<dir> | mv/<a>/<b>
opcut = n | c.<lo01>.<j>.<stage> | r.<mt01><db01><crc01><dbwal01>.<wals|-> | t
reapcut = bp0 | bp1 | ip/<k>/<opcut> | pd | cp
reccut = as | tr | ip/<k>/<opcut> | pd | td/<gone|->/<pn>/<sel as in r.>
-/
import RqModel.Model.SnapFS
namespace RqModel.SnapFSDrv
open RqModel.Util RqModel.SnapFS

abbrev DB := List Nat

def alg : DbAlg DB := ⟨fun d w => if w = 0 ∨ d.getLast? = some w then d else d ++ [w]⟩

structure DState where
  s : FS DB := {}

def init : DState := {}

def natsTok (t : String) : Option (List Nat) := natList t

def optNatsTok (t : String) : Option (Option (List Nat)) :=
  if t == "-" then some none else (natList t).map some

def optNatTok (t : String) : Option (Option Nat) :=
  if t == "-" then some none else t.toNat?.map some

def boolTok (t : String) : Option Bool :=
  if t == "1" then some true else if t == "0" then some false else none

def metaOf (ns : List Nat) : Option Meta :=
  match ns with
  | [a, b, c] => some ⟨a, b, c⟩
  | _ => none

def pairTok (t : String) : Option (Nat × Nat) :=
  match t.splitOn "." with
  | [a, b] => do pure (← a.toNat?, ← b.toNat?)
  | _ => none

def parseOp (t : String) : Option Op :=
  match t.splitOn "/" with
  | ["ck", d, ws] => do
    let d ← d.toNat?
    let ws ← if ws == "-" then some [] else (ws.splitOn ",").mapM pairTok
    pure (.checkpoint d ws)
  | ["crc", d] => d.toNat?.map .calcCrc
  | ["rm", d] => d.toNat?.map .removeAll
  | ["wm", d, m] => do
    let d ← d.toNat?
    let m ← metaOf (← (m.splitOn ".").mapM String.toNat?)
    pure (.writeMeta d m)
  | ["vf", d] => d.toNat?.map .verifyDb
  | ["mv", a, b] => do pure (.rename (← a.toNat?) (← b.toNat?))
  | _ => none

def parseOps (t : String) : Option (List Op) :=
  if t == "-" then some [] else (t.splitOn ";").mapM parseOp

def natsStr (ns : List Nat) : String :=
  if ns.isEmpty then "-" else ",".intercalate (ns.map toString)

def showOp : Op → String
  | .checkpoint d ws => s!"ck/{d}/" ++ (if ws.isEmpty then "-" else ",".intercalate (ws.map fun p => s!"{p.1}.{p.2}"))
  | .calcCrc d => s!"crc/{d}"
  | .removeAll d => s!"rm/{d}"
  | .writeMeta d m => s!"wm/{d}/{m.id}.{m.index}.{m.term}"
  | .verifyDb d => s!"vf/{d}"
  | .rename a b => s!"mv/{a}/{b}"

def showOps (ops : List Op) : String :=
  if ops.isEmpty then "-" else ";".intercalate (ops.map showOp)

def parseSel (flags wals : String) : Option Sel :=
  match flags.toList with
  | [a, b, c, d] => do
    let f (ch : Char) : Option Bool := if ch == '1' then some true else if ch == '0' then some false else none
    pure { mt := ← f a, db := ← f b, crc := ← f c, dbWal := ← f d, wals := ← natsTok wals }
  | _ => none

def parseOpCut (t : String) : Option OpCut :=
  match t.splitOn "." with
  | ["n"] => some .none
  | ["t"] => some .trunc
  | ["c", lo, j, st] => do pure (.ckpt (← boolTok lo) (← j.toNat?) (← st.toNat?))
  | ["r", fl, ws] => (parseSel fl ws).map .rm
  | _ => none

def parseReapCut (t : String) : Option ReapCut :=
  match t.splitOn "/" with
  | ["bp0"] => some (.beforePlan false)
  | ["bp1"] => some (.beforePlan true)
  | ["pd"] => some .planDone
  | ["cp"] => some .complete
  | ["ip", k, c] => do pure (.inPlan (← k.toNat?) (← parseOpCut c))
  | _ => none

def parseRecCut (t : String) : Option RecCut :=
  match t.splitOn "/" with
  | ["as"] => some .atStart
  | ["tr"] => some .tmpRemoved
  | ["pd"] => some .planDone
  | ["ip", k, c] => do pure (.inPlan (← k.toNat?) (← parseOpCut c))
  | ["td", gone, pn, sel] =>
    match sel.splitOn "." with
    | ["r", fl, ws] => do pure (.tmpDirs (← natsTok gone) (← pn.toNat?) (← parseSel fl ws))
    | _ => none
  | _ => none

def optNatsStr : Option (List Nat) → String
  | none => "-"
  | some ns => if ns.isEmpty then "e" else natsStr ns

def optDbTok (t : String) : Option (Option DB) :=
  if t == "-" then some none else if t == "e" then some (some []) else (natList t).map some

def showDir (n : Nat) (d : Dir DB) : String :=
  let m := match d.mt with
    | some m => s!"{m.id},{m.index},{m.term}"
    | none => "-"
  let dw := match d.dbWal with
    | some _ => "y"
    | none => "-"
  let crc := match d.crc with
    | none => "-"
    | some c => if d.db == some c then "ok" else "stale"
  s!"{n}:{if d.tmp then 1 else 0}:{m}:{optNatsStr d.db}:{crc}:{dw}:{natsStr d.wals}"

def sortNats (ns : List Nat) : List Nat := ns.mergeSort (fun a b => a ≤ b)

def dump (s : FS DB) : String :=
  let ds := (sortNats s.names.eraseDups).filterMap fun n => (s.dir n).map (showDir n)
  let pl := match s.plan with
    | some p => "plan=" ++ showOps p
    | none => "noplan"
  " ".intercalate (ds ++ [pl, s!"plantmp={if s.planTmp then 1 else 0}"])

def showSnap (x : Snap DB) : String :=
  s!"{x.name}:{x.mt.id},{x.mt.index},{x.mt.term}:{if x.db.isSome then "F" else "I"}:{natsStr x.wals}"

def errStr (e : String) : String := "err " ++ e

def step (d : DState) (line : String) : DState × String :=
  match words line with
  | ["reset"] => ({}, "ok")
  | ["dir", n, tmp, mt, db, crc, dw, ws] =>
    match n.toNat?, boolTok tmp, optNatsTok mt, optDbTok db, optDbTok crc, optNatTok dw, natsTok ws with
    | some n, some tmp, some mt, some db, some crc, some dw, some ws =>
      match (match mt with
        | none => some none
        | some l => (metaOf l).map some) with
      | some mt =>
        let dir : Dir DB := { tmp := tmp, mt := mt, db := db, crc := crc, dbWal := dw, wals := ws }
        ({ s := { d.s.set n (some dir) with names := addName d.s.names n } }, "ok")
      | none => (d, "bad-op")
    | _, _, _, _, _, _, _ => (d, "bad-op")
  | ["plan", ops] =>
    if ops == "none" then ({ s := { d.s with plan := none } }, "ok")
    else match parseOps ops with
      | some p => ({ s := { d.s with plan := some p } }, "ok")
      | none => (d, "bad-op")
  | ["plantmp", b] =>
    match boolTok b with
    | some b => ({ s := { d.s with planTmp := b } }, "ok")
    | none => (d, "bad-op")
  | ["exec", op] =>
    match parseOp op with
    | some op =>
      match execOp alg d.s op with
      | .ok s' => ({ s := s' }, "ok")
      | .error e => (d, errStr e)
    | none => (d, "bad-op")
  | ["done", op] =>
    match parseOp op with
    | some op => (d, boolStr (opDone d.s op))
    | none => (d, "bad-op")
  | ["lastdone"] =>
    match d.s.plan with
    | some p => (d, boolStr (lastOpDone d.s p))
    | none => (d, "noplan")
  | ["scan"] =>
    match scan d.s with
    | .ok xs => (d, "ok " ++ (if xs.isEmpty then "-" else " ".intercalate (xs.map showSnap)))
    | .error e => (d, errStr e)
  | ["obs"] =>
    match scan d.s with
    | .ok xs =>
      match observe alg xs with
      | some (i, t, db) => (d, s!"{i} {t} {optNatsStr db}")
      | none => (d, "none")
    | .error e => (d, errStr e)
  | ["mkplan", nn, vf] =>
    match nn.toNat?, boolTok vf with
    | some nn, some vf =>
      match scan d.s with
      | .error e => (d, errStr e)
      | .ok xs =>
        match mkReapPlan xs nn vf with
        | .error e => (d, errStr e)
        | .ok none => (d, "none")
        | .ok (some p) => (d, "plan " ++ showOps p)
    | _, _ => (d, "bad-op")
  | ["reap", nn, vf] =>
    match nn.toNat?, boolTok vf with
    | some nn, some vf =>
      match reap alg d.s nn vf with
      | .ok s' => ({ s := s' }, "ok")
      | .error e => (d, errStr e)
    | _, _ => (d, "bad-op")
  | ["reapck", nn, vf, vok, iok] =>
    match nn.toNat?, boolTok vf, boolTok vok, boolTok iok with
    | some nn, some vf, some vok, some iok =>
      match reapChecked alg d.s nn vf vok iok with
      | .ok s' => ({ s := s' }, "ok")
      | .error e => (d, errStr e)
    | _, _, _, _ => (d, "bad-op")
  | ["reapcrash", nn, vf, cut] =>
    match nn.toNat?, boolTok vf, parseReapCut cut with
    | some nn, some vf, some cut => ({ s := reapCrash alg d.s nn vf cut }, "ok")
    | _, _, _ => (d, "bad-op")
  | ["reccrash", cut] =>
    match parseRecCut cut with
    | some cut => ({ s := recCrash alg d.s cut }, "ok")
    | none => (d, "bad-op")
  | ["check"] =>
    match check alg d.s with
    | .ok s' => ({ s := s' }, "ok")
    | .error e => (d, errStr e)
  | ["dump"] => (d, dump d.s)
  | _ => (d, "bad-op")

end RqModel.SnapFSDrv
--! driver: snapfs RqModel.SnapFSDrv

/-
C18  Every endpoint and inter-node request enforces its permission.

Property theorems only. Model: RqModel/Model/Wire.lean over the facts the
translator regenerates from http/service.go and cluster/service.go on every run
(RqModel/Gen/HttpRoutes.lean, RqModel/Gen/ClusterCmds.lean); credential
decisions are `RqModel.Auth.aa` (C19). Helper lemmas: RqModel/Lemmas/Wire.lean.
-/
import RqModel.Lemmas.Wire
namespace C18
open RqModel RqModel.Wire
open RqModel.Gen.ClusterCmds
open RqModel.Gen.HttpRoutes

/-! ### inter-node commands -/

/-- fact obligation: the translator found the `switch c.Type`, it has no default
case (an unknown type runs nothing and writes nothing), and every command type of
the protocol other than UNKNOWN has a case. -/
theorem cluster_switch_shape :
    RqModel.Gen.ClusterCmds.switchFound = true ∧ switchHasDefault = false ∧
    protoCommandTypes.all (fun n => n == "UNKNOWN" || (findCmd n).isSome) = true := by decide

/-- fact obligation: every case of the switch is classified by the expectation
table (a new command type must be given a permission or be declared public). -/
theorem every_command_classified : ∀ c ∈ cmds, (requiredOf c.name).isSome = true := by decide

/-- the per-case decision procedure succeeds on every regenerated case that has a
required permission -/
theorem cluster_cases_checked :
    cmds.all (fun c => match requiredOf c.name with
      | some (some req) => checkRefused req c.body
      | _ => true) = true := by decide +kernel

/-- ∀ command case of the regenerated handleConn, ∀ credential store (or none),
∀ presented user/password, ∀ payload (present or nil, voter or not), ∀ outcomes of
every other condition in the case (errors of the action, write errors, …):
if the credentials are not authorised for the command's required permission(s) then
the case performs no action, streams nothing, does not crash, and writes at most
one response frame, which carries an error. -/
theorem cluster_no_action_no_data_when_denied
    (c : Cmd) (hc : c ∈ cmds) (req : BExp) (hreq : requiredOf c.name = some (some req))
    (store : Option Auth.Store) (u p : String) (payloadNil voter : Bool) (oq : Nat → Bool)
    (hden : authorised (envOf store u p payloadNil voter oq) req = false) :
    refusedOK (runCmd (envOf store u p payloadNil voter oq) c.body) = true := by
  have h := cluster_cases_checked
  rw [List.all_eq_true] at h
  have h' := h c hc
  rw [hreq] at h'
  exact checkRefused_sound req c.body h' _ hden

/-- the same, spelled out for a configured store and a single-permission command:
credentials that `aa` refuses get an error frame and nothing else -/
theorem cluster_single_perm_denied
    (c : Cmd) (hc : c ∈ cmds) (perm : String) (hreq : requiredOf c.name = some (some (.perm perm)))
    (s : Auth.Store) (u p : String) (payloadNil voter : Bool) (oq : Nat → Bool)
    (hden : Auth.aa s u p perm = false) :
    refusedOK (runCmd (envOf (some s) u p payloadNil voter oq) c.body) = true := by
  apply cluster_no_action_no_data_when_denied c hc (.perm perm) hreq
  simp [authorised, evalB, envOf, hden]

/-- conversely (the guard does not refuse everybody): with a present payload,
authorised credentials and no failing step, every guarded case runs its action and
answers without error. -/
theorem cluster_authorised_acts :
    cmds.all (fun c => match requiredOf c.name with
      | some (some _) =>
        let tr := runCmd (envOf none "" "" false true (fun _ => false)) c.body
        tr.any (fun e => match e with | .action _ => true | _ => false) &&
        (tr.contains (.resp false) || tr.any (fun e => match e with | .stream _ => true | _ => false))
      | _ => true) = true := by decide +kernel

/-- the same check with a configured store: user `a`/`p` holding `all` -/
theorem cluster_authorised_acts_with_store :
    cmds.all (fun c => match requiredOf c.name with
      | some (some _) =>
        let tr := runCmd (envOf (some (Auth.put {} ⟨"a", "p", ["all"]⟩)) "a" "p" false true (fun _ => false)) c.body
        tr.any (fun e => match e with | .action _ => true | _ => false) &&
        (tr.contains (.resp false) || tr.any (fun e => match e with | .stream _ => true | _ => false))
      | _ => true) = true := by decide +kernel

/-! ### commands without a required permission

The expectation table declares GET_NODE_META, LOAD_CHUNK and HIGHWATER_MARK_UPDATE
public (`none`), which removes them from `cluster_no_action_no_data_when_denied`. That
exclusion is made explicit here: the statement without it, what holds under it, and
the command for which it fails. -/

/-- full statement: for EVERY command case, when no permission check passes for the
caller, the node changes no state (read-only metadata calls are allowed), streams
nothing and does not crash -/
def every_state_change_needs_permission_full : Prop :=
  ∀ c ∈ cmds, ∀ env : Env, (∀ p, env (.perm p) = false) → noMutation (runCmd env c.body) = true

theorem state_change_cases_checked :
    cmds.all (fun c => c.name == "HIGHWATER_MARK_UPDATE" || checkNoPermNoMutation c.body) = true := by
  decide +kernel

/-- ∀ command case other than HIGHWATER_MARK_UPDATE (in particular the public
GET_NODE_META and LOAD_CHUNK), ∀ payload, ∀ outcomes of the other conditions: when
every permission check fails, no state-changing action runs. -/
theorem every_state_change_needs_permission_partial (c : Cmd) (hc : c ∈ cmds)
    (hx : c.name ≠ "HIGHWATER_MARK_UPDATE") (env : Env) (h : ∀ p, env (.perm p) = false) :
    noMutation (runCmd env c.body) = true := by
  have hall := state_change_cases_checked
  rw [List.all_eq_true] at hall
  have := hall c hc
  simp only [Bool.or_eq_true, beq_iff_eq] at this
  rcases this with h1 | h1
  · exact absurd h1 hx
  · exact checkNoPermNoMutation_sound c.body h1 env h

/-- witness: HIGHWATER_MARK_UPDATE with a payload, no permission check passing, the
update channel registered and not full: the value is delivered to the CDC service -/
theorem every_state_change_needs_permission_witness : ¬ every_state_change_needs_permission_full := by
  intro hfull
  have hmem : (findCmd "HIGHWATER_MARK_UPDATE").isSome = true := by decide +kernel
  match hf : findCmd "HIGHWATER_MARK_UPDATE", hmem with
  | some c, _ =>
    have hc : c ∈ cmds := List.mem_of_find?_eq_some hf
    let env : Env := fun a => match a with | .other _ => true | _ => false
    have := hfull c hc env (fun p => rfl)
    have hw : (findCmd "HIGHWATER_MARK_UPDATE").map (fun c => noMutation (runCmd env c.body)) = some false := by
      decide +kernel
    rw [hf] at hw
    simp only [Option.map_some, Option.some.injEq] at hw
    rw [this] at hw
    exact absurd hw (by decide)

/-! ### HTTP -/

def allowedBeforeGuard : List String :=
  ["w.Header().Set(\"Content-Type\", \"application/json; charset=utf-8\")",
   "w.Header().Set(\"Content-Type\", \"text/plain; charset=utf-8\")"]

/-- fact obligation: in every handler the routing switch dispatches to, the
permission guard `if !s.CheckRequestPerm[All](r, …) { w.WriteHeader(401); return }`
is preceded by nothing but setting the Content-Type header. -/
theorem http_guard_first : ∀ h ∈ handlers,
    h.pre.all (allowedBeforeGuard.contains ·) = true ∧ h.guardAll.isSome = true ∧ h.negated = true ∧
    h.denyBody = ["w.WriteHeader(http.StatusUnauthorized)", "return"] := by decide

/-- fact obligation: what ServeHTTP does before the routing switch is exactly: set
the version and CORS headers, announce Basic auth when a store is configured, answer
OPTIONS with 200 and no body, parse the query parameters (400 on failure) — nothing
that touches the store or returns data. -/
theorem http_prelude_shape :
    RqModel.Gen.HttpRoutes.prelude =
      ["s.addBuildVersion(w)", "s.addAllowHeaders(w)",
       "if s.credentialStore != nil { w.Header().Set(\"WWW-Authenticate\", `Basic realm=\"rqlite\"`) }",
       "if r.Method == http.MethodOptions { w.WriteHeader(http.StatusOK) return }",
       "params, err := NewQueryParams(r)",
       "if err != nil { http.Error(w, err.Error(), http.StatusBadRequest) return }"] := by decide

def handlerOK (h : Handler) : Bool :=
  match Auth.lookup expectedHttp h.name with
  | some (all, perms) => h.guardAll == some all && h.perms == perms
  | none => false

def routeOK (r : Route) : Bool :=
  r.post.isEmpty &&
  (r.handler == "" ||
   (r.pre.all (fun p => p == .stat || (match p with | .redirectIfExact _ => true | _ => false)) &&
    match handlers.find? (fun h => h.name == r.handler) with
    | some h => handlerOK h
    | none => false))

/-- fact obligation: every route of the switch that calls a handler calls one whose
guard demands exactly the documented permission(s); nothing follows the handler
call; before it only counters and the `/console` redirect. Every `handle*` method
of the service is one of those handlers. -/
theorem http_perm_table :
    (∀ r ∈ routes, routeOK r = true) ∧ (∀ h ∈ handlers, handlerOK h = true) ∧
    allHandleMethods.all (fun n => handlers.any (fun h => h.name == n)) = true ∧
    RqModel.Gen.HttpRoutes.switchFound = true := by decide

/-- fact obligation: each documented path reaches its documented handler (no
earlier prefix case shadows it). -/
theorem http_documented_paths_routed :
    expectedRoutes.all (fun e => serve routes handlers (fun _ => true) e.1 == .handled e.2) = true := by
  decide +kernel

/-- ∀ request path, ∀ credential decision function: the body of a handler runs only
if the credentials hold the documented permission(s) of that handler. -/
theorem http_no_action_when_denied (authz : String → Bool) (path h : String)
    (hs : serve routes handlers authz path = .handled h) :
    ∃ e, Auth.lookup expectedHttp h = some e ∧ expectedSat authz e = true := by
  unfold serve at hs
  cases hd : dispatch routes path with
  | none => simp [hd] at hs
  | some r =>
    have hr : r ∈ routes := List.mem_of_find?_eq_some hd
    have hok := http_perm_table.1 r hr
    simp only [hd] at hs
    cases hp : preOutcome path r.pre with
    | some x =>
      simp only [hp] at hs
      -- a pre-statement outcome is never `handled`
      have : ∀ (l : List Pre) x, preOutcome path l = some x → ∀ n, x ≠ .handled n := by
        intro l
        induction l with
        | nil => intro x hx; simp [preOutcome] at hx
        | cons a as ih =>
          intro x hx n
          cases a with
          | stat => exact ih x (by simpa [preOutcome] using hx) n
          | redirect => simp [preOutcome] at hx; subst hx; simp
          | redirectIfExact q =>
            simp only [preOutcome] at hx
            split at hx
            · simp at hx; subst hx; simp
            · exact ih x hx n
          | status c =>
            simp only [preOutcome] at hx
            cases hq : preOutcome path as with
            | some y => simp [hq] at hx; subst hx; exact ih y hq n
            | none => simp [hq] at hx; subst hx; simp
          | other s => exact ih x (by simpa [preOutcome] using hx) n
      exact absurd hs (this r.pre x hp h)
    | none =>
      simp only [hp] at hs
      by_cases hh : (r.handler == "") = true
      · simp [hh] at hs
      · simp only [hh] at hs
        cases hf : handlers.find? (fun h => h.name == r.handler) with
        | none => simp [hf] at hs
        | some hd' =>
          simp only [hf] at hs
          have hk : handlerOK hd' = true := by
            have h2 := hok
            simp [routeOK, hh, hf] at h2
            exact h2.2.2
          unfold handlerOK at hk
          cases he : Auth.lookup expectedHttp hd'.name with
          | none => simp [he] at hk
          | some e =>
            obtain ⟨all, perms⟩ := e
            simp only [he, Bool.and_eq_true, beq_iff_eq] at hk
            unfold guardPasses at hs
            rw [hk.1] at hs
            cases all with
            | true =>
              cases hg : hd'.perms.all authz with
              | false => simp [hg] at hs
              | true =>
                simp [hg] at hs
                subst hs
                exact ⟨(true, perms), he, by simp only [expectedSat, if_true]; rw [← hk.2]; exact hg⟩
            | false =>
              cases hg : hd'.perms.any authz with
              | false => simp [hg] at hs
              | true =>
                simp [hg] at hs
                subst hs
                exact ⟨(false, perms), he, by simp only [expectedSat]; rw [← hk.2]; simpa using hg⟩

/-- the same with the credential decision spelled out: a request presenting
user/password to a node with credential store `s` reaches a handler body only if
`aa` grants the handler's documented permission(s). -/
theorem http_handler_needs_permission (s : Auth.Store) (u p path h : String)
    (hs : serve routes handlers (fun perm => Auth.aa s u p perm) path = .handled h) :
    ∃ e, Auth.lookup expectedHttp h = some e ∧
      expectedSat (fun perm => Auth.aa s u p perm) e = true :=
  http_no_action_when_denied _ path h hs

/-! ### non-vacuity -/

-- a refused EXECUTE: store grants execute to nobody
example :
    let s : Auth.Store := Auth.put {} ⟨"a", "p", ["query"]⟩
    (findCmd "EXECUTE").map (fun c => runCmd (envOf (some s) "a" "p" false false (fun _ => false)) c.body)
      = some [.resp true] ∧
    (findCmd "QUERY").map (fun c => runCmd (envOf (some s) "a" "p" false false (fun _ => false)) c.body)
      = some [.action "db.Query", .resp false] := by decide +kernel

-- HTTP: wrong password is refused, right password reaches the handler, any /db/query… path is guarded
example :
    let s : Auth.Store := Auth.put {} ⟨"a", "p", ["query"]⟩
    serve routes handlers (fun perm => Auth.aa s "a" "p" perm) "/db/query" = .handled "handleQuery" ∧
    serve routes handlers (fun perm => Auth.aa s "a" "x" perm) "/db/queryXYZ" = .unauthorized401 ∧
    serve routes handlers (fun perm => Auth.aa s "a" "p" perm) "/db/execute" = .unauthorized401 ∧
    serve routes handlers (fun perm => Auth.aa s "" "" perm) "/nothing" = .status "http.StatusNotFound" := by
  decide +kernel

end C18

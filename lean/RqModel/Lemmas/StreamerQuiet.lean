/-
Quiet schedules of the snapshot-stream system (no new acquisitions): what they do to each
stream and to the counters. Used by Props/C11 for the composed liveness theorem.
-/
import RqModel.Lemmas.Streamer
namespace RqModel.Streamer
open RqModel.Rsync

/-- steps that acquire nothing: closes, idle callbacks, reads that return no data, and the
releases of short readers and of a reaper -/
def Quiet : Step → Bool
  | .close _ => true
  | .checkIdle _ _ => true
  | .read _ _ n => n == 0
  | .auxEnd => true
  | .reapEnd => true
  | _ => false

/-- this step ends stream `i` (whose last read and timeout are those of `a`) -/
def Ends (st : Step) (i : Nat) (a : Stream) : Prop :=
  st = .close i ∨ ∃ now, st = .checkIdle i now ∧ a.lastRead + a.timeout ≤ now

theorem release_streams (s : Sys) (rel : Bool) : (release s rel).streams = s.streams := by
  unfold release
  split
  · simp only [note]; split <;> rfl
  · rfl

theorem release_aux (s : Sys) (rel : Bool) : (release s rel).aux = s.aux ∧ (release s rel).reaping = s.reaping := by
  unfold release
  split
  · simp only [note]; split <;> exact ⟨rfl, rfl⟩
  · exact ⟨rfl, rfl⟩

/-- what a quiet step does to one stream -/
theorem quiet_stream (s : Sys) (st : Step) (hq : Quiet st = true) (i : Nat) (a : Stream)
    (hg : s.streams[i]? = some a) :
    ∃ a1, (step s st).streams[i]? = some a1 ∧ a1.timeout = a.timeout ∧ a1.lastRead = a.lastRead ∧
      (a.closed = true → a1.closed = true) ∧ (Ends st i a → a1.closed = true) := by
  have hi : i < s.streams.length := by
    rcases Nat.lt_or_ge i s.streams.length with h | h
    · exact h
    · rw [List.getElem?_eq_none h] at hg; cases hg
  cases st with
  | open_ t n => simp [Quiet] at hq
  | openFail => simp [Quiet] at hq
  | auxBegin => simp [Quiet] at hq
  | auxBeginBlocking => simp [Quiet] at hq
  | reapTry => simp [Quiet] at hq
  | reapBlocking => simp [Quiet] at hq
  | close j =>
    simp only [step]
    cases hj : s.streams[j]? with
    | none =>
      refine ⟨a, hg, rfl, rfl, fun h => h, ?_⟩
      rintro (e | ⟨now, e, _⟩)
      · simp only [Step.close.injEq] at e; subst e; rw [hg] at hj; cases hj
      · cases e
    | some b =>
      simp only [release_streams]
      by_cases hji : j = i
      · subst hji
        rw [hg] at hj; cases hj
        refine ⟨a.close.1, by simp [List.getElem?_set_self hi], ?_, ?_, ?_, ?_⟩ <;>
          cases hc : a.closed <;> simp [Stream.close, hc]
      · refine ⟨a, by rw [List.getElem?_set_ne hji]; exact hg, rfl, rfl, fun h => h, ?_⟩
        rintro (e | ⟨now, e, _⟩)
        · simp only [Step.close.injEq] at e; exact absurd e hji
        · cases e
  | checkIdle j now =>
    simp only [step]
    cases hj : s.streams[j]? with
    | none =>
      refine ⟨a, hg, rfl, rfl, fun h => h, ?_⟩
      rintro (e | ⟨n', e, _⟩)
      · cases e
      · simp only [Step.checkIdle.injEq] at e; obtain ⟨e1, _⟩ := e; subst e1; rw [hg] at hj; cases hj
    | some b =>
      simp only [release_streams]
      by_cases hji : j = i
      · subst hji
        rw [hg] at hj; cases hj
        refine ⟨(a.checkIdle now).1, by simp [List.getElem?_set_self hi], ?_, ?_, ?_, ?_⟩
        · unfold Stream.checkIdle; split; · rfl
          dsimp only; split <;> rfl
        · unfold Stream.checkIdle; split; · rfl
          dsimp only; split <;> rfl
        · intro hc; unfold Stream.checkIdle; simp [hc]
        · rintro (e | ⟨n', e, hle⟩)
          · cases e
          · simp only [Step.checkIdle.injEq] at e
            obtain ⟨_, e2⟩ := e
            subst e2
            unfold Stream.checkIdle
            split
            · rename_i hc; simpa using hc
            · dsimp only
              have : ¬ (now - a.lastRead < a.timeout) := by omega
              simp [this]
      · refine ⟨a, by rw [List.getElem?_set_ne hji]; exact hg, rfl, rfl, fun h => h, ?_⟩
        rintro (e | ⟨n', e, _⟩)
        · cases e
        · simp only [Step.checkIdle.injEq] at e; exact absurd e.1 hji
  | read j now n =>
    have hn : n = 0 := by simpa [Quiet] using hq
    subst hn
    have hnot : ¬ Ends (.read j now 0) i a := by
      rintro (e | ⟨n', e, _⟩) <;> cases e
    simp only [step]
    cases hj : s.streams[j]? with
    | none => exact ⟨a, hg, rfl, rfl, fun h => h, fun h => absurd h hnot⟩
    | some b =>
      simp only
      cases hr : b.read now 0 with
      | none => exact ⟨a, hg, rfl, rfl, fun h => h, fun h => absurd h hnot⟩
      | some b' =>
        have hb : b' = b := by
          unfold Stream.read at hr
          split at hr
          · cases hr
          · simpa using hr.symm
        subst hb
        simp only
        by_cases hji : j = i
        · subst hji
          rw [hg] at hj; cases hj
          exact ⟨a, by simp [List.getElem?_set_self hi], rfl, rfl, fun h => h, fun h => absurd h hnot⟩
        · exact ⟨a, by rw [List.getElem?_set_ne hji]; exact hg, rfl, rfl, fun h => h, fun h => absurd h hnot⟩
  | auxEnd =>
    have hnot : ¬ Ends .auxEnd i a := by rintro (e | ⟨n', e, _⟩) <;> cases e
    simp only [step]
    split
    · simp only [note]; split <;> exact ⟨a, hg, rfl, rfl, fun h => h, fun h => absurd h hnot⟩
    · exact ⟨a, hg, rfl, rfl, fun h => h, fun h => absurd h hnot⟩
  | reapEnd =>
    have hnot : ¬ Ends .reapEnd i a := by rintro (e | ⟨n', e, _⟩) <;> cases e
    simp only [step]
    split
    · simp only [note]; split <;> exact ⟨a, hg, rfl, rfl, fun h => h, fun h => absurd h hnot⟩
    · exact ⟨a, hg, rfl, rfl, fun h => h, fun h => absurd h hnot⟩

theorem quiet_length (s : Sys) (st : Step) (hq : Quiet st = true) :
    (step s st).streams.length = s.streams.length := by
  cases st with
  | open_ t n => simp [Quiet] at hq
  | openFail => simp [Quiet] at hq
  | auxBegin => simp [Quiet] at hq
  | auxBeginBlocking => simp [Quiet] at hq
  | reapTry => simp [Quiet] at hq
  | reapBlocking => simp [Quiet] at hq
  | close j =>
    simp only [step]
    cases s.streams[j]? with
    | none => rfl
    | some b => simp [release_streams]
  | checkIdle j now =>
    simp only [step]
    cases s.streams[j]? with
    | none => rfl
    | some b => simp [release_streams]
  | read j now n =>
    simp only [step]
    cases s.streams[j]? with
    | none => rfl
    | some b =>
      simp only
      cases b.read now n with
      | none => rfl
      | some b' => simp
  | auxEnd =>
    simp only [step]
    split
    · simp only [note]; split <;> rfl
    · rfl
  | reapEnd =>
    simp only [step]
    split
    · simp only [note]; split <;> rfl
    · rfl

theorem quiet_counts (s : Sys) (st : Step) (hq : Quiet st = true) :
    (step s st).aux = (if st = .auxEnd then s.aux - 1 else s.aux) ∧
    (step s st).reaping = (if st = .reapEnd then s.reaping - 1 else s.reaping) := by
  cases st with
  | open_ t n => simp [Quiet] at hq
  | openFail => simp [Quiet] at hq
  | auxBegin => simp [Quiet] at hq
  | auxBeginBlocking => simp [Quiet] at hq
  | reapTry => simp [Quiet] at hq
  | reapBlocking => simp [Quiet] at hq
  | close j =>
    simp only [step]
    cases s.streams[j]? with
    | none => simp
    | some b => simp [(release_aux _ _).1, (release_aux _ _).2]
  | checkIdle j now =>
    simp only [step]
    cases s.streams[j]? with
    | none => simp
    | some b => simp [(release_aux _ _).1, (release_aux _ _).2]
  | read j now n =>
    simp only [step]
    cases s.streams[j]? with
    | none => simp
    | some b =>
      simp only
      cases b.read now n with
      | none => simp
      | some b' => simp
  | auxEnd =>
    simp only [step]
    split
    · simp only [note]; split <;> simp
    · rename_i h; simp; omega
  | reapEnd =>
    simp only [step]
    split
    · simp only [note]; split <;> simp
    · rename_i h; simp; omega

theorem run_quiet_counts (sched : List Step) (s : Sys) (hq : ∀ st ∈ sched, Quiet st = true)
    (ha : s.aux ≤ sched.count .auxEnd) (hr : s.reaping ≤ sched.count .reapEnd) :
    (run s sched).aux = 0 ∧ (run s sched).reaping = 0 := by
  induction sched generalizing s with
  | nil => simp at ha hr; exact ⟨ha, hr⟩
  | cons st rest ih =>
    simp only [run, List.foldl_cons]
    obtain ⟨c1, c2⟩ := quiet_counts s st (hq st List.mem_cons_self)
    apply ih _ (fun x hx => hq x (List.mem_cons_of_mem _ hx))
    · rw [c1]
      by_cases e : st = .auxEnd
      · subst e; simp at ha ⊢; omega
      · have : rest.count .auxEnd = (st :: rest).count .auxEnd := by
          rw [List.count_cons]; simp [e]
        simp only [e, if_false]; omega
    · rw [c2]
      by_cases e : st = .reapEnd
      · subst e; simp at hr ⊢; omega
      · have : rest.count .reapEnd = (st :: rest).count .reapEnd := by
          rw [List.count_cons]; simp [e]
        simp only [e, if_false]; omega

theorem ends_congr (st : Step) (i : Nat) (a a1 : Stream) (h1 : a1.timeout = a.timeout)
    (h2 : a1.lastRead = a.lastRead) (h : Ends st i a) : Ends st i a1 := by
  rcases h with e | ⟨now, e, hle⟩
  · exact Or.inl e
  · exact Or.inr ⟨now, e, by rw [h1, h2]; exact hle⟩

theorem run_quiet_closed (sched : List Step) (s : Sys) (hq : ∀ st ∈ sched, Quiet st = true)
    (i : Nat) (a : Stream) (hg : s.streams[i]? = some a)
    (h : a.closed = true ∨ ∃ st ∈ sched, Ends st i a) :
    ∃ a', (run s sched).streams[i]? = some a' ∧ a'.closed = true := by
  induction sched generalizing s a with
  | nil =>
    rcases h with h | ⟨st, hm, _⟩
    · exact ⟨a, hg, h⟩
    · cases hm
  | cons st rest ih =>
    simp only [run, List.foldl_cons]
    obtain ⟨a1, hg1, ht, hl, hc, he⟩ := quiet_stream s st (hq st List.mem_cons_self) i a hg
    apply ih _ (fun x hx => hq x (List.mem_cons_of_mem _ hx)) a1 hg1
    rcases h with h | ⟨st', hm, hends⟩
    · exact Or.inl (hc h)
    · rcases List.mem_cons.1 hm with e | hm'
      · subst e; exact Or.inl (he hends)
      · exact Or.inr ⟨st', hm', ends_congr _ _ _ _ ht hl hends⟩

theorem run_quiet_length (sched : List Step) (s : Sys) (hq : ∀ st ∈ sched, Quiet st = true) :
    (run s sched).streams.length = s.streams.length := by
  induction sched generalizing s with
  | nil => rfl
  | cons st rest ih =>
    simp only [run, List.foldl_cons]
    exact (ih _ (fun x hx => hq x (List.mem_cons_of_mem _ hx))).trans (quiet_length s st (hq st List.mem_cons_self))

end RqModel.Streamer

/-
Model of the read-consistency dispatch of store/store.go (`Store.Query`,
`Store.Request`, `Store.isStaleRead`) and of `store.IsStaleRead` (store/state.go). C16.

* `isStaleRead` transcribes `IsStaleRead` over `Int` nanoseconds. `time.Since(t)` and
  `Time.Sub` saturate at the int64 range of `time.Duration`; `satSub` models that. A
  zero `time.Time` for the last-appended time (`IsZero()`) is `none`.
* `query` / `request` transcribe the guard order of `Store.Query` / `Store.Request`
  down to the point where the request is either served from the local database,
  sent through the raft log, or refused. The two sub-decisions are parameters of the
  environment: `staleRead` is the result of `s.isStaleRead(freshness, strict)`
  (`storeIsStale`), `lin` the result of `waitForLinearizableRead` (`LinRead.waitLin`).
  After the `fix:` commit `Request` resolves AUTO exactly like `Query`
  (`requestOld` keeps the earlier behaviour, where AUTO fell through every guard).
-/
import RqModel.Model.LinRead
namespace RqModel.ReadLevel
open RqModel.Util
open RqModel.LinRead (LinOut)

def maxI64 : Int := 9223372036854775807
def minI64 : Int := -9223372036854775808

/-- `a.Sub(b).Nanoseconds()` for instants given in ns: saturating subtraction -/
def satSub (a b : Int) : Int :=
  if a - b > maxI64 then maxI64 else if a - b < minI64 then minI64 else a - b

structure StaleIn where
  now         : Int          -- the clock read by `time.Since`
  lastContact : Int          -- `leaderlastContact`
  fsmUpdate   : Int          -- `lastFSMUpdateTime`
  appendedAt  : Option Int   -- `lastAppendedAtTime`; `none` = zero Time
  fsmIndex    : Nat
  commitIndex : Nat
  freshness   : Int
  strict      : Bool
deriving Repr, DecidableEq

def isStaleRead (i : StaleIn) : Bool :=
  if i.freshness = 0 then false
  else if satSub i.now i.lastContact > i.freshness then true
  else if !i.strict then false
  else match i.appendedAt with
    | none => false
    | some a =>
      if i.fsmIndex = i.commitIndex then false
      else decide (satSub i.fsmUpdate a > i.freshness)

/-- `(*Store).isStaleRead`: a node that believes it is leader is never stale -/
def storeIsStale (isLeader : Bool) (i : StaleIn) : Bool :=
  if isLeader then false else isStaleRead i

/-! ### the bookkeeping the staleness decision reads (store/store.go `fsmApply`, deferred block)

For EVERY entry handed to `FSM.Apply` — whatever its command type and whether or not it
changed the database — the deferred block records `fsmIdx := l.Index`,
`fsmUpdateTime := time.Now()` and `appendedAtTime := l.AppendedAt` together, so the three
always describe the SAME, last applied entry. (`dbAppliedIdx` alone is only advanced for
mutating entries.) -/

structure Book where
  fsmIdx     : Nat := 0
  fsmUpdate  : Int := 0
  appendedAt : Option Int := Option.none
deriving Repr, DecidableEq

/-- `fsmApply` of the entry `idx`, appended by the leader at `appended`, applied at `applied` -/
def Book.apply (_ : Book) (idx : Nat) (applied appended : Int) : Book :=
  { fsmIdx := idx, fsmUpdate := applied, appendedAt := some appended }

/-- `fsmRestore` (snapshot install): only the index moves (`s.fsmIdx.Store(li)`); the two
times keep describing the last entry that was applied one by one -/
def Book.restore (b : Book) (li : Nat) : Book := { b with fsmIdx := li }

/-- `Store.Open` on the fast-restart path: a fresh Store whose `fsmIdx` is the snapshot index
and whose times are unset -/
def Book.fastOpen (_ : Book) (li : Nat) : Book := { fsmIdx := li }

inductive BookEv
  | apply (idx : Nat) (applied appended : Int)
  | restore (li : Nat)
  | fastOpen (li : Nat)
deriving Repr, DecidableEq

def Book.step (b : Book) : BookEv → Book
  | .apply idx u a => b.apply idx u a
  | .restore li => b.restore li
  | .fastOpen li => b.fastOpen li

def Book.run (b : Book) (evs : List BookEv) : Book := evs.foldl Book.step b

/-- (apply time, append time) of the last entry applied one by one in this process, if any -/
def lastApply (init : Option (Int × Int)) : List BookEv → Option (Int × Int)
  | [] => init
  | .apply _ u a :: rest => lastApply (some (u, a)) rest
  | .restore _ :: rest => lastApply init rest
  | .fastOpen _ :: rest => lastApply Option.none rest

/-- the arguments `(*Store).isStaleRead` hands to `IsStaleRead` -/
def Book.staleIn (b : Book) (now lastContact : Int) (commandCommitIndex : Nat) (freshness : Int) (strict : Bool) : StaleIn :=
  ⟨now, lastContact, b.fsmUpdate, b.appendedAt, b.fsmIdx, commandCommitIndex, freshness, strict⟩

inductive Level | none | weak | strong | auto | linearizable
deriving DecidableEq, Repr

inductive ApplyOut | ok | notLeader | leadershipLost | other
deriving DecidableEq, Repr

inductive Outcome
  | localRead (eff : Level)   -- served by `s.db.QueryWithContext` at effective level `eff`
  | viaLog (eff : Level)      -- went through `s.raft.Apply` (and `strongReadTerm` was stored)
  | errPragma | errNotOpen | errInvalidRequest | errCtx | errVoter
  | errThrottle               -- `s.throttler.Delay(ctx)` failed (Request only)
  | errNotLeader | errNotReady | errStaleRead
  | errLin (o : LinOut)       -- any other error of waitForLinearizableRead, passed through
  | errApply                  -- any other raft.Apply error, passed through
deriving DecidableEq, Repr

/-- everything the dispatch looks at -/
structure Env where
  pragmaOk  : Bool           -- `p.Check() == nil`
  opened    : Bool           -- `s.open.Is()`
  ctxOk     : Bool           -- `ctx.Err() == nil`
  isLeader  : Bool           -- `s.raft.State() == raft.Leader`
  voter     : Option Bool    -- `s.IsVoter()`; `none` = error
  ready     : Bool           -- `s.Ready()`
  staleRead : Bool           -- `s.isStaleRead(freshness, strict)`
  lin       : LinOut         -- `s.waitForLinearizableRead(...)`
  apply     : ApplyOut       -- outcome of `s.raft.Apply` if it is reached
  reqOk     : Bool := true   -- the request carries a statement list (`qr.Request != nil`)
  throttleOk : Bool := true  -- `s.throttler.Delay(ctx) == nil` (Request, before the log append)
deriving Repr, DecidableEq

/-- AUTO becomes WEAK on a voter and NONE otherwise -/
def resolveAuto (l : Level) (voter : Option Bool) : Option Level :=
  if l = .auto then
    match voter with
    | Option.none => Option.none
    | some true => some .weak
    | some false => some .none
  else some l

/-- the LINEARIZABLE stage: wait, or upgrade to STRONG, or fail -/
def linStage (l : Level) (e : Env) : Except Outcome Level :=
  if l = .linearizable then
    match e.lin with
    | .ok => .ok .linearizable
    | .strongNeeded => .ok .strong
    | .notLeader => .error .errNotLeader
    | .notReady => .error .errNotReady
    | o => .error (.errLin o)
  else .ok l

def query (lvl : Level) (e : Env) : Outcome :=
  if !e.pragmaOk then .errPragma
  else if !e.opened then .errNotOpen
  else if !e.reqOk then .errInvalidRequest
  else if !e.ctxOk then .errCtx
  else match resolveAuto lvl e.voter with
    | Option.none => .errVoter
    | some l1 =>
      match linStage l1 e with
      | .error o => o
      | .ok l2 =>
        if l2 = .strong then
          if !e.isLeader then .errNotLeader
          else if !e.ready then .errNotReady
          else match e.apply with
            | .ok => .viaLog .strong
            | .notLeader => .errNotLeader
            | .leadershipLost => .errNotLeader
            | .other => .errApply
        else if l2 = .weak && !e.isLeader then .errNotLeader
        else if l2 = .none && e.staleRead then .errStaleRead
        else .localRead l2

/-- the part of `Request` after the level has been settled; `nRW` is the number of
statements that are not read-only -/
def requestTail (l2 : Level) (nRW : Nat) (e : Env) : Outcome :=
  if nRW = 0 && l2 ≠ .strong then
    if l2 = .none && e.staleRead then .errStaleRead
    else if l2 = .weak && !e.isLeader then .errNotLeader
    else .localRead l2
  else if !e.isLeader then .errNotLeader
  else if !e.ready then .errNotReady
  else if !e.throttleOk then .errThrottle
  else match e.apply with
    | .ok => .viaLog l2
    | .notLeader => .errNotLeader
    | _ => .errApply

def request (lvl : Level) (nRW : Nat) (e : Env) : Outcome :=
  if !e.pragmaOk then .errPragma
  else if !e.opened then .errNotOpen
  else if !e.reqOk then .errInvalidRequest
  else if !e.ctxOk then .errCtx
  else match resolveAuto lvl e.voter with
    | Option.none => .errVoter
    | some l1 =>
      match linStage l1 e with
      | .error o => o
      | .ok l2 => requestTail l2 nRW e

/-- `Request` before the `fix:` commit: AUTO was not resolved -/
def requestOld (lvl : Level) (nRW : Nat) (e : Env) : Outcome :=
  if !e.pragmaOk then .errPragma
  else if !e.opened then .errNotOpen
  else if !e.reqOk then .errInvalidRequest
  else if !e.ctxOk then .errCtx
  else match linStage lvl e with
    | .error o => o
    | .ok l2 => requestTail l2 nRW e

/-! ### line protocol
`stale now lastContact fsmUpdate appendedAt|- fsmIndex commitIndex freshness strict` → `true|false`
`bookreset` → `ok`; `bookapply IDX appliedNs appendedNs` → `ok` (one fsmApply);
`bookrestore LI` / `bookfastopen LI` → `ok` (fsmRestore / fast-path Open);
`book` → `fsmIdx fsmUpdateNs appendedAtNs|-`;
`bookstale now lastContact commandCommitIndex freshness strict` → `true|false`
`querynil` / `requestnil` → outcome for a request without statement list
`query LVL leader voter(t|f|e) ready stale readTerm strongTerm` → outcome
`request LVL nRW leader voter ready stale readTerm strongTerm` → outcome
(open, pragma-free, live context; a healthy cluster: VerifyLeader succeeds iff the
node is leader, the term does not change, nothing is left to wait for, Apply succeeds
iff the node is leader) -/

structure DState where
  book : Book := {}

def parseLevel : String → Option Level
  | "none" => some .none
  | "weak" => some .weak
  | "strong" => some .strong
  | "auto" => some .auto
  | "linearizable" => some .linearizable
  | _ => Option.none

def levelStr : Level → String
  | .none => "none"
  | .weak => "weak"
  | .strong => "strong"
  | .auto => "auto"
  | .linearizable => "linearizable"

def parseVoter : String → Option (Option Bool)
  | "t" => some (some true)
  | "f" => some (some false)
  | "e" => some Option.none
  | _ => Option.none

def outcomeStr : Outcome → String
  | .localRead l => "local:" ++ levelStr l
  | .viaLog l => "vialog:" ++ levelStr l
  | .errPragma => "err:pragma"
  | .errNotOpen => "err:notopen"
  | .errInvalidRequest => "err:invalidrequest"
  | .errThrottle => "err:throttle"
  | .errCtx => "err:ctx"
  | .errVoter => "err:voter"
  | .errNotLeader => "err:notleader"
  | .errNotReady => "err:notready"
  | .errStaleRead => "err:stale"
  | .errLin o => "err:lin:" ++ LinRead.outStr o
  | .errApply => "err:apply"

def healthyEnv (leader : Bool) (voter : Option Bool) (ready stale : Bool) (rt st : Nat) : Env :=
  { pragmaOk := true, opened := true, ctxOk := true, isLeader := leader, voter := voter, ready := ready,
    staleRead := stale,
    lin := LinRead.waitLin ⟨rt, st, leader, ready, {}, leader, rt, {}, {}⟩,
    apply := if leader then .ok else .notLeader }

def step (d : DState) (line : String) : DState × String :=
  match words line with
  | ["stale", now, lc, fu, aa, fi, ci, f, strict] =>
    match now.toInt?, lc.toInt?, fu.toInt?, fi.toNat?, ci.toNat?, f.toInt?, LinRead.parseBool strict with
    | some now, some lc, some fu, some fi, some ci, some f, some strict =>
      if aa == "-" then (d, boolStr (isStaleRead ⟨now, lc, fu, Option.none, fi, ci, f, strict⟩))
      else match aa.toInt? with
        | some a => (d, boolStr (isStaleRead ⟨now, lc, fu, some a, fi, ci, f, strict⟩))
        | Option.none => (d, "bad-op")
    | _, _, _, _, _, _, _ => (d, "bad-op")
  | ["bookreset"] => ({}, "ok")
  | ["bookapply", idx, applied, appended] =>
    match idx.toNat?, applied.toInt?, appended.toInt? with
    | some idx, some applied, some appended => ({ book := d.book.apply idx applied appended }, "ok")
    | _, _, _ => (d, "bad-op")
  | ["bookrestore", li] =>
    match li.toNat? with
    | some li => ({ book := d.book.restore li }, "ok")
    | Option.none => (d, "bad-op")
  | ["bookfastopen", li] =>
    match li.toNat? with
    | some li => ({ book := d.book.fastOpen li }, "ok")
    | Option.none => (d, "bad-op")
  | ["book"] =>
    (d, toString d.book.fsmIdx ++ " " ++ toString d.book.fsmUpdate ++ " " ++
        (match d.book.appendedAt with | some a => toString a | Option.none => "-"))
  | ["bookstale", now, lc, ci, f, strict] =>
    match now.toInt?, lc.toInt?, ci.toNat?, f.toInt?, LinRead.parseBool strict with
    | some now, some lc, some ci, some f, some strict =>
      (d, boolStr (isStaleRead (d.book.staleIn now lc ci f strict)))
    | _, _, _, _, _ => (d, "bad-op")
  | ["querynil"] => (d, outcomeStr (query .none { healthyEnv true (some true) true false 1 1 with reqOk := false }))
  | ["requestnil"] => (d, outcomeStr (request .none 0 { healthyEnv true (some true) true false 1 1 with reqOk := false }))
  | ["query", lvl, ld, v, rd, stl, rt, st] =>
    match parseLevel lvl, LinRead.parseBool ld, parseVoter v, LinRead.parseBool rd, LinRead.parseBool stl, rt.toNat?, st.toNat? with
    | some lvl, some ld, some v, some rd, some stl, some rt, some st =>
      (d, outcomeStr (query lvl (healthyEnv ld v rd stl rt st)))
    | _, _, _, _, _, _, _ => (d, "bad-op")
  | ["request", lvl, nrw, ld, v, rd, stl, rt, st] =>
    match parseLevel lvl, nrw.toNat?, LinRead.parseBool ld, parseVoter v, LinRead.parseBool rd, LinRead.parseBool stl, rt.toNat?, st.toNat? with
    | some lvl, some nrw, some ld, some v, some rd, some stl, some rt, some st =>
      (d, outcomeStr (request lvl nrw (healthyEnv ld v rd stl rt st)))
    | _, _, _, _, _, _, _, _ => (d, "bad-op")
  | _ => (d, "bad-op")

def init : DState := {}

end RqModel.ReadLevel
--! driver: readlevel RqModel.ReadLevel

package backup

// C37 correspondence + spec oracle (part a): the real Uploader.upload round function,
// called directly (in-package), with a scripted StorageClient and a scripted DataProvider,
// against the Lean model `uploader` (RqModel/Model/Uploader.lean) on generated histories
// of writes, rounds (provider failure, LastIndex failure, unreadable / foreign remote id,
// storage failure, writes landing during the round) and uploader restarts.

import (
	"context"
	"errors"
	"fmt"
	"io"
	"strconv"
	"strings"
	"testing"
)

// c37Provider is the scripted DataProvider. The "database" is just its index: a backup of
// it is the text `db@<c>` where c is the newest change it contains.
type c37Provider struct {
	db         uint64 // DBAppliedIndex
	liErr      bool   // next LastIndex fails
	provideErr bool   // next Provide fails
	during     uint64 // entries applied between LastIndex() and the backup's point in time
	after      uint64 // entries applied after the backup's point in time, before the round ends
	provided   int
	lastC      uint64
	liCalls    int
}

func (p *c37Provider) LastIndex() (uint64, error) {
	p.liCalls++
	if p.liErr {
		return 0, errors.New("scripted LastIndex failure")
	}
	return p.db, nil
}

func (p *c37Provider) Provide(w io.WriteSeeker) error {
	p.provided++
	// writes land while the backup is being produced
	p.db += p.during
	c := p.db
	p.db += p.after
	if p.provideErr {
		// a failing provider may already have written something
		w.Write([]byte("partial"))
		return errors.New("scripted Provide failure")
	}
	p.lastC = c
	_, err := w.Write([]byte(fmt.Sprintf("db@%d", c)))
	return err
}

type c37Upload struct {
	id      string
	content string
}

// c37Client is the scripted StorageClient: one remote object.
type c37Client struct {
	remoteID      string // id of the object in the store ("" = none)
	remoteContent string
	forceID       *string // when set, CurrentID returns this instead (foreign / odd ids)
	cidErr        bool
	uploadErr     bool
	cidCalls      int
	uploads       []c37Upload // every Upload call (successful or not)
}

func (c *c37Client) Upload(ctx context.Context, r io.Reader, id string) error {
	b, err := io.ReadAll(r)
	if err != nil {
		return err
	}
	c.uploads = append(c.uploads, c37Upload{id, string(b)})
	if c.uploadErr {
		return errors.New("scripted Upload failure")
	}
	c.remoteID, c.remoteContent = id, string(b)
	return nil
}

func (c *c37Client) CurrentID(ctx context.Context) (string, error) {
	c.cidCalls++
	if c.cidErr {
		return "", errors.New("scripted CurrentID failure")
	}
	if c.forceID != nil {
		return *c.forceID, nil
	}
	return c.remoteID, nil
}

func (c *c37Client) String() string { return "c37-scripted-client" }

func c37Canon(id string) (uint64, bool) {
	n, err := strconv.ParseUint(id, 10, 64)
	if err != nil || strconv.FormatUint(n, 10) != id {
		return 0, false
	}
	return n, true
}

func c37ContentIdx(content string) (uint64, bool) {
	if !strings.HasPrefix(content, "db@") {
		return 0, false
	}
	n, err := strconv.ParseUint(content[3:], 10, 64)
	return n, err == nil
}

func TestVerifC37(t *testing.T) {
	rep := vfNewReport("C37", "generated histories for the real Uploader.upload (scripted storage client + scripted provider): writes, rounds with LastIndex/Provide/CurrentID/Upload failures in every combination, writes landing during the round, foreign or non-canonical remote ids, uploader restarts; a history is non-trivial when it has an upload, a skip, a failed upload followed by a retry, and a restart; distinct by op text")
	defer rep.Write()
	r := vfNewRng(37)
	hists := vfScale(1500, 60000)
	var segOps, segImpl [][]string
	oddIDs := []string{"", "abc", "007", "+5", "5 ", "0x5", "-1", "18446744073709551616"}
	for h := 0; h < hists; h++ {
		ResetStats()
		prov := &c37Provider{}
		cl := &c37Client{}
		u := NewUploader(cl, prov, 0)
		ops := []string{"new"}
		out := []string{"ok"}
		n := 4 + r.Intn(vfScale(20, 40))
		var sawUpload, sawSkip, sawRetry, sawRestart, pendingFail bool
		failPct := []int{0, 10, 30}[r.Intn(3)]
		for i := 0; i < n; i++ {
			switch c := r.Intn(100); {
			case c < 30: // a write
				prov.db += 1 + uint64(r.Intn(3))
				rep.Count("ev:write")
			case c < 38: // restart: a new Uploader value, same remote
				u = NewUploader(cl, prov, 0)
				ops = append(ops, "new")
				out = append(out, "ok")
				sawRestart = true
				rep.Count("ev:restart")
			default: // a round
				prov.liErr = r.Chance(failPct / 3)
				prov.provideErr = r.Chance(failPct)
				prov.during, prov.after = 0, 0
				if r.Chance(30) {
					prov.during = uint64(r.Intn(3))
					prov.after = uint64(r.Intn(2))
				}
				cl.cidErr = r.Chance(failPct)
				cl.uploadErr = r.Chance(failPct)
				cl.forceID = nil
				if r.Chance(8) {
					id := oddIDs[r.Intn(len(oddIDs))]
					if r.Chance(30) {
						id = strconv.FormatUint(prov.db, 10) // someone else's upload with this very label
					}
					cl.forceID = &id
					rep.Count("round:foreign-remote-id")
				}
				// what the round will see
				dbStart := prov.db
				lastBefore := u.lastIndex
				remoteIDBefore, remoteContentBefore := cl.remoteID, cl.remoteContent
				curTok := "O"
				curID := cl.remoteID
				if cl.forceID != nil {
					curID = *cl.forceID
				}
				if cl.cidErr {
					curTok = "E"
				} else if v, ok := c37Canon(curID); ok {
					curTok = strconv.FormatUint(v, 10)
				}
				liTok := strconv.FormatUint(dbStart, 10)
				if prov.liErr {
					liTok = "E"
				}
				pTok := strconv.FormatUint(dbStart+prov.during, 10)
				if prov.provideErr {
					pTok = "F"
				}
				uTok := "ok"
				if cl.uploadErr {
					uTok = "fail"
				}
				provided0, cid0, up0 := prov.provided, cl.cidCalls, len(cl.uploads)
				err := u.upload(context.Background())
				// canonical result from what was observed
				var res string
				uploaded := false
				var label, content uint64
				switch {
				case prov.liErr:
					res = "err-lastindex"
				case prov.provided == provided0:
					res = "skipped"
				case prov.provideErr:
					res = "err-provide"
				case len(cl.uploads) == up0:
					res = "skipped-id"
				default:
					up := cl.uploads[len(cl.uploads)-1]
					lv, lok := c37Canon(up.id)
					cv, cok := c37ContentIdx(up.content)
					if !lok || !cok {
						rep.Fail("upload:malformed-object", fmt.Sprintf("uploaded id %q content %q", up.id, up.content), nil)
					}
					label, content = lv, cv
					if cl.uploadErr {
						res = fmt.Sprintf("err-upload %d", lv)
					} else {
						res = fmt.Sprintf("uploaded %d %d", lv, cv)
						uploaded = true
					}
				}
				if (err != nil) != (strings.HasPrefix(res, "err-")) {
					rep.Fail("round:error-reporting", fmt.Sprintf("round %q returned err=%v", res, err), nil)
				}
				line := fmt.Sprintf("%s cid=%d last=%d", res, cl.cidCalls-cid0, u.lastIndex)
				ops = append(ops, fmt.Sprintf("round %s %s %s %s", liTok, pTok, curTok, uTok))
				out = append(out, line)
				rep.Count("round:" + strings.Fields(res)[0])

				// ---- the property, evaluated on what the real code did ----
				replay := map[string]interface{}{"ops": vfTrunc(ops), "impl": vfTrunc(out)}
				remoteLabelBefore, _ := c37Canon(remoteIDBefore)
				changed := remoteLabelBefore != dbStart
				fresh := lastBefore == 0
				if uploaded {
					if label != dbStart {
						rep.Fail("upload:label-is-not-the-index-read-before-the-backup", fmt.Sprintf("index read %d, label %d", dbStart, label), replay)
					}
					if content < label {
						rep.Fail("upload:backup-older-than-its-label", fmt.Sprintf("label %d but newest change in the backup is %d", label, content), replay)
					}
					sawUpload = true
					if pendingFail {
						sawRetry = true
					}
					pendingFail = false
				}
				if changed && !prov.liErr && !prov.provideErr && !cl.uploadErr && cl.forceID == nil && !uploaded {
					rep.Fail("changed-but-not-uploaded", fmt.Sprintf("index %d, remote label %q, lastIndex %d: round result %q", dbStart, remoteIDBefore, lastBefore, res), replay)
				}
				if !changed && (!fresh || !cl.cidErr) && cl.forceID == nil && (uploaded || len(cl.uploads) != up0) {
					rep.Fail("unchanged-but-uploaded", fmt.Sprintf("index %d equals remote label, lastIndex %d: round result %q", dbStart, lastBefore, res), replay)
				}
				if !changed && fresh && cl.cidErr && cl.forceID == nil && uploaded {
					rep.Fail("unchanged-but-uploaded:new-uploader-with-unreadable-remote-id",
						fmt.Sprintf("index %d equals the remote label, but a new Uploader value whose CurrentID call failed uploaded again: %q", dbStart, res), replay)
				}
				if !uploaded {
					if cl.remoteID != remoteIDBefore || cl.remoteContent != remoteContentBefore {
						rep.Fail("failed-or-skipped-round-changed-remote", res, replay)
					}
					if u.lastIndex != lastBefore {
						rep.Fail("failed-or-skipped-round-recorded", fmt.Sprintf("%q: lastIndex %d -> %d", res, lastBefore, u.lastIndex), replay)
					}
					if strings.HasPrefix(res, "err-upload") || res == "err-provide" {
						pendingFail = changed
					}
					if strings.HasPrefix(res, "skipped") {
						sawSkip = true
					}
				}
			}
		}
		rep.Case(strings.Join(ops, ";"), sawUpload && sawSkip && sawRetry && sawRestart)
		if h < 2 {
			rep.Sample(map[string]interface{}{"ops": ops, "impl": out})
		}
		segOps = append(segOps, ops)
		segImpl = append(segImpl, out)
	}
	rep.vfCompareSegments("uploader", segOps, segImpl)
}

/-
C14  Non-deterministic SQL is fully and faithfully rewritten.

Property theorems only. Model: RqModel/Model/Rewrite.lean (Rewriter.Visit/VisitEnd
under sql.Walk, and the pre-filter, after the C14 fix commits), tied to
command/sql/processor.go by the C14 correspondence run. Helper lemmas:
RqModel/Lemmas/Rewrite.lean.
-/
import RqModel.Lemmas.Rewrite
import RqModel.Lemmas.RewriteAllowed
import RqModel.Lemmas.RewriteMeaning
namespace C14
open RqModel.Rewrite

/-! ### no non-deterministic call is left -/

theorem isNow_repl (c : Cfg) (a : Node) : isNow (if isNow a then jdLit c else a) = false := by
  by_cases h : isNow a = true
  · simp [h, isNow_jd]
  · simp [h]

/-- after `Visit` keeps a call, the call with its edited arguments is not non-deterministic -/
theorem keep_not_nondet (c : Cfg) (hr : c.rwRand = true) (ht : c.rwTime = true)
    (st st1 : St) (name : String) (args : Nodes) (tr : ArgTr) (u : Bool)
    (hu : u = false → st.ordered = 0)
    (h : visitCall c st name args = .keep tr st1) (st' : St) :
    nondetCall u name (applyTr c tr (walkList c st' args).1) = false := by
  unfold visitCall at h
  unfold nondetCall
  simp only [hr, ht, Bool.true_and, Bool.and_true] at h
  cases hk : classify name <;> simp only [hk] at h ⊢
  · -- five
    simp only [if_true] at h
    cases h
    cases args with
    | nil => simp [walkList_nil, applyTr, isNow_jd]
    | cons a r =>
      rw [walkList_cons]
      simp only [applyTr, replNow0, isNow_repl]
  · -- strftime
    cases args with
    | nil =>
      simp [Nodes.length] at h
      obtain ⟨h1, _⟩ := h
      subst h1
      simp [walkList_nil, applyTr]
    | cons f r =>
      simp only [Nodes.length, Nat.zero_lt_succ, decide_true, if_true] at h
      cases h
      cases r with
      | nil =>
        simp only [walkList_cons, walkList_nil]
        simp [applyTr, isNow_jd]
      | cons b r2 =>
        simp only [walkList_cons, walkList_nil]
        simp only [applyTr, replNow1, isNow_repl]
  · -- timediff
    cases args with
    | nil =>
      simp [Nodes.length] at h
      obtain ⟨h1, _⟩ := h
      subst h1
      simp [walkList_nil, applyTr]
    | cons a r =>
      cases r with
      | nil =>
        simp [Nodes.length] at h
        obtain ⟨h1, _⟩ := h
        subst h1
        simp only [walkList_cons, walkList_nil]
        simp [applyTr]
      | cons b r2 =>
        simp [Nodes.length] at h
        obtain ⟨h1, _⟩ := h
        subst h1
        simp only [walkList_cons, walkList_nil]
        simp only [applyTr, replNow0, replNow1, isNow_repl, Bool.or_self]
  · -- random: kept only inside ORDER BY
    split at h
    · cases h
    · cases hu' : u
      · have := hu hu'
        simp [this] at *
      · simp
  · -- randomblob
    cases hu' : u
    · have h0 := hu hu'
      simp only [h0, beq_self_eq_true, if_true] at h
      cases hb : blobLenOfArgs args with
      | some n => simp [hb] at h
      | none =>
        simp only [hb] at h
        cases h
        simp [applyTr, blobLenOfArgs_walkList, hb]
    · simp

mutual
theorem walk_clean (c : Cfg) (hr : c.rwRand = true) (ht : c.rwTime = true) :
    ∀ (n : Node) (st : St) (u : Bool), (u = false → st.ordered = 0) → clean u (walk c st n).1 = true
  | .call name args extra, st, u, hu => by
    rw [walk]
    cases h : visitCall c st name args with
    | replace n st1 =>
      simp only
      rcases visitCall_replace_node h with ⟨w, hw⟩ | ⟨w, hw⟩ <;> simp [hw, clean]
    | keep tr st1 =>
      simp only
      have ho := (visitCall_keep_ordered h).1
      have hu1 : u = false → st1.ordered = 0 := fun hh => by rw [ho]; exact hu hh
      have hu2 : u = false → (walkList c st1 args).2.ordered = 0 := fun hh => by
        rw [walkList_ordered]; exact hu1 hh
      have ha := walkList_clean c hr ht args st1 u hu1
      have he := walkList_clean c hr ht extra (walkList c st1 args).2 u hu2
      have hn := keep_not_nondet c hr ht st st1 name args tr u hu h st1
      simp only [clean, hn, he, Bool.not_false, Bool.true_and, Bool.and_true]
      -- the edited argument list is clean
      cases tr with
      | none => simpa [applyTr] using ha
      | five =>
        cases hw : (walkList c st1 args).1 with
        | nil => simp [applyTr, cleanList, clean, jdLit]
        | cons a r =>
          rw [hw] at ha
          simp only [cleanList, Bool.and_eq_true] at ha
          simp only [applyTr, replNow0, cleanList, Bool.and_eq_true]
          refine ⟨?_, ha.2⟩
          split <;> simp [jdLit, clean, ha.1]
      | strftime =>
        cases hw : (walkList c st1 args).1 with
        | nil => simp [applyTr, replNow1, cleanList]
        | cons f r =>
          rw [hw] at ha
          simp only [cleanList, Bool.and_eq_true] at ha
          cases r with
          | nil => simp [applyTr, cleanList, clean, jdLit, ha.1]
          | cons b r2 =>
            simp only [cleanList, Bool.and_eq_true] at ha
            simp only [applyTr, replNow1, cleanList, Bool.and_eq_true]
            refine ⟨ha.1, ?_, ha.2.2⟩
            split <;> simp [jdLit, clean, ha.2.1]
      | timediff =>
        cases hw : (walkList c st1 args).1 with
        | nil => simp [applyTr, replNow0, replNow1, cleanList]
        | cons a r =>
          rw [hw] at ha
          simp only [cleanList, Bool.and_eq_true] at ha
          cases r with
          | nil =>
            simp only [applyTr, replNow0, replNow1, cleanList, Bool.and_true]
            split <;> simp [jdLit, clean, ha.1]
          | cons b r2 =>
            simp only [cleanList, Bool.and_eq_true] at ha
            simp only [applyTr, replNow0, replNow1, cleanList, Bool.and_eq_true]
            refine ⟨?_, ?_, ha.2.2⟩
            · split <;> simp [jdLit, clean, ha.1]
            · split <;> simp [jdLit, clean, ha.2.1]
  | .lit _ _, st, u, _ => by simp [walk, clean]
  | .ident _, st, u, _ => by simp [walk, clean]
  | .ord kids, st, u, _ => by
    rw [walk]
    simp only [clean]
    exact walkList_clean c hr ht kids _ true (by simp)
  | .ret kids, st, u, hu => by
    rw [walk]
    simp only [clean]
    exact walkList_clean c hr ht kids _ u (by simpa using hu)
  | .other _ kids, st, u, hu => by
    rw [walk]
    simp only [clean]
    exact walkList_clean c hr ht kids _ u hu
theorem walkList_clean (c : Cfg) (hr : c.rwRand = true) (ht : c.rwTime = true) :
    ∀ (ns : Nodes) (st : St) (u : Bool), (u = false → st.ordered = 0) → cleanList u (walkList c st ns).1 = true
  | .nil, st, u, _ => by simp [walkList, cleanList]
  | .cons n ns, st, u, hu => by
    rw [walkList]
    simp only [cleanList, Bool.and_eq_true]
    refine ⟨walk_clean c hr ht n st u hu, walkList_clean c hr ht ns _ u ?_⟩
    intro hh
    rw [walk_ordered]
    exact hu hh
end

/-- After `Rewriter.Do` with both rewrites enabled no call of the statement is
non-deterministic: no random() and no randomblob(<number literal>) outside ORDER BY,
and no date/time/datetime/julianday/unixepoch/strftime/timediff call whose time value
is `now` - written explicitly or left out. For every statement tree (any nesting:
operators, CASE, subqueries, CTE bodies, RETURNING, UPSERT clauses are all `other`
nodes), every clock value and every random source. -/
theorem no_nondet_left (c : Cfg) (hr : c.rwRand = true) (ht : c.rwTime = true) (n : Node) :
    clean false (rewrite c n).1 = true :=
  walk_clean c hr ht n {} false (fun _ => rfl)

example :
    let c : Cfg := ⟨true, true, fun k => 1000 + k, "0"⟩
    let stmt : Node := .other "InsertStatement" (.cons (.call "DateTime" .nil .nil)
      (.cons (.call "strftime" (.cons (.lit "string" "%s") .nil) .nil)
      (.cons (.call "RANDOM" .nil .nil)
      (.cons (.other "SelectExpr" (.cons (.call "randomblob" (.cons (.lit "number" "0x10") .nil) .nil) .nil))
      (.cons (.ord (.cons (.call "random" .nil .nil) .nil)) .nil)))))
    clean false stmt = false ∧ clean false (rewrite c stmt).1 = true ∧ (rewrite c stmt).2.modified = true := by
  decide

/-! #### the exclusion inside `no_nondet_left`, made explicit
`clean` counts `randomblob(<number literal>)` as non-deterministic only for literals the rewriter
replaces (`blobLenOfArgs args ≠ none`). Whether a token is a number literal is decided by the real parser
(node kind `number`), independently of `blobBytes`; the full statement over ALL number literals is
false, by design: a literal above SQLite's maximum blob length is left alone because SQLite rejects
it on every node alike (exercised on real SQLite by the tie). -/

/-- as `nondetCall`, but ANY (signed) number literal argument of randomblob counts -/
def nondetCallAnyLit (u : Bool) (name : String) (args : Nodes) : Bool :=
  match classify name with
  | .randomblob => !u && (blobArg args).isSome
  | _ => nondetCall u name args

mutual
def cleanAnyLit (u : Bool) : Node → Bool
  | .call name args extra => !nondetCallAnyLit u name args && cleanAnyLitList u args && cleanAnyLitList u extra
  | .lit _ _ => true
  | .ident _ => true
  | .ord kids => cleanAnyLitList true kids
  | .ret kids => cleanAnyLitList u kids
  | .other _ kids => cleanAnyLitList u kids
def cleanAnyLitList (u : Bool) : Nodes → Bool
  | .nil => true
  | .cons n ns => cleanAnyLit u n && cleanAnyLitList u ns
end

/-- THE FULL STATEMENT over every number literal (false: see the witness) -/
def no_nondet_left_full : Prop :=
  ∀ (c : Cfg), c.rwRand = true → c.rwTime = true → ∀ n, cleanAnyLit false (rewrite c n).1 = true

theorem no_nondet_left_witness :
    cleanAnyLit false (rewrite ⟨true, true, fun _ => 0, "0"⟩
      (.call "randomblob" (.cons (.lit "number" "99999999999") .nil) .nil)).1 = false := by decide

theorem no_nondet_left_full_is_false : ¬ no_nondet_left_full := by
  intro h
  have := h ⟨true, true, fun _ => 0, "0"⟩ rfl rfl (.call "randomblob" (.cons (.lit "number" "99999999999") .nil) .nil)
  rw [no_nondet_left_witness] at this
  cases this

/-- what the exclusion amounts to, for the decimal integer literals: the rewriter leaves
`randomblob(<digits>)` alone exactly when the number exceeds SQLite's maximum blob length -/
theorem takeWhile_all {α} (p : α → Bool) (l : List α) (h : ∀ x ∈ l, p x = true) : l.takeWhile p = l := by
  induction l with
  | nil => rfl
  | cons a l ih => simp [List.takeWhile_cons, h a (by simp), ih (fun x hx => h x (by simp [hx]))]

theorem dropWhile_all {α} (p : α → Bool) (l : List α) (h : ∀ x ∈ l, p x = true) : l.dropWhile p = [] := by
  induction l with
  | nil => rfl
  | cons a l ih => simp [List.dropWhile_cons, h a (by simp), ih (fun x hx => h x (by simp [hx]))]

theorem digit_not_special (ch : Char) (h : '0' ≤ ch ∧ ch ≤ '9') : ch ≠ '.' ∧ ch ≠ 'e' ∧ ch ≠ 'E' := by
  refine ⟨?_, ?_, ?_⟩ <;> (intro heq; subst heq; revert h; decide)

theorem left_alone_decimal_is_too_big (cs : List Char) (n : Nat) (hne : cs ≠ [])
    (hdig : ∀ ch ∈ cs, '0' ≤ ch ∧ ch ≤ '9')
    (hd : digitsVal cs = some n) : blobBytes false (String.ofList cs) = none ↔ n > maxBlobLength := by
  unfold blobBytes
  simp only [String.toList_ofList]
  have he : cs.isEmpty = false := by cases cs <;> simp_all
  simp only [he, Bool.false_eq_true, if_false, hd]
  by_cases h64 : n ≤ int64Max
  · simp only [h64, if_true]
    unfold bytesOf
    by_cases hb : n > maxBlobLength
    · have : ((n : Int) > (maxBlobLength : Int)) := by omega
      simp [this, hb]
    · have h1 : ¬ ((n : Int) > (maxBlobLength : Int)) := by omega
      simp only [h1, if_false, hb, iff_false]
      split <;> simp
  · simp only [h64, if_false]
    have hbig : n > maxBlobLength := by unfold int64Max at h64; unfold maxBlobLength; omega
    have hp : parseDecimal cs = some (n, 0) := by
      unfold parseDecimal
      have hnoDot : ∀ ch ∈ cs, ch ≠ '.' ∧ ch ≠ 'e' ∧ ch ≠ 'E' := fun ch hch => digit_not_special ch (hdig ch hch)
      have hnoE : cs.any (fun ch => ch == 'e' || ch == 'E') = false := by
        rw [List.any_eq_false]; intro ch hch; have := hnoDot ch hch; simp [this.2.1, this.2.2]
      have h1 : cs.takeWhile (fun ch => ch != 'e' && ch != 'E') = cs := by
        apply takeWhile_all; intro ch hch; have := hnoDot ch hch; simp [this.2.1, this.2.2]
      have h2 : cs.dropWhile (fun ch => ch != 'e' && ch != 'E') = [] := by
        apply dropWhile_all; intro ch hch; have := hnoDot ch hch; simp [this.2.1, this.2.2]
      have h3 : cs.takeWhile (· != '.') = cs := by
        apply takeWhile_all; intro ch hch; have := hnoDot ch hch; simp [this.1]
      have h4 : cs.dropWhile (· != '.') = [] := by
        apply dropWhile_all; intro ch hch; have := hnoDot ch hch; simp [this.1]
      have hd0 : digitsVal ([] : List Char) = some 0 := rfl
      simp only [h1, h2, h3, h4, hnoE, he, List.drop_nil, List.isEmpty_nil, List.append_nil, Bool.false_and,
        Bool.false_eq_true, if_false, hd, List.length_nil, hd0]
      rfl
    simp only [hp, Bool.false_eq_true, if_false]
    have h1 : ¬ (n * 10 ^ (0 : Int).toNat < 1) := by simp; omega
    have h2 : ¬ (n * 10 ^ (0 : Int).toNat ≤ maxBlobLength) := by simp; omega
    have h3 : n ≠ 0 := by omega
    have h4 : ¬ n ≤ maxBlobLength := by omega
    simp [h3, h4, hbig]

/-- hexadecimal literals are read as SQLite reads them: 16 digits with the top bit set are NEGATIVE
(two's complement) and give ONE byte - they are pinned, not left alone; so are negative and zero
lengths; one digit more is an error in SQLite and is left alone -/
theorem hex_and_signed_literals :
    blobBytes false "0xFFFFFFFFFFFFFFFF" = some 1 ∧ blobBytes false "0x8000000000000000" = some 1 ∧
    blobBytes false "0x7FFFFFFFFFFFFFFF" = none ∧ blobBytes false "0x10000000000000000" = none ∧
    blobBytes true "5" = some 1 ∧ blobBytes false "0" = some 1 ∧ blobBytes true "0x10" = some 1 ∧
    blobBytes true "2.5" = some 1 ∧ blobBytes true "0x8000000000000000" = none ∧
    blobLenOfArgs (.cons (.other "UnaryExpr:-" (.cons (.lit "number" "5") .nil)) .nil) = some 1 := by decide

/-! ### hexadecimal literals, in general (R6 follow-up: not only the listed literals) -/
/-- the int64 that SQLite reads a hexadecimal literal of value `u < 2^64` as -/
def hexInt64 (u : Nat) : Int :=
  if u ≥ 9223372036854775808 then (u : Int) - 18446744073709551616 else (u : Int)

/-- the rule for `0x…` literals, stated on the VALUE of the digits -/
def hexRule (neg : Bool) : Option Nat → Option Nat
  | none => none
  | some u =>
    if u ≥ 18446744073709551616 then none
    else if neg && hexInt64 u == -9223372036854775808 then none
    else bytesOf (if neg then -(hexInt64 u) else hexInt64 u)

def digStep (acc : Option Nat) (ch : Char) : Option Nat := do
  let a ← acc
  if '0' ≤ ch ∧ ch ≤ '9' then pure (a * 10 + (ch.toNat - '0'.toNat)) else none

theorem digitsVal_eq (cs : List Char) : digitsVal cs = cs.foldl digStep (some 0) := rfl

theorem digStep_foldl_none (cs : List Char) : cs.foldl digStep none = none := by
  induction cs with
  | nil => rfl
  | cons c cs ih => simpa [digStep] using ih

theorem digitsVal_0x (x : Char) (hx : x = 'x' ∨ x = 'X') (hs : List Char) :
    digitsVal ('0' :: x :: hs) = none := by
  rw [digitsVal_eq]
  simp only [List.foldl_cons]
  have : digStep (digStep (some 0) '0') x = none := by
    rcases hx with rfl | rfl <;> decide
  rw [this, digStep_foldl_none]

/-- EVERY hexadecimal literal (any digits, any length, either case of the prefix) is read by the
rule on its value: no digits or a non-hex digit → left alone; value ≥ 2^64 → left alone (SQLite
rejects it); otherwise the two's-complement int64, negated under a minus sign (except
`-0x8000000000000000`, which SQLite rejects), clamped as randomblob clamps it. -/
theorem hex_literal_general (neg : Bool) (x : Char) (hx : x = 'x' ∨ x = 'X') (hs : List Char) :
    blobBytes neg (String.ofList ('0' :: x :: hs)) = hexRule neg (parseHex hs) := by
  unfold blobBytes
  simp only [String.toList_ofList, digitsVal_0x x hx hs, List.isEmpty_cons, Bool.false_eq_true, if_false]
  rcases hx with rfl | rfl <;>
  · simp only []
    unfold hexRule hexInt64
    cases parseHex hs with
    | none => rfl
    | some u => rfl

/-- the value read is the two's-complement interpretation of the low 64 bits -/
theorem hexInt64_is_twos_complement (u : Nat) (h : u < 18446744073709551616) :
    hexInt64 u = (BitVec.ofNat 64 u).toInt := by
  unfold hexInt64
  rw [BitVec.toInt_eq_toNat_cond]
  simp only [BitVec.toNat_ofNat]
  have : u % 2 ^ 64 = u := Nat.mod_eq_of_lt (by omega)
  rw [this]
  split <;> split <;> omega

/-- non-vacuity: the general rule at concrete literals, through the general theorem -/
example : blobBytes false (String.ofList ('0' :: 'x' :: ['F', 'f'])) = some 255 ∧
    blobBytes true (String.ofList ('0' :: 'X' :: ['1', 'g'])) = none := by
  rw [hex_literal_general false 'x' (Or.inl rfl), hex_literal_general true 'X' (Or.inr rfl)]; decide

/-- every hexadecimal digit has a value below sixteen -/
theorem hexDigitVal_lt (c : Char) (d : Nat) (h : hexDigitVal c = some d) : d < 16 := by
  unfold hexDigitVal at h
  split at h
  · rename_i hc; cases h
    have h1 : '0'.toNat ≤ c.toNat := hc.1
    have h2 : c.toNat ≤ '9'.toNat := hc.2
    have : '0'.toNat = 48 := by decide
    have : '9'.toNat = 57 := by decide
    omega
  · split at h
    · rename_i hc; cases h
      have h1 : 'a'.toNat ≤ c.toNat := hc.1
      have h2 : c.toNat ≤ 'f'.toNat := hc.2
      have : 'a'.toNat = 97 := by decide
      have : 'f'.toNat = 102 := by decide
      omega
    · split at h
      · rename_i hc; cases h
        have h1 : 'A'.toNat ≤ c.toNat := hc.1
        have h2 : c.toNat ≤ 'F'.toNat := hc.2
        have : 'A'.toNat = 65 := by decide
        have : 'F'.toNat = 70 := by decide
        omega
      · cases h

/-- `parseHex` is the positional base-16 reading, most significant digit first: one digit is its
value, and appending a digit multiplies by sixteen and adds it (with `parseHex [] = none` this
determines the function) -/
theorem parseHex_single (c : Char) : parseHex [c] = hexDigitVal c := by
  unfold parseHex
  simp only [List.isEmpty_cons, Bool.false_eq_true, if_false, List.foldl_cons, List.foldl_nil]
  cases hexDigitVal c <;> simp

theorem parseHex_snoc (hs : List Char) (c : Char) (h : hs ≠ []) :
    parseHex (hs ++ [c]) = (parseHex hs).bind fun a => (hexDigitVal c).map fun d => a * 16 + d := by
  unfold parseHex
  have h1 : (hs ++ [c]).isEmpty = false := by cases hs <;> simp
  have h2 : hs.isEmpty = false := by cases hs <;> simp_all
  simp only [h1, h2, Bool.false_eq_true, if_false, List.foldl_append, List.foldl_cons, List.foldl_nil]
  cases hs.foldl (fun acc ch => do let a ← acc; let d ← hexDigitVal ch; pure (a * 16 + d)) (some 0) with
  | none => rfl
  | some a => cases hexDigitVal c <;> rfl

/-! ### nothing else changes -/

/-- The rewritten statement differs from the original ONLY by the replacements the property asks
for: random() / randomblob(literal) outside ORDER BY replaced by a literal (a blob of exactly the
requested number of bytes), `now` in a time-value position replaced by the pinned instant, the
pinned instant supplied where the time value was absent. Every other node, name, operator, literal
and the order and number of children are untouched; nothing inside ORDER BY terms loses its
random() calls. For every statement tree, flag setting, clock value and random source. -/
theorem only_allowed_changes (c : Cfg) (n : Node) : allowed c false n (rewrite c n).1 = true :=
  walk_allowed c n {} false (by decide)

/-! ### meaning, denotationally (date/time family) -/

/-- For ANY compositional semantics of statements (`Sem`: SQLite as a parameter) in which the pinned
literal denotes the instant `now` denoted at the pinned time `t0` - the one assumed law - the
statement rewritten for time evaluates, at EVERY later time `t`, to exactly what the original
evaluated to at `t0`; in particular its value no longer depends on the time of evaluation. `eval`
reads the clock where SQLite does: a `now` argument in a time-value position of date / time /
datetime / julianday / unixepoch / strftime / timediff, and an omitted time value. (Random
rewriting off: a random() call has no value to preserve.) -/
theorem meaning_preserved {V : Type} (s : Sem V) (c : Cfg) (t0 : Nat)
    (ht : c.rwTime = true) (hr : c.rwRand = false)
    (hlaw : s.lit "jd" c.nowTok = s.now t0) (n : Node) :
    (∀ t, eval s t (rewrite c n).1 = eval s t0 n) ∧
    (∀ t t', eval s t (rewrite c n).1 = eval s t' (rewrite c n).1) := by
  have h := fun t => eval_walk s c t0 ht hr hlaw n {} t
  exact ⟨h, fun t t' => by rw [rewrite, h t, h t']⟩

/-- non-vacuity: a semantics over numbers in which the law holds, a statement whose value depends on
the clock, and its rewritten form whose value does not -/
def demoSem : Sem Nat :=
  { lit := fun k _ => if k == "jd" then 7 else 0, ident := fun _ => 0,
    app := fun _ a e => a.sum + e.sum, ord := List.sum, ret := List.sum, node := fun _ k => k.sum,
    now := fun t => t + 2 }

example :
    let c : Cfg := ⟨false, true, fun _ => 0, "5"⟩
    let stmt : Node := .other "SelectStatement" (.cons (.call "DateTime" .nil .nil)
      (.cons (.call "strftime" (.cons (.lit "string" "%s") (.cons (.lit "string" "NOW") .nil)) .nil) .nil))
    demoSem.lit "jd" c.nowTok = demoSem.now 5 ∧
    eval demoSem 5 stmt = 14 ∧ eval demoSem 100 stmt = 204 ∧
    eval demoSem 100 (rewrite c stmt).1 = 14 := by decide

/-! ### statements without such calls are replicated unchanged -/

theorem visitCall_other (c : Cfg) (st : St) (name : String) (args : Nodes)
    (h : classify name = .other) : visitCall c st name args = .keep .none st := by
  unfold visitCall
  simp [h]

mutual
theorem walk_noTarget (c : Cfg) :
    ∀ (n : Node) (st : St), noTarget n = true →
      (walk c st n).1 = n ∧ (walk c st n).2.modified = st.modified ∧ (walk c st n).2.randK = st.randK
  | .call name args extra, st, h => by
    simp only [noTarget, Bool.and_eq_true, decide_eq_true_eq] at h
    obtain ⟨⟨hk, ha⟩, he⟩ := h
    rw [walk, visitCall_other c st name args hk]
    simp only [applyTr]
    obtain ⟨a1, a2, a3⟩ := walkList_noTarget c args st ha
    obtain ⟨e1, e2, e3⟩ := walkList_noTarget c extra (walkList c st args).2 he
    refine ⟨by rw [a1, e1], by rw [e2, a2], by rw [e3, a3]⟩
  | .lit _ _, st, _ => by simp [walk]
  | .ident _, st, _ => by simp [walk]
  | .ord kids, st, h => by
    simp only [noTarget] at h
    rw [walk]
    obtain ⟨k1, k2, k3⟩ := walkList_noTarget c kids { st with ordered := st.ordered + 1 } h
    simp only
    refine ⟨by rw [k1], by rw [k2], by rw [k3]⟩
  | .ret kids, st, h => by
    simp only [noTarget] at h
    rw [walk]
    obtain ⟨k1, k2, k3⟩ := walkList_noTarget c kids { st with returning := true } h
    simp only
    refine ⟨by rw [k1], by rw [k2], by rw [k3]⟩
  | .other _ kids, st, h => by
    simp only [noTarget] at h
    rw [walk]
    obtain ⟨k1, k2, k3⟩ := walkList_noTarget c kids st h
    simp only
    refine ⟨by rw [k1], by rw [k2], by rw [k3]⟩
theorem walkList_noTarget (c : Cfg) :
    ∀ (ns : Nodes) (st : St), noTargetList ns = true →
      (walkList c st ns).1 = ns ∧ (walkList c st ns).2.modified = st.modified ∧
      (walkList c st ns).2.randK = st.randK
  | .nil, st, _ => by simp [walkList_nil]
  | .cons n ns, st, h => by
    simp only [noTargetList, Bool.and_eq_true] at h
    obtain ⟨n1, n2, n3⟩ := walk_noTarget c n st h.1
    obtain ⟨l1, l2, l3⟩ := walkList_noTarget c ns (walk c st n).2 h.2
    rw [walkList_cons]
    refine ⟨by rw [n1, l1], by rw [l2, n2], by rw [l3, n3]⟩
end

/-- `Process` for one statement: the text that is replicated. `filterPass` is the result of
the pre-filters (time / random / returning / explain), `parsed` the parser's result,
`render` the parser's printer. The text is replaced only when the rewriter reports a change. -/
def processOut (c : Cfg) (text : String) (filterPass : Bool) (parsed : Option Node)
    (render : Node → String) : String :=
  if !filterPass then text
  else match parsed with
    | none => text
    | some n => if (rewrite c n).2.modified then render (rewrite c n).1 else text

/-- A statement without any call to the nine functions is left exactly as it is: the
rewriter returns the same tree, reports no modification and draws no random number, and
`Process` replicates the original text byte for byte - whatever the pre-filters said (such
words inside strings and identifiers make them fire), for every flag setting. -/
theorem identity_without_calls (c : Cfg) (n : Node) (h : noTarget n = true) :
    (rewrite c n).1 = n ∧ (rewrite c n).2.modified = false ∧ (rewrite c n).2.randK = 0 ∧
    ∀ text filterPass render, processOut c text filterPass (some n) render = text := by
  obtain ⟨h1, h2, h3⟩ := walk_noTarget c n {} h
  refine ⟨h1, h2, h3, ?_⟩
  intro text fp render
  unfold processOut
  cases fp <;> simp [rewrite, h2]

/-! #### splitting a text into statements
The parser is the parameter `accepts`; nothing here knows a keyword. -/

theorem pieces_ne_nil (ts : List Tok) : pieces ts ≠ [] := by
  cases ts with
  | nil => simp [pieces]
  | cons t rest =>
    cases t with
    | semi => simp [pieces]
    | word i =>
      simp only [pieces]
      split <;> simp

/-- cutting at the semicolons and putting the semicolons back gives the text again -/
theorem pieces_join (ts : List Tok) : joinSemi (pieces ts) = ts := by
  induction ts with
  | nil => rfl
  | cons t rest ih =>
    cases t with
    | semi =>
      simp only [pieces]
      cases hp : pieces rest with
      | nil => exact absurd hp (pieces_ne_nil rest)
      | cons q r => rw [hp] at ih; simp [joinSemi, ih]
    | word i =>
      simp only [pieces]
      cases hp : pieces rest with
      | nil => exact absurd hp (pieces_ne_nil rest)
      | cons q r =>
        rw [hp] at ih
        cases r with
        | nil => simp only [joinSemi] at ih ⊢; rw [ih]
        | cons q2 r2 => simp only [joinSemi, List.cons_append] at ih ⊢; rw [ih]

/-- NOTHING IS LOST OR REORDERED, whatever the parser accepts: the pieces of the parts, in order, hold
exactly the tokens of the pieces of the text (the pieces left out are empty ones) -/
theorem groupF_tokens (accepts : List Tok → Bool) (fuel : Nat) (ps : List (List Tok)) (hf : ps.length ≤ fuel) :
    ((groupF accepts fuel ps).flatMap Seg.pieces).flatten = ps.flatten := by
  induction fuel generalizing ps with
  | zero =>
    have : ps = [] := List.eq_nil_of_length_eq_zero (by omega)
    subst this; rfl
  | succ fuel ih =>
    cases ps with
    | nil => rfl
    | cons p rest =>
      simp only [List.length_cons] at hf
      simp only [groupF]
      split
      · rename_i he
        have : p = [] := by simpa using he
        subst this
        simpa using ih rest (by omega)
      · split
        · rename_i n _
          have hl : (rest.drop (n - 1)).length ≤ fuel := by simp only [List.length_drop]; omega
          simp only [List.flatMap_cons, Seg.pieces, List.flatten_append, List.flatten_cons, ih _ hl]
          rw [List.append_assoc, ← List.flatten_append, List.take_append_drop]
        · simp only [List.flatMap_cons, Seg.pieces, List.flatten_append, List.flatten_cons, List.flatten_nil,
            List.append_nil, ih rest (by omega)]

theorem split_keeps_every_token (accepts : List Tok → Bool) (ts : List Tok) :
    ((splitToks accepts ts).flatMap Seg.pieces).flatten = (pieces ts).flatten :=
  groupF_tokens accepts _ _ (Nat.le_refl _)

/-- `runLen` finds the run of length `n` when that run is accepted and no shorter one is -/
theorem runLen_shortest (accepts : List Tok → Bool) (done ps : List (List Tok)) (n : Nat)
    (h1 : done.length < n) (h2 : n ≤ done.length + ps.length)
    (hacc : accepts (joinSemi ((done ++ ps).take n)) = true)
    (hno : ∀ k, done.length < k → k < n → accepts (joinSemi ((done ++ ps).take k)) = false) :
    runLen accepts done ps = some n := by
  induction ps generalizing done with
  | nil => simp at h2; omega
  | cons p rest ih =>
    have htake : (done ++ p :: rest).take (done.length + 1) = done ++ [p] := by
      rw [List.take_length_add_append]
      simp
    simp only [runLen]
    by_cases hn : n = done.length + 1
    · subst hn
      rw [htake] at hacc
      simp [hacc]
    · have hk := hno (done.length + 1) (by omega) (by omega)
      rw [htake] at hk
      simp only [hk, Bool.false_eq_true, if_false]
      have heq : done ++ p :: rest = (done ++ [p]) ++ rest := by simp
      apply ih (done ++ [p])
      · simp; omega
      · simp only [List.length_append, List.length_cons, List.length_nil] at h2 ⊢; omega
      · rw [← heq]; exact hacc
      · intro k hk1 hk2
        rw [← heq]
        exact hno k (by simp at hk1; omega) hk2

/-- a statement as far as splitting is concerned: a non-empty run of pieces, the first of them not
empty, which the parser accepts - and it accepts no shorter run of these pieces -/
def IsStatement (accepts : List Tok → Bool) (run : List (List Tok)) : Prop :=
  (∃ p rest, run = p :: rest ∧ p ≠ []) ∧ accepts (joinSemi run) = true ∧
  ∀ k, 0 < k → k < run.length → accepts (joinSemi (run.take k)) = false

theorem groupF_statements (accepts : List Tok → Bool) (fuel : Nat) (ss : List (List (List Tok)))
    (h : ∀ run ∈ ss, IsStatement accepts run) (hf : ss.flatten.length ≤ fuel) :
    groupF accepts fuel ss.flatten = ss.map .stmt := by
  induction ss generalizing fuel with
  | nil => cases fuel <;> rfl
  | cons run more ih =>
    obtain ⟨⟨p, rest, hrun, hpne⟩, hacc, hno⟩ := h run (by simp)
    subst hrun
    cases fuel with
    | zero => simp at hf
    | succ fuel =>
      have hflat : (List.flatten ((p :: rest) :: more)) = p :: (rest ++ more.flatten) := by simp
      rw [hflat]
      have hpe : p.isEmpty = false := by
        cases p with
        | nil => exact absurd rfl hpne
        | cons a b => rfl
      have hlen : runLen accepts [] (p :: (rest ++ more.flatten)) = some (rest.length + 1) := by
        apply runLen_shortest
        · simp
        · simp
        · have : (([] : List (List Tok)) ++ p :: (rest ++ more.flatten)).take (rest.length + 1) = p :: rest := by
            simp only [List.nil_append, List.take_succ_cons]
            rw [List.take_left' rfl]
          rw [this]; exact hacc
        · intro k hk1 hk2
          have : (([] : List (List Tok)) ++ p :: (rest ++ more.flatten)).take k = (p :: rest).take k := by
            cases k with
            | zero => rfl
            | succ k =>
              simp only [List.nil_append, List.take_succ_cons]
              rw [List.take_append_of_le_length (by omega)]
          rw [this]
          exact hno k (by simpa using hk1) (by simpa using hk2)
      simp only [groupF, hpe, Bool.false_eq_true, if_false, hlen, Nat.add_sub_cancel, List.map_cons]
      rw [List.take_left', List.drop_left']
      · rw [ih fuel (fun r hr => h r (by simp [hr])) ?_]
        rw [hflat] at hf
        simp only [List.length_cons, List.length_append] at hf
        omega
      · rfl
      · rfl

/-- SPLITTING IS THE INVERSE OF JOINING, for every parser: take statements (`IsStatement`: each accepted,
no shorter run of its own pieces accepted, its first piece not empty) and write them one after the
other with semicolons between them - also those which hold semicolons themselves, like a
CREATE TRIGGER statement - then the text is split into exactly these statements. The condition is
exact in this sense: if a shorter run of a statement's pieces were accepted the splitter would stop
there (`shorter_accepted_run_wins`). -/
theorem split_join (accepts : List Tok → Bool) (ss : List (List (List Tok)))
    (h : ∀ run ∈ ss, IsStatement accepts run) :
    group accepts ss.flatten = ss.map .stmt :=
  groupF_statements accepts _ ss h (Nat.le_refl _)

/-- … and from the text itself (`pieces` of the joined text are the pieces, when no piece holds a
semicolon token and there is at least one) -/
theorem pieces_joinSemi (ps : List (List Tok)) (hne : ps ≠ []) (h : ∀ p ∈ ps, Tok.semi ∉ p) :
    pieces (joinSemi ps) = ps := by
  induction ps with
  | nil => exact absurd rfl hne
  | cons p rest ih =>
    have hp : Tok.semi ∉ p := h p (by simp)
    cases rest with
    | nil =>
      simp only [joinSemi]
      clear ih h hne
      induction p with
      | nil => rfl
      | cons t p ihp =>
        cases t with
        | semi => simp at hp
        | word i =>
          have := ihp (by intro hm; exact hp (by simp [hm]))
          simp [pieces, this]
    | cons q r =>
      have ih' := ih (by simp) (fun x hx => h x (by simp [hx]))
      simp only [joinSemi]
      clear ih h hne
      induction p with
      | nil => simp [pieces, ih']
      | cons t p ihp =>
        cases t with
        | semi => simp at hp
        | word i =>
          have := ihp (by intro hm; exact hp (by simp [hm]))
          simp only [List.cons_append, pieces, this]

theorem split_join_text (accepts : List Tok → Bool) (ss : List (List (List Tok)))
    (h : ∀ run ∈ ss, IsStatement accepts run) (hne : ss.flatten ≠ [])
    (hs : ∀ p ∈ ss.flatten, Tok.semi ∉ p) :
    splitToks accepts (joinSemi ss.flatten) = ss.map .stmt := by
  unfold splitToks
  rw [pieces_joinSemi _ hne hs]
  exact split_join accepts ss h

/-- the condition of `split_join` cannot be weakened: a parser that accepts the first piece alone makes
the splitter stop there (the words are numbers without meaning: 1 2 ; 3 is cut after `1 2`) -/
theorem shorter_accepted_run_wins :
    group (fun l => l == [.word 1, .word 2] || l == [.word 1, .word 2, .semi, .word 3]) [[.word 1, .word 2], [.word 3]] =
      [.stmt [[.word 1, .word 2]], .raw [.word 3]] := by decide

/-! the result does not depend on what the tokens are: renaming the non-semicolon tokens (and the parser
with them) renames the parts and changes nothing else - no token is a keyword for the splitter -/

def Tok.rename (f : Nat → Nat) : Tok → Tok
  | .semi => .semi
  | .word i => .word (f i)

def Seg.rename (f : Nat → Nat) : Seg → Seg
  | .stmt run => .stmt (run.map (·.map (Tok.rename f)))
  | .raw p => .raw (p.map (Tok.rename f))

theorem joinSemi_rename (f : Nat → Nat) (ps : List (List Tok)) :
    joinSemi (ps.map (·.map (Tok.rename f))) = (joinSemi ps).map (Tok.rename f) := by
  induction ps with
  | nil => rfl
  | cons p rest ih =>
    cases rest with
    | nil => rfl
    | cons q r =>
      simp only [List.map_cons, joinSemi, List.map_append] at ih ⊢
      rw [ih]; rfl

theorem runLen_rename (f : Nat → Nat) (a a' : List Tok → Bool)
    (ha : ∀ l, a' (l.map (Tok.rename f)) = a l) (done ps : List (List Tok)) :
    runLen a' (done.map (·.map (Tok.rename f))) (ps.map (·.map (Tok.rename f))) = runLen a done ps := by
  induction ps generalizing done with
  | nil => rfl
  | cons p rest ih =>
    simp only [List.map_cons, runLen, List.length_map]
    have h1 : done.map (·.map (Tok.rename f)) ++ [p.map (Tok.rename f)] = (done ++ [p]).map (·.map (Tok.rename f)) := by simp
    rw [h1, joinSemi_rename, ha, ih (done ++ [p])]

theorem groupF_rename (f : Nat → Nat) (a a' : List Tok → Bool)
    (ha : ∀ l, a' (l.map (Tok.rename f)) = a l) (fuel : Nat) (ps : List (List Tok)) :
    groupF a' fuel (ps.map (·.map (Tok.rename f))) = (groupF a fuel ps).map (Seg.rename f) := by
  induction fuel generalizing ps with
  | zero => rfl
  | succ fuel ih =>
    cases ps with
    | nil => rfl
    | cons p rest =>
      have hr := runLen_rename f a a' ha [] (p :: rest)
      simp only [List.map_nil, List.map_cons] at hr
      simp only [List.map_cons, groupF, List.isEmpty_map, hr]
      split
      · exact ih rest
      · split
        · rename_i n _
          simp only [List.map_cons, Seg.rename, ← List.map_take, ← List.map_drop, ih]
        · simp only [List.map_cons, Seg.rename, ih]

theorem pieces_rename (f : Nat → Nat) (ts : List Tok) :
    pieces (ts.map (Tok.rename f)) = (pieces ts).map (·.map (Tok.rename f)) := by
  induction ts with
  | nil => rfl
  | cons t rest ih =>
    cases t with
    | semi => simp [pieces, Tok.rename, ih]
    | word i =>
      simp only [List.map_cons, Tok.rename, pieces, ih]
      cases pieces rest <;> simp [Tok.rename]

/-- THE SPLITTER KNOWS NO KEYWORD: rename the tokens other than the semicolon in any way `f` (BEGIN to
END, END to an identifier, …) and let the parser `a'` accept a renamed text exactly when `a` accepts
the original one: the renamed text is split at the same places. -/
theorem split_independent_of_keywords (f : Nat → Nat) (a a' : List Tok → Bool)
    (ha : ∀ l, a' (l.map (Tok.rename f)) = a l) (ts : List Tok) :
    splitToks a' (ts.map (Tok.rename f)) = (splitToks a ts).map (Seg.rename f) := by
  unfold splitToks group
  rw [pieces_rename, List.length_map]
  exact groupF_rename f a a' ha _ _

/-- a toy parser: `1 2` is a statement, and so is `7 8 ; 9 ; 5` (think CREATE TRIGGER … BEGIN … ; … ; END -
and the words 9 and 5 can just as well be spelled `end`) -/
def demoAccepts (l : List Tok) : Bool :=
  l == [.word 1, .word 2] || l == [.word 7, .word 8, .semi, .word 9, .semi, .word 5]

/-- a statement holding semicolons between two others, empty statements, a piece no statement starts
at (kept, and the search goes on behind it), an unfinished statement at the end -/
example :
    splitToks demoAccepts [.word 1, .word 2, .semi, .word 7, .word 8, .semi, .word 9, .semi, .word 5, .semi, .semi, .word 1, .word 2] =
      [.stmt [[.word 1, .word 2]], .stmt [[.word 7, .word 8], [.word 9], [.word 5]], .stmt [[.word 1, .word 2]]] ∧
    splitToks demoAccepts [.semi, .semi, .word 1, .word 2] = [.stmt [[.word 1, .word 2]]] ∧
    splitToks demoAccepts [.word 4, .semi, .word 1, .word 2, .semi, .word 7, .word 8, .semi, .word 9] =
      [.raw [.word 4], .stmt [[.word 1, .word 2]], .raw [.word 7, .word 8], .raw [.word 9]] ∧
    IsStatement demoAccepts [[.word 7, .word 8], [.word 9], [.word 5]] := by
  refine ⟨by decide, by decide, by decide, ⟨_, _, rfl, by decide⟩, by decide, ?_⟩
  intro k h1 h2
  have : k = 1 ∨ k = 2 := by simp at h2; omega
  rcases this with rfl | rfl <;> decide

/-- and a statement the parser rejects is passed through unchanged (by design) -/
theorem unparsable_unchanged (c : Cfg) (text : String) (fp : Bool) (render : Node → String) :
    processOut c text fp none render = text := by
  unfold processOut
  cases fp <;> simp

example :
    let n : Node := .other "SelectStatement" (.cons (.lit "string" "random()") (.cons (.ident "date('now')")
      (.cons (.call "abs" (.cons (.ident "timecol") .nil) .nil) .nil)))
    noTarget n = true := by decide

/-! ### the pre-filter is complete -/

theorem dropWhile_skip_append (q rest : List Char) (hq : ∀ ch ∈ q, isSkip ch = true) :
    (q ++ rest).dropWhile isSkip = rest.dropWhile isSkip := by
  induction q with
  | nil => rfl
  | cons ch q ih =>
    have h1 : isSkip ch = true := hq ch (by simp)
    simp only [List.cons_append, List.dropWhile_cons, h1, if_true]
    exact ih (fun x hx => hq x (by simp [hx]))

theorem opensCall_dropWhile (rest : List Char) (h : opensCall rest = true) :
    opensCall (rest.dropWhile isSkip) = true := by
  unfold opensCall at h
  split at h
  · simp [List.dropWhile_cons, isSkip, opensCall]
  · simp [List.dropWhile_cons, isSkip, opensCall]
  · simp [List.dropWhile_cons, isSkip, opensCall]
  · cases h

theorem callAt_intro (name q rest : List Char) (hq : ∀ ch ∈ q, isSkip ch = true)
    (hr : opensCall rest = true) : callAt name (name ++ (q ++ rest)) = true := by
  unfold callAt
  simp only [Bool.and_eq_true]
  refine ⟨by simp, ?_⟩
  rw [List.drop_left, dropWhile_skip_append q rest hq]
  exact opensCall_dropWhile rest hr

theorem containsCall1_intro (name pre q rest : List Char) (hq : ∀ ch ∈ q, isSkip ch = true)
    (hr : opensCall rest = true) : containsCall1 name (pre ++ (name ++ (q ++ rest))) = true := by
  induction pre with
  | nil =>
    simp only [List.nil_append]
    cases hl : name ++ (q ++ rest) with
    | nil => rw [containsCall1, ← hl]; exact callAt_intro name q rest hq hr
    | cons ch cs => rw [containsCall1, ← hl, callAt_intro name q rest hq hr]; rfl
  | cons ch pre ih =>
    simp only [List.cons_append]
    rw [containsCall1, ih]
    simp

/-- every one of the nine function names ends in a name the filters search for -/
def filterSuffix : List (String × String × String) :=
  [("date", "", "date"), ("time", "", "time"), ("datetime", "date", "time"), ("julianday", "", "julianday"),
   ("unixepoch", "", "unixepoch"), ("strftime", "strf", "time"), ("timediff", "", "timediff"),
   ("random", "", "random"), ("randomblob", "", "randomblob")]

theorem filterSuffix_ok : filterSuffix.all (fun (fn, p, t) =>
    fn.toList == p.toList ++ t.toList && (timeTargets.contains t || randTargets.contains t)) = true := by
  decide

/-- Pre-filter completeness: a (lower-cased) statement text in which one of the nine
function names is followed - after any run of whitespace and closing quote characters
`q` - by an opening parenthesis or by the start of a comment (`/*`, `--`) passes the
filter of its family, wherever in the text it stands. Whitespace, comments and quoted
names between a function name and its parenthesis are exactly what SQL permits there. -/
theorem prefilter_complete (pre q rest : List Char) (hq : ∀ ch ∈ q, isSkip ch = true)
    (hr : opensCall rest = true) :
    (∀ fn ∈ ["date", "time", "datetime", "julianday", "unixepoch", "strftime", "timediff"],
      containsCall timeTargets (pre ++ (fn.toList ++ (q ++ rest))) = true) ∧
    (∀ fn ∈ ["random", "randomblob"],
      containsCall randTargets (pre ++ (fn.toList ++ (q ++ rest))) = true) := by
  have key : ∀ (p t : List Char), containsCall1 t (pre ++ ((p ++ t) ++ (q ++ rest))) = true := by
    intro p t
    have := containsCall1_intro t (pre ++ p) q rest hq hr
    simpa [List.append_assoc] using this
  constructor
  · intro fn hfn
    simp only [List.mem_cons, List.mem_nil_iff, or_false] at hfn
    unfold containsCall timeTargets
    rcases hfn with h | h | h | h | h | h | h <;> subst h
    · have := key [] "date".toList; simp_all
    · have := key [] "time".toList; simp_all
    · have := key "date".toList "time".toList
      have e : "datetime".toList = "date".toList ++ "time".toList := by decide
      simp_all
    · have := key [] "julianday".toList; simp_all
    · have := key [] "unixepoch".toList; simp_all
    · have := key "strf".toList "time".toList
      have e : "strftime".toList = "strf".toList ++ "time".toList := by decide
      simp_all
    · have := key [] "timediff".toList; simp_all
  · intro fn hfn
    simp only [List.mem_cons, List.mem_nil_iff, or_false] at hfn
    unfold containsCall randTargets
    rcases hfn with h | h <;> subst h
    · have := key [] "random".toList; simp_all
    · have := key [] "randomblob".toList; simp_all

/-! ### Process level: filter, parser and rewriter together -/

mutual
theorem noTarget_clean : ∀ (n : Node) (u : Bool), noTarget n = true → clean u n = true
  | .call name args extra, u, h => by
    simp only [noTarget, Bool.and_eq_true, decide_eq_true_eq] at h
    simp only [clean, nondetCall, h.1.1, Bool.not_false, Bool.true_and, Bool.and_eq_true]
    exact ⟨noTargetList_clean args u h.1.2, noTargetList_clean extra u h.2⟩
  | .lit _ _, _, _ => by simp [clean]
  | .ident _, _, _ => by simp [clean]
  | .ord kids, _, h => by simp only [noTarget] at h; simp only [clean]; exact noTargetList_clean kids true h
  | .ret kids, u, h => by simp only [noTarget] at h; simp only [clean]; exact noTargetList_clean kids u h
  | .other _ kids, u, h => by simp only [noTarget] at h; simp only [clean]; exact noTargetList_clean kids u h
theorem noTargetList_clean : ∀ (ns : Nodes) (u : Bool), noTargetList ns = true → cleanList u ns = true
  | .nil, _, _ => by simp [cleanList]
  | .cons n ns, u, h => by
    simp only [noTargetList, Bool.and_eq_true] at h
    simp only [cleanList, Bool.and_eq_true]
    exact ⟨noTarget_clean n u h.1, noTargetList_clean ns u h.2⟩
end

/-! #### a statement the rewriter reports unmodified held nothing to rewrite -/

theorem visitCall_unmodified (c : Cfg) (hr : c.rwRand = true) (ht : c.rwTime = true)
    (st st1 : St) (name : String) (args : Nodes) (tr : ArgTr) (u : Bool)
    (hu : u = false → st.ordered = 0) (hm : st.modified = false)
    (h : visitCall c st name args = .keep tr st1) (hm1 : st1.modified = false) :
    nondetCall u name args = false ∧ tr = .none ∧ st1 = st := by
  unfold visitCall at h
  unfold nondetCall
  simp only [hr, ht, Bool.true_and, Bool.and_true] at h
  cases hk : classify name <;> simp only [hk] at h ⊢
  · simp only [if_true] at h; cases h; simp at hm1
  · cases args with
    | nil => simp [Nodes.length] at h; exact ⟨rfl, h.1.symm, h.2.symm⟩
    | cons f r => simp [Nodes.length] at h; obtain ⟨_, h2⟩ := h; subst h2; simp at hm1
  · cases args with
    | nil => simp [Nodes.length] at h; exact ⟨rfl, h.1.symm, h.2.symm⟩
    | cons a r =>
      cases r with
      | nil => simp [Nodes.length] at h; exact ⟨rfl, h.1.symm, h.2.symm⟩
      | cons b r2 => simp [Nodes.length] at h; obtain ⟨_, h2⟩ := h; subst h2; simp at hm1
  · split at h
    · cases h
    · rename_i hc
      cases h
      refine ⟨?_, rfl, rfl⟩
      cases hu' : u
      · exact absurd (by simp [hu hu']) hc
      · rfl
  · split at h
    · cases hb : blobLenOfArgs args with
      | some n => simp [hb] at h
      | none => simp only [hb] at h; cases h; exact ⟨by simp [hb], rfl, rfl⟩
    · rename_i hc
      cases h
      refine ⟨?_, rfl, rfl⟩
      cases hu' : u
      · exact absurd (by simp [hu hu']) hc
      · rfl
  · cases h; simp

theorem visitCall_modified_mono (c : Cfg) (st : St) (name : String) (args : Nodes) :
    (∀ tr st1, visitCall c st name args = .keep tr st1 → st1.modified = false → st.modified = false) ∧
    (∀ m st1, visitCall c st name args = .replace m st1 → st1.modified = true) := by
  constructor
  · intro tr st1 h hm
    unfold visitCall at h
    repeat' split at h
    all_goals first | (cases h; simp at hm) | (cases h; exact hm) | cases h
  · intro m st1 h
    unfold visitCall at h
    repeat' split at h
    all_goals first | (cases h; rfl) | cases h

mutual
theorem walk_modified_mono (c : Cfg) :
    ∀ (n : Node) (st : St), (walk c st n).2.modified = false → st.modified = false
  | .call name args extra, st, h => by
    rw [walk] at h
    cases hv : visitCall c st name args with
    | replace m st1 => rw [hv] at h; simp only at h; rw [(visitCall_modified_mono c st name args).2 m st1 hv] at h; cases h
    | keep tr st1 =>
      rw [hv] at h
      simp only at h
      have h2 := walkList_modified_mono c extra _ h
      have h1 := walkList_modified_mono c args _ h2
      exact (visitCall_modified_mono c st name args).1 tr st1 hv h1
  | .lit _ _, st, h => by simpa [walk] using h
  | .ident _, st, h => by simpa [walk] using h
  | .ord kids, st, h => by
    rw [walk] at h; simp only at h
    have := walkList_modified_mono c kids _ h
    simpa using this
  | .ret kids, st, h => by
    rw [walk] at h; simp only at h
    have := walkList_modified_mono c kids _ h
    simpa using this
  | .other _ kids, st, h => by
    rw [walk] at h; simp only at h
    exact walkList_modified_mono c kids _ h
theorem walkList_modified_mono (c : Cfg) :
    ∀ (ns : Nodes) (st : St), (walkList c st ns).2.modified = false → st.modified = false
  | .nil, st, h => by simpa [walkList_nil] using h
  | .cons n ns, st, h => by
    rw [walkList_cons] at h
    simp only at h
    exact walk_modified_mono c n st (walkList_modified_mono c ns _ h)
end

mutual
theorem walk_unmodified_clean (c : Cfg) (hr : c.rwRand = true) (ht : c.rwTime = true) :
    ∀ (n : Node) (st : St) (u : Bool), (u = false → st.ordered = 0) →
      (walk c st n).2.modified = false → clean u n = true
  | .call name args extra, st, u, hu, h => by
    have hst := walk_modified_mono c _ st h
    rw [walk] at h
    cases hv : visitCall c st name args with
    | replace m st1 => rw [hv] at h; simp only at h; rw [(visitCall_modified_mono c st name args).2 m st1 hv] at h; cases h
    | keep tr st1 =>
      rw [hv] at h
      simp only at h
      have h2 := walkList_modified_mono c extra _ h
      have h1 := walkList_modified_mono c args _ h2
      obtain ⟨hn, _, hst1⟩ := visitCall_unmodified c hr ht st st1 name args tr u hu hst hv h1
      subst hst1
      have ha := walkList_unmodified_clean c hr ht args st1 u hu h2
      have he := walkList_unmodified_clean c hr ht extra (walkList c st1 args).2 u
        (fun hh => by rw [walkList_ordered]; exact hu hh) h
      simp [clean, hn, ha, he]
  | .lit _ _, _, _, _, _ => by simp [clean]
  | .ident _, _, _, _, _ => by simp [clean]
  | .ord kids, st, u, _, h => by
    rw [walk] at h; simp only at h
    simp only [clean]
    exact walkList_unmodified_clean c hr ht kids _ true (by simp) h
  | .ret kids, st, u, hu, h => by
    rw [walk] at h; simp only at h
    simp only [clean]
    exact walkList_unmodified_clean c hr ht kids _ u (by simpa using hu) h
  | .other _ kids, st, u, hu, h => by
    rw [walk] at h; simp only at h
    simp only [clean]
    exact walkList_unmodified_clean c hr ht kids _ u hu h
theorem walkList_unmodified_clean (c : Cfg) (hr : c.rwRand = true) (ht : c.rwTime = true) :
    ∀ (ns : Nodes) (st : St) (u : Bool), (u = false → st.ordered = 0) →
      (walkList c st ns).2.modified = false → cleanList u ns = true
  | .nil, _, _, _, _ => by simp [cleanList]
  | .cons n ns, st, u, hu, h => by
    rw [walkList_cons] at h
    simp only at h
    have h1 := walkList_modified_mono c ns _ h
    simp only [cleanList, Bool.and_eq_true]
    exact ⟨walk_unmodified_clean c hr ht n st u hu h1,
      walkList_unmodified_clean c hr ht ns _ u (fun hh => by rw [walk_ordered]; exact hu hh) h⟩
end

/-- When the rewriter reports a statement UNMODIFIED (and `Process` therefore replicates the original
text), the original held no non-deterministic call. -/
theorem unmodified_clean (c : Cfg) (hr : c.rwRand = true) (ht : c.rwTime = true) (n : Node)
    (h : (rewrite c n).2.modified = false) : clean false n = true :=
  walk_unmodified_clean c hr ht n {} false (fun _ => rfl) h

def nineNames : List String :=
  ["date", "time", "datetime", "julianday", "unixepoch", "strftime", "timediff", "random", "randomblob"]

/-- The parser (and `strings.ToLower`) as a parameter with ONE assumed law, a fact about tokenising
SQL: when a parsed statement holds a call to one of the nine functions, the lower-cased text holds
that function's name followed - after closing quote characters and white space only - by `(` or
by the start of a comment. `parse` yields the statements of the text (what the splitting of
`splitStatements` and the parser make of it). -/
structure TextSem where
  parse : String → Option (List Node)
  lowered : String → List Char
  call_shape : ∀ text trees n, parse text = some trees → n ∈ trees → noTarget n = false →
    ∃ fn ∈ nineNames, ∃ pre q rest, lowered text = pre ++ (fn.toList ++ (q ++ rest)) ∧
      (∀ ch ∈ q, isSkip ch = true) ∧ opensCall rest = true

/-- what `Process` replicates for ONE statement: the rewritten tree when the rewriter reports a
modification, the ORIGINAL otherwise -/
def replicated (c : Cfg) (n : Node) : Node :=
  if (rewrite c n).2.modified then (rewrite c n).1 else n

/-- the statements `Process` replicates for a text, as trees: each statement rewritten-or-original
(`replicated`) when the pre-filters let the text through (`other` = the RETURNING / EXPLAIN filters),
all original otherwise; `none` = the parser rejects the text (passed through unchanged by design) -/
def processTrees (c : Cfg) (P : TextSem) (other : Bool) (text : String) : Option (List Node) :=
  (P.parse text).map fun trees =>
    if containsCall timeTargets (P.lowered text) || containsCall randTargets (P.lowered text) || other
    then trees.map (replicated c)
    else trees

theorem replicated_clean (c : Cfg) (hr : c.rwRand = true) (ht : c.rwTime = true) (n : Node) :
    clean false (replicated c n) = true := by
  unfold replicated
  cases hm : (rewrite c n).2.modified
  · simpa using unmodified_clean c hr ht n hm
  · simpa using no_nondet_left c hr ht n

/-! #### a text holding several statements, part by part -/

/-- one part of a multi-statement text as `splitStatements` yields it: the parser's tree (`none`: a
piece at which no statement the parser accepts starts) and the part's own text -/
abbrev Part := Option Node × String

/-- what `processMulti` puts in the place of one part: the printed rewritten tree when the rewriter
reports a modification, the part's OWN TEXT otherwise - also for a piece without a tree. (The text
between the parts - semicolons, empty statements, comments - is copied from the original by byte
position and is not modelled.) -/
def partOut (c : Cfg) (render : Node → String) : Part → String
  | (some n, raw) => if (rewrite c n).2.modified then render (rewrite c n).1 else raw
  | (none, raw) => raw

def processParts (c : Cfg) (render : Node → String) (parts : List Part) : List String :=
  parts.map (partOut c render)

/-- A text holding several statements, part by part:
(i) when no part calls any of the nine functions every part keeps its own text (the text is
replicated byte for byte) - whatever the pre-filters said;
(ii) position by position, a part whose tree the rewriter does not modify - or which has no tree - keeps
its own text, whatever happens to the other parts;
(iii) a part the rewriter modifies is replaced by the printed rewritten tree;
(iv) with both flags on, the tree replicated for every part that has one (`replicated`: rewritten or
original) is free of non-deterministic calls. -/
theorem multi_statement_text (c : Cfg) (render : Node → String) (parts : List Part) :
    ((∀ p ∈ parts, ∀ n, p.1 = some n → noTarget n = true) →
      processParts c render parts = parts.map (·.2)) ∧
    (∀ i (hi : i < parts.length), (∀ n, parts[i].1 = some n → (rewrite c n).2.modified = false) →
      (processParts c render parts)[i]? = some parts[i].2) ∧
    (∀ i (hi : i < parts.length) n, parts[i].1 = some n → (rewrite c n).2.modified = true →
      (processParts c render parts)[i]? = some (render (rewrite c n).1)) ∧
    (c.rwRand = true → c.rwTime = true → ∀ p ∈ parts, ∀ n, p.1 = some n → clean false (replicated c n) = true) := by
  refine ⟨fun h => ?_, fun i hi h => ?_, fun i hi n hn hm => ?_, fun hr ht _ _ n _ => replicated_clean c hr ht n⟩
  · unfold processParts
    apply List.map_congr_left
    intro p hp
    obtain ⟨t, raw⟩ := p
    cases t with
    | none => rfl
    | some n =>
      have := (identity_without_calls c n (h _ hp n rfl)).2.1
      simp [partOut, this]
  · simp only [processParts, List.getElem?_map, List.getElem?_eq_getElem hi, Option.map_some, Option.some.injEq]
    generalize parts[i] = p at h
    obtain ⟨t, raw⟩ := p
    cases t with
    | none => rfl
    | some n => simp [partOut, h n rfl]
  · simp only [processParts, List.getElem?_map, List.getElem?_eq_getElem hi, Option.map_some, Option.some.injEq]
    generalize parts[i] = p at hn
    obtain ⟨t, raw⟩ := p
    simp only at hn
    subst hn
    simp [partOut, hm]

example : processParts ⟨true, true, fun _ => 7, "0"⟩ (fun _ => "<printed>")
    [(some (.other "S" (.cons (.call "random" .nil .nil) .nil)), "select random()"), (none, " create temp table x(a)"),
     (some (.other "S" (.cons (.lit "int" "1") .nil)), " select 1 -- kept")] =
    ["<printed>", " create temp table x(a)", " select 1 -- kept"] := by decide

/-- Process-level statement: for every text the parser accepts, every statement that is replicated
- rewritten, or original because the rewriter reported no modification, or original because the
pre-filter did not let the text through - is free of non-deterministic calls (by `no_nondet_left`,
`unmodified_clean`, and the tokenising law with `prefilter_complete`, respectively). -/
theorem process_no_nondet_left (c : Cfg) (hr : c.rwRand = true) (ht : c.rwTime = true)
    (P : TextSem) (other : Bool) (text : String) (out : List Node)
    (h : processTrees c P other text = some out) : ∀ n ∈ out, clean false n = true := by
  unfold processTrees at h
  cases hp : P.parse text with
  | none => simp [hp] at h
  | some trees =>
    simp only [hp, Option.map_some, Option.some.injEq] at h
    intro n hn
    split at h
    · subst h
      simp only [List.mem_map] at hn
      obtain ⟨m, _, rfl⟩ := hn
      exact replicated_clean c hr ht m
    · rename_i hf
      subst h
      simp only [Bool.or_eq_true, not_or, Bool.not_eq_true] at hf
      by_cases hnt : noTarget n = true
      · exact noTarget_clean n false hnt
      · exfalso
        obtain ⟨fn, hfn, pre, q, rest, hl, hq, hrr⟩ :=
          P.call_shape text trees n hp hn (by simpa using hnt)
        obtain ⟨h1, h2⟩ := prefilter_complete pre q rest hq hrr
        simp only [nineNames, List.mem_cons, List.mem_nil_iff, or_false] at hfn
        rw [hl] at hf
        rcases hfn with h | h | h | h | h | h | h | h | h <;> subst h
        · have := h1 "date" (by simp); rw [this] at hf; simp at hf
        · have := h1 "time" (by simp); rw [this] at hf; simp at hf
        · have := h1 "datetime" (by simp); rw [this] at hf; simp at hf
        · have := h1 "julianday" (by simp); rw [this] at hf; simp at hf
        · have := h1 "unixepoch" (by simp); rw [this] at hf; simp at hf
        · have := h1 "strftime" (by simp); rw [this] at hf; simp at hf
        · have := h1 "timediff" (by simp); rw [this] at hf; simp at hf
        · have := h2 "random" (by simp); rw [this] at hf; simp at hf
        · have := h2 "randomblob" (by simp); rw [this] at hf; simp at hf

/-- `TextSem` is inhabited non-trivially: a one-text language whose statement holds a call -/
def demoText : TextSem where
  parse t := if t = "select random ()" then some [.other "SelectStatement" (.cons (.call "random" .nil .nil) .nil)] else none
  lowered t := t.toList
  call_shape := by
    intro text trees n hp hn _
    by_cases ht : text = "select random ()"
    · subst ht
      exact ⟨"random", by simp [nineNames], "select ".toList, [' '], "()".toList, by decide, by decide, by decide⟩
    · simp [ht] at hp

example : (processTrees ⟨true, true, fun _ => 7, "0"⟩ demoText false "select random ()").map
      (fun ts => ts.map (clean false)) = some [true] ∧
    (demoText.parse "select random ()").map (fun ts => ts.map (clean false)) = some [false] := by decide

example : containsRandom "insert into t values(random /* x */ ())" = true ∧
    containsTime "select \"datetime\" ('now')" = true ∧
    containsTime "select sometimedata from table" = false ∧
    containsRandom "select some_random_function()" = false := by decide

end C14

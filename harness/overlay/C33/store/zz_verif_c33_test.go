package store

// C33: manual recovery keeps all applied data and starts with exactly the peers-file
// configuration. Real single-node stores are driven through generated histories of
// writes, snapshots (with and without log truncation) and loads; then the node is shut
// down (with or without a snapshot on close, i.e. with the clean-snapshot fingerprint
// valid or not, with a log tail or not), a generated peers file is written and the
// store reopened. Compared: the table (against the Lean model `storesm` and the Go
// reference of the acknowledged history), the FULL logical dump before shutdown and
// after recovery (this also covers a foreign-key schema the model does not have), and
// raft's configuration against the peers file.

import (
	"bytes"
	"context"
	"fmt"
	"os"
	"path/filepath"
	"strings"
	"testing"

	"github.com/rqlite/rqlite/v10/command/proto"
)

func c33FullDump(t *testing.T, s *Store) string {
	var b bytes.Buffer
	if err := s.db.Dump(&b); err != nil {
		return "DUMP-ERROR:" + err.Error()
	}
	return b.String()
}

// c33FKTraffic sends statements whose effect depends on foreign-key enforcement.
func c33FKTraffic(e *ssmEnv, r *vfRng) {
	var qs []string
	for i := 0; i < 1+r.Intn(3); i++ {
		switch r.Intn(4) {
		case 0:
			qs = append(qs, fmt.Sprintf("INSERT OR REPLACE INTO par(id) VALUES(%d)", 1+r.Intn(4)))
		case 1: // may dangle: rejected only when FKs are enforced
			qs = append(qs, fmt.Sprintf("INSERT OR REPLACE INTO chi(id,pid) VALUES(%d,%d)", 1+r.Intn(6), 1+r.Intn(6)))
		case 2: // cascades only when FKs are enforced
			qs = append(qs, fmt.Sprintf("DELETE FROM par WHERE id=%d", 1+r.Intn(4)))
		default:
			qs = append(qs, fmt.Sprintf("UPDATE chi SET pid=%d WHERE id=%d", 1+r.Intn(6), 1+r.Intn(6)))
		}
	}
	fkTx := r.Chance(30)
	if err := ssmRetry(e.s, func() error {
		_, _, err := e.s.Execute(context.Background(), executeRequestFromStrings(qs, false, fkTx))
		return err
	}); err != nil {
		e.opFailed("fk traffic", err)
	}
	// the model sees a command entry that leaves the kv table alone
	e.emit("exec 0 d:999", "ok")
	e.hist = append(e.hist, "fk("+strings.Join(qs, "; ")+")")
	e.rep.Count("op-fk-traffic")
}

func c33MustExecute(e *ssmEnv, qs []string) {
	if err := ssmRetry(e.s, func() error {
		res, _, err := e.s.Execute(context.Background(), executeRequestFromStrings(qs, false, false))
		if err != nil {
			return err
		}
		for _, r := range res {
			if r.GetError() != "" {
				e.t.Fatalf("setup statement failed: %s", r.GetError())
			}
		}
		return nil
	}); err != nil {
		e.opFailed("setup statements", err)
	}
}

func c33History(t *testing.T, rep *vfReport, r *vfRng, nOps int, fk bool) (ops, impl []string) {
	var e *ssmEnv
	defer ssmGuard(rep, &e, &ops, &impl)
	e = ssmNewEnv(t, rep, r, "C33", fk)
	defer e.cleanup()
	c33MustExecute(e, []string{`CREATE TABLE par (id INTEGER PRIMARY KEY)`,
		`CREATE TABLE chi (id INTEGER PRIMARY KEY, pid INTEGER REFERENCES par(id) ON DELETE CASCADE)`})
	e.emit("exec 0 d:999", "ok")
	recoveries := 0
	loaded := false
	for round := 0; round < 2 && !e.broken; round++ {
		for i := 0; i < nOps && !e.broken; i++ {
			switch k := r.Intn(100); {
			case k < 45:
				e.exec(r.Chance(35), e.genStmts())
			case k < 65:
				if !loaded { // a load replaces the whole file, including the FK tables
					c33FKTraffic(e, r)
				} else {
					e.exec(false, e.genStmts())
				}
			case k < 72 && round == 1:
				e.load(e.genRows(), r.Bool())
				loaded = true
			default:
				e.exec(false, []ssmStmt{{"p", 100, r.Intn(1000)}})
				tr := 0
				if r.Chance(60) {
					tr = 1 + r.Intn(2)
				}
				e.snapshot(tr)
			}
		}
		if e.broken {
			break
		}
		// sometimes the LAST command entry in the log is one that changes nothing: a NOOP,
		// a strong read (it travels through the log) or a load of invalid data
		tailKind := ""
		if r.Chance(50) {
			e.exec(false, e.genStmts()) // make sure there is something to lose before it
			switch r.Intn(3) {
			case 0:
				if err := ssmRetry(e.s, func() error {
					af, err := e.s.Noop("c33")
					if err != nil {
						return err
					}
					return af.Error()
				}); err != nil {
					e.opFailed("noop", err)
				}
				tailKind = "noop"
			case 1:
				qr := queryRequestFromString("SELECT count(*) FROM kv", false, false, false)
				qr.Level = proto.ConsistencyLevel_STRONG
				if err := ssmRetry(e.s, func() error { _, _, _, err := e.s.Query(context.Background(), qr); return err }); err != nil {
					e.opFailed("strong read", err)
				}
				tailKind = "strong-read"
			default:
				e.loadBad(0)
				tailKind = "invalid-load"
			}
			if tailKind != "invalid-load" {
				e.emit("exec 0 d:999", "ok")
				e.hist = append(e.hist, tailKind)
			}
			rep.Count("log-tail-ends-with-" + tailKind)
		}
		e.dump("table-wrong-before-shutdown")
		before := c33FullDump(t, e.s)
		// shutdown, with or without the snapshot-on-close
		snapOnClose := r.Chance(40) && tailKind == ""
		e.s.NoSnapshotOnClose = !snapOnClose
		if err := e.s.Close(true); err != nil {
			t.Fatalf("close: %v", err)
		}
		e.ln.Close()
		if snapOnClose {
			e.emit("close 1", "ok")
		} else {
			e.emit("close 0", "ok")
		}
		e.hist = append(e.hist, fmt.Sprintf("close(snapshot=%v)", snapOnClose))
		rep.Count(fmt.Sprintf("shutdown-snapshot-on-close=%v", snapOnClose))
		// peers file: this node, at its old or at a new address; sometimes with more voters
		e.newStore()
		// the peers file: this node (a voter, at its new address) plus non-voters in ANY position
		// (also first) and sometimes further voters; order and suffrage are part of what is compared
		self := ssmPeer{e.id, e.ln.Addr().String(), true}
		cfg := []ssmPeer{self}
		for j := 0; j < r.Intn(3); j++ {
			nv := ssmPeer{fmt.Sprintf("observer%d", j), fmt.Sprintf("127.0.0.1:%d", 41000+r.Intn(1000)), false}
			at := r.Intn(len(cfg) + 1)
			cfg = append(cfg[:at], append([]ssmPeer{nv}, cfg[at:]...)...)
		}
		multi := r.Chance(25) && round == 1
		if multi {
			for j := 0; j < 1+r.Intn(2); j++ {
				v := ssmPeer{fmt.Sprintf("other%d", j), fmt.Sprintf("127.0.0.1:%d", 40000+r.Intn(1000)), true}
				at := r.Intn(len(cfg) + 1)
				cfg = append(cfg[:at], append([]ssmPeer{v}, cfg[at:]...)...)
			}
		}
		// sometimes the file is one checkRaftConfiguration must refuse
		if r.Chance(15) {
			bad := append([]ssmPeer(nil), cfg...)
			kind := ""
			switch r.Intn(3) {
			case 0:
				for i := range bad {
					bad[i].voter = false
				}
				kind = "no-voter"
			case 1:
				bad = append(bad, ssmPeer{self.id, "127.0.0.1:39999", true})
				kind = "duplicate-id"
			default:
				bad = append(bad, ssmPeer{"dupaddr", self.addr, false})
				kind = "duplicate-address"
			}
			e.writePeers(bad)
			e.emit("peers "+ssmPeersLine(bad), "ok")
			e.hist = append(e.hist, "invalid-peers("+kind+")")
			rep.Count("invalid-peers-file-" + kind)
			err := e.s.Open()
			if err == nil {
				rep.Fail("invalid-peers-file-accepted:"+kind, fmt.Sprintf("history %v: Open succeeded with peers file %s", e.hist, ssmPeersLine(bad)), map[string]interface{}{"history": e.hist})
				e.broken = true
				break
			}
			e.emit("open", "open-failed")
			if _, serr := os.Stat(filepath.Join(e.dir, "raft/peers.json")); serr != nil {
				rep.Fail("invalid-peers-file-consumed", fmt.Sprintf("history %v", e.hist), nil)
			}
			ssmAbandon(e.s)
			e.ln.Close()
			e.newStore()
			self.addr = e.ln.Addr().String()
			for i := range cfg {
				if cfg[i].id == self.id {
					cfg[i].addr = self.addr
				}
			}
		}
		e.writePeers(cfg)
		want := ssmPeersLine(cfg)
		e.emit("peers "+want, "ok")
		e.hist = append(e.hist, fmt.Sprintf("peers(%s)", want))
		// RecoverNode's own snapshot wakes the snapshot store's background reaper; while it holds
		// the store's write lock raft's non-blocking List/Open of snapshots are refused and the
		// start aborts. Recovery itself is complete by then (peers file consumed), a later start
		// works: openRetry counts/notes the event and starts again; data and configuration are
		// checked below either way.
		err := e.openRetry()
		if err != nil {
			rep.Fail("recovery-open-failed", fmt.Sprintf("history %v: %v", e.hist, err), map[string]interface{}{"history": e.hist})
			break
		}
		recoveries++
		rep.Count("op-recover")
		if e.s.numSnapshotsSkipped.Load() > 0 {
			rep.Count("recover-took-fast-path")
		}
		if !multi {
			e.waitReady()
		}
		e.emit("open", "ok")
		e.hist = append(e.hist, "open")
		// the property: everything applied is there, and the configuration is the file's
		e.dump("recovered-table-differs-from-applied")
		after := c33FullDump(t, e.s)
		if after != before {
			sig := "recovered-database-differs-from-applied"
			if fk {
				sig += ":foreign-keys-enabled"
			}
			rep.Fail(sig, fmt.Sprintf("history %v: logical dump after recovery differs from the dump before shutdown\nbefore: %s\nafter:  %s", e.hist, c33Short(before), c33Short(after)),
				map[string]interface{}{"history": e.hist, "before": before, "after": after})
			e.broken = true
		}
		gotCfg := ssmRaftConfigList(e.s)
		e.emit("config", gotCfg)
		if gotCfg != want {
			rep.Fail("recovered-configuration-differs-from-peers-file", fmt.Sprintf("history %v: raft configuration %q, peers file %q (ordered id@address, /N = non-voter)", e.hist, gotCfg, want),
				map[string]interface{}{"history": e.hist, "got": gotCfg, "want": want})
		}
		if _, err := os.Stat(filepath.Join(e.dir, "raft/peers.json")); err == nil {
			rep.Fail("peers-file-not-consumed", fmt.Sprintf("history %v", e.hist), nil)
		}
		if multi {
			break // no leader can be elected with absent voters
		}
	}
	rep.Case(strings.Join(e.hist, " "), recoveries > 0)
	rep.Sample(map[string]interface{}{"history": strings.Join(e.hist, " "), "foreign_keys": fk})
	return e.ops, e.impl
}

func c33Short(s string) string {
	s = strings.ReplaceAll(s, "\n", " ")
	if len(s) > 700 {
		return s[:700] + "…"
	}
	return s
}

func TestVerifC33(t *testing.T) {
	rep := vfNewReport("C33", "generated histories on real single-node stores (foreign keys on or off): write requests, foreign-key-sensitive statements (dangling child rows, cascading deletes), snapshots with/without log truncation, loads; then shutdown with or without snapshot-on-close, a generated peers file (same node at a new address; sometimes extra voters) and reopen; a second round continues on the recovered node; every history performs at least one recovery; distinct by history text")
	defer rep.Write()
	r := ssmRng(33)
	n := vfScale(5, 60)
	var allOps, allImpl [][]string
	for h := 0; h < n; h++ {
		ops, impl := c33History(t, rep, r, vfScale(6, 14), h%2 == 0)
		allOps = append(allOps, ops)
		allImpl = append(allImpl, impl)
	}
	ssmFloor(rep)
	rep.vfCompareSegments("storesm", allOps, allImpl)
}

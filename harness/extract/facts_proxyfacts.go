package main

// ProxyFacts (C20): proxy/proxy.go — where the sentinel ErrNotLeader can come from.
// The HTTP handlers answer ErrNotLeader with s.DoRedirect(...) and ignore its result,
// which only writes a response when the client asked for redirects; so the proxy must
// produce ErrNotLeader only under its noForward (= redirect requested) flag.

import (
	"fmt"
	"go/ast"
	"strings"
)

func init() {
	register("ProxyFacts", func(x *X) {
		var items []string
		for _, f := range x.Pkg("proxy") {
			for _, d := range f.Decls {
				fd, ok := d.(*ast.FuncDecl)
				if !ok || fd.Body == nil {
					continue
				}
				// every return statement (or assignment) that mentions ErrNotLeader, with the
				// conditions of the if statements enclosing it
				var walk func(n ast.Node, conds []string)
				walk = func(n ast.Node, conds []string) {
					switch t := n.(type) {
					case *ast.BlockStmt:
						for _, s := range t.List {
							walk(s, conds)
						}
					case *ast.IfStmt:
						c := x.Src(t.Cond)
						walk(t.Body, append(append([]string(nil), conds...), c))
						if t.Else != nil {
							walk(t.Else, append(append([]string(nil), conds...), "!("+c+")"))
						}
					case *ast.SwitchStmt:
						for _, cl := range t.Body.List {
							cc := cl.(*ast.CaseClause)
							var cs []string
							for _, e := range cc.List {
								cs = append(cs, x.Src(e))
							}
							lbl := "switch " + x.Src(t.Tag) + " case " + strings.Join(cs, ",")
							for _, s := range cc.Body {
								walk(s, append(append([]string(nil), conds...), lbl))
							}
						}
					case *ast.ReturnStmt:
						for _, r := range t.Results {
							if strings.Contains(x.Src(r), "ErrNotLeader") {
								items = append(items, fmt.Sprintf("  (%s, %s, %s)", LeanStr(fd.Name.Name), LeanStr(x.Src(t)), leanStrs(conds)))
								break
							}
						}
					case *ast.AssignStmt:
						if strings.Contains(x.Src(t), "ErrNotLeader") {
							items = append(items, fmt.Sprintf("  (%s, %s, %s)", LeanStr(fd.Name.Name), LeanStr(x.Src(t)), leanStrs(conds)))
						}
					case *ast.ForStmt:
						walk(t.Body, conds)
					case *ast.RangeStmt:
						walk(t.Body, conds)
					}
				}
				walk(fd.Body, nil)
			}
		}
		x.Comment("proxy/*.go: (function, statement producing ErrNotLeader, enclosing conditions)")
		x.Raw("def notLeaderSources : List (String × String × List String) := [\n" + strings.Join(items, ",\n") + "]")
		// functions applied to the error of a forwarding call before it is returned
		seen := map[string]bool{}
		var wrappers []string
		for _, f := range x.Pkg("proxy") {
			ast.Inspect(f, func(n ast.Node) bool {
				r, ok := n.(*ast.ReturnStmt)
				if !ok {
					return true
				}
				for _, e := range r.Results {
					if c, ok := e.(*ast.CallExpr); ok && len(c.Args) == 1 && x.Src(c.Args[0]) == "err" {
						if nme := x.Src(c.Fun); !seen[nme] {
							seen[nme] = true
							wrappers = append(wrappers, nme)
						}
					}
				}
				return true
			})
		}
		sortStrings(wrappers)
		x.DefStrings("remoteErrorWrappers", wrappers)
		var body []string
		if fd := x.Func("proxy", "", "wrapIfUnauthorized"); fd != nil {
			for _, s := range fd.Body.List {
				body = append(body, x.Src(s))
			}
		}
		x.DefStrings("wrapIfUnauthorizedBody", body)
		// http handlers: the body of every `errors.Is(…, proxy.ErrNotLeader)` branch
		var branches []string
		for _, f := range x.Pkg("http") {
			for _, d := range f.Decls {
				fd, ok := d.(*ast.FuncDecl)
				if !ok || fd.Body == nil {
					continue
				}
				ast.Inspect(fd.Body, func(n ast.Node) bool {
					is, ok := n.(*ast.IfStmt)
					if !ok || !strings.Contains(x.Src(is.Cond), "proxy.ErrNotLeader") {
						return true
					}
					var b []string
					for _, s := range is.Body.List {
						b = append(b, x.Src(s))
					}
					branches = append(branches, fmt.Sprintf("  (%s, %s)", LeanStr(fd.Name.Name), leanStrs(b)))
					return true
				})
			}
		}
		sortStrings(branches)
		x.Comment("http/*.go: (function, body of its errors.Is(err, proxy.ErrNotLeader) branch)")
		x.Raw("def httpNotLeaderBranches : List (String × List String) := [\n" + strings.Join(branches, ",\n") + "]")
	})
}

/-
Helper lemmas for C09 (catalog well-formedness, full-needed) over RqModel/Model/SnapCat.lean.
-/
import RqModel.Model.SnapCat
import RqModel.Lemmas.SnapFSFields
set_option linter.unusedSimpArgs false
set_option linter.unusedVariables false
namespace RqModel.SnapCat
open RqModel.SnapFS
variable {D : Type}

theorem getSink_putSink (s : CS D) (h h' : Nat) (k : Sink D) :
    getSink (putSink s h k) h' = if h' = h then some k else getSink s h' := by
  unfold getSink putSink
  by_cases e : h' = h
  · subst e; simp
  · have e' : (h == h') = false := by simpa using fun x => e x.symm
    simp only [List.find?_cons, e', e, if_false]
    congr 1
    rw [List.find?_filter]
    congr 1
    funext x
    by_cases hx : x.1 = h'
    · have : x.1 ≠ h := hx ▸ e
      simp [hx, this, e]
    · simp [hx]

theorem putSink_fs (s : CS D) (h : Nat) (k : Sink D) : (putSink s h k).fs = s.fs := rfl

/-- FULL_NEEDED goes from set to clear only through a Close that returned success -/
theorem fullNeeded_cleared_only_by_close (A : DbAlg D) (s : CS D) (op : COp D)
    (h1 : s.fs.fullNeeded = true) (h2 : (stepOp A s op).1.fs.fullNeeded = false) :
    ∃ h, op = .close h ∧ (stepOp A s op).2 = "ok" := by
  cases op with
  | create h n i t => simp [stepOp, create, putSink, FS.set, h1] at h2
  | wfull h d ws v =>
    simp only [stepOp, writeFull] at h2
    split at h2
    · simp [h1] at h2
    · split at h2 <;> simp [putSink, h1] at h2
  | winc h ws =>
    simp only [stepOp, writeInc] at h2
    split at h2
    · simp [h1] at h2
    · split at h2
      · split at h2 <;> simp [putSink, h1] at h2
      · simp [h1] at h2
  | close h =>
    refine ⟨h, rfl, ?_⟩
    simp only [stepOp, close] at h2 ⊢
    cases hk : getSink s h with
    | none => simp [hk, h1] at h2
    | some k =>
      simp only [hk] at h2 ⊢
      cases ho : k.opened with
      | false => simp [ho, h1] at h2
      | true =>
        simp only [ho, Bool.not_true, Bool.false_eq_true, if_false] at h2 ⊢
        cases hh : k.hdr with
        | none => simp [hh, putSink, FS.set, h1] at h2
        | rejected => simp [hh, putSink, FS.set, h1] at h2
        | full d ws v => cases v <;> simp [hh, putSink, FS.set, h1] at h2 ⊢
        | inc ws => simp [hh, putSink, FS.set, h1] at h2 ⊢
  | closeRenameFails h =>
    simp only [stepOp, closeRenameFails] at h2
    cases hk : getSink s h with
    | none => simp [hk, h1] at h2
    | some k =>
      simp only [hk] at h2
      cases ho : k.opened with
      | false => simp [ho, h1] at h2
      | true =>
        simp only [ho, Bool.not_true, Bool.false_eq_true, if_false] at h2
        cases hh : k.hdr with
        | none => simp [hh, putSink, FS.set, h1] at h2
        | rejected => simp [hh, putSink, FS.set, h1] at h2
        | full d ws v => cases v <;> simp [hh, putSink, FS.set, h1] at h2
        | inc ws => simp [hh, putSink, FS.set, h1] at h2
  | cancel h =>
    simp only [stepOp, cancel] at h2
    split at h2
    · simp [h1] at h2
    · split at h2
      · simp [h1] at h2
      · split at h2 <;> simp [putSink, FS.set, h1] at h2
  | setFull => simp [stepOp, setFull] at h2
  | reopen =>
    simp only [stepOp, reopen] at h2
    split at h2
    · rename_i fs hc
      have := check_fullNeeded A _ _ hc
      simp [this, h1] at h2
    · simp [h1] at h2
  | crashClose h c =>
    simp only [stepOp, crashClose] at h2
    split at h2
    · simp [h1] at h2
    · split at h2 <;> simp [FS.set, h1] at h2
  | reap nn =>
    simp only [stepOp, reapOp] at h2
    split at h2
    · rename_i fs hc
      have := reap_fullNeeded A _ _ _ _ hc
      simp [this, h1] at h2
    · simp [h1] at h2

/-- Close never installs an incremental snapshot while a full one is required -/
theorem close_inc_needs_no_full (s : CS D) (h : Nat) (k : Sink D) (wals : List Nat)
    (hk : getSink s h = some k) (hi : k.hdr = .inc wals) (hok : (close true s h).2 = "ok") (ho : k.opened = true) :
    s.fs.fullNeeded = false := by
  simp only [close, hk, ho, Bool.not_true, Bool.false_eq_true, if_false, hi] at hok
  cases hf : s.fs.fullNeeded with
  | false => rfl
  | true => simp [hf] at hok


end RqModel.SnapCat

package rsync

// C31 (part 1) correspondence + spec oracle for (*CheckAndSet).BeginWithRetry vs. the
// Lean model `casretry` (RqModel/Model/CasRetry.lean).
//
// Two regimes whose OUTCOME does not depend on scheduling: (a) the holder releases
// long (>= 2.8 s) before the deadline -> must acquire; (b) the holder never releases
// -> must time out. Only the outcome class is diffed. Measured times are judged by the
// oracle against the model's bounds with 5 s slack, and with exact lower bounds that
// hold on any machine (no acquisition before the release began, no give-up before the
// deadline).

import (
	"errors"
	"fmt"
	"sync"
	"testing"
	"time"
)

func TestVerifC31Cas(t *testing.T) {
	rep := vfNewReport("C31", "BeginWithRetry on the real CheckAndSet: (a) timeout 3 s, retry interval {1,5,20} ms, holder of {none,0,1,10,50,150} ms; (b) holder that never releases, timeout {20,60} ms, interval {1,7,25} ms; outcome class diffed with the model, times checked against the model's bounds")
	defer rep.Write()
	slack := 5 * time.Second // upper bounds only; generous because the machine may be heavily loaded
	type tc struct {
		timeout, interval, hold time.Duration
		held, forever            bool
	}
	var cases []tc
	for _, iv := range []time.Duration{time.Millisecond, 5 * time.Millisecond, 20 * time.Millisecond} {
		cases = append(cases, tc{3 * time.Second, iv, 0, false, false})
		for _, h := range []time.Duration{0, time.Millisecond, 10 * time.Millisecond, 50 * time.Millisecond, 150 * time.Millisecond} {
			cases = append(cases, tc{3 * time.Second, iv, h, true, false})
		}
	}
	for _, to := range []time.Duration{20 * time.Millisecond, 60 * time.Millisecond} {
		for _, iv := range []time.Duration{time.Millisecond, 7 * time.Millisecond, 25 * time.Millisecond} {
			cases = append(cases, tc{to, iv, 0, true, true})
		}
	}
	reps := vfScale(2, 150)
	var mu sync.Mutex
	var allOps, allImpl [][]string
	for rp := 0; rp < reps; rp++ {
		var wg sync.WaitGroup
		for _, c := range cases {
			wg.Add(1)
			go func(c tc) {
				defer wg.Done()
				cas := NewCheckAndSet()
				start := time.Now()
				var relBefore, relAfter time.Duration = -1, -1
				var relMu sync.Mutex
				relTok := "0" // not held = released at time 0
				stop := make(chan struct{})
				if c.held {
					if err := cas.Begin("holder"); err != nil {
						panic(err)
					}
					if c.forever {
						relTok = "-"
						go func() { <-stop; cas.End() }()
					} else {
						relTok = fmt.Sprint(int64(c.hold))
						go func() {
							time.Sleep(c.hold)
							relMu.Lock()
							relBefore = time.Since(start)
							relMu.Unlock()
							cas.End()
							relMu.Lock()
							relAfter = time.Since(start)
							relMu.Unlock()
						}()
					}
				}
				t0 := time.Since(start)
				err := cas.BeginWithRetry("close", c.timeout, c.interval)
				t1 := time.Since(start)
				close(stop)
				class := "acquired"
				if errors.Is(err, ErrCASConflictTimeout) {
					class = "timeout"
				} else if err != nil {
					class = "error"
				}
				replay := map[string]interface{}{"timeout_ns": int64(c.timeout), "interval_ns": int64(c.interval), "hold_ns": int64(c.hold), "held": c.held, "never_released": c.forever, "elapsed_ns": int64(t1 - t0), "result": fmt.Sprint(err)}
				relMu.Lock()
				rb, ra := relBefore, relAfter
				relMu.Unlock()
				switch {
				case c.forever:
					if class != "timeout" {
						rep.Fail("retry-acquired-a-held-gate", fmt.Sprintf("BeginWithRetry returned %v although the holder never released", err), replay)
					} else {
						if t1-t0 < c.timeout {
							rep.Fail("retry-gave-up-before-timeout", fmt.Sprintf("gave up after %v, timeout %v", t1-t0, c.timeout), replay)
						}
						if t1-t0 > c.timeout+c.interval+slack {
							rep.Fail("retry-gave-up-late", fmt.Sprintf("gave up after %v, timeout %v interval %v", t1-t0, c.timeout, c.interval), replay)
						}
					}
				case c.held && (ra < 0 || ra > t0+c.timeout-time.Second):
					// the holder's release slipped to within a second of the deadline (very slow
					// machine): either outcome is legitimate, nothing is judged or diffed
					rep.Count("cas:inconclusive-holder-released-too-late-on-this-machine")
					return
				default:
					if class != "acquired" {
						rep.Fail("retry-failed-although-released-before-timeout", fmt.Sprintf("holder of %v, timeout %v: %v", c.hold, c.timeout, err), replay)
					} else if c.held {
						if rb >= 0 && t1 < rb {
							rep.Fail("retry-acquired-before-release", fmt.Sprintf("acquired at %v, release began at %v", t1, rb), replay)
						}
						if ra >= 0 && t1 > ra+c.interval+slack && t1 > t0+c.interval+slack {
							rep.Fail("retry-acquired-late-after-release", fmt.Sprintf("acquired %v after the release (retry interval %v)", t1-ra, c.interval), replay)
						}
					} else if t1-t0 > slack {
						rep.Fail("retry-slow-on-free-gate", fmt.Sprint(t1-t0), replay)
					}
				}
				op := fmt.Sprintf("class 0 %d %d %s", int64(c.timeout), int64(c.interval), relTok)
				mu.Lock()
				allOps = append(allOps, []string{op})
				allImpl = append(allImpl, []string{class})
				mu.Unlock()
				rep.Case(op, rp == 0)
				rep.Count("cas:" + class)
			}(c)
		}
		wg.Wait()
	}
	// the model has no state: every op line is its own segment
	rep.vfCompareSegments("casretry", allOps, allImpl)
}

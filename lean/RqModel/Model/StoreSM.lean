/-
StoreSM: state-machine model of one rqlite node, shared by C22 (loads/boots), C33
(manual recovery), C03 (crash/restart) and C01 (convergence of apply paths).

Code modelled (read line by line):
* store/command_processor.go `Process`: EXECUTE → `db.Execute`, LOAD → temp file + `Swap`,
  NOOP; one function for the live apply (`fsmApply`), the restart replay (raft calls
  `FSM.Apply` again) and the recovery replay (`RecoverNode`).
* db/db.go `executeWithConn`: a transaction request stops at the first failing statement
  and rolls everything back; a plain request continues past failing statements.
* db/swappable_db.go `Swap`: validity gate first (16-byte magic, and — since the `fix:`
  commit — SQLite must be able to open the file) BEFORE the current database is touched.
* store/store.go `fsmApply` (LOAD sets full-needed), `ReadFrom` (boot: NOOP entry, swap,
  full-needed, `Snapshot(1)`), `fsmSnapshot` + store/fsm.go `Persist` + snapshot/sink.go
  `Close` as micro-steps in the order the facts in Gen/StoreOrder.lean are extracted in:
  checkpoint → persist into the temp directory → install (rename) → fingerprint →
  log compaction; `fsmRestore` (remove fingerprint → swap → write fingerprint);
  `Open` (fast path iff a snapshot exists, no recovery is requested and the fingerprint
  matches the database file; otherwise database files removed and the newest snapshot
  restored; WAL always discarded; temp snapshot and staging directories removed; then
  the log after the snapshot index is replayed); `createDBOnDisk`.
* store/state.go `RecoverNode`: restore newest snapshot, replay every later command entry,
  one full snapshot at the last index, log deleted, configuration := peers file.

Abstractions: the database is a key→value table (`Db`); statements are the small
vocabulary `Stmt` the correspondence harness generates SQL for. Indices count command
entries only (raft-internal entries never reach the FSM). External components with
assumed laws: raft (a single-node cluster re-commits and re-applies its whole durable log
after restart, in order; `Apply` returns after the FSM ran), Bolt (an appended entry is
durable), the snapshot store (restoring the newest snapshot yields the database that was
persisted — C04/C06/C09), SQLite (statement execution is a function of database and
statement for the statements in scope — C01/C14), file fingerprint (mtime,size,crc)
changes whenever the database file's content changes.
-/
import RqModel.Model.Util
namespace RqModel.StoreSM
open RqModel.Util

abbrev Db := List (Nat × Int)     -- sorted by key, keys distinct

def dbGet : Db → Nat → Option Int
  | [], _ => none
  | (k, v) :: r, q => if k = q then some v else dbGet r q

def dbPut : Db → Nat → Int → Db
  | [], q, w => [(q, w)]
  | (k, v) :: r, q, w =>
    if q < k then (q, w) :: (k, v) :: r
    else if q = k then (k, w) :: r
    else (k, v) :: dbPut r q w

def dbDel : Db → Nat → Db
  | [], _ => []
  | (k, v) :: r, q => if k = q then r else (k, v) :: dbDel r q

/-- canonical form of an arbitrary list of rows (later rows win) -/
def dbOfRows (rows : List (Nat × Int)) : Db := rows.foldl (fun d r => dbPut d r.1 r.2) []

inductive Stmt where
  | put (k : Nat) (v : Int)     -- INSERT OR REPLACE INTO kv VALUES(k,v)
  | ins (k : Nat) (v : Int)     -- INSERT INTO kv VALUES(k,v): fails on a duplicate key
  | del (k : Nat)               -- DELETE FROM kv WHERE k=?
  | add (k : Nat) (d : Int)     -- UPDATE kv SET v=v+d WHERE k=?  (not idempotent)
  | bad                         -- a statement SQLite rejects
  | text (d : Db)               -- a SQL-text load: drop, create and fill the table
deriving Repr, DecidableEq

def execStmt (d : Db) : Stmt → Option Db
  | .put k v => some (dbPut d k v)
  | .ins k v => if (dbGet d k).isSome then none else some (dbPut d k v)
  | .del k => some (dbDel d k)
  | .add k x => match dbGet d k with
    | some v => some (dbPut d k (v + x))
    | none => some d
  | .bad => none
  | .text d' => some d'

/-- plain request: every statement runs, failing ones change nothing -/
def execPlain (d : Db) : List Stmt → Db
  | [] => d
  | s :: ss => execPlain ((execStmt d s).getD d) ss

/-- transaction request: first failure rolls everything back and stops -/
def execTxGo (d : Db) : List Stmt → Option Db
  | [] => some d
  | s :: ss => match execStmt d s with
    | some d' => execTxGo d' ss
    | none => none

def execTx (d : Db) (ss : List Stmt) : Db := (execTxGo d ss).getD d

inductive Cmd where
  | exec (tx : Bool) (ss : List Stmt)
  | load (d : Db)      -- LOAD of a database SQLite can open
  | loadBad            -- LOAD of bytes with the SQLite magic that SQLite cannot open
  | noop
deriving Repr, DecidableEq

/-- `CommandProcessor.Process`: the ONE apply function of every path -/
def applyCmd (d : Db) : Cmd → Db
  | .exec tx ss => if tx then execTx d ss else execPlain d ss
  | .load d' => d'
  | .loadBad => d
  | .noop => d

def replay (d : Db) (cs : List Cmd) : Db := cs.foldl applyCmd d

/-- one entry of a raft configuration / of raft/peers.json -/
structure Peer where
  id    : String
  addr  : String
  voter : Bool := true
deriving Repr, DecidableEq

abbrev Config := List Peer     -- in file order

/-- `checkRaftConfiguration`: a PURE test of the configuration (it returns only an error):
no empty id or address, ids distinct, addresses distinct, at least one voter -/
def checkConfig (c : Config) : Bool :=
  c.all (fun p => p.id != "" && p.addr != "") &&
  (c.map (·.id)).Nodup && (c.map (·.addr)).Nodup && c.any (·.voter)

structure Node where
  -- durable
  hist       : List Cmd := []           -- every command entry ever appended, in index order
  logStart   : Nat := 0                 -- the log still holds `hist.drop logStart`
  snap       : Option (Nat × Db) := none  -- newest INSTALLED snapshot: (#commands covered, database)
  snapTmp    : Option (Nat × Db) := none  -- persisted into the temp directory, not yet installed
  dbFile     : Db := []                 -- main database file
  dbFileOk   : Bool := true             -- false while a swap is half done (file missing)
  fp         : Bool := false            -- clean_snapshot exists and matches the database file
  fpIdx      : Nat := 0                 -- the newest snapshot's index when the marker was written (fix fa61aff)
  fullNeeded : Bool := false
  config     : Config := []
  peersFile  : Option Config := none
  -- volatile
  up         : Bool := true
  live       : Db := []                 -- what queries see: database file + WAL
  applied    : Nat := 0                 -- number of command entries applied to `live`
deriving Repr

/-- index of the newest installed snapshot (`snapshotStore.LatestIndexTerm`; 0 = none) -/
def newestIdx (n : Node) : Nat :=
  match n.snap with
  | some (i, _) => i
  | none => 0

/-! ### live operation -/

/-- `raft.Apply`: the entry is durable in the log, then the FSM runs. A LOAD replaces the
database file (the old fingerprint no longer matches) and asks for a full snapshot. -/
def appendEntry (n : Node) (c : Cmd) : Node := { n with hist := n.hist ++ [c] }

/-! #### `SwappableDB.Swap` as its list of steps
`swapSteps` is interpreted by `swapRun` (so the ORDER matters: with the second gate after the
removal of the current database, invalid data destroys it — what the unrepaired code did) and,
rendered as strings, compared with the steps extracted from db/swappable_db.go. -/

inductive SwapStep where
  | gateMagic | gateOpens | closeCurrent | removeCurrent | renameNew | openNew
deriving Repr, DecidableEq

def SwapStep.code : SwapStep → String
  | .gateMagic => "IsValidSQLiteFile"
  | .gateOpens => "checkSQLiteFileOpens"
  | .closeCurrent => "s.db.Close"
  | .removeCurrent => "RemoveFiles"
  | .renameNew => "os.Rename"
  | .openNew => "OpenWithDriver"

def swapSteps : List SwapStep :=
  [.gateMagic, .gateOpens, .closeCurrent, .removeCurrent, .renameNew, .openNew]

/-- the candidate file: `some d` = a database SQLite can open, `none` = bytes that carry the
SQLite magic but cannot be opened (or are shorter than their header says) -/
structure SwapRun where
  n       : Node
  failed  : Bool := false     -- Swap has returned an error

def swapStep (cand : Option Db) (x : SwapRun) (st : SwapStep) : SwapRun :=
  if x.failed then x else
  match st with
  | .gateMagic => x                       -- both kinds of candidate carry the magic
  | .gateOpens => if cand.isNone then { x with failed := true } else x
  | .closeCurrent => x
  | .removeCurrent => { x with n := { x.n with dbFileOk := false } }
  | .renameNew =>
    match cand with
    | some d => { x with n := { x.n with dbFile := d, dbFileOk := true } }
    | none => x                           -- a file SQLite cannot open is in place: still no database
  | .openNew =>
    match cand with
    | some d => { x with n := { x.n with live := d } }
    | none => { x with failed := true }

def swapRun (steps : List SwapStep) (cand : Option Db) (n : Node) : Node :=
  (steps.foldl (swapStep cand) { n := n }).n

def fsmApply (n : Node) (c : Cmd) : Node :=
  let n1 := { n with live := applyCmd n.live c, applied := n.applied + 1 }
  match c with
  | .load d => { swapRun swapSteps (some d) { n with applied := n.applied + 1 } with fp := false, fullNeeded := true }
  | .loadBad => { swapRun swapSteps none { n with applied := n.applied + 1 } with fullNeeded := true }  -- `fsmApply` sets it for every LOAD entry
  | _ => n1

def write (n : Node) (c : Cmd) : Node := fsmApply (appendEntry n c) c

/-- `fsmApply` together with what the caller of `raft.Apply` gets back: `true` = the FSM's
response carries an error (for a LOAD: `Swap` returned one). Statement-level errors of an
execute request travel inside the per-statement results and are not modelled. -/
def fsmApplyR (n : Node) (c : Cmd) : Node × Bool :=
  match c with
  | .load d =>
    let r := swapSteps.foldl (swapStep (some d)) { n := { n with applied := n.applied + 1 } }
    ({ r.n with fp := false, fullNeeded := true }, r.failed)
  | .loadBad =>
    let r := swapSteps.foldl (swapStep none) { n := { n with applied := n.applied + 1 } }
    ({ r.n with fullNeeded := true }, r.failed)
  | _ => (fsmApply n c, false)

/-- a write request as the client sees it: the node afterwards, and whether an error came back -/
def writeR (n : Node) (c : Cmd) : Node × Bool := fsmApplyR (appendEntry n c) c

/-! #### a node whose own I/O fails while it applies a LOAD entry
`CommandProcessor.Process`, case LOAD, has four exits (`loadExits`, compared with the source):
the scratch file cannot be created, cannot be written, `Swap` fails, or all is well. The first
two leave the database untouched and return an error response — no panic, the FSM goes on to
the next entry. `fsmApply` asks for a full snapshot for every LOAD entry regardless. -/

inductive LoadExit where
  | tempCreateFails | tempWriteFails | swapFails | done
deriving Repr, DecidableEq

/-- (mutated, response) of the exit, as in the source's return statement -/
def LoadExit.code : LoadExit → String
  | .tempCreateFails => "false,error"
  | .tempWriteFails => "false,error"
  | .swapFails => "false,error"
  | .done => "true,ok"

def loadExits : List LoadExit := [.tempCreateFails, .tempWriteFails, .swapFails, .done]

/-- this node's scratch-file I/O fails while it applies LOAD entry `c` (exits 1 and 2) -/
def writeScratchFails (n : Node) (c : Cmd) : Node × Bool :=
  ({ appendEntry n c with applied := n.applied + 1, fullNeeded := true }, true)

/-! ### snapshot micro-steps (order = Gen/StoreOrder facts) -/

/-- `fsmSnapshot`: checkpoint the WAL into the database file (TRUNCATE) -/
def snapCheckpoint (n : Node) : Node :=
  { n with fp := n.fp && decide (n.dbFile = n.live), dbFile := n.live }

/-! #### `FSMSnapshot.Persist` and `Sink.Close` as their lists of steps (same convention) -/

inductive PersistStep where
  | writeData | handFinalizerToSink | runFinalizerHere
deriving Repr, DecidableEq

def PersistStep.code : PersistStep → String
  | .writeData => "f.FSMSnapshot.Persist"
  | .handFinalizerToSink => "ac.SetAfterClose"
  | .runFinalizerHere => "f.Finalizer"

def persistSteps : List PersistStep := [.writeData, .handFinalizerToSink, .runFinalizerHere]

/-- `sinkTakesIt`: the sink accepts the finalizer (every sink of the real snapshot store does);
then `Persist` returns before the last step -/
def persistStep (sinkTakesIt : Bool) (n : Node) : PersistStep → Node
  | .writeData => { n with snapTmp := some (n.applied, n.live) }
  | .handFinalizerToSink => n
  | .runFinalizerHere => if sinkTakesIt then n else { n with fp := true, fpIdx := newestIdx n }

/-- `FSMSnapshot.Persist`: the state reaches the snapshot store's temp directory -/
def snapPersist (n : Node) : Node := persistSteps.foldl (persistStep true) n

inductive SinkStep where
  | refuseIncrementalIfFullDue | moveStaging | moveWals | closeFull | writeMeta | install | clearFullNeeded | afterClose
deriving Repr, DecidableEq

def SinkStep.code : SinkStep → String
  | .refuseIncrementalIfFullDue => "s.stc.DueNext"
  | .moveStaging => "os.Rename"
  | .moveWals => "sd.MoveWALFilesTo"
  | .closeFull => "s.sinkW.Close"
  | .writeMeta => "writeMeta"
  | .install => "os.Rename"
  | .clearFullNeeded => "s.stc.ClearFullNeeded"
  | .afterClose => "s.afterClose"

def sinkCloseSteps : List SinkStep :=
  [.refuseIncrementalIfFullDue, .moveStaging, .moveWals, .closeFull, .writeMeta, .install, .clearFullNeeded, .afterClose]

/-- `finalizerOk`: `createSnapshotFingerprint` succeeds; when it fails the sink only logs it.
(`fsmSnapshot` takes the full branch whenever a full snapshot is due, so the snapshot being
closed here is a full one exactly when `fullNeeded` is set: the refusal of an incremental
snapshot never fires in a sequential history, and clearing the requirement is `:= false`.) -/
def sinkStep (finalizerOk : Bool) (n : Node) : SinkStep → Node
  | .install =>
    match n.snapTmp with
    | some s => { n with snap := some s, snapTmp := none }
    | none => n
  | .clearFullNeeded => { n with fullNeeded := false }
  | .afterClose => if finalizerOk then { n with fp := true, fpIdx := newestIdx n } else n
  | _ => n            -- these work inside the temp directory only

/-- `Sink.Close` up to and including the clearing of the full-snapshot requirement: the snapshot is installed -/
def snapInstall (n : Node) : Node := (sinkCloseSteps.take 7).foldl (sinkStep true) n

/-- the finalizer `createSnapshotFingerprint`, run by the sink after a successful install -/
def snapFingerprint (n : Node) : Node := sinkStep true n .afterClose

/-- the whole of `Sink.Close` -/
def sinkClose (finalizerOk : Bool) (n : Node) : Node := sinkCloseSteps.foldl (sinkStep finalizerOk) n

/-! #### who READS `fullNeeded`
`fsmSnapshot` asks `snapshotDueNext()` and takes the full branch when a full snapshot is due;
`Sink.Close` (step `.refuseIncrementalIfFullDue`) refuses to install an INCREMENTAL snapshot
while a full one is due — the case of a LOAD applied while an incremental snapshot, begun
before it, is still being persisted. -/

inductive SnapKind where
  | full | incremental
deriving Repr, DecidableEq

def snapKindCode : List String := ["s.snapshotDueNext", "if dueNext.IsFull()"]

/-- `fsmSnapshot`'s branch -/
def snapKindDue (n : Node) : SnapKind := if n.fullNeeded then .full else .incremental

/-- the meaning of step `.refuseIncrementalIfFullDue` -/
def sinkRefuses (kind : SnapKind) (n : Node) : Bool := kind == .incremental && n.fullNeeded

/-- the state of a `Sink.Close` in progress -/
structure SinkRun where
  n       : Node
  refused : Bool := false     -- Close has returned the refusal

/-- one step of `Sink.Close` for a snapshot of the given kind. Step `.refuseIncrementalIfFullDue`
READS the requirement: an incremental snapshot while a full one is due is refused — the temp
directory is removed and no later step runs. Every other step is `sinkStep` (which is this
function specialised to the full snapshots a sequential history takes). -/
def sinkStepK (kind : SnapKind) (finalizerOk : Bool) (x : SinkRun) (st : SinkStep) : SinkRun :=
  if x.refused then x else
  match st with
  | .refuseIncrementalIfFullDue =>
    if sinkRefuses kind x.n then { n := { x.n with snapTmp := none }, refused := true } else x
  | st => { x with n := sinkStep finalizerOk x.n st }

/-- `Sink.Close` of a snapshot of the given kind = the fold of its step list; `true` = refused:
nothing is installed, the requirement stays -/
def sinkCloseK (kind : SnapKind) (finalizerOk : Bool) (n : Node) : Node × Bool :=
  let r := sinkCloseSteps.foldl (sinkStepK kind finalizerOk) { n := n }
  (r.n, r.refused)

/-- raft `compactLogs`: keep `trailing` entries behind the snapshot -/
def snapCompact (n : Node) (trailing : Nat) : Node :=
  match n.snap with
  | some (i, _) => { n with logStart := max n.logStart (i - trailing) }
  | none => n

def snapshot (n : Node) (trailing : Nat) : Node :=
  snapCompact (snapFingerprint (snapInstall (snapPersist (snapCheckpoint n)))) trailing

/-- `ReadFrom` (boot): NOOP entry, swap, full-needed, `Snapshot(1)` -/
def boot (n : Node) (d : Db) : Node :=
  let n1 := write n .noop
  let n2 := { n1 with live := d, dbFile := d, fp := false, fullNeeded := true }
  snapshot n2 1

/-! #### the boot guard
`ReadFrom` bypasses the log: the booted database reaches other nodes only by snapshot
transfer, and a member that is caught up never gets one. So `ReadFrom` refuses unless the raft
configuration (`s.Nodes()`: EVERY server, voters and non-voters) has exactly one server. -/

/-- the guard as in the source: what is counted, the test, the error -/
def bootGuardCode : List String := ["s.Nodes", "len(nodes) != 1", "ErrNotSingleNode"]

/-- number of servers in the configuration (`[]` = the bootstrap configuration: this node only) -/
def clusterSize (n : Node) : Nat := if n.config.isEmpty then 1 else n.config.length

def bootAllowed (n : Node) : Bool := clusterSize n == 1

/-- `ReadFrom` as the caller sees it: `true` = refused (`ErrNotSingleNode`), nothing changed -/
def bootR (n : Node) (d : Db) : Node × Bool :=
  if bootAllowed n then (boot n d, false) else (n, true)

/-- another server is added to the configuration (a voter or a read-only node joins) -/
def attach (n : Node) (self p : Peer) : Node :=
  { n with config := (if n.config.isEmpty then [self] else n.config) ++ [p] }

/-! ### crash, close, open -/

/-- process crash: volatile state is gone; durable state is what the completed
micro-steps left -/
def crash (n : Node) : Node := { n with up := false, live := [], applied := 0 }

/-! #### `fsmRestore` as its list of steps -/

inductive RestoreStep where
  | extract | removeFingerprint | swapIn | writeFingerprint
deriving Repr, DecidableEq

def RestoreStep.code : RestoreStep → String
  | .extract => "snapshot.Restore"
  | .removeFingerprint => "fsutil.RemoveFile"
  | .swapIn => "s.db.Swap"
  | .writeFingerprint => "s.createSnapshotFingerprint"

def restoreSteps : List RestoreStep := [.extract, .removeFingerprint, .swapIn, .writeFingerprint]

def restoreStep (i : Nat) (d : Db) (n : Node) : RestoreStep → Node
  | .extract => n
  | .removeFingerprint => { n with fp := false }
  | .swapIn => { n with dbFile := d, dbFileOk := true, live := d, applied := i }
  | .writeFingerprint => { n with fp := true, fpIdx := newestIdx n }

/-- `fsmRestore` of the newest snapshot (nothing to restore: an empty database is created) -/
def restoreNewest (n : Node) : Node :=
  match n.snap with
  | some (i, d) => restoreSteps.foldl (restoreStep i d) n
  | none => { n with dbFile := [], dbFileOk := true, fp := false, live := [], applied := 0 }

/-- raft re-applies every command entry it still holds after the index the FSM is at
(entries below `logStart` were compacted away and cannot be replayed) -/
def replayLog (n : Node) : Node :=
  { n with live := replay n.live (n.hist.drop (max n.applied n.logStart)), applied := n.hist.length }

/-- `RecoverNode` -/
def recoverNode (n : Node) (peers : Config) : Node :=
  let base : Nat × Db := n.snap.getD (0, [])
  let d := replay base.2 (n.hist.drop (max base.1 n.logStart))
  { n with snap := some (n.hist.length, d), logStart := n.hist.length, config := peers,
           peersFile := none, fp := false, fullNeeded := false }

/-- `Open`, common start: temp snapshot and staging directories are removed -/
def openPrep (n : Node) : Node := { n with snapTmp := none, up := true }

/-- fast path: the existing database file is reused, raft does not restore -/
def openFast (n : Node) (i : Nat) : Node := replayLog { n with live := n.dbFile, applied := i }

/-- rebuild path: database files removed, the newest snapshot restored by raft -/
def openRebuild (n : Node) : Node := replayLog (restoreNewest n)

/-- `Store.Open` on a node that is down -/
def openNode (n : Node) : Node :=
  match n.peersFile with
  | some peers =>
    -- recovery requested: the existing database file is invalid, never the fast path.
    -- `Open` has removed the fingerprint before `RecoverNode` validates the file; an invalid
    -- file makes `Open` fail there: the node stays down, the peers file stays
    if checkConfig peers then openRebuild (recoverNode (openPrep n) peers)
    else { n with fp := false }
  | none =>
    match n.snap with
    | some (i, _) =>
      -- the marker is trusted only for the snapshot it was taken for (fix fa61aff)
      if n.fp && n.dbFileOk && n.fpIdx == i then openFast (openPrep n) i else openRebuild (openPrep n)
    | none => openRebuild (openPrep n)

/-! #### a snapshot received from the leader (follower install)
raft writes the received snapshot into a sink of the snapshot store and closes it — the snapshot
is INSTALLED in the store — and only then calls `FSM.Restore` (`fsmRestore`: `restoreSteps`).
The log no longer reaches back before the snapshot. `hist'` is the cluster's committed history
(this node's `hist` is a prefix of it), `j ≤ hist'.length` the snapshot's index, `d` its database. -/

/-- the received snapshot is installed in the store; `FSM.Restore` has not run -/
def installSinkClosed (n : Node) (hist' : List Cmd) (j : Nat) (d : Db) : Node :=
  { n with hist := hist', snap := some (j, d), logStart := j, snapTmp := none }

/-- the whole install: sink closed, then `fsmRestore` -/
def installFromLeader (n : Node) (hist' : List Cmd) (j : Nat) (d : Db) : Node :=
  restoreSteps.foldl (restoreStep j d) (installSinkClosed n hist' j d)

/-- a node that joins the cluster of `leader` afterwards, with nothing of its own: raft brings
it the leader's newest installed snapshot (`fsmRestore`) and the log entries after it — `Open`'s
rebuild path over the leader's durable snapshot store and log, with no local database file and
no fingerprint. -/
def joinFrom (leader : Node) : Node :=
  openNode { crash leader with fp := false, dbFile := [], dbFileOk := true, peersFile := none }

/-- clean `Close`: optional snapshot, then everything stops -/
def closeNode (n : Node) (snapOnClose : Bool) : Node :=
  crash (if snapOnClose then snapshot n 0 else n)

/-! ### line protocol (`rqdrv storesm`)
statements: `p:k:v` put, `i:k:v` ins, `d:k` del, `a:k:x` add, `b` bad, `t:k=v;k=v` text load
`reset`                         → `ok`   (fresh node, empty kv table)
`save` / `restore`              → `ok`   remember / return to a state (crash-image exploration)
`exec <0|1> <stmt,stmt,…>`      → `ok`
`load <k=v;k=v|->` / `loadbad`  → `ok|rejected` (what the client gets) ; `boot <rows>` → `ok|refused` (refused unless the configuration has one server)
`join`                          → the table of a node that joins now (`joinFrom`)
`recv-snap <rows>`              → `ok`  a snapshot from the leader (at this node's last index) is installed in its store; FSM.Restore not run
`recv-restore`                  → `ok`  FSM.Restore of the newest snapshot
`loadiofail <rows>`             → `rejected`  this node's scratch-file I/O fails applying the LOAD
`snap <trailing>`               → `ok`   complete snapshot
`s-ckpt` `s-persist` `s-install` `s-fp` `s-compact <trailing>` → `ok`   snapshot micro-steps
`crash` → `ok` ; `close <0|1>` → `ok` ; `open` → `ok|open-failed` ; `peers <id@addr[/N];…>` → `ok` ; `nopeers` → `ok`
`forcerestore` → `ok`  (Store.ForceSnapshotRestore: remove the fingerprint while down)
`dump`  → `k=v;k=v` or `-`  ;  `fullneeded` → `true|false` ; `config` → `id@addr;…`
`snapidx` → `<n>|-` -/

structure DState where
  n : Node := {}
  saved : Option Node := none      -- one slot, for exploring a crash image and coming back

def init : DState := {}

def parseInt (t : String) : Option Int :=
  if t.startsWith "-" then (t.drop 1).toString.toNat?.map (fun n => -(Int.ofNat n)) else t.toNat?.map Int.ofNat

def parseRow (kv : String) : Option (Nat × Int) :=
  match kv.splitOn "=" with
  | [k, v] => do let k ← k.toNat?; let v ← parseInt v; pure (k, v)
  | _ => none

def parseRows (t : String) : Option Db :=
  if t == "-" then some [] else ((t.splitOn ";").mapM parseRow).map dbOfRows

def parseStmt (t : String) : Option Stmt :=
  match t.splitOn ":" with
  | ["p", k, v] => do let k ← k.toNat?; let v ← parseInt v; pure (.put k v)
  | ["i", k, v] => do let k ← k.toNat?; let v ← parseInt v; pure (.ins k v)
  | ["d", k] => do let k ← k.toNat?; pure (.del k)
  | ["a", k, x] => do let k ← k.toNat?; let x ← parseInt x; pure (.add k x)
  | ["b"] => some .bad
  | ["t", rows] => (parseRows rows).map .text
  | _ => none

def showDb (d : Db) : String :=
  if d.isEmpty then "-" else joinWith ";" (d.map fun kv => s!"{kv.1}={kv.2}")

/-- `id@addr` a voter, `id@addr/N` a non-voter; `;`-separated, file order -/
def parsePeer (t : String) : Option Peer :=
  match t.splitOn "@" with
  | [i, a] =>
    match a.splitOn "/" with
    | [a'] => some ⟨i, a', true⟩
    | [a', "N"] => some ⟨i, a', false⟩
    | _ => none
  | _ => none

def parseConfig (t : String) : Option Config :=
  if t == "-" then some [] else (t.splitOn ";").mapM parsePeer

def showConfig (c : Config) : String :=
  if c.isEmpty then "-" else joinWith ";" (c.map fun p => s!"{p.id}@{p.addr}" ++ (if p.voter then "" else "/N"))

def step (d : DState) (line : String) : DState × String :=
  let n := d.n
  let upd (n' : Node) : DState × String := ({ d with n := n' }, "ok")
  match words line with
  | ["reset"] => ({}, "ok")
  | ["save"] => ({ d with saved := some n }, "ok")
  | ["restore"] =>
    match d.saved with
    | some m => ({ d with n := m }, "ok")
    | none => (d, "bad-op")
  | ["exec", tx, ss] =>
    match (ss.splitOn ",").mapM parseStmt with
    | some ss => if n.up then upd (write n (.exec (tx == "1") ss)) else (d, "bad-op")
    | none => (d, "bad-op")
  | ["load", rows] =>
    match parseRows rows with
    | some r => if n.up then ({ d with n := (writeR n (.load r)).1 }, if (writeR n (.load r)).2 then "rejected" else "ok") else (d, "bad-op")
    | none => (d, "bad-op")
  | ["loadbad"] => if n.up then ({ d with n := (writeR n .loadBad).1 }, if (writeR n .loadBad).2 then "rejected" else "ok") else (d, "bad-op")
  | ["loadiofail", rows] =>
    match parseRows rows with
    | some r => if n.up then ({ d with n := (writeScratchFails n (.load r)).1 }, "rejected") else (d, "bad-op")
    | none => (d, "bad-op")
  | ["recv-snap", rows] =>
    -- a snapshot from the leader at this node's last index (newer than its newest snapshot) is
    -- installed in the store: the sink is closed, FSM.Restore has not run
    match parseRows rows with
    | some r => if n.up && decide (newestIdx n < n.hist.length) then upd (installSinkClosed n n.hist n.hist.length r) else (d, "bad-op")
    | none => (d, "bad-op")
  | ["recv-restore"] =>
    -- FSM.Restore of the newest snapshot (the second half of the install)
    match n.snap with
    | some (j, r) => if n.up then upd (restoreSteps.foldl (restoreStep j r) n) else (d, "bad-op")
    | none => (d, "bad-op")
  | ["join"] => if n.up then (d, showDb (joinFrom n).live) else (d, "bad-op")
  | ["boot", rows] =>
    match parseRows rows with
    | some r => if n.up then ({ d with n := (bootR n r).1 }, if (bootR n r).2 then "refused" else "ok") else (d, "bad-op")
    | none => (d, "bad-op")
  | ["snap", t] =>
    match t.toNat? with
    | some t => if n.up then upd (snapshot n t) else (d, "bad-op")
    | none => (d, "bad-op")
  | ["s-ckpt"] => if n.up then upd (snapCheckpoint n) else (d, "bad-op")
  | ["s-persist"] => if n.up then upd (snapPersist n) else (d, "bad-op")
  | ["s-install"] => if n.up then upd (snapInstall n) else (d, "bad-op")
  | ["s-fp"] => if n.up then upd (snapFingerprint n) else (d, "bad-op")
  | ["s-compact", t] =>
    match t.toNat? with
    | some t => if n.up then upd (snapCompact n t) else (d, "bad-op")
    | none => (d, "bad-op")
  | ["crash"] => upd (crash n)
  | ["close", f] => if n.up then upd (closeNode n (f == "1")) else (d, "bad-op")
  | ["open"] =>
    if n.up then (d, "bad-op")
    else
      let n' := openNode n
      ({ d with n := n' }, if n'.up then "ok" else "open-failed")
  | ["nopeers"] => if n.up then (d, "bad-op") else upd { n with peersFile := none }
  | ["forcerestore"] => if n.up then (d, "bad-op") else upd { n with fp := false }
  | ["peers", c] =>
    match parseConfig c with
    | some c => if n.up then (d, "bad-op") else upd { n with peersFile := some c }
    | none => (d, "bad-op")
  | ["setconfig", c] =>
    match parseConfig c with
    | some c => upd { n with config := c }
    | none => (d, "bad-op")
  | ["dump"] => if n.up then (d, showDb n.live) else (d, "bad-op")
  | ["fullneeded"] => (d, boolStr n.fullNeeded)
  | ["config"] => (d, showConfig n.config)
  | ["snapidx"] => (d, match n.snap with | some (i, _) => toString i | none => "-")
  | _ => (d, "bad-op")

end RqModel.StoreSM
--! driver: storesm RqModel.StoreSM

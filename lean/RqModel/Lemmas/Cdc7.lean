/-
C25 helper lemmas, part 7: order of the POSTs within one tenure.
-/
import RqModel.Lemmas.Cdc6
namespace RqModel.CdcPipe
open RqModel.Fifo

/-- what the steps that feed the pipeline never touch -/
structure Frame (s t : St) : Prop where
  delivered : t.delivered = s.delivered
  leader : t.leader = s.leader
  hwm : s.leader = true → t.hwm = s.hwm

theorem Frame.rfl' (s : St) : Frame s s := ⟨rfl, rfl, fun _ => rfl⟩

theorem Frame.trans {a b c : St} (h1 : Frame a b) (h2 : Frame b c) : Frame a c :=
  ⟨h2.delivered.trans h1.delivered, h2.leader.trans h1.leader,
   fun hl => (h2.hwm (by rw [h1.leader]; exact hl)).trans (h1.hwm hl)⟩

theorem Frame.trans' {a b c : St} (h2 : Frame b c) (h1 : Frame a b) : Frame a c := h1.trans h2

theorem frame_flush (s : St) : Frame s (flushBatcher s) := by
  unfold flushBatcher
  cases s.batcher <;> exact ⟨rfl, rfl, fun _ => rfl⟩

theorem frame_feed (s : St) (g : Group) : Frame s (feedGroup s g) := by
  unfold feedGroup
  split
  · exact Frame.rfl' s
  · simp only
    split <;> exact ⟨rfl, rfl, fun _ => rfl⟩

theorem frame_foldl_feed (s : St) (gs : List Group) : Frame s (gs.foldl feedGroup s) := by
  induction gs generalizing s with
  | nil => exact Frame.rfl' s
  | cons g gs ih => exact (frame_feed s g).trans (ih _)

theorem frame_followerHwm (s : St) (n : Nat) (hl : s.leader = false) : Frame s (followerHwm s n) := by
  unfold followerHwm
  split
  · exact Frame.rfl' s
  · exact ⟨rfl, rfl, fun h => by rw [hl] at h; cases h⟩

/-- every operation other than a leadership change or a restart, before the leader loop runs -/
theorem frame_stepCore (s : St) (op : Op) (h1 : ∀ b, op ≠ .leader b) (h2 : op ≠ .restart) :
    Frame s (stepCore s op) := by
  cases op with
  | entry e =>
    simp only [stepCore, applyEntry]
    exact Frame.trans' (frame_foldl_feed _ _) ⟨rfl, rfl, fun _ => rfl⟩
  | timer => exact frame_flush s
  | sync => exact Frame.trans (frame_flush s) ⟨rfl, rfl, fun _ => rfl⟩
  | leader b => exact absurd rfl (h1 b)
  | endpoint b => exact ⟨rfl, rfl, fun _ => rfl⟩
  | hwm n =>
    simp only [stepCore, offerHwm]
    by_cases hl : ({ s with maxIn := max s.maxIn n } : St).leader = true
    · rw [if_pos hl]
      split <;> exact ⟨rfl, rfl, fun _ => rfl⟩
    · rw [if_neg hl]
      have hl' : s.leader = false := by simpa using hl
      exact Frame.trans' (frame_followerHwm _ n hl') ⟨rfl, rfl, fun h => absurd h (by simp [hl'])⟩
  | tick =>
    simp only [stepCore]
    by_cases h0 : (!s.leader ∨ s.hwm = 0)
    · rw [if_pos h0]; exact Frame.rfl' s
    · rw [if_neg h0]
      have hl : s.leader = true := by
        cases hls : s.leader with
        | true => rfl
        | false => exact absurd (Or.inl (by simp [hls])) h0
      simp only [offerHwm, hl, if_true]
      (repeat' split) <;> exact ⟨rfl, hl.symm, fun _ => rfl⟩
  | restart => exact absurd rfl h2

/-- what the leader loop POSTs: keys strictly increasing, all above the HWM it started from -/
theorem pump_deliveries (fuel : Nat) (s : St) :
    ∃ D : List (Nat × Batch), (pump fuel s).delivered = s.delivered ++ D ∧
      (D.map (·.1)).Pairwise (· < ·) ∧
      (∀ d ∈ D, s.hwm < d.1 ∧ d.1 ≤ (pump fuel s).hwm) ∧
      s.hwm ≤ (pump fuel s).hwm ∧ (D ≠ [] → s.leader = true) := by
  induction fuel generalizing s with
  | zero => exact ⟨[], by simp [pump], by simp, by simp, by simp [pump], by simp⟩
  | succ fuel ih =>
    unfold pump
    by_cases hl : s.leader = true
    · rw [if_neg (show ¬ (!s.leader) = true by simp [hl])]
      cases hheld : s.held with
      | some it =>
        obtain ⟨k, b⟩ := it
        simp only
        by_cases hk : k ≤ s.hwm
        · rw [if_pos hk]
          obtain ⟨D, h1, h2, h3, h4, h5⟩ := ih { s with held := none }
          exact ⟨D, h1, h2, h3, h4, fun _ => hl⟩
        · rw [if_neg hk]
          by_cases hbad : s.decodable b = false
          · rw [if_pos hbad]
            obtain ⟨D, h1, h2, h3, h4, _⟩ := ih { s with held := none, dropped := s.dropped ++ [(k, b)] }
            exact ⟨D, h1, h2, h3, h4, fun _ => hl⟩
          rw [if_neg hbad]
          by_cases hup : s.up = true
          · rw [if_pos hup]
            obtain ⟨D, h1, h2, h3, h4, _⟩ :=
              ih { s with held := none, delivered := s.delivered ++ [(k, b)], hwm := k }
            refine ⟨(k, b) :: D, by rw [h1]; simp, ?_, ?_, ?_, fun _ => hl⟩
            · simp only [List.map_cons, List.pairwise_cons]
              refine ⟨?_, h2⟩
              intro a ha
              simp at ha
              obtain ⟨b', hb'⟩ := ha
              exact (h3 (a, b') hb').1
            · intro d hd
              simp only [List.mem_cons] at hd
              rcases hd with hd | hd
              · subst hd
                simp only at h4 ⊢
                exact ⟨by omega, h4⟩
              · have := h3 d hd
                simp only at this ⊢
                exact ⟨by omega, this.2⟩
            · simp only at h4; omega
          · rw [if_neg hup]
            by_cases hmr : givesUpOf s.maxRetries s.giveUpOnRejection s.failStatus = true
            · rw [if_pos hmr]
              obtain ⟨D, h1, h2, h3, h4, _⟩ := ih { s with held := none, dropped := s.dropped ++ [(k, b)] }
              exact ⟨D, h1, h2, h3, h4, fun _ => hl⟩
            · rw [if_neg hmr]
              exact ⟨[], by simp, by simp, by simp, Nat.le_refl _, by simp⟩
      | none =>
        simp only
        cases hne : s.fifo.nextEv with
        | none =>
          rw [consume_none _ hne]
          exact ⟨[], by simp, by simp, by simp, Nat.le_refl _, by simp⟩
        | some e =>
          obtain ⟨k, b⟩ := e
          rw [consume_some _ _ hne]
          simp only
          by_cases hk : k ≤ s.hwm
          · rw [if_pos hk]
            obtain ⟨D, h1, h2, h3, h4, _⟩ :=
              ih { s with fifo := { s.fifo with nextFrom := k + 1, nextEv := seek s.fifo.items (k + 1) },
                          held := none }
            exact ⟨D, h1, h2, h3, h4, fun _ => hl⟩
          · rw [if_neg hk]
            obtain ⟨D, h1, h2, h3, h4, _⟩ :=
              ih { s with fifo := { s.fifo with nextFrom := k + 1, nextEv := seek s.fifo.items (k + 1) },
                          held := some (k, b) }
            exact ⟨D, h1, h2, h3, h4, fun _ => hl⟩
    · have hl' : s.leader = false := by simpa using hl
      rw [if_pos (show (!s.leader) = true by simp [hl'])]
      exact ⟨[], by simp, by simp, by simp, Nat.le_refl _, by simp⟩

/-- POSTs made during a stretch of operations without leadership change or restart -/
theorem run_deliveries (s : St) (seg : List Op)
    (hseg : ∀ op ∈ seg, (∀ b, op ≠ .leader b) ∧ op ≠ .restart) :
    ∃ D : List (Nat × Batch), (run s seg).delivered = s.delivered ++ D ∧
      (D.map (·.1)).Pairwise (· < ·) ∧ (∀ d ∈ D, s.hwm < d.1) ∧ (D ≠ [] → s.leader = true) := by
  induction seg generalizing s with
  | nil => exact ⟨[], by simp [run], by simp, by simp, by simp⟩
  | cons op rest ih =>
    unfold run
    obtain ⟨ho1, ho2⟩ := hseg op (by simp)
    have hf := frame_stepCore s op ho1 ho2
    obtain ⟨D1, p1, p2, p3, p4, p5⟩ := pump_deliveries (2 * (stepCore s op).fifo.items.length + 2) (stepCore s op)
    have hs1 : stepOp s op = pump (2 * (stepCore s op).fifo.items.length + 2) (stepCore s op) := rfl
    obtain ⟨D2, q1, q2, q3, q4⟩ := ih (stepOp s op) (fun o ho => hseg o (by simp [ho]))
    have hlead1 : (stepOp s op).leader = s.leader := by
      rw [hs1, (same_pump _ _).leader, hf.leader]
    refine ⟨D1 ++ D2, ?_, ?_, ?_, ?_⟩
    · rw [q1, hs1, p1, hf.delivered]; simp
    · rw [List.map_append, List.pairwise_append]
      refine ⟨p2, q2, ?_⟩
      intro a ha c hc
      simp at ha hc
      obtain ⟨b1, hb1⟩ := ha
      obtain ⟨b2, hb2⟩ := hc
      have h1 := (p3 (a, b1) hb1).2
      have h2 := q3 (c, b2) hb2
      rw [hs1] at h2
      simp only at h1 h2
      omega
    · intro d hd
      simp only [List.mem_append] at hd
      rcases hd with hd | hd
      · have hl := p5 (List.ne_nil_of_mem hd)
        rw [hf.leader] at hl
        have := (p3 d hd).1
        rw [hf.hwm hl] at this
        exact this
      · have hl := q4 (List.ne_nil_of_mem hd)
        rw [hlead1] at hl
        have := q3 d hd
        rw [hs1] at this
        rw [hf.hwm hl] at p4
        omega
    · intro hne
      cases hD1 : D1 with
      | cons a l =>
        have := p5 (by rw [hD1]; simp)
        rw [hf.leader] at this; exact this
      | nil =>
        cases hD2 : D2 with
        | nil => rw [hD1, hD2] at hne; simp at hne
        | cons a l =>
          have := q4 (by rw [hD2]; simp)
          rw [hlead1] at this; exact this

/-! ### without a finite retry limit nothing is ever dropped -/

structure Keep (s t : St) : Prop where
  mr : t.maxRetries = s.maxRetries
  gu : t.giveUpOnRejection = s.giveUpOnRejection
  dropped : t.dropped = s.dropped
  und : t.decodable = s.decodable

theorem Keep.rfl' (s : St) : Keep s s := ⟨rfl, rfl, rfl, rfl⟩
theorem Keep.trans' {a b c : St} (h2 : Keep b c) (h1 : Keep a b) : Keep a c :=
  ⟨h2.mr.trans h1.mr, h2.gu.trans h1.gu, h2.dropped.trans h1.dropped, h2.und.trans h1.und⟩

theorem keep_flush (s : St) : Keep s (flushBatcher s) := by
  unfold flushBatcher
  cases s.batcher <;> exact ⟨rfl, rfl, rfl, rfl⟩

theorem keep_feed (s : St) (g : Group) : Keep s (feedGroup s g) := by
  unfold feedGroup
  split
  · exact Keep.rfl' s
  · simp only
    split <;> exact ⟨rfl, rfl, rfl, rfl⟩

theorem keep_foldl_feed (s : St) (gs : List Group) : Keep s (gs.foldl feedGroup s) := by
  induction gs generalizing s with
  | nil => exact Keep.rfl' s
  | cons g gs ih => exact Keep.trans' (ih _) (keep_feed s g)

theorem keep_applyEntry (s : St) (e : Entry) : Keep s (applyEntry s e) := by
  unfold applyEntry
  exact Keep.trans' (keep_foldl_feed _ _) ⟨rfl, rfl, rfl, rfl⟩

theorem keep_foldl_applyEntry (L : List Entry) (s : St) : Keep s (L.foldl applyEntry s) := by
  induction L generalizing s with
  | nil => exact Keep.rfl' s
  | cons e L ih => exact Keep.trans' (ih _) (keep_applyEntry s e)

theorem keep_followerHwm (s : St) (n : Nat) : Keep s (followerHwm s n) := by
  unfold followerHwm
  split <;> exact ⟨rfl, rfl, rfl, rfl⟩

theorem keep_foldl_followerHwm (l : List Nat) (s : St) : Keep s (l.foldl followerHwm s) := by
  induction l generalizing s with
  | nil => exact Keep.rfl' s
  | cons n l ih => exact Keep.trans' (ih _) (keep_followerHwm s n)

theorem keep_offerHwm (s : St) (n : Nat) : Keep s (offerHwm s n) := by
  unfold offerHwm
  split
  · split <;> exact ⟨rfl, rfl, rfl, rfl⟩
  · exact keep_followerHwm s n

@[simp] theorem flush_und (s : St) : (flushBatcher s).decodable = s.decodable := (keep_flush s).und
@[simp] theorem applyEntry_und (s : St) (e : Entry) : (applyEntry s e).decodable = s.decodable := (keep_applyEntry s e).und
@[simp] theorem foldl_applyEntry_und (L : List Entry) (s : St) : (L.foldl applyEntry s).decodable = s.decodable :=
  (keep_foldl_applyEntry L s).und
@[simp] theorem foldl_followerHwm_und (l : List Nat) (s : St) : (l.foldl followerHwm s).decodable = s.decodable :=
  (keep_foldl_followerHwm l s).und
@[simp] theorem offerHwm_und (s : St) (n : Nat) : (offerHwm s n).decodable = s.decodable := (keep_offerHwm s n).und
@[simp] theorem flush_gu (s : St) : (flushBatcher s).giveUpOnRejection = s.giveUpOnRejection := (keep_flush s).gu
@[simp] theorem applyEntry_gu (s : St) (e : Entry) : (applyEntry s e).giveUpOnRejection = s.giveUpOnRejection := (keep_applyEntry s e).gu
@[simp] theorem foldl_applyEntry_gu (L : List Entry) (s : St) : (L.foldl applyEntry s).giveUpOnRejection = s.giveUpOnRejection :=
  (keep_foldl_applyEntry L s).gu
@[simp] theorem foldl_followerHwm_gu (l : List Nat) (s : St) : (l.foldl followerHwm s).giveUpOnRejection = s.giveUpOnRejection :=
  (keep_foldl_followerHwm l s).gu
@[simp] theorem offerHwm_gu (s : St) (n : Nat) : (offerHwm s n).giveUpOnRejection = s.giveUpOnRejection := (keep_offerHwm s n).gu
@[simp] theorem flush_mr (s : St) : (flushBatcher s).maxRetries = s.maxRetries := (keep_flush s).mr
@[simp] theorem flush_dr (s : St) : (flushBatcher s).dropped = s.dropped := (keep_flush s).dropped
@[simp] theorem applyEntry_mr (s : St) (e : Entry) : (applyEntry s e).maxRetries = s.maxRetries := (keep_applyEntry s e).mr
@[simp] theorem applyEntry_dr (s : St) (e : Entry) : (applyEntry s e).dropped = s.dropped := (keep_applyEntry s e).dropped
@[simp] theorem foldl_applyEntry_mr (L : List Entry) (s : St) : (L.foldl applyEntry s).maxRetries = s.maxRetries :=
  (keep_foldl_applyEntry L s).mr
@[simp] theorem foldl_applyEntry_dr (L : List Entry) (s : St) : (L.foldl applyEntry s).dropped = s.dropped :=
  (keep_foldl_applyEntry L s).dropped
@[simp] theorem foldl_followerHwm_mr (l : List Nat) (s : St) : (l.foldl followerHwm s).maxRetries = s.maxRetries :=
  (keep_foldl_followerHwm l s).mr
@[simp] theorem foldl_followerHwm_dr (l : List Nat) (s : St) : (l.foldl followerHwm s).dropped = s.dropped :=
  (keep_foldl_followerHwm l s).dropped
@[simp] theorem offerHwm_mr (s : St) (n : Nat) : (offerHwm s n).maxRetries = s.maxRetries := (keep_offerHwm s n).mr
@[simp] theorem offerHwm_dr (s : St) (n : Nat) : (offerHwm s n).dropped = s.dropped := (keep_offerHwm s n).dropped

theorem keep_stepCore (s : St) (op : Op) : Keep s (stepCore s op) := by
  constructor
  · cases op <;> simp only [stepCore] <;> (repeat' split) <;> simp
  · cases op <;> simp only [stepCore] <;> (repeat' split) <;> simp
  · cases op <;> simp only [stepCore] <;> (repeat' split) <;> simp
  · cases op <;> simp only [stepCore] <;> (repeat' split) <;> simp

theorem pump_no_drop (fuel : Nat) (s : St) (h : s.maxRetries = 0) (hg : s.giveUpOnRejection = false)
    (hu : ∀ b, s.decodable b = true) :
    Keep s (pump fuel s) := by
  induction fuel generalizing s with
  | zero => exact Keep.rfl' s
  | succ fuel ih =>
    unfold pump
    split
    · exact Keep.rfl' s
    · split
      · split
        · exact Keep.trans' (ih _ h hg hu) ⟨rfl, rfl, rfl, rfl⟩
        · split
          · rename_i hbad; rw [hu] at hbad; cases hbad
          · split
            · exact Keep.trans' (ih _ h hg hu) ⟨rfl, rfl, rfl, rfl⟩
            · split
              · rename_i hmr; simp [givesUpOf, h, hg] at hmr
              · exact Keep.rfl' s
      · split
        · exact Keep.rfl' s
        · split
          · exact Keep.trans' (ih _ h hg hu) ⟨rfl, rfl, rfl, rfl⟩
          · exact Keep.trans' (ih _ h hg hu) ⟨rfl, rfl, rfl, rfl⟩

/-- with `transmitMaxRetries` unset and every stored item decodable no event is ever given up on -/
theorem run_no_drop (s : St) (ops : List Op) (h : s.maxRetries = 0) (hd : s.dropped = [])
    (hu : ∀ b, s.decodable b = true) (hg : s.giveUpOnRejection = false := by rfl) :
    (run s ops).dropped = [] ∧ (run s ops).maxRetries = 0 := by
  induction ops generalizing s with
  | nil => exact ⟨hd, h⟩
  | cons op rest ih =>
    unfold run
    have k1 := keep_stepCore s op
    have k2 := pump_no_drop (2 * (stepCore s op).fifo.items.length + 2) (stepCore s op) (by rw [k1.mr]; exact h)
      (by rw [k1.gu]; exact hg) (by rw [k1.und]; exact hu)
    have hs : stepOp s op = pump (2 * (stepCore s op).fifo.items.length + 2) (stepCore s op) := rfl
    apply ih
    · rw [hs, k2.mr, k1.mr]; exact h
    · rw [hs, k2.dropped, k1.dropped]; exact hd
    · rw [hs, k2.und, k1.und]; exact hu
    · rw [hs, k2.gu, k1.gu]; exact hg

/-! ### the ghost `maxIn` is exactly the highest HWM announced by another node -/

def maxHwmIn : List Op → Nat
  | [] => 0
  | .hwm n :: rest => max n (maxHwmIn rest)
  | _ :: rest => maxHwmIn rest

theorem maxHwmIn_append (a b : List Op) : maxHwmIn (a ++ b) = max (maxHwmIn a) (maxHwmIn b) := by
  induction a with
  | nil => simp [maxHwmIn]
  | cons op a ih => cases op <;> simp [maxHwmIn, ih] <;> omega

theorem stepOp_maxIn (s : St) (op : Op) :
    (stepOp s op).maxIn = match op with
      | .hwm n => max s.maxIn n
      | _ => s.maxIn := by
  unfold stepOp pumpAll
  rw [(same_pump _ _).maxIn]
  cases op with
  | entry e => exact (same_foldl_feed _ _).maxIn
  | timer => exact (same_flush s).maxIn
  | sync => exact (same_flush s).maxIn
  | leader b =>
    simp only [stepCore]
    split
    · rfl
    · split
      · rfl
      · exact (same_foldl_followerHwm _ _).maxIn
  | endpoint b => rfl
  | hwm n =>
    simp only [stepCore, offerHwm]
    split
    · split <;> rfl
    · exact (same_followerHwm _ _).maxIn
  | tick =>
    simp only [stepCore, offerHwm]
    (repeat' split) <;> first | rfl | exact (same_followerHwm _ _).maxIn
  | restart =>
    simp only [stepCore]
    generalize (s.log.filter fun e => decide (s.snap < e.idx)) = L
    suffices ∀ (t : St), (L.foldl applyEntry t).maxIn = t.maxIn from this _
    induction L with
    | nil => intro t; rfl
    | cons e L ih =>
      intro t
      simp only [List.foldl_cons]
      rw [ih]
      exact (same_foldl_feed _ _).maxIn

theorem run_maxIn (s : St) (ops : List Op) : (run s ops).maxIn = max s.maxIn (maxHwmIn ops) := by
  induction ops generalizing s with
  | nil => simp [run, maxHwmIn]
  | cons op rest ih =>
    unfold run
    rw [ih, stepOp_maxIn]
    cases op <;> simp [maxHwmIn] <;> omega

end RqModel.CdcPipe

/-
Model of the snapshot transfer path (C10, used by C12): snapshot/streamer.go (framing),
snapshot/sink.go + sink_full.go (receiver state machine over arbitrary write splits),
snapshot/restore.go (reader program).

Stream = 4-byte big-endian length ‖ marshalled SnapshotHeader ‖ db bytes ‖ wal bytes….

External components are parameters (`Ext`): protobuf decoding of the header bytes
(`decode`, with unknown-field tolerance etc. left to the real library), the CRC-32
(Castagnoli) function, and the "looks like SQLite" predicates of the db package
(`validDb`: ≥ 16 bytes starting with "SQLite format"; `validWal`: ≥ 8 bytes, WAL magic and
version) which are given concretely below for the driver.

Sink.Write: bytes are buffered until 4 + n header bytes are present; the header is decoded
(error → Write fails); `format_version` must be 1 (since the `fix:` commit); Full → FullSink
(`DbHeader == nil` → ErrHeaderInvalid), the rest of the buffer is written through;
IncrementalFile → due-next check, leftover bytes are an error, every later Write (even an
empty one) is an error; no payload → error.
FullSink.Write: artifacts in header order (db, wal 0, wal 1, …), each exactly `size_bytes`
long; when an artifact completes inside a Write the sink advances at once; an artifact of
size 0 is advanced over only by a later non-empty Write or (one step) by Close; bytes after
the last artifact → ErrUnexpectedData.
FullSink.Close: not all artifacts complete → ErrIncomplete; db / wal "looks valid" checks;
CRC of every artifact against the header.
Sink.Close before a complete header reports ErrIncomplete (since the `fix:` commit; before it
returned nil after removing the temp directory).
Restore: ReadFull(4), ReadFull(n), decode, version, Full required, DbHeader required (since
the `fix:` commit; nil dereference before), CopyN + CRC for db and every wal, then no byte
may follow (since the `fix:` commit), then db.ReplayWAL when there are WALs.
-/
import RqModel.Model.Util
namespace RqModel.SnapStream
open RqModel.Util

abbrev Bytes := List UInt8

structure FileHdr where
  size : Nat
  crc  : Nat
deriving DecidableEq, Repr

inductive Payload
  | none
  | full (db : Option FileHdr) (wals : List FileHdr)
  | incremental (dir : String)
deriving DecidableEq, Repr

structure SnapHeader where
  version : Nat
  payload : Payload
deriving DecidableEq, Repr

structure Ext where
  decode   : Bytes → Option SnapHeader
  crc      : Bytes → Nat
  validDb  : Bytes → Bool
  validWal : Bytes → Bool

def be32 : Bytes → Nat
  | a :: b :: c :: d :: _ => a.toNat * 16777216 + b.toNat * 65536 + c.toNat * 256 + d.toNat
  | _ => 0

def enc32 (n : Nat) : Bytes :=
  [UInt8.ofNat (n / 16777216 % 256), UInt8.ofNat (n / 65536 % 256), UInt8.ofNat (n / 256 % 256), UInt8.ofNat (n % 256)]

/-- what `SnapshotStreamer` emits for marshalled header `hb` and the files -/
def frame (hb : Bytes) (files : List Bytes) : Bytes := enc32 hb.length ++ hb ++ files.flatten

inductive Err
  | headerDecode      -- pb.Unmarshal failed
  | version           -- format_version ≠ 1
  | headerInvalid     -- Full without DbHeader
  | noPayload         -- unrecognized payload
  | fullNeeded        -- incremental while a full snapshot is due
  | afterIncremental  -- data after an incremental-file header
  | unexpectedData    -- bytes after the last artifact
  | incomplete        -- Close before everything arrived
  | invalidDb
  | invalidWal
  | crcDb
  | crcWal
  | shortRead         -- Restore: stream ends early
  | noDatabase        -- Restore: header is not Full
  | trailingData      -- Restore: bytes after the last artifact
  | transport         -- the (de)compressing transport reader failed
deriving DecidableEq, Repr

/-! ### FullSink -/

inductive FullSt
  /-- a file is open: its header, the bytes so far, headers still to come, completed files -/
  | writing (h : FileHdr) (cur : Bytes) (todo : List FileHdr) (done : List Bytes)
  | finished (done : List Bytes)
deriving DecidableEq, Repr

/-- `FullSink.Write` with an artifact open -/
def fullWrite : FileHdr → Bytes → List FileHdr → List Bytes → Bytes → Except Err FullSt
  | h, cur, [], done, p =>
    if p = [] then .ok (.writing h cur [] done)
    else
      let need := h.size - cur.length
      if p.length < need then .ok (.writing h (cur ++ p) [] done)
      else if p.drop need = [] then .ok (.finished (done ++ [cur ++ p.take need]))
      else .error .unexpectedData
  | h, cur, h' :: t, done, p =>
    if p = [] then .ok (.writing h cur (h' :: t) done)
    else
      let need := h.size - cur.length
      if p.length < need then .ok (.writing h (cur ++ p) (h' :: t) done)
      else fullWrite h' [] t (done ++ [cur ++ p.take need]) (p.drop need)

def fullWriteSt (s : FullSt) (p : Bytes) : Except Err FullSt :=
  match s with
  | .writing h cur todo done => fullWrite h cur todo done p
  | .finished _ => .error .unexpectedData   -- `if s.phase == installPhaseDone { return 0, ErrUnexpectedData }`, even for an empty p

/-- `FullSink.Close`'s "allow finalization if we're exactly at boundary": ONE advance -/
def fullFinalize : FullSt → Option (List Bytes)
  | .finished done => some done
  | .writing h cur [] done => if cur.length = h.size then some (done ++ [cur]) else none
  | .writing _ _ (_ :: _) _ => none

/-- validity checks then CRC checks, in the order of `FullSink.Close` -/
def fullVerify (E : Ext) (dbh : FileHdr) (walhs : List FileHdr) (files : List Bytes) : Except Err (Bytes × List Bytes) :=
  match files with
  | [] => .error .incomplete
  | db :: wals =>
    if ! E.validDb db then .error .invalidDb
    else if ! wals.all E.validWal then .error .invalidWal
    else if E.crc db ≠ dbh.crc then .error .crcDb
    else if (wals.zip walhs).any (fun p => E.crc p.1 ≠ p.2.crc) then .error .crcWal
    else .ok (db, wals)

/-! ### Sink -/

inductive SinkSt
  | header (buf : Bytes)
  | full (dbh : FileHdr) (walhs : List FileHdr) (st : FullSt)
  | incremental (dir : String)
deriving DecidableEq, Repr

def sinkWrite (E : Ext) (dueFull : Bool) (s : SinkSt) (p : Bytes) : Except Err SinkSt :=
  match s with
  | .header buf =>
    let b := buf ++ p
    if b.length < 4 then .ok (.header b)
    else
      let n := be32 b
      if b.length < 4 + n then .ok (.header b)
      else
        match E.decode ((b.drop 4).take n) with
        | none => .error .headerDecode
        | some hd =>
          let rest := b.drop (4 + n)
          if hd.version ≠ 1 then .error .version
          else match hd.payload with
            | .none => .error .noPayload
            | .incremental dir =>
              if dueFull then .error .fullNeeded
              else if rest ≠ [] then .error .afterIncremental
              else .ok (.incremental dir)
            | .full none _ => .error .headerInvalid
            | .full (some dbh) walhs =>
              match fullWrite dbh [] walhs [] rest with
              | .error e => .error e
              | .ok st => .ok (.full dbh walhs st)
  | .full dbh walhs st =>
    match fullWriteSt st p with
    | .error e => .error e
    | .ok st' => .ok (.full dbh walhs st')
  | .incremental _ => .error .afterIncremental

inductive Outcome
  | writeErr (e : Err)
  | closeErr (e : Err)
  | installed (db : Bytes) (wals : List Bytes)
  | incremental (dir : String)
deriving DecidableEq, Repr

def sinkClose (E : Ext) : SinkSt → Outcome
  | .header _ => .closeErr .incomplete
  | .incremental dir => .incremental dir
  | .full dbh walhs st =>
    match fullFinalize st with
    | none => .closeErr .incomplete
    | some files =>
      match fullVerify E dbh walhs files with
      | .error e => .closeErr e
      | .ok (db, wals) => .installed db wals

/-- raft's InstallSnapshot / Persist: write every chunk, stop (and Cancel) at the first error,
otherwise Close -/
def runSink (E : Ext) (dueFull : Bool) : SinkSt → List Bytes → Outcome
  | s, [] => sinkClose E s
  | s, p :: rest =>
    match sinkWrite E dueFull s p with
    | .error e => .writeErr e
    | .ok s' => runSink E dueFull s' rest

def install (E : Ext) (dueFull : Bool) (writes : List Bytes) : Outcome :=
  runSink E dueFull (.header []) writes

/-! ### Restore -/

inductive RestoreRes
  | err (e : Err)
  /-- files extracted and verified; `db.ReplayWAL` (external) follows when `wals ≠ []` -/
  | ok (db : Bytes) (wals : List Bytes)
deriving DecidableEq, Repr

/-- CopyN + CRC check of the WAL files in header order -/
def restoreWals (E : Ext) : List FileHdr → Bytes → Except Err (List Bytes × Bytes)
  | [], s => .ok ([], s)
  | h :: t, s =>
    if s.length < h.size then .error .shortRead
    else if E.crc (s.take h.size) ≠ h.crc then .error .crcWal
    else match restoreWals E t (s.drop h.size) with
      | .error e => .error e
      | .ok (ws, r) => .ok (s.take h.size :: ws, r)

def restore (E : Ext) (s : Bytes) : RestoreRes :=
  if s.length < 4 then .err .shortRead
  else
    let n := be32 s
    if s.length < 4 + n then .err .shortRead
    else match E.decode ((s.drop 4).take n) with
      | none => .err .headerDecode
      | some hd =>
        if hd.version ≠ 1 then .err .version
        else match hd.payload with
          | .none => .err .noDatabase
          | .incremental _ => .err .noDatabase
          | .full none _ => .err .headerInvalid
          | .full (some dbh) walhs =>
            let body := s.drop (4 + n)
            if body.length < dbh.size then .err .shortRead
            else if E.crc (body.take dbh.size) ≠ dbh.crc then .err .crcDb
            else match restoreWals E walhs (body.drop dbh.size) with
              | .error e => .err e
              | .ok (ws, r) => if r ≠ [] then .err .trailingData else .ok (body.take dbh.size) ws

/-! ### what is on disk if the process dies during `Sink.Close` (the "or nothing" half)

All data is written into `<id>.tmp`; `Sink.Close` then runs the steps below in this order
(regenerated from the source into Gen/SinkClose.lean). `Store.check` at the next start removes
every `*.tmp` directory, and the catalog lists only non-tmp directories. -/

structure SnapDir where
  hasData     : Bool   -- every data file complete and verified against the header
  hasSidecars : Bool   -- CRC sidecars written
  hasMeta     : Bool   -- meta.json written
deriving DecidableEq, Repr

structure Disk where
  tmp   : Option SnapDir
  final : Option SnapDir
deriving DecidableEq, Repr

inductive CloseStep
  | closeFiles   -- FullSink.Close: validity + CRC checks, then the sidecars (incremental: WAL dir moved in)
  | writeMeta
  | syncTmp
  | rename       -- os.Rename(<id>.tmp, <id>)
  | clearFlag    -- ClearFullNeeded / SetDueNext
  | syncRoot
deriving DecidableEq, Repr

def closeSteps : List CloseStep := [.closeFiles, .writeMeta, .syncTmp, .rename, .clearFlag, .syncRoot]

def applyClose (d : Disk) : CloseStep → Disk
  | .closeFiles => { d with tmp := d.tmp.map (fun t => { t with hasSidecars := true }) }
  | .writeMeta => { d with tmp := d.tmp.map (fun t => { t with hasMeta := true }) }
  | .rename => { tmp := none, final := d.tmp }
  | _ => d

/-- the disk when Close is entered: everything received and verified sits in the tmp directory -/
def diskAtClose : Disk := { tmp := some ⟨true, false, false⟩, final := none }

/-- the process dies after the first `k` steps -/
def crashAfter (k : Nat) : Disk := (closeSteps.take k).foldl applyClose diskAtClose

/-- `Store.check` at the next start: tmp directories are removed; what the catalog can list -/
def visibleAfterRestart (d : Disk) : Option SnapDir := d.final

def SnapDir.complete (s : SnapDir) : Bool := s.hasData && s.hasSidecars && s.hasMeta

/-- source call names of `Sink.Close` (after the sink-specific part) → steps -/
def closeStepOfCall (c : String) : Option CloseStep :=
  if c = "Close" then some .closeFiles
  else if c = "writeMeta" then some .writeMeta
  else if c = "SyncDirMaybe" then some .syncTmp   -- first occurrence; see `close_order_fact`
  else if c = "Rename" then some .rename
  else if c = "ClearFullNeeded" then some .clearFlag
  else none

/-! the incremental-file path of `Sink.Close`: no data travels in the stream; the local WAL
directory named by the header is renamed into `<id>.tmp/wal-incoming`, its WAL files (with
their sidecars) are moved up into `<id>.tmp`, the emptied directory is removed, then the
common tail (writeMeta, sync, rename into place, sync). -/

structure IncDisk where
  source : Bool            -- the local WAL directory still holds the WAL files
  tmpHasWals : Bool        -- the WAL files are (somewhere) under <id>.tmp
  tmpHasMeta : Bool
  installed : Option Bool  -- final directory exists; `some true` = with WAL files and meta.json
deriving DecidableEq, Repr

inductive IncStep
  | moveDirIn | moveFilesUp | removeEmptied | writeMeta | syncTmp | rename | syncRoot
deriving DecidableEq, Repr

def incSteps : List IncStep := [.moveDirIn, .moveFilesUp, .removeEmptied, .writeMeta, .syncTmp, .rename, .syncRoot]

def applyInc (d : IncDisk) : IncStep → IncDisk
  | .moveDirIn => { d with source := false, tmpHasWals := true }
  | .writeMeta => { d with tmpHasMeta := true }
  | .rename => { d with tmpHasWals := false, tmpHasMeta := false, installed := some (d.tmpHasWals && d.tmpHasMeta) }
  | _ => d

def incCrashAfter (k : Nat) : IncDisk :=
  (incSteps.take k).foldl applyInc { source := true, tmpHasWals := false, tmpHasMeta := false, installed := none }

/-! ### transport compression (store/transport.go, internal/rarchive/zstd)

Sender (`NodeTransport.InstallSnapshot` with compression): wire = 8-byte big-endian
`args.Size` ‖ zstd(payload). Receiver: raft hands rqlite `io.LimitReader(conn, req.Size)`
(net_transport.go) — at most `req.Size` bytes OF THE WIRE — which `Consumer` wraps in the
`Decompressor`: read the 8-byte size `n`, decode, and return at most `n` decoded bytes
(`io.LimitReader(dec, n)`: whatever the decoder would produce or report after `n` bytes is never
looked at). raft then requires the number of bytes copied into the sink to equal `req.Size`.
The zstd codec itself is the parameter `Zstd` (a streaming decoder: bytes produced before it
stops, and whether it stopped at a clean end of frame). -/

structure Zstd where
  comp : Bytes → Bytes
  dec  : Bytes → Bytes × Bool

def be64 : Bytes → Nat
  | a :: b :: c :: d :: rest => (a.toNat * 16777216 + b.toNat * 65536 + c.toNat * 256 + d.toNat) * 4294967296 + be32 rest
  | _ => 0

def enc64 (n : Nat) : Bytes := enc32 (n / 4294967296 % 4294967296) ++ enc32 (n % 4294967296)

def sendWire (Z : Zstd) (size : Nat) (payload : Bytes) : Bytes := enc64 size ++ Z.comp payload

structure Recv where
  delivered : Bytes
  err       : Bool
deriving DecidableEq, Repr

/-- what `io.Copy(sink, rpc.Reader)` sees on the receiving node -/
def recvWire (Z : Zstd) (raftSize : Nat) (wire : Bytes) : Recv :=
  let raw := wire.take raftSize
  if raw = [] then ⟨[], false⟩            -- io.ReadFull → io.EOF → a clean, empty stream
  else if raw.length < 8 then ⟨[], true⟩  -- io.ErrUnexpectedEOF
  else
    let n := be64 raw
    let r := Z.dec (raw.drop 8)
    if 9223372036854775808 ≤ n then ⟨[], false⟩   -- int64(n) < 0: io.LimitReader with N ≤ 0 is at EOF at once
    else if n ≤ r.1.length then ⟨r.1.take n, false⟩
    else ⟨r.1, !r.2⟩

/-- raft's `installSnapshot` on top of it: copy error → Cancel; byte count ≠ `req.Size` →
Cancel ("short read"); otherwise the sink decides -/
def installVia (E : Ext) (Z : Zstd) (dueFull : Bool) (raftSize : Nat) (wire : Bytes) : Outcome :=
  let r := recvWire Z raftSize wire
  if r.err then .writeErr .transport
  else if r.delivered.length ≠ raftSize then .closeErr .shortRead
  else install E dueFull [r.delivered]

/-! ### concrete externals for the driver -/

def crcStep (c : UInt32) : UInt32 := if c &&& 1 = 1 then (c >>> 1) ^^^ 0x82F63B78 else c >>> 1

def crcByte (c : UInt32) (b : UInt8) : UInt32 :=
  let c := c ^^^ b.toUInt32
  crcStep (crcStep (crcStep (crcStep (crcStep (crcStep (crcStep (crcStep c)))))))

/-- CRC-32C (Castagnoli), bitwise -/
def crc32c (bs : Bytes) : Nat := ((bs.foldl crcByte 0xFFFFFFFF) ^^^ 0xFFFFFFFF).toNat

def sqliteMagic : Bytes := "SQLite format".toUTF8.toList

def validDbC (b : Bytes) : Bool := decide (16 ≤ b.length) && b.take 13 == sqliteMagic

def validWalC (b : Bytes) : Bool :=
  decide (8 ≤ b.length) && (be32 b == 0x377f0682 || be32 b == 0x377f0683) && be32 (b.drop 4) == 3007000

/-! ### line protocol (component `snapstream`)
`hdr <hexbytes> <decoded>` → ok   tells the model what protobuf makes of these header bytes:
   `invalid` | `<ver>/none` | `<ver>/inc/<hexdir>` | `<ver>/full/<DB>/<WALS>` with DB = `size:crc` or a
   dash (no DbHeader), WALS = comma separated `size:crc` or a dash (none)
`sink <dueFull 0|1>` → ok;  `write <hex>` → ok | err-…;  `close` → outcome
`restore <hex>` → `ok <dbhex> <walhex,…|->` | err-…
`crc <hex>` → decimal CRC-32C
`crash <k>` → none | complete | partial  (what the store lists after a restart if the process died after k steps of Sink.Close)
`recv <raftSize> <wirehex> <decoder output hex> <clean 0|1>` → `ok|err <deliveredhex>` (the harness says what
   the real zstd decoder yields on the bytes after the 8-byte size; the model applies the size / limit logic) -/

structure DState where
  table : List (Bytes × Option SnapHeader) := []
  due   : Bool := false
  sink  : Except Err SinkSt := .ok (.header [])

def lookupHdr (t : List (Bytes × Option SnapHeader)) (b : Bytes) : Option SnapHeader :=
  match t with
  | [] => none
  | (k, v) :: rest => if k = b then v else lookupHdr rest b

def drvExt (t : List (Bytes × Option SnapHeader)) : Ext :=
  { decode := lookupHdr t, crc := crc32c, validDb := validDbC, validWal := validWalC }

def fileHdrTok (t : String) : Option FileHdr :=
  match t.splitOn ":" with
  | [a, b] => do let s ← a.toNat?; let c ← b.toNat?; pure ⟨s, c⟩
  | _ => none

def decodedTok (t : String) : Option (Option SnapHeader) :=
  if t == "invalid" then some none
  else match t.splitOn "/" with
    | [v, "none"] => v.toNat?.map fun v => some ⟨v, .none⟩
    | [v, "inc", d] => do let v ← v.toNat?; let d ← tokString d; pure (some ⟨v, .incremental d⟩)
    | [v, "full", db, ws] => do
      let v ← v.toNat?
      let db ← if db == "-" then some none else (fileHdrTok db).map some
      let ws ← if ws == "-" then some [] else (ws.splitOn ",").mapM fileHdrTok
      pure (some ⟨v, .full db ws⟩)
    | _ => none

def errStr : Err → String
  | .headerDecode => "err-header-decode"
  | .version => "err-version"
  | .headerInvalid => "err-header-invalid"
  | .noPayload => "err-no-payload"
  | .fullNeeded => "err-full-needed"
  | .afterIncremental => "err-after-incremental"
  | .unexpectedData => "err-unexpected-data"
  | .incomplete => "err-incomplete"
  | .invalidDb => "err-invalid-db"
  | .invalidWal => "err-invalid-wal"
  | .crcDb => "err-crc-db"
  | .crcWal => "err-crc-wal"
  | .shortRead => "err-short-read"
  | .noDatabase => "err-no-database"
  | .trailingData => "err-trailing-data"
  | .transport => "err-transport"

def walsStr (ws : List Bytes) : String :=
  if ws = [] then "-" else ",".intercalate (ws.map hexOfBytes)

def step (s : DState) (line : String) : DState × String :=
  match words line with
  | ["hdr", hb, dec] =>
    match tokBytes hb, decodedTok dec with
    | some hb, some d => ({ s with table := (hb, d) :: s.table }, "ok")
    | _, _ => (s, "bad-op")
  | ["sink", d] =>
    if d == "0" || d == "1" then ({ s with due := d == "1", sink := .ok (.header []) }, "ok") else (s, "bad-op")
  | ["write", p] =>
    match tokBytes p with
    | some p =>
      match s.sink with
      | .error _ => (s, "bad-op")
      | .ok st =>
        match sinkWrite (drvExt s.table) s.due st p with
        | .error e => ({ s with sink := .error e }, errStr e)
        | .ok st' => ({ s with sink := .ok st' }, "ok")
    | none => (s, "bad-op")
  | ["close"] =>
    match s.sink with
    | .error _ => (s, "bad-op")
    | .ok st =>
      (s, match sinkClose (drvExt s.table) st with
        | .writeErr e => errStr e
        | .closeErr e => errStr e
        | .installed db wals => s!"installed {hexOfBytes db} {walsStr wals}"
        | .incremental d => "incremental " ++ hexOfString d)
  | ["restore", st] =>
    match tokBytes st with
    | some st =>
      (s, match restore (drvExt s.table) st with
        | .err e => errStr e
        | .ok db wals => s!"ok {hexOfBytes db} {walsStr wals}")
    | none => (s, "bad-op")
  | ["recv", rs, w, out, clean] =>
    match rs.toNat?, tokBytes w, tokBytes out, (if clean == "1" then some true else if clean == "0" then some false else none) with
    | some rs, some w, some out, some clean =>
      let r := recvWire ⟨fun x => x, fun _ => (out, clean)⟩ rs w
      (s, (if r.err then "err " else "ok ") ++ hexOfBytes r.delivered)
    | _, _, _, _ => (s, "bad-op")
  | ["crash", k] =>
    match k.toNat? with
    | some k =>
      (s, match visibleAfterRestart (crashAfter k) with
        | none => "none"
        | some d => if d.complete then "complete" else "partial")
    | none => (s, "bad-op")
  | ["crc", b] =>
    match tokBytes b with
    | some b => (s, toString (crc32c b))
    | none => (s, "bad-op")
  | _ => (s, "bad-op")

def init : DState := {}

end RqModel.SnapStream
--! driver: snapstream RqModel.SnapStream
